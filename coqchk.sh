#!/bin/bash
# Independent re-check of every compiled property file and everything it depends on (coqchk), listing axioms.
cd "$(dirname "$0")/coq"
mods=$(ls Props/*.vo | sed "s|Props/\(.*\)\.vo|PNC.Props.\1|" | tr "\n" " ")
exec coqchk -silent -o -R . PNC $mods
