"""py2coq — fail-closed translator from a small integer-bookkeeping subset of Python (ast) to Gallina.

Used as tie T: coq/Gen/*.v is regenerated from /repo's working tree on every run, so the theorems in
Props/ that mention Gen.* definitions are re-checked against what the source says *now*.

Subset
  expressions : int constants, integral float constants (2400.0 -> 2400), names, + - * // % (floor
                semantics = Z.div / Z.modulo), unary -, comparisons, and/or/not, conditional expression,
                tuples, int(x) / float(x) (identity on Z), int(a / b) (-> Z.quot a b, truncation; exactness of
                the float division is a recorded side condition), a / b at top level (-> Q: inject_Z a / inject_Z b),
                max/min/abs, len(x) (-> a parameter named len_x), self.attr (-> field of the `self` tuple record),
                self.__method(args) / function(args) calls to other translated functions, x.size (-> parameter x_size),
                subscripts of constant tuples `(a, b)[i]`.
  statements  : assignment (name or tuple target), augmented assignment, if/elif/else containing assignments,
                if/else whose both arms return, return, docstrings; a `while` loop that yields (generator) is emitted
                as a fuel-recursive list builder returning None when the fuel runs out.
Anything else raises Untranslatable (the caller reports a broken translation obligation)."""
import ast, re, os


class Untranslatable(Exception):
    pass


def _name_of(node):
    if isinstance(node, ast.Name):
        return node.id
    if isinstance(node, ast.Attribute) and isinstance(node.value, ast.Name) and node.value.id == 'self':
        return 'self.' + node.attr
    return None


def demangle(attr):
    return re.sub(r'^_[A-Za-z0-9]+__', '', attr).lstrip('_')


class Ctx:
    def __init__(self, funcs=None, selffields=None, qmode=False, selfprefix='obj'):
        self.selfprefix = selfprefix
        self.funcs = funcs or {}          # python name -> (coqname, [param names], {param: default coq term})
        self.selffields = selffields      # list to collect self.<attr> reads (ordered)
        self.sideconds = []
        self.qmode = qmode


def cz(n):
    return '(%d)' % n if n < 0 else '%d' % n


def expr(node, cx):
    """returns a Coq term (Z or bool or tuple)"""
    if isinstance(node, ast.Constant):
        v = node.value
        if isinstance(v, bool):
            return 'true' if v else 'false'
        if isinstance(v, int):
            return cz(v)
        if isinstance(v, float) and v == int(v):
            return cz(int(v))
        raise Untranslatable('constant %r' % (v,))
    if isinstance(node, ast.Name):
        return 'v_' + node.id
    if isinstance(node, ast.Attribute):
        if isinstance(node.value, ast.Name) and node.value.id == 'self':
            f = demangle(node.attr)
            if cx.selffields is None:
                raise Untranslatable('self.%s outside a method' % node.attr)
            if f not in cx.selffields:
                cx.selffields.append(f)
            return '(%s_%s self)' % (cx.selfprefix, f)
        if node.attr == 'size' and isinstance(node.value, ast.Name):
            return 'v_%s_size' % node.value.id
        if node.attr == 'itemsize' and isinstance(node.value, ast.Name):
            return 'v_%s_itemsize' % node.value.id
        raise Untranslatable('attribute ' + ast.dump(node)[:80])
    if isinstance(node, ast.UnaryOp):
        if isinstance(node.op, ast.USub):
            return '(- %s)' % expr(node.operand, cx)
        if isinstance(node.op, ast.Not):
            return '(negb %s)' % expr(node.operand, cx)
        raise Untranslatable('unary op')
    if isinstance(node, ast.BinOp):
        a, b = expr(node.left, cx), expr(node.right, cx)
        if isinstance(node.op, ast.Add):
            return '(%s + %s)' % (a, b)
        if isinstance(node.op, ast.Sub):
            return '(%s - %s)' % (a, b)
        if isinstance(node.op, ast.Mult):
            return '(%s * %s)' % (a, b)
        if isinstance(node.op, ast.FloorDiv):
            cx.sideconds.append('%s <> 0' % b)
            return '(%s / %s)' % (a, b)
        if isinstance(node.op, ast.Mod):
            cx.sideconds.append('%s <> 0' % b)
            return '(%s mod %s)' % (a, b)
        if isinstance(node.op, ast.Div):
            raise Untranslatable('true division outside int(...) / Q context')
        raise Untranslatable('binop ' + type(node.op).__name__)
    if isinstance(node, ast.Compare):
        if len(node.ops) != 1:
            raise Untranslatable('chained comparison')
        l, r = node.left, node.comparators[0]
        op = node.ops[0]
        if isinstance(l, ast.Tuple) and isinstance(r, ast.Tuple) and len(l.elts) == len(r.elts):
            parts = ['(%s =? %s)' % (expr(x, cx), expr(y, cx)) for x, y in zip(l.elts, r.elts)]
            conj = '(' + ' && '.join(parts) + ')'
            if isinstance(op, ast.Eq):
                return conj
            if isinstance(op, ast.NotEq):
                return '(negb %s)' % conj
            raise Untranslatable('tuple ordering comparison')
        a, b = expr(l, cx), expr(r, cx)
        tbl = {ast.Eq: '(%s =? %s)', ast.NotEq: '(negb (%s =? %s))', ast.Lt: '(%s <? %s)',
               ast.LtE: '(%s <=? %s)', ast.Gt: '(%s >? %s)', ast.GtE: '(%s >=? %s)'}
        for k, fmt in tbl.items():
            if isinstance(op, k):
                return fmt % (a, b)
        raise Untranslatable('comparison op')
    if isinstance(node, ast.BoolOp):
        parts = [expr(v, cx) for v in node.values]
        j = ' && ' if isinstance(node.op, ast.And) else ' || '
        return '(' + j.join(parts) + ')'
    if isinstance(node, ast.IfExp):
        return '(if %s then %s else %s)' % (expr(node.test, cx), expr(node.body, cx), expr(node.orelse, cx))
    if isinstance(node, ast.Tuple):
        return '(' + ', '.join(expr(e, cx) for e in node.elts) + ')'
    if isinstance(node, ast.Subscript):
        if isinstance(node.value, ast.Tuple) and all(isinstance(e, ast.Constant) for e in node.value.elts):
            idx = expr(node.slice, cx)
            elts = [expr(e, cx) for e in node.value.elts]
            t = elts[-1]
            for i in range(len(elts) - 2, -1, -1):
                t = '(if %s =? %d then %s else %s)' % (idx, i, elts[i], t)
            return t
        raise Untranslatable('subscript')
    if isinstance(node, ast.Call):
        fn = node.func
        # numpy wrappers that do not change the integer value: np.array(x, ...), array(x, ...), x.astype(...), x.tobytes()
        if isinstance(fn, ast.Attribute) and fn.attr in ('astype', 'tobytes', 'tostring') :
            return expr(fn.value, cx)
        if ((isinstance(fn, ast.Attribute) and fn.attr == 'array' and isinstance(fn.value, ast.Name) and fn.value.id in ('np', 'numpy'))
                or (isinstance(fn, ast.Name) and fn.id == 'array')) and node.args:
            a0 = node.args[0]
            if isinstance(a0, ast.List) and len(a0.elts) == 1:
                a0 = a0.elts[0]
            return expr(a0, cx)
        if isinstance(fn, ast.Name) and fn.id in ('int', 'float') and len(node.args) == 1:
            a = node.args[0]
            if fn.id == 'int' and isinstance(a, ast.BinOp) and isinstance(a.op, ast.Div):
                n, d = expr(a.left, cx), expr(a.right, cx)
                cx.sideconds.append('%s <> 0 (and |operands| < 2^53 so that the float quotient truncates like the exact one)' % d)
                return '(Z.quot %s %s)' % (n, d)
            return expr(a, cx)
        if isinstance(fn, ast.Name) and fn.id in ('max', 'min') and len(node.args) == 2:
            return '(Z.%s %s %s)' % (fn.id, expr(node.args[0], cx), expr(node.args[1], cx))
        if isinstance(fn, ast.Name) and fn.id == 'abs' and len(node.args) == 1:
            return '(Z.abs %s)' % expr(node.args[0], cx)
        if isinstance(fn, ast.Name) and fn.id == 'len' and len(node.args) == 1 and isinstance(node.args[0], ast.Name):
            return 'v_len_' + node.args[0].id
        pyname = None
        is_method = False
        if isinstance(fn, ast.Name):
            pyname = fn.id
        elif isinstance(fn, ast.Attribute) and isinstance(fn.value, ast.Name) and fn.value.id == 'self':
            pyname = demangle(fn.attr)
            is_method = True
        if pyname in cx.funcs:
            coqname, params, defaults, takes_self = cx.funcs[pyname]
            args = [expr(a, cx) for a in node.args]
            kw = {k.arg: expr(k.value, cx) for k in node.keywords}
            full = []
            for i, p in enumerate(params):
                if i < len(args):
                    full.append(args[i])
                elif p in kw:
                    full.append(kw[p])
                elif p in defaults:
                    full.append(defaults[p])
                else:
                    raise Untranslatable('missing argument %s in call to %s' % (p, pyname))
            return '(%s %s%s)' % (coqname, 'self ' if takes_self else '', ' '.join(full))
        raise Untranslatable('call ' + ast.dump(fn)[:60])
    raise Untranslatable(type(node).__name__)


def qexpr(node, cx):
    """top-level rational expression: a / b / c ... with Z sub-expressions; float(x) is identity"""
    if isinstance(node, ast.BinOp) and isinstance(node.op, ast.Div):
        return '(%s / %s)%%Q' % (qexpr(node.left, cx), qexpr(node.right, cx))
    if isinstance(node, ast.Call) and isinstance(node.func, ast.Name) and node.func.id == 'float' and len(node.args) == 1:
        return qexpr(node.args[0], cx)
    return '(inject_Z %s)' % expr(node, cx)


def _assigned(stmts):
    out = []
    for s in stmts:
        if isinstance(s, ast.Assign):
            for t in s.targets:
                for n in (t.elts if isinstance(t, ast.Tuple) else [t]):
                    if isinstance(n, ast.Name) and n.id not in out:
                        out.append(n.id)
        elif isinstance(s, ast.AugAssign) and isinstance(s.target, ast.Name):
            if s.target.id not in out:
                out.append(s.target.id)
        elif isinstance(s, ast.If):
            for n in _assigned(s.body) + _assigned(s.orelse):
                if n not in out:
                    out.append(n)
    return out


def _pat(t):
    if isinstance(t, ast.Name):
        return 'v_' + t.id
    if isinstance(t, ast.Tuple):
        return "'(" + ', '.join(_pat(e).lstrip("'") for e in t.elts) + ')'
    raise Untranslatable('assignment target')


def block(stmts, cx, final):
    """translate a statement list into nested lets ending in `final` (a Coq term or None = must return)"""
    if not stmts:
        if final is None:
            raise Untranslatable('function falls off the end')
        return final
    s, rest = stmts[0], stmts[1:]
    if isinstance(s, ast.Expr) and isinstance(s.value, ast.Constant) and isinstance(s.value.value, str):
        return block(rest, cx, final)
    if isinstance(s, ast.Pass):
        return block(rest, cx, final)
    if isinstance(s, ast.Return):
        if s.value is None:
            raise Untranslatable('bare return')
        return expr(s.value, cx)
    if isinstance(s, ast.Assign):
        if len(s.targets) != 1:
            raise Untranslatable('multiple targets')
        return 'let %s := %s in\n  %s' % (_pat(s.targets[0]), expr(s.value, cx), block(rest, cx, final))
    if isinstance(s, ast.AugAssign):
        if not isinstance(s.target, ast.Name):
            raise Untranslatable('augassign target')
        fake = ast.BinOp(left=ast.Name(id=s.target.id, ctx=ast.Load()), op=s.op, right=s.value)
        return 'let v_%s := %s in\n  %s' % (s.target.id, expr(fake, cx), block(rest, cx, final))
    if isinstance(s, ast.If):
        def ends_in_return(b):
            return bool(b) and isinstance(b[-1], ast.Return)
        if ends_in_return(s.body) and (ends_in_return(s.orelse) or (not s.orelse and rest)):
            els = s.orelse if s.orelse else rest
            return '(if %s then %s else %s)' % (expr(s.test, cx), block(s.body, cx, None), block(els, cx, final if not s.orelse else None))
        vs = _assigned([s])
        if not vs:
            raise Untranslatable('if without assignments')
        tup = '(' + ', '.join('v_' + v for v in vs) + ')' if len(vs) > 1 else 'v_' + vs[0]
        pat = ("'" + tup) if len(vs) > 1 else tup
        return 'let %s := (if %s then %s else %s) in\n  %s' % (
            pat, expr(s.test, cx), block(s.body, cx, tup), block(s.orelse, cx, tup), block(rest, cx, final))
    raise Untranslatable('statement ' + type(s).__name__)


class Module:
    def __init__(self, path):
        self.path = path
        self.src = open(path).read()
        self.tree = ast.parse(self.src)

    def find(self, qualname):
        node = self.tree
        for part in qualname.split('.'):
            found = None
            for ch in ast.walk(node) if isinstance(node, ast.Module) and False else ast.iter_child_nodes(node):
                if isinstance(ch, (ast.FunctionDef, ast.ClassDef)) and (ch.name == part or demangle(ch.name) == part):
                    found = ch
                    break
            if found is None:
                raise Untranslatable('anchor %s not found in %s' % (qualname, os.path.basename(self.path)))
            node = found
        return node

    def function(self, qualname, coqname, cx, fuel_loop=False):
        """-> Coq source of Definition coqname. Registers it in cx.funcs under its demangled python name."""
        fn = self.find(qualname)
        args = [a.arg for a in fn.args.args]
        takes_self = bool(args) and args[0] == 'self'
        if takes_self:
            args = args[1:]
        defaults = {}
        nd = len(fn.args.defaults)
        for a, d in zip(fn.args.args[len(fn.args.args) - nd:], fn.args.defaults):
            defaults[a.arg] = expr(d, Ctx())
        is_gen = any(isinstance(n, (ast.Yield, ast.YieldFrom)) for n in ast.walk(fn))
        params = ' '.join('v_' + a for a in args)
        pyname = demangle(fn.name)
        if is_gen:
            src = self._generator(fn, coqname, args, cx, takes_self)
        else:
            body = block(fn.body, cx, None)
            src = 'Definition %s %s%s :=\n  %s.\n' % (coqname, ('(self : %s_self) ' % cx.selfprefix) if takes_self else '', params, body)
        cx.funcs[pyname] = (coqname, args, defaults, takes_self)
        return src

    def _generator(self, fn, coqname, args, cx, takes_self):
        # pattern: prologue assignments; while cond: yield e; assignments
        body = [s for s in fn.body if not (isinstance(s, ast.Expr) and isinstance(s.value, ast.Constant))]
        wi = [i for i, s in enumerate(body) if isinstance(s, ast.While)]
        if len(wi) != 1 or wi[0] != len(body) - 1:
            raise Untranslatable('generator shape')
        w = body[-1]
        pro = body[:-1]
        if not (w.body and isinstance(w.body[0], ast.Expr) and isinstance(w.body[0].value, ast.Yield)):
            raise Untranslatable('generator loop must start with yield')
        yielded = expr(w.body[0].value.value, cx)
        loopvars = _assigned(w.body[1:])
        state = '(' + ', '.join('v_' + v for v in loopvars) + ')' if len(loopvars) > 1 else 'v_' + loopvars[0]
        scope = list(args)
        for v in _assigned(pro):
            if v not in scope:
                scope.append(v)
        step = block(w.body[1:], cx, state)
        cond_t = expr(w.test, cx)
        used = cond_t + step + yielded
        others = [a for a in scope if a not in loopvars and re.search(r'\bv_%s\b' % re.escape(a), used)]
        loopname = coqname + '_loop'
        oparams = ' '.join('v_' + a for a in others)
        lv = ' '.join('v_' + v for v in loopvars)
        if takes_self:
            raise Untranslatable('generator method')
        src = ('Fixpoint %s (fuel : nat) %s %s {struct fuel} :=\n  match fuel with\n  | O => None\n  | S fuel\' =>\n'
               '    if %s then\n      match (let %s := (%s) in %s fuel\' %s %s) with\n      | Some l => Some (%s :: l)\n      | None => None\n      end\n'
               '    else Some []\n  end.\n') % (
            loopname, oparams, lv, expr(w.test, cx),
            ("'" + state) if len(loopvars) > 1 else state, step, loopname, oparams, lv, yielded)
        params = ' '.join('v_' + a for a in args)
        pro_t = block(pro, cx, '%s fuel %s %s' % (loopname, oparams, lv))
        src += 'Definition %s (fuel : nat) %s :=\n  %s.\n' % (coqname, params, pro_t)
        return src

    def assignments(self, qualname, target):
        fn = self.find(qualname) if qualname else self.tree
        out = []
        for n in ast.walk(fn):
            if isinstance(n, ast.Assign):
                for t in n.targets:
                    nm = _name_of(t)
                    if nm is not None and (nm == target or demangle(nm.replace('self.', '')) == target):
                        out.append(n.value)
                    if isinstance(t, ast.Subscript):
                        # hdr['SPAD'] = expr   -> target "hdr['SPAD']"
                        b = _name_of(t.value)
                        if b and isinstance(t.slice, ast.Constant) and "%s[%r]" % (b, t.slice.value) == target:
                            out.append(n.value)
        return out

    def assign_expr(self, qualname, target, coqname, params, index=0, q=False, rename=None):
        """Definition coqname (params) := <RHS of the index-th assignment to target inside qualname>.
        Free variables of the RHS must be exactly covered by `params` (fail-closed)."""
        vals = self.assignments(qualname, target)
        if len(vals) <= index:
            raise Untranslatable('assignment %s in %s not found' % (target, qualname))
        node = vals[index]
        cx = Ctx(selffields=[])
        term = qexpr(node, cx) if q else expr(node, cx)
        term = re.sub(r'\(obj_([A-Za-z_][A-Za-z0-9_]*) self\)', r'v_\1', term)
        free = sorted(set(re.findall(r'\bv_[A-Za-z_][A-Za-z0-9_]*', term)))
        for f in free:
            if f not in ['v_' + p for p in params]:
                raise Untranslatable('free variable %s in %s not among declared parameters %s' % (f, target, params))
        ps = ' '.join('(v_%s : Z)' % p for p in params)
        return 'Definition %s %s : %s := %s.\n' % (coqname, ps, 'Q' if q else 'Z', term), cx.sideconds

    def dtype_literal(self, qualname, target, coqname, params=()):
        """np.dtype(dict(names=[...], formats=[...])) -> list (string * Z(count) * Z(itemsize of base type)).
        Format strings: optional byte order, optional (a,b,..) shape (constants or %d filled from a % tuple), base
        type code i f S1 c with optional size digit."""
        vals = self.assignments(qualname, target)
        if not vals:
            raise Untranslatable('dtype literal %s not found in %s' % (target, qualname))
        node = vals[0]
        # strip .newbyteorder(...)
        while isinstance(node, ast.Call) and isinstance(node.func, ast.Attribute) and node.func.attr == 'newbyteorder':
            node = node.func.value
        if not (isinstance(node, ast.Call) and getattr(node.func, 'attr', getattr(node.func, 'id', '')) == 'dtype'):
            raise Untranslatable('not a dtype(...) call: ' + target)
        arg = node.args[0]
        cx = Ctx()
        if isinstance(arg, ast.Call) and getattr(arg.func, 'id', '') == 'dict':
            kw = {k.arg: k.value for k in arg.keywords}
            names = [e.value for e in kw['names'].elts]
            fmts = kw['formats'].elts
        elif isinstance(arg, ast.Constant) and isinstance(arg.value, str):
            names, fmts = ['f0'], [arg]
        else:
            raise Untranslatable('dtype argument form')
        if len(names) != len(fmts):
            raise Untranslatable('names/formats length mismatch')
        rows = []
        for nm, f in zip(names, fmts):
            cnt, size = self._fmt(f, cx)
            rows.append('("%s"%%string, %s, %d)' % (nm, cnt, size))
        ps = ' '.join('(v_%s : Z)' % p for p in params)
        return 'Definition %s %s : list (string * Z * Z) :=\n  [%s].\n' % (coqname, ps, ';\n   '.join(rows))

    def _fmt(self, f, cx):
        fill = []
        if isinstance(f, ast.BinOp) and isinstance(f.op, ast.Mod) and isinstance(f.left, ast.Constant):
            s = f.left.value
            r = f.right
            fill = [expr(e, cx) for e in (r.elts if isinstance(r, ast.Tuple) else [r])]
        elif isinstance(f, ast.Constant) and isinstance(f.value, str):
            s = f.value
        else:
            raise Untranslatable('format element')
        m = re.fullmatch(r'\s*(?:\(([^)]*)\))?\s*([<>=|]?)([a-zA-Z])(\d*)\s*', s)
        if not m:
            raise Untranslatable('format string %r' % s)
        shape, _, code, digits = m.groups()
        base = {'i': 4, 'f': 4, 'S': 1, 'c': 1, 'd': 8, 'h': 2, 'b': 1, 'u': 4}.get(code)
        if base is None:
            raise Untranslatable('type code %r' % code)
        if digits:
            base = int(digits)
        cnt = '1'
        if shape is not None:
            dims = []
            for d in shape.split(','):
                d = d.strip()
                if d == '':
                    continue
                if d == '%d':
                    if not fill:
                        raise Untranslatable('unfilled %d')
                    dims.append(fill.pop(0))
                else:
                    dims.append(cz(int(d)))
            cnt = '(' + ' * '.join(dims) + ')' if dims else '1'
        return cnt, base


HEADER = ('(* GENERATED by translate/py2coq.py from %s — do not edit; regenerated on every check run *)\n'
          'From Coq Require Import ZArith QArith Bool List String.\nImport ListNotations.\nLocal Open Scope Z_scope.\n\n'
          '(* itemsize of a translated structured dtype *)\n'
          'Definition dtype_itemsize (d : list (string * Z * Z)) : Z :=\n'
          '  fold_right (fun f acc => snd (fst f) * snd f + acc) 0 d.\n'
          'Fixpoint dtype_offset (d : list (string * Z * Z)) (name : string) : option Z :=\n'
          '  match d with\n  | [] => None\n  | (n, c, s) :: t => if String.eqb n name then Some 0 else\n'
          '      match dtype_offset t name with Some o => Some (c * s + o) | None => None end\n  end.\n\n')


def self_record(cx):
    """Record declaration for the collected self.<attr> reads (all Z)"""
    fs = cx.selffields or ['unused']
    return 'Record %s_self := { %s }.\n' % (cx.selfprefix, '; '.join('%s_%s : Z' % (cx.selfprefix, f) for f in fs))


def write_if_changed(path, text):
    os.makedirs(os.path.dirname(path), exist_ok=True)
    if os.path.exists(path) and open(path).read() == text:
        return False
    with open(path, 'w') as f:
        f.write(text)
    return True
