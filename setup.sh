#!/bin/bash
# Offline setup: build the whole Coq development (full .vo), create work directories.
set -e
cd "$(dirname "$0")"
mkdir -p evidence replay .work corpus
export PYTHONPATH=/repo/src PYTHONHASHSEED=0 PYTHONWARNINGS=ignore
/venv/bin/python -B harness/translate_all.py || true
cd coq
find . -name '*.v' | sed 's|^\./||' | sort > .filelist.tmp
coq_makefile -f _CoqProject -o Makefile $(cat .filelist.tmp) > /dev/null
# same listing format as harness/common.py (newline separated, no trailing newline)
python3 - <<'PY'
s=open('.filelist.tmp').read().strip('\n')
open('.filelist','w').write(s)
PY
rm -f .filelist.tmp
timeout 3000 make -j14 -k 2>&1 | grep -v '^Closed under\|^COQC\|^COQDEP' | tail -30 || true
# content stamps for the generated files (harness/common.py keeps a Gen/X.vo only if it was compiled from
# exactly the present text of Gen/X.v)
for v in Gen/*.v; do b=$(basename "$v" .v); [ -f "Gen/$b.vo" ] && sha256sum "$v" | cut -d' ' -f1 | tr -d '\n' > "Gen/.$b.sha"; done
echo "setup done: $(find . -name '*.vo' | wc -l) .vo files"
