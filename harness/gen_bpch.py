"""Tie T for GEOS-Chem binary punch (C18): regenerate coq/Gen/Bpch.v from /repo's working tree.

What py2coq handles directly: the integer pads `general_header['SPAD1'|'EPAD1'|'SPAD2'|'EPAD2']` (40/80) of ncf2bpch,
`_first_header_size`, the initial `offset` of the header walk.
Driver-side normalisation (NOT a translator change; fail-closed, every piece still goes through py2coq's own `_fmt` / `expr`):
  * the module-level dtype literals are written in numpy's comma-separated string form `dtype('>i4, S40, ...')`, split over
    two concatenated string constants, with repeat counts written `2>f4` instead of `(2)>f4`. The driver checks the AST shape
    (Call dtype / single argument / str constants joined by +), splits on commas, rewrites a leading repeat count N into the
    parenthesised form and hands each element to py2coq.Module._fmt; fields get numpy's automatic names f0, f1, ...
  * ncf2bpch's `_datablock_header_type` (dict(names=..., formats=[...])): same repeat-count rewrite, names from the source.
  * nested-subscript integer assignments `tdv['header']['SPAD1'] = tdv['header']['EPAD1'] = 36` and `header['skip'] = tdv['SPAD1'] + 8`:
    the targets are matched on their unparsed text and the right-hand side goes through py2coq.expr after replacing the one
    subscript `tdv['SPAD1']` by the parameter name SPAD1.
Outside the subset (said so, modelled by hand in Model/Bpch.v): ncf2bpch's `_general_header_type` (formats built by `.split()`),
`tdv['SPAD1'] = np.prod(vals.shape) * 4` (numpy call), the reader's per-tracer `data_type` string built with `%` from a generator,
`itemcount` (os.path call inside float arithmetic)."""
import ast, os, re
from harness import common as C
from translate import py2coq as P

SRCFILE = os.path.join('PseudoNetCDF', 'geoschemfiles', '_bpch.py')


def _str_const(node):
    """str constant or + of str constants -> python str; else Untranslatable"""
    if isinstance(node, ast.Constant) and isinstance(node.value, str):
        return node.value
    if isinstance(node, ast.BinOp) and isinstance(node.op, ast.Add):
        return _str_const(node.left) + _str_const(node.right)
    raise P.Untranslatable('dtype argument is not a string constant')


def _norm_fmt(s):
    s = s.strip()
    m = re.fullmatch(r'(\d+)([<>=|]?[a-zA-Z]\d*)', s)
    if m:
        s = '(%s)%s' % m.groups()
    return s


def _rows(m, names, fmts):
    cx = P.Ctx()
    rows = []
    for nm, f in zip(names, fmts):
        cnt, size = m._fmt(ast.Constant(value=_norm_fmt(f)), cx)
        rows.append('("%s"%%string, %s, %d)' % (nm, cnt, size))
    return rows


def string_dtype(m, qual, target, coqname):
    vals = m.assignments(qual, target)
    if not vals:
        raise P.Untranslatable('dtype literal %s not found' % target)
    node = vals[0]
    if not (isinstance(node, ast.Call) and getattr(node.func, 'attr', getattr(node.func, 'id', '')) == 'dtype'
            and len(node.args) == 1 and not node.keywords):
        raise P.Untranslatable('not a dtype(<string>) call: ' + target)
    parts = [p for p in _str_const(node.args[0]).split(',')]
    if any(p.strip() == '' for p in parts):
        raise P.Untranslatable('empty dtype element in ' + target)
    rows = _rows(m, ['f%d' % i for i in range(len(parts))], parts)
    return 'Definition %s : list (string * Z * Z) :=\n  [%s].\n' % (coqname, ';\n   '.join(rows))


def dict_dtype(m, qual, target, coqname):
    vals = m.assignments(qual, target)
    if not vals:
        raise P.Untranslatable('dtype literal %s not found in %s' % (target, qual))
    node = vals[0]
    if not (isinstance(node, ast.Call) and getattr(node.func, 'attr', '') == 'dtype' and len(node.args) == 1
            and isinstance(node.args[0], ast.Call) and getattr(node.args[0].func, 'id', '') == 'dict'):
        raise P.Untranslatable('not np.dtype(dict(...)): ' + target)
    kw = {k.arg: k.value for k in node.args[0].keywords}
    if set(kw) != {'names', 'formats'} or not all(isinstance(kw[k], ast.List) for k in kw):
        raise P.Untranslatable('names/formats must be list literals: ' + target)
    names = [_str_const(e) for e in kw['names'].elts]
    fmts = [_str_const(e) for e in kw['formats'].elts]
    if len(names) != len(fmts):
        raise P.Untranslatable('names/formats length mismatch')
    rows = _rows(m, names, fmts)
    return 'Definition %s : list (string * Z * Z) :=\n  [%s].\n' % (coqname, ';\n   '.join(rows))


class _Sub(ast.NodeTransformer):
    def __init__(self, allowed):
        self.allowed = allowed

    def visit_Subscript(self, node):
        txt = ast.unparse(node)
        if txt in self.allowed:
            return ast.copy_location(ast.Name(id=self.allowed[txt], ctx=ast.Load()), node)
        raise P.Untranslatable('subscript ' + txt)


def nested_assign(m, qual, target_text, coqname, params, subst=None):
    """the unique assignment inside `qual` one of whose targets unparses to target_text"""
    fn = m.find(qual)
    hits = [n for n in ast.walk(fn) if isinstance(n, ast.Assign) and any(ast.unparse(t) == target_text for t in n.targets)]
    if len(hits) != 1:
        raise P.Untranslatable('%d assignments to %s in %s' % (len(hits), target_text, qual))
    val = _Sub(subst or {}).visit(hits[0].value)
    term = P.expr(val, P.Ctx(selffields=[]))
    free = sorted(set(re.findall(r'\bv_[A-Za-z_][A-Za-z0-9_]*', term)))
    for f in free:
        if f not in ['v_' + p for p in params]:
            raise P.Untranslatable('free variable %s in %s' % (f, target_text))
    ps = ' '.join('(v_%s : Z)' % p for p in params)
    return 'Definition %s %s : Z := %s.\n' % (coqname, ps, term)


def translate():
    path = os.path.join(C.SRC, SRCFILE)
    out = [P.HEADER % 'geoschemfiles/_bpch.py']
    res = []

    def step(anchor, f):
        try:
            out.append(f())
            res.append(dict(anchor=anchor, ok=True, detail=''))
        except Exception as e:  # fail closed
            res.append(dict(anchor=anchor, ok=False, detail='%s: %s' % (type(e).__name__, e)))

    try:
        m = P.Module(path)
    except Exception as e:
        return [dict(anchor='_bpch.py', ok=False, detail='%s: %s' % (type(e).__name__, e))]
    step('_bpch._general_header_type', lambda: string_dtype(m, '', '_general_header_type', 'bp_general_header_type'))
    step('_bpch._datablock_header_type', lambda: string_dtype(m, '', '_datablock_header_type', 'bp_datablock_header_type'))
    step('_bpch._first_header_size',
         lambda: m.assign_expr('', '_first_header_size', 'bp_first_header_size',
                               ['_general_header_type_itemsize', '_datablock_header_type_itemsize'])[0])
    step('_bpch.bpch1.__init__.offset',
         lambda: m.assign_expr('bpch1.__init__', 'offset', 'bp_walk_start', ['_general_header_type_itemsize'])[0])
    step('_bpch.ncf2bpch._datablock_header_type', lambda: dict_dtype(m, 'ncf2bpch', '_datablock_header_type', 'bw_datablock_header_type'))
    step("_bpch.ncf2bpch.general_header['SPAD1']", lambda: m.assign_expr('ncf2bpch', "general_header['SPAD1']", 'bw_gpad1', [])[0])
    step("_bpch.ncf2bpch.general_header['EPAD1']", lambda: m.assign_expr('ncf2bpch', "general_header['EPAD1']", 'bw_gepad1', [])[0])
    step("_bpch.ncf2bpch.general_header['SPAD2']", lambda: m.assign_expr('ncf2bpch', "general_header['SPAD2']", 'bw_gpad2', [])[0])
    step("_bpch.ncf2bpch.general_header['EPAD2']", lambda: m.assign_expr('ncf2bpch', "general_header['EPAD2']", 'bw_gepad2', [])[0])
    step("_bpch.ncf2bpch.tdv['header']['SPAD1']", lambda: nested_assign(m, 'ncf2bpch', "tdv['header']['SPAD1']", 'bw_hpad1', []))
    step("_bpch.ncf2bpch.tdv['header']['EPAD1']", lambda: nested_assign(m, 'ncf2bpch', "tdv['header']['EPAD1']", 'bw_hepad1', []))
    step("_bpch.ncf2bpch.tdv['header']['SPAD2']", lambda: nested_assign(m, 'ncf2bpch', "tdv['header']['SPAD2']", 'bw_hpad2', []))
    step("_bpch.ncf2bpch.tdv['header']['EPAD2']", lambda: nested_assign(m, 'ncf2bpch', "tdv['header']['EPAD2']", 'bw_hepad2', []))
    step("_bpch.ncf2bpch.header['skip']",
         lambda: nested_assign(m, 'ncf2bpch', "header['skip']", 'bw_skip', ['SPAD1'], subst={"tdv['SPAD1']": 'SPAD1'}))
    P.write_if_changed(os.path.join(C.COQ, 'Gen', 'Bpch.v'), ''.join(out))
    return res


if __name__ == '__main__':
    for r in translate():
        print(r)
