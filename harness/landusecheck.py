"""CAMx land-use files evaluated in Coq (Model/Landuse.v, constructors LUD / LUD8): old style (fland, optional topo) and new
style ('LUCAT11 ' / 'LUCAT26 ' key record, fland, optional key+field pairs LAI, TOPO). Independent reference encoder here;
the library side is camxfiles.Memmaps.landuse and camxfiles.landuse.Write.ncf2landuse."""
import os, shutil, struct, signal
from harness import common as C, camxlib as L
from harness import metcheck as MC

KEYS = {'LAI': 'LAI     ', 'TOPO': 'TOPO    '}


def is_lu(case):
    return case.get('kind', '').startswith('lu')


def key_words(s):
    b = s.ljust(8)[:8].encode('latin-1')
    return list(struct.unpack('>2I', b))


def gen_lu(rng, tier='quick'):
    new = rng.random() < 0.6
    nland = 26 if (new and rng.random() < 0.35) else 11
    nx, ny = rng.randint(1, 3), rng.randint(1, 3)
    fland = [L.finite_word(rng) for _ in range(nland * nx * ny)]
    r = rng.random()
    if r < 0.7:      # most files: first 8 payload bytes decodable as text (0.0 / small positive values)
        fland[0], fland[1] = 0, rng.choice([0, 0x3f000000, 0x3e4c4c4c])
    elif r < 0.8:    # surely not UTF-8
        fland[0] = rng.choice([0x9d000000, 0xc1000000, 0xff7fffff, 0x3f80ff00])
    if new:
        opts = rng.choice([[], ['LAI'], ['TOPO'], ['LAI', 'TOPO'], ['LAI', 'TOPO']])
    else:
        opts = rng.choice([[], ['TOPO']])
    return dict(fmt='landuse2', new=new, nland=nland, nx=nx, ny=ny, fland=fland,
                opts=[[k, [L.finite_word(rng) for _ in range(nx * ny)]] for k in opts])


def records(c):
    if c['new']:
        out = [key_words('LUCAT%02d ' % c['nland']), list(c['fland'])]
        for k, d in c['opts']:
            out += [key_words(KEYS[k]), list(d)]
        return out
    return [list(c['fland'])] + [list(d) for k, d in c['opts']]


def encode(c):
    ws = []
    for r in records(c):
        ws += [4 * len(r)] + r + [4 * len(r)]
    return ws


def decodable(b):
    try:
        b[4:12].decode()
        return True
    except UnicodeDecodeError:
        return False


def cuts_of(rng, c, count=14):
    """byte cuts evaluated in Coq: every record boundary +-1/+-4, the three admissible sizes, the sniff region, random offsets"""
    ws = encode(c)
    total = 4 * len(ws)
    must = set([0, 3, 4, 8, 11, 12, 13, 16])
    i = 0
    bounds = []
    for r in records(c):
        i += 4 * (len(r) + 2)
        bounds.append(i)
    pad = 24 if c['new'] else 8
    rc = c['nx'] * c['ny']
    nf, no = pad + 4 * c['nland'] * rc, pad + 4 * rc
    for b in [nf, nf + no, nf + 2 * no]:
        must.update([b, b - 1, b + 1, b - 4, b + 4])
    extra = set()
    for b in bounds:
        extra.update([b, b - 1, b + 1, b - 4, b + 4])
    for _ in range(4):
        extra.add(rng.randint(0, total - 1))
    must = sorted(x for x in must if 0 <= x < total)
    extra = sorted(x for x in extra if 0 <= x < total and x not in must)
    rng.shuffle(extra)
    return sorted(set(must[:] + extra[:max(2, count - len(must))]))


def observe(f, c):
    import numpy as np
    o = dict(new=bool(getattr(f, '_newstyle')), dims={k: len(v) for k, v in f.dimensions.items()}, vars=[])
    shapes_ok = True
    for i, name in enumerate(f.variables.keys()):
        v = f.variables[name]
        a = np.asarray(v[...], dtype='>f4')
        want = (o['dims'].get('LANDUSE'), c['ny'], c['nx']) if i == 0 else (c['ny'], c['nx'])
        want_dims = ('LANDUSE', 'ROW', 'COL') if i == 0 else ('ROW', 'COL')
        shapes_ok = shapes_ok and tuple(a.shape) == want and tuple(v.dimensions) == want_dims
        o['vars'].append([str(name), a.view('>u4').astype('int64').ravel().tolist()])
    o['py_ok'] = bool(shapes_ok and o['dims'].get('ROW') == c['ny'] and o['dims'].get('COL') == c['nx'])
    return o


def run_lu(case):
    from PseudoNetCDF.camxfiles import Memmaps
    from PseudoNetCDF.camxfiles.landuse.Write import ncf2landuse
    c = case['content']
    ws = encode(c)
    b = L.bytes_of_words(ws)
    cut = case.get('cut')
    d = L.workdir()
    obs = dict(nwords=len(ws), cut=len(b) if cut is None else cut, dec=decodable(b))
    try:
        p = os.path.join(d, 'f.bin')
        with open(p, 'wb') as f:
            f.write(b if cut is None else b[:cut])
        holder = {}

        def mm():
            holder['f'] = Memmaps.landuse(p, c['ny'], c['nx'])
            return observe(holder['f'], c)
        st, o = MC._guard(mm, 3.0)
        obs['mm'] = dict(status=st, view=o if st == 'ok' else None, err=o if st == 'raises' else None)
        if st == 'ok' and cut is None:
            p2 = os.path.join(d, 'g.bin')

            def wr():
                out = ncf2landuse(holder['f'], p2)
                if out is not None and hasattr(out, 'close'):
                    out.close()
                return L.words_of_bytes(open(p2, 'rb').read())
            st2, w = MC._guard(wr)
            obs['wr'] = dict(status=st2, words=w if st2 == 'ok' else None, err=w if st2 == 'raises' else None)
            if st2 == 'ok':
                st3, o3 = MC._guard(lambda: observe(Memmaps.landuse(p2, c['ny'], c['nx']), c))
                obs['rr'] = dict(status=st3, err=o3 if st3 == 'raises' else None)
    finally:
        shutil.rmtree(d, ignore_errors=True)
    signal.setitimer(signal.ITIMER_REAL, 60.0)
    return obs


def coq_kv(k, d):
    return '(%s, %s)' % (C.zlist(k), C.zlist(d))


def coq_landuse(c):
    return ('{| lu_new := %s; lu_nland := %d; lu_rows := %d; lu_cols := %d; lu_fland := %s; lu_opts := [%s] |}' % (
        C.cbool(c['new']), c['nland'], c['ny'], c['nx'], C.zlist(c['fland']),
        '; '.join(coq_kv(key_words(KEYS[k]), d) for k, d in c['opts'])))


def lu_term(case, obs, suffix=''):
    c = case['content']
    mm = obs['mm']
    ok = mm['status'] == 'ok'
    if ok:
        v = mm['view']
        view = '{| lv_new := %s; lv_nland := %d; lv_vars := [%s] |}' % (
            C.cbool(v['new']), v['dims'].get('LANDUSE', 0), '; '.join(coq_kv(key_words(n), d) for n, d in v['vars']))
        py_ok = v['py_ok']
    else:
        view = '{| lv_new := false; lv_nland := 0; lv_vars := [] |}'
        py_ok = True
    wr = obs.get('wr') or {}
    rr = obs.get('rr') or {}
    return '(LUD%s (LUCase %s %s %s %d %s %s %s %s %s %s))' % (
        suffix, coq_landuse(c), C.cbool(obs['dec']), C.zlist(encode(c)), obs['cut'], C.cbool(ok), view, C.cbool(py_ok),
        C.cbool(wr.get('status') == 'ok'), C.zlist(wr.get('words') or []), C.cbool(rr.get('status') == 'ok'))


def lu_py_check(case, obs, rewrite=False):
    """independent Python judgement (S): whole file -> variables and values of the content, the written file is the
    reference encoding of the content; cut -> raises or the first k records"""
    c = case['content']
    why = []
    mm = obs['mm']
    names = [('LUCAT%02d' % c['nland']) if c['new'] else 'FLAND'] + [k for k, d in c['opts']]
    datas = [list(c['fland'])] + [list(d) for k, d in c['opts']]
    if mm['status'] == 'timeout':
        return ['library reader did not return']
    if case.get('cut') is None:
        if mm['status'] != 'ok':
            return ['library reader %s on a reference-encoded land-use file (%s)' % (mm['status'], mm.get('err'))]
        v = mm['view']
        if [n for n, d in v['vars']] != names or [d for n, d in v['vars']] != datas or not v['py_ok'] or v['new'] != c['new']:
            why.append('presented variables %s differ from the content %s' % ([n for n, d in v['vars']], names))
        wr = obs.get('wr') or {}
        if wr.get('status') != 'ok':
            why.append('library writer %s (%s)' % (wr.get('status'), wr.get('err')))
        elif wr['words'] != encode(c):
            why.append('the written file is not the encoding of the content (record order %s)' % (
                'differs' if sorted(wr['words']) == sorted(encode(c)) else 'and content differ'))
        if rewrite and (obs.get('rr') or {}).get('status') != 'ok' and wr.get('status') == 'ok':
            why.append('the library cannot re-open the file it wrote (%s)' % (obs.get('rr') or {}).get('err'))
    elif mm['status'] == 'ok':
        v = mm['view']
        k = len(v['vars'])
        if not (1 <= k <= len(names) and [n for n, d in v['vars']] == names[:k] and [d for n, d in v['vars']] == datas[:k]):
            why.append('prefix of %d bytes opened with variables %s' % (case['cut'], [n for n, d in v['vars']]))
    return why


def lu_region(case, obs):
    """16: the reader raised on undecodable first bytes (region 22, the writer's record order, was retired by 58a734f)"""
    if case.get('cut') is not None or obs.get('dec', True):
        return 0
    return 16 if (obs.get('mm') or {}).get('status') == 'raises' else 0
