"""Shared machinery for all property checks: build, translation glue, correspondence,
verdict, evidence, known findings.  Runs under /venv/bin/python (numpy + the library)."""
import os, sys, re, json, time, hashlib, random, subprocess, signal, shutil, traceback, fcntl
import concurrent.futures as cf

VERIF = os.path.dirname(os.path.dirname(os.path.abspath(__file__)))
REPO = os.environ.get('PNC_REPO', '/repo')
SRC = os.path.join(REPO, 'src')
COQ = os.path.join(VERIF, 'coq')
GUARD = 'PSEUDONETCDF_VERIF'
NCPU = int(os.environ.get('PNC_NCPU', 0)) or max(2, min(14, (os.cpu_count() or 4) - 2))

ALLOWED_AXIOMS = set()   # none needed so far; stdlib axioms would be listed here by name

FORBIDDEN = re.compile(r'\b(Admitted|admit|Axiom|Axioms|Parameter|Parameters|Conjecture|Conjectures|'
                       r'Admit Obligations|bypass_check)\b|Unset\s+Guard|Unset\s+Positivity|'
                       r'Unset\s+Universe|type-in-type|impredicative-set|^\s*(Variable|Hypothesis)\b')


def setup_impl_path():
    if SRC not in sys.path:
        sys.path.insert(0, SRC)
    os.environ[GUARD] = '1'
    os.environ.setdefault('PYTHONHASHSEED', '0')


# ----------------------------------------------------------------------------- Coq terms
def zc(z):
    z = int(z)
    return '(%d)' % z if z < 0 else '%d' % z


def zlist(l):
    return '[' + '; '.join(zc(x) for x in l) + ']'


def zll(ll):
    return '[' + '; '.join(zlist(l) for l in ll) + ']'


def natlist(l):
    return '[' + '; '.join('%d%%nat' % int(x) for x in l) + ']'


def cbool(b):
    return 'true' if b else 'false'


def coq_string(s):
    return '"' + s.replace('"', '""') + '"'


def copt(x, f):
    return 'None' if x is None else '(Some %s)' % f(x)


# ----------------------------------------------------------------------------- build
class BuildResult:
    def __init__(self):
        self.ok = False
        self.log = ''
        self.theorems = []      # names in Props/Cxx.v
        self.assumptions = []   # per Print Assumptions: 'closed' or list of axiom names
        self.bad_axioms = []
        self.forbidden = []
        self.broken = []        # names of obligations that no longer check
        self.wall = 0.0


def cone(pid):
    """Coq source files (relative to coq/) that Props/<pid>.v and Corr/<pid>.v transitively import."""
    todo = ['Props/%s.v' % pid, 'Corr/%s.v' % pid]
    seen = []
    while todo:
        f = todo.pop()
        if f in seen or not os.path.exists(os.path.join(COQ, f)):
            continue
        seen.append(f)
        txt = re.sub(r'\(\*.*?\*\)', '', open(os.path.join(COQ, f)).read(), flags=re.S)
        for m in re.finditer(r'From\s+PNC\s+Require\s+(?:Import|Export)\s+(.*?)\.(?:\s|$)', txt, flags=re.S):
            for mod in m.group(1).split():
                todo.append(mod.replace('.', '/') + '.v')
    return sorted(seen)


def static_scan(pid=None):
    bad = []
    files = cone(pid) if pid else coq_files()
    for rel in files:
            p = os.path.join(COQ, rel)
            txt = open(p).read()
            txt_nc = re.sub(r'\(\*.*?\*\)', '', txt, flags=re.S)
            # Variable/Hypothesis allowed only inside a Section
            depth = 0
            for ln, line in enumerate(txt_nc.split('\n'), 1):
                if re.match(r'\s*Section\b', line):
                    depth += 1
                if re.match(r'\s*End\b', line) and depth > 0:
                    depth -= 1
                m = FORBIDDEN.search(line)
                if m:
                    tok = m.group(0).strip()
                    if tok in ('Variable', 'Hypothesis') and depth > 0:
                        continue
                    bad.append('%s:%d:%s' % (os.path.relpath(p, COQ), ln, tok))
    return bad


def coq_files():
    out = []
    for root, _, files in os.walk(COQ):
        for fn in files:
            if fn.endswith('.v'):
                out.append(os.path.relpath(os.path.join(root, fn), COQ))
    return sorted(out)



_TREE_LOCK = None


def tree_lock():
    """coq/Gen/*.v (tie T) are regenerated from whichever tree PNC_REPO names, and the compiled cone is shared.
    Runs against the SAME tree may overlap (shared lock); a run against a DIFFERENT tree waits until the
    others are done (exclusive lock while it re-targets), so that no run ever builds or evaluates against
    definitions generated from another tree. Held for the life of the process."""
    global _TREE_LOCK
    os.makedirs(os.path.join(VERIF, '.work'), exist_ok=True)
    lockp = os.path.join(VERIF, '.work', 'tree.lock')
    curp = os.path.join(VERIF, '.work', 'tree.current')
    mine = os.path.realpath(REPO)
    f = open(lockp, 'a+')
    while True:
        fcntl.flock(f, fcntl.LOCK_SH)
        try:
            cur = open(curp).read().strip()
        except OSError:
            cur = ''
        if cur == mine:
            break
        fcntl.flock(f, fcntl.LOCK_UN)
        fcntl.flock(f, fcntl.LOCK_EX)
        with open(curp, 'w') as g:
            g.write(mine)
        fcntl.flock(f, fcntl.LOCK_UN)
    _TREE_LOCK = f
    return f

def build(pid, extra_targets=()):
    """(Re)build Props/<pid>.vo and Corr/<pid>.vo with their cones. Props/<pid>.v is always
    re-checked (its .vo is removed first) so that Print Assumptions output is fresh."""
    r = BuildResult()
    t0 = time.time()
    props_v = os.path.join(COQ, 'Props', pid + '.v')
    src = open(props_v).read()
    src_nc = re.sub(r'\(\*.*?\*\)', '', src, flags=re.S)
    r.theorems = re.findall(r'^\s*(?:Theorem|Lemma|Corollary|Example|Fact)\s+(\w+)', src_nc, flags=re.M)
    r.forbidden = static_scan(pid)
    r.cone = cone(pid)
    lock = open(os.path.join(COQ, '.build.lock'), 'w')
    fcntl.flock(lock, fcntl.LOCK_EX)
    try:
        files = coq_files()
        mk = os.path.join(COQ, 'Makefile')
        listing = '\n'.join(files)
        stamp = os.path.join(COQ, '.filelist')
        if not os.path.exists(mk) or not os.path.exists(stamp) or open(stamp).read() != listing:
            subprocess.run(['coq_makefile', '-f', '_CoqProject', '-o', 'Makefile'] + files,
                           cwd=COQ, check=True, stdout=subprocess.DEVNULL, stderr=subprocess.DEVNULL)
            open(stamp, 'w').write(listing)
        for suffix in ('.vo', '.glob', '.vos', '.vok'):
            try:
                os.remove(os.path.join(COQ, 'Props', pid + suffix))
            except OSError:
                pass
        # generated files (tie T) are rewritten by every run: never trust time stamps for them — a
        # Gen/X.vo is kept only if it was compiled from exactly the present text of Gen/X.v
        gdir = os.path.join(COQ, 'Gen')
        gens = sorted(f for f in os.listdir(gdir) if f.endswith('.v')) if os.path.isdir(gdir) else []

        def _sha(path):
            return hashlib.sha256(open(path, 'rb').read()).hexdigest()
        for g in gens:
            side = os.path.join(gdir, '.' + g[:-2] + '.sha')
            vo = os.path.join(gdir, g[:-2] + '.vo')
            cur = _sha(os.path.join(gdir, g))
            if os.path.exists(vo) and (not os.path.exists(side) or open(side).read() != cur):
                for suffix in ('.vo', '.glob', '.vos', '.vok'):
                    try:
                        os.remove(os.path.join(gdir, g[:-2] + suffix))
                    except OSError:
                        pass
        before = {g: _sha(os.path.join(gdir, g)) for g in gens}
        targets = ['Props/%s.vo' % pid, 'Corr/%s.vo' % pid] + list(extra_targets)
        p = subprocess.run(['timeout', '1500', 'make', '-j%d' % NCPU, '-k'] + targets, cwd=COQ,
                           stdout=subprocess.PIPE, stderr=subprocess.STDOUT, text=True)
        r.log = p.stdout
        r.ok = (p.returncode == 0)
        for g in gens:
            vo = os.path.join(gdir, g[:-2] + '.vo')
            side = os.path.join(gdir, '.' + g[:-2] + '.sha')
            try:
                if os.path.exists(vo) and _sha(os.path.join(gdir, g)) == before[g]:
                    open(side, 'w').write(before[g])
            except OSError:
                pass
    finally:
        fcntl.flock(lock, fcntl.LOCK_UN)
        lock.close()
    # parse Print Assumptions output
    blocks = []
    lines = r.log.split('\n')
    i = 0
    while i < len(lines):
        if lines[i].startswith('Closed under the global context'):
            blocks.append('closed')
        elif lines[i].startswith('Axioms:'):
            ax = []
            i += 1
            while i < len(lines) and (lines[i].startswith(' ') or ':' in lines[i]) and \
                    not lines[i].startswith(('COQC', 'Closed', 'File', 'make')):
                m = re.match(r'^([A-Za-z_][\w\.\']*)\s*:', lines[i])
                if m:
                    ax.append(m.group(1))
                i += 1
            blocks.append(ax)
            continue
        i += 1
    r.assumptions = blocks
    for b in blocks:
        if b != 'closed':
            for a in b:
                if a not in ALLOWED_AXIOMS:
                    r.bad_axioms.append(a)
    if not r.ok:
        m = re.findall(r'File "\./([^"]+)", line (\d+)', r.log)
        r.broken = ['%s:%s' % x for x in m] or ['build']
    if r.forbidden:
        r.broken += ['forbidden:' + x for x in r.forbidden]
    if r.bad_axioms:
        r.broken += ['axiom:' + x for x in r.bad_axioms]
    n_print = len(re.findall(r'^\s*Print Assumptions', src_nc, flags=re.M))
    if r.ok and len(blocks) < n_print:
        r.broken.append('print-assumptions-missing')
    r.wall = time.time() - t0
    return r


# ----------------------------------------------------------------------------- implementation workers
class CaseTimeout(Exception):
    pass


def _alarm(signum, frame):
    raise CaseTimeout()


def _worker(args):
    modname, cases, tmo = args
    setup_impl_path()
    import importlib, warnings
    warnings.simplefilter('ignore')
    mod = importlib.import_module('harness.props.' + modname)
    out = []
    signal.signal(signal.SIGALRM, _alarm)
    for c in cases:
        signal.setitimer(signal.ITIMER_REAL, tmo)
        try:
            o = mod.impl(c)
        except CaseTimeout:
            o = {'raises': 'Timeout'}
        except BaseException as e:  # noqa
            o = {'raises': type(e).__name__, 'msg': str(e)[:300]}
        finally:
            signal.setitimer(signal.ITIMER_REAL, 0)
        out.append(o)
    return out


def run_impl(modname, cases, tmo=20.0, chunk=None, workers=None):
    if not cases:
        return []
    workers = workers or NCPU
    # import the library once in the parent so that forked workers share the loaded modules
    # (concurrent first imports of matplotlib in many fresh processes raced and failed spuriously)
    setup_impl_path()
    try:
        import warnings
        warnings.simplefilter('ignore')
        import PseudoNetCDF  # noqa: F401
    except Exception:
        pass
    chunk = chunk or max(1, min(200, len(cases) // (workers * 4) + 1))
    chunks = [cases[i:i + chunk] for i in range(0, len(cases), chunk)]
    res = []
    ctx = None
    import multiprocessing as mp
    ctx = mp.get_context('fork')
    with cf.ProcessPoolExecutor(max_workers=workers, mp_context=ctx) as ex:
        for part in ex.map(_worker, [(modname, ch, tmo) for ch in chunks]):
            res.extend(part)
    return res


# ----------------------------------------------------------------------------- Coq evaluation of cases
VERDICT_RE = re.compile(r'\(\s*(true|false)\s*,\s*(true|false)\s*,\s*(\d+)(?:%nat)?\s*\)')


def _coqc_shard(args):
    path, = args
    p = subprocess.run(['timeout', '900', 'coqc', '-R', COQ, 'PNC', '-w', '-all', path],
                       stdout=subprocess.PIPE, stderr=subprocess.STDOUT, text=True,
                       preexec_fn=lambda: __import__('resource').setrlimit(
                           __import__('resource').RLIMIT_STACK,
                           (__import__('resource').RLIM_INFINITY, __import__('resource').RLIM_INFINITY)))
    return p.returncode, p.stdout


def coq_eval(pid, corr_mod, terms, workdir, shard=250, fn='check', extra_import=''):
    """terms: list of Coq terms of the correspondence case type. Returns list of
    (f_ok, s_ok, region) in order, or raises RuntimeError with the coqc log."""
    if not terms:
        return []
    paths = []
    for k in range(0, len(terms), shard):
        path = os.path.join(workdir, 'cases_%s_%d.v' % (pid, k // shard))
        with open(path, 'w') as f:
            f.write('From PNC Require Import Base.Util %s.\n%s\nLocal Open Scope Z_scope.\n' % (corr_mod, extra_import))
            f.write('Definition cases := [\n  ' + ';\n  '.join(terms[k:k + shard]) + '\n].\n')
            f.write('Eval vm_compute in (map %s cases).\n' % fn)
        paths.append(path)
    out = []
    with cf.ThreadPoolExecutor(max_workers=max(2, NCPU // 2)) as ex:
        results = list(ex.map(_coqc_shard, [(p,) for p in paths]))
    for k, (rc, txt) in enumerate(results):
        n_expected = min(shard, len(terms) - k * shard)
        if rc != 0:
            raise RuntimeError('coqc failed on shard %d:\n%s' % (k, txt[-3000:]))
        vs = VERDICT_RE.findall(txt)
        if len(vs) != n_expected:
            raise RuntimeError('shard %d: expected %d verdicts, parsed %d\n%s' % (k, n_expected, len(vs), txt[-2000:]))
        out.extend((a == 'true', b == 'true', int(c)) for a, b, c in vs)
    return out


def coq_eval_raw(corr_mod, body, workdir, name='eval'):
    """Evaluate arbitrary `body` (Coq vernacular) after importing corr_mod; return stdout."""
    path = os.path.join(workdir, name + '.v')
    with open(path, 'w') as f:
        f.write('From PNC Require Import Base.Util %s.\nLocal Open Scope Z_scope.\n%s\n' % (corr_mod, body))
    rc, txt = _coqc_shard((path,))
    if rc != 0:
        raise RuntimeError('coqc failed:\n' + txt[-3000:])
    return txt


# ----------------------------------------------------------------------------- known findings
def load_known(pid):
    """known findings live in /verif/known_findings/<pid>.json (committed; never written at run time)"""
    p = os.path.join(VERIF, 'known_findings', pid + '.json')
    if not os.path.exists(p):
        return [], []
    d = json.load(open(p))
    return list(d.get('findings', [])), list(d.get('fixed', []))


def case_hash(c):
    return hashlib.sha1(json.dumps(c, sort_keys=True, default=str).encode()).hexdigest()[:12]


def write_replay(pid, payload):
    os.makedirs(os.path.join(VERIF, 'replay'), exist_ok=True)
    h = case_hash(payload)
    path = os.path.join(VERIF, 'replay', '%s-%s.json' % (pid, h))
    with open(path, 'w') as f:
        json.dump(payload, f, indent=1, sort_keys=True, default=str)
    return path


def write_evidence(pid, ev):
    os.makedirs(os.path.join(VERIF, 'evidence'), exist_ok=True)
    path = os.path.join(VERIF, 'evidence', pid + '.json')
    tmp = path + '.tmp%d' % os.getpid()
    with open(tmp, 'w') as f:
        json.dump(ev, f, indent=1, sort_keys=True, default=str)
    os.replace(tmp, path)
    return path


def mkwork():
    d = os.path.join(VERIF, '.work', str(os.getpid()))
    os.makedirs(d, exist_ok=True)
    return d


def rmwork(d):
    shutil.rmtree(d, ignore_errors=True)
