"""Run every property module's translate() (tie T) so that coq/Gen/*.v exist before the full build."""
import os, sys, importlib, glob
sys.path.insert(0, os.path.dirname(os.path.dirname(os.path.abspath(__file__))))
from harness import common as C
C.setup_impl_path()
C.tree_lock()
done = set()
for p in sorted(glob.glob(os.path.join(C.VERIF, 'harness', 'props', 'c*.py'))):
    try:
        m = importlib.import_module('harness.props.' + os.path.basename(p)[:-3])
    except Exception as e:
        print('skip', p, e)
        continue
    t = getattr(m, 'translate', None)
    if t is None:
        continue
    key = getattr(t, '__module__', '') + getattr(t, '__qualname__', '')
    try:
        res = t()
        bad = [r for r in res if not r['ok']]
        print(m.ID, 'translate:', len(res), 'anchors,', len(bad), 'broken')
    except Exception as e:
        print(m.ID, 'translate failed:', e)
