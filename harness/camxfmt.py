"""Meteorological CAMx formats (temperature, one3d family, height_pressure, wind): reference encoders written
from the format descriptions (per time step: records `hour, idate, ((v(i,j),i=1,nx),j=1,ny)`), content generators and
library drivers. Record tiling of library output is decided in Coq (Base/Words.unframe_all); content comparisons are
made here by exact 32-bit patterns."""
import os, shutil
from harness import common as C, camxlib as L

FORMATS = ['temperature', 'vertical_diffusivity', 'humidity', 'height_pressure', 'wind']
VARS = {'temperature': ['SURFTEMP', 'AIRTEMP'], 'vertical_diffusivity': ['KV'], 'humidity': ['HUM'],
        'height_pressure': ['HGHT', 'PRES'], 'wind': ['U', 'V']}


def gen_met(rng, fmt=None, tier='quick', rollover=0.3, min_steps=1):
    fmt = fmt or rng.choice(FORMATS)
    nx, ny, nz = rng.randint(1, 3), rng.randint(1, 3), rng.randint(1, 3)
    nsteps = rng.randint(min_steps, 3)
    u = L.gen_uamiv(rng, tier, rollover)   # reuse the date logic
    base = u['steps'][0]
    steps = []
    for t in range(nsteps):
        d, h = L.yyjjj_add_hours(base['bdate'], base['bhour'], t)
        fields = {}
        for v in VARS[fmt]:
            nlev = 1 if v == 'SURFTEMP' else nz
            fields[v] = [[L.finite_word(rng) for _ in range(nx * ny)] for _ in range(nlev)]
        steps.append(dict(date=d, hhmm=h * 100, fields=fields))
    return dict(fmt=fmt, nx=nx, ny=ny, nz=nz, steps=steps, lstagger=rng.choice([0, 1]))


def records(c):
    """reference encoder at record level: list of payloads (lists of words)"""
    out = []
    fmt = c['fmt']
    for s in c['steps']:
        td = [L.f32_word(float(s['hhmm'])), s['date']]
        f = s['fields']
        if fmt == 'temperature':
            out.append(td + f['SURFTEMP'][0])
            for k in range(c['nz']):
                out.append(td + f['AIRTEMP'][k])
        elif fmt in ('vertical_diffusivity', 'humidity'):
            v = VARS[fmt][0]
            for k in range(c['nz']):
                out.append(td + f[v][k])
        elif fmt == 'height_pressure':
            for k in range(c['nz']):
                out.append(td + f['HGHT'][k])
                out.append(td + f['PRES'][k])
        elif fmt == 'wind':
            # time record  hour, idate, lstagger  -- or, for older files (lstagger None), just  hour, idate
            out.append(td + ([c['lstagger']] if c.get('lstagger') is not None else []))
            for k in range(c['nz']):
                out.append(f['U'][k])
                out.append(f['V'][k])
            out.append([L.f32_word(0.0)])
        else:
            raise ValueError(fmt)
    return out


def encode(c):
    ws = []
    for r in records(c):
        ws += L.rec(r)
    return ws


def expected_view(c):
    dims = dict(TSTEP=len(c['steps']), LAY=c['nz'], ROW=c['ny'], COL=c['nx'])
    data = {}
    for v in VARS[c['fmt']]:
        arr = []
        for s in c['steps']:
            lev = s['fields'][v]
            if v == 'SURFTEMP':
                arr.append([lev[0][j * c['nx']:(j + 1) * c['nx']] for j in range(c['ny'])])
            else:
                arr.append([[lay[j * c['nx']:(j + 1) * c['nx']] for j in range(c['ny'])] for lay in lev])
        data[v] = arr
    tflag = [[(2000000 if s['date'] < 70000 else 1900000) + s['date'], s['hhmm'] * 100] for s in c['steps']]
    return dict(dims=dims, data=data, TFLAG=tflag)


def open_memmap(fmt, path, c):
    from PseudoNetCDF.camxfiles import Memmaps
    return getattr(Memmaps, fmt)(path, c['ny'], c['nx'])


def open_read(fmt, path, c):
    import importlib
    m = importlib.import_module('PseudoNetCDF.camxfiles.%s.Read' % fmt)
    return getattr(m, fmt)(path, c['ny'], c['nx'])


def write(fmt, f, path):
    from PseudoNetCDF.camxfiles import Writers
    import importlib
    name = {'vertical_diffusivity': 'one3d', 'humidity': 'one3d'}.get(fmt, fmt)
    m = importlib.import_module('PseudoNetCDF.camxfiles.%s.Write' % name)
    fn = getattr(m, 'ncf2' + name)
    out = fn(f, path)
    out.close()


def observe(f, fmt):
    import numpy as np
    o = dict(dims={k: len(v) for k, v in f.dimensions.items() if k in ('TSTEP', 'LAY', 'ROW', 'COL')})
    data = {}
    for v in VARS[fmt]:
        a = np.asarray(f.variables[v][...], dtype='>f4')
        data[v] = a.view('>u4').astype('int64').tolist()
    o['data'] = data
    if 'TFLAG' in f.variables.keys():
        o['TFLAG'] = np.asarray(f.variables['TFLAG'][:, 0, :]).astype('int64').tolist()
    return o


def view_matches(o, e, k=None):
    """o observation, e expected view; k = only the first k steps of e"""
    why = []
    dims = dict(e['dims'])
    if k is not None:
        dims['TSTEP'] = k
    for d in ('TSTEP', 'LAY', 'ROW', 'COL'):
        if o['dims'].get(d) != dims[d]:
            why.append('dim %s=%s expected %s' % (d, o['dims'].get(d), dims[d]))
    for v, arr in e['data'].items():
        exp = arr if k is None else arr[:k]
        if o['data'].get(v) != exp:
            why.append('data of %s differs' % v)
    if 'TFLAG' in o:
        exp = e['TFLAG'] if k is None else e['TFLAG'][:k]
        if o['TFLAG'] != exp:
            why.append('TFLAG %s expected %s' % (o['TFLAG'][:3], exp[:3]))
    return why


# ----------------------------------------------------------------------------- lateral boundary (BOUNDARY) files
EDGES = [('WEST', 1), ('EAST', 2), ('SOUTH', 3), ('NORTH', 4)]


def gen_lb(rng, tier='quick', rollover=0.3):
    u = L.gen_uamiv(rng, tier, rollover)
    nx, ny, nz = rng.randint(2, 4), rng.randint(2, 4), rng.randint(1, 3)
    nsteps = rng.randint(1, 3)
    base = u['steps'][0]
    steps = []
    for t in range(nsteps):
        bd, bh = L.yyjjj_add_hours(base['bdate'], base['bhour'], t)
        ed, eh = L.yyjjj_add_hours(base['bdate'], base['bhour'], t + 1)
        data = {}
        for sp in u['names']:
            for e, _ in EDGES:
                ncell = ny if e in ('WEST', 'EAST') else nx
                data[e + '_' + sp] = [[L.finite_word(rng) for _ in range(nz)] for _ in range(ncell)]
        steps.append(dict(bdate=bd, bhour=bh, edate=ed, ehour=eh, data=data))
    g = dict(u['grid'])
    g['iproj'] = rng.choice([0, 1, 2])
    return dict(fmt='lateral_boundary', name='BOUNDARY', note=u['note'], itzon=u['itzon'], names=u['names'], nx=nx, ny=ny, nz=nz,
                grid=g, steps=steps)


def gen_lb_thin(rng, tier='quick', rollover=0.3):
    """a boundary file on a grid that is one cell wide in x and/or y (nx or ny = 1)"""
    c = gen_lb(rng, tier, rollover)
    which = rng.choice(['nx', 'ny', 'both'])
    if which in ('nx', 'both'):
        c['nx'] = 1
    if which in ('ny', 'both'):
        c['ny'] = 1
    for s in c['steps']:
        for sp in c['names']:
            for e, _ in EDGES:
                ncell = c['ny'] if e in ('WEST', 'EAST') else c['nx']
                s['data'][e + '_' + sp] = [[L.finite_word(rng) for _ in range(c['nz'])] for _ in range(ncell)]
    return c


def lb_records(c):
    g = c['grid']
    s0, sl = c['steps'][0], c['steps'][-1]
    fw = L.f32_word
    out = []
    out.append(L.char_words(c['name'], 10) + L.char_words(c['note'], 60) + [c['itzon'], len(c['names'])] +
               [s0['bdate'], fw(float(s0['bhour'])), sl['edate'], fw(float(sl['ehour']))])
    out.append([fw(g['plon']), fw(g['plat']), g['iutm'], fw(g['xorg']), fw(g['yorg']), fw(g['delx']), fw(g['dely']),
                c['nx'], c['ny'], c['nz'], g['iproj'], g['istag'], fw(g['tlat1']), fw(g['tlat2']), fw(0.0)])
    out.append([1, 1, c['nx'], c['ny']])
    out.append([w for n in c['names'] for w in L.char_words(n, 10)])
    for e, ei in EDGES:
        nb = c['ny'] if e in ('WEST', 'EAST') else c['nx']
        icell = {'WEST': 2, 'SOUTH': 2, 'EAST': c['nx'] - 1, 'NORTH': c['ny'] - 1}[e]
        # ione, iedge, ncell, (icell, idum, idum, idum) per boundary cell: exactly 4*ncell words (a 1-cell edge has one entry)
        out.append([1, ei, nb] + ([0, 0, 0, 0] + [icell, 0, 0, 0] * (nb - 2) + [0, 0, 0, 0])[:4 * nb])
    for s in c['steps']:
        out.append([s['bdate'], fw(float(s['bhour'])), s['edate'], fw(float(s['ehour']))])
        for sp in c['names']:
            for e, ei in EDGES:
                out.append([1] + L.char_words(sp, 10) + [ei] + [w for cell in s['data'][e + '_' + sp] for w in cell])
    return out


_records_met = records


def records(c):  # noqa: F811
    if c['fmt'] == 'lateral_boundary':
        return lb_records(c)
    return _records_met(c)


_expected_met = expected_view


def expected_view(c):  # noqa: F811
    if c['fmt'] != 'lateral_boundary':
        return _expected_met(c)
    dims = dict(TSTEP=len(c['steps']), LAY=c['nz'], ROW=c['ny'], COL=c['nx'])
    data = {}
    for sp in c['names']:
        for e, _ in EDGES:
            k = e + '_' + sp
            data[k] = [s['data'][k] for s in c['steps']]
    tflag = [[(2000000 if s['bdate'] < 70000 else 1900000) + s['bdate'], s['bhour'] * 10000] for s in c['steps']]
    etflag = [[(2000000 if s['edate'] < 70000 else 1900000) + s['edate'], s['ehour'] * 10000] for s in c['steps']]
    return dict(dims=dims, data=data, TFLAG=tflag, ETFLAG=etflag)


_open_met = open_memmap


def open_memmap(fmt, path, c):  # noqa: F811
    if fmt == 'lateral_boundary':
        from PseudoNetCDF.camxfiles import Memmaps
        return Memmaps.lateral_boundary(path)
    return _open_met(fmt, path, c)


_write_met = write


def write(fmt, f, path):  # noqa: F811
    if fmt == 'lateral_boundary':
        from PseudoNetCDF.camxfiles.lateral_boundary.Write import ncf2lateral_boundary
        out = ncf2lateral_boundary(f, path)
        if out is not None and hasattr(out, 'close'):
            out.close()
        return
    return _write_met(fmt, f, path)


_observe_met = observe


def observe(f, fmt):  # noqa: F811
    if fmt != 'lateral_boundary':
        return _observe_met(f, fmt)
    import numpy as np
    o = dict(dims={k: len(v) for k, v in f.dimensions.items() if k in ('TSTEP', 'LAY', 'ROW', 'COL', 'VAR')})
    data = {}
    for v in f.variables.keys():
        if v in ('TFLAG', 'ETFLAG'):
            continue
        a = np.asarray(f.variables[v][...], dtype='>f4')
        data[v] = a.view('>u4').astype('int64').tolist()
    o['data'] = data
    if 'TFLAG' in f.variables.keys():
        o['TFLAG'] = np.asarray(f.variables['TFLAG'][:, 0, :]).astype('int64').tolist()
    if 'ETFLAG' in f.variables.keys():
        o['ETFLAG'] = np.asarray(f.variables['ETFLAG'][:, 0, :]).astype('int64').tolist()
    return o


# ---- lateral boundary: the Coq-side content (Model/Lbdy.v `lbdy`), its literal, and the view the library presented
def lb_flat(cells):
    return [w for cell in cells for w in cell]


def lb_struct(c):
    """dict with the fields of Model.Lbdy.lbdy (all words); edges/steps as 4-lists in WEST, EAST, SOUTH, NORTH order"""
    g = c['grid']
    fw = L.f32_word
    s0, sl = c['steps'][0], c['steps'][-1]
    edges = []
    for e, ei in EDGES:
        nb = c['ny'] if e in ('WEST', 'EAST') else c['nx']
        icell = {'WEST': 2, 'SOUTH': 2, 'EAST': c['nx'] - 1, 'NORTH': c['ny'] - 1}[e]
        edges.append(([0, 0, 0, 0] + [icell, 0, 0, 0] * (nb - 2) + [0, 0, 0, 0])[:4 * nb])
    return dict(name=L.char_words(c['name'], 10), note=L.char_words(c['note'], 60), itzon=c['itzon'],
                dates=[s0['bdate'], fw(float(s0['bhour'])), sl['edate'], fw(float(sl['ehour']))],
                gpre=[fw(g['plon']), fw(g['plat']), g['iutm'], fw(g['xorg']), fw(g['yorg']), fw(g['delx']), fw(g['dely'])],
                nx=c['nx'], ny=c['ny'], nz=c['nz'],
                gpost=[g['iproj'], g['istag'], fw(g['tlat1']), fw(g['tlat2']), fw(0.0)],
                spc=[L.char_words(n, 10) for n in c['names']], edges=edges,
                steps=[([s['bdate'], fw(float(s['bhour'])), s['edate'], fw(float(s['ehour']))],
                        [[lb_flat(s['data'][e + '_' + sp]) for e, _ in EDGES] for sp in c['names']]) for s in c['steps']])


def coq_quad(q):
    return '(Quad %s %s %s %s)' % tuple(C.zlist(x) for x in q)


def coq_lbdy(c):
    u = lb_struct(c)
    steps = '[' + '; '.join('(%s, [%s])' % (C.zlist(th), '; '.join(coq_quad(q) for q in qs)) for th, qs in u['steps']) + ']'
    return ('{| l_name := %s; l_note := %s; l_itzon := %s; l_dates := %s; l_gpre := %s; l_nx := %d; l_ny := %d; l_nz := %d; '
            'l_gpost := %s; l_spc := %s; l_edges := %s; l_steps := %s |}') % (
        C.zlist(u['name']), C.zlist(u['note']), C.zc(u['itzon']), C.zlist(u['dates']), C.zlist(u['gpre']),
        u['nx'], u['ny'], u['nz'], C.zlist(u['gpost']), C.zll(u['spc']), coq_quad(u['edges']), steps)


def lb_expected_keys(names):
    return [e + '_' + sp for sp in names for e, _ in EDGES]


def coq_lview(c, view):
    """Coq literals (lview, tflag, etflag) of what the library presented; view = observe(...) or None when it raised.
    The time-header words are not exposed by the reader: lv_dates is rebuilt from the content for the steps presented
    (F still pins them through TFLAG/ETFLAG)."""
    if not view:
        return ('{| lv_nspec := 0; lv_nx := 0; lv_ny := 0; lv_nz := 0; lv_ntimes := 0; lv_names := []; lv_dates := []; '
                'lv_data := [] |}', '[]', '[]')
    dm = view['dims']
    keys = list(view['data'].keys())
    spcs = [k[len('WEST_'):] for k in keys[0::4]]
    nt = dm['TSTEP']
    nrec = len(view['data'][keys[0]]) if keys else 0
    data = []
    for t in range(nrec):
        data.append('[' + '; '.join(coq_quad([lb_flat(view['data'][e + '_' + sp][t]) for e, _ in EDGES]) for sp in spcs) + ']')
    u = lb_struct(c)
    dates = [u['steps'][t][0] for t in range(min(nrec, len(u['steps'])))]
    v = ('{| lv_nspec := %d; lv_nx := %d; lv_ny := %d; lv_nz := %d; lv_ntimes := %d; lv_names := %s; lv_dates := %s; lv_data := %s |}' % (
        dm.get('VAR', 0) // 4, dm['COL'], dm['ROW'], dm['LAY'], nt, C.zll([L.char_words(s, 10) for s in spcs]), C.zll(dates),
        '[' + '; '.join(data) + ']'))
    return v, coq_pairs(view.get('TFLAG', [])), coq_pairs(view.get('ETFLAG', []))


def coq_pairs(ps):
    return '[' + '; '.join('(%d, %d)' % (a, b) for a, b in ps) + ']'


# ---- one3d family (humidity, vertical_diffusivity): the Coq-side content (Model/One3d.v `one3d`) and view literals
O3_FORMATS = ('humidity', 'vertical_diffusivity')


def coq_one3d(c):
    v = VARS[c['fmt']][0]
    steps = '; '.join('(OStep %d %d %s)' % (L.f32_word(float(s['hhmm'])), s['date'], C.zll(s['fields'][v])) for s in c['steps'])
    return '{| o_nx := %d; o_ny := %d; o_nz := %d; o_steps := [%s] |}' % (c['nx'], c['ny'], c['nz'], steps)


def coq_oview(c, view):
    """Coq literals (oview, tflag) of what a library reader presented (view = observe(...) or None when it raised). The
    stamp words are not exposed by the readers: ov_stamps is rebuilt from the content for the steps presented (the Memmap
    reader's are pinned through TFLAG)."""
    if not view:
        return '{| ov_nx := 0; ov_ny := 0; ov_nz := 0; ov_ntimes := 0; ov_stamps := []; ov_data := [] |}', '[]'
    dm = view['dims']
    arr = view['data'][VARS[c['fmt']][0]]
    data = '[' + '; '.join(C.zll([[w for row in lay for w in row] for lay in t]) for t in arr) + ']'
    n = min(len(arr), len(c['steps']))
    stamps = '[' + '; '.join('(%d, %d)' % (L.f32_word(float(s['hhmm'])), s['date']) for s in c['steps'][:n]) + ']'
    v = '{| ov_nx := %d; ov_ny := %d; ov_nz := %d; ov_ntimes := %d; ov_stamps := %s; ov_data := %s |}' % (
        dm['COL'], dm['ROW'], dm['LAY'], dm['TSTEP'], stamps, data)
    return v, coq_pairs(view.get('TFLAG') or [])


# ---- temperature / height_pressure: Coq-side contents (Model/TempHp.v) and view literals
TH_FORMATS = ('temperature', 'height_pressure')


def recs_per_step(c):
    return {'temperature': c['nz'] + 1, 'height_pressure': 2 * c['nz']}.get(c['fmt'], c['nz'])


def coq_temphp(c):
    if c['fmt'] == 'temperature':
        steps = '; '.join('(TStep %d %d %s %s)' % (L.f32_word(float(s['hhmm'])), s['date'], C.zlist(s['fields']['SURFTEMP'][0]),
                                                   C.zll(s['fields']['AIRTEMP'])) for s in c['steps'])
        return '{| t_nx := %d; t_ny := %d; t_nz := %d; t_steps := [%s] |}' % (c['nx'], c['ny'], c['nz'], steps)
    steps = '; '.join('(HStep %d %d [%s])' % (L.f32_word(float(s['hhmm'])), s['date'],
                                               '; '.join('(%s, %s)' % (C.zlist(h), C.zlist(p)) for h, p in zip(s['fields']['HGHT'], s['fields']['PRES'])))
                      for s in c['steps'])
    return '{| h_nx := %d; h_ny := %d; h_nz := %d; h_steps := [%s] |}' % (c['nx'], c['ny'], c['nz'], steps)


def _flat3(arr):
    return C.zll([[w for row in lay for w in row] for lay in arr])


def coq_thview(c, view):
    """Coq literals (tview / hview without stamps, tflag) of what a library reader presented"""
    t = c['fmt'] == 'temperature'
    if not view:
        if t:
            return '{| tv_nx := 0; tv_ny := 0; tv_nz := 0; tv_ntimes := 0; tv_stamps := []; tv_surf := []; tv_air := [] |}', '[]'
        return '{| hv_nx := 0; hv_ny := 0; hv_nz := 0; hv_ntimes := 0; hv_stamps := []; hv_hght := []; hv_pres := [] |}', '[]'
    dm = view['dims']
    tf = coq_pairs(view.get('TFLAG') or [])
    if t:
        surf = view['data']['SURFTEMP']
        # SURFTEMP is (TSTEP, ROW, COL) from the Memmap reader and (TSTEP, 1, ROW, COL) from the record reader
        surf = [x[0] if (x and x[0] and isinstance(x[0][0], list)) else x for x in surf]
        v = '{| tv_nx := %d; tv_ny := %d; tv_nz := %d; tv_ntimes := %d; tv_stamps := []; tv_surf := %s; tv_air := %s |}' % (
            dm['COL'], dm['ROW'], dm['LAY'], dm['TSTEP'], C.zll([[w for row in x for w in row] for x in surf]),
            '[' + '; '.join(_flat3(x) for x in view['data']['AIRTEMP']) + ']')
    else:
        v = '{| hv_nx := %d; hv_ny := %d; hv_nz := %d; hv_ntimes := %d; hv_stamps := []; hv_hght := %s; hv_pres := %s |}' % (
            dm['COL'], dm['ROW'], dm['LAY'], dm['TSTEP'],
            '[' + '; '.join(_flat3(x) for x in view['data']['HGHT']) + ']', '[' + '; '.join(_flat3(x) for x in view['data']['PRES']) + ']')
    return v, tf


# ---- wind: Coq-side content (Model/Wind.v) and view literals
def coq_wind(c):
    steps = '; '.join('(WStep %d %d [%s])' % (L.f32_word(float(s['hhmm'])), s['date'],
                                               '; '.join('(%s, %s)' % (C.zlist(u), C.zlist(v)) for u, v in zip(s['fields']['U'], s['fields']['V'])))
                      for s in c['steps'])
    stag = 'None' if c.get('lstagger') is None else '(Some %s)' % C.zc(c['lstagger'])
    return '{| w_nx := %d; w_ny := %d; w_nz := %d; w_stag := %s; w_dummy := %d; w_steps := [%s] |}' % (
        c['nx'], c['ny'], c['nz'], stag, L.f32_word(0.0), steps)


def coq_wview(c, view):
    if not view:
        return '{| wv_nx := 0; wv_ny := 0; wv_nz := 0; wv_ntimes := 0; wv_stamps := []; wv_u := []; wv_v := [] |}', '[]'
    dm = view['dims']
    f3 = lambda arr: '[' + '; '.join(C.zll([[w for row in lay for w in row] for lay in t]) for t in arr) + ']'  # noqa: E731
    v = '{| wv_nx := %d; wv_ny := %d; wv_nz := %d; wv_ntimes := %d; wv_stamps := []; wv_u := %s; wv_v := %s |}' % (
        dm['COL'], dm['ROW'], dm['LAY'], dm['TSTEP'], f3(view['data']['U']), f3(view['data']['V']))
    return v, coq_pairs(view.get('TFLAG') or [])


# ---- cloud/rain: Coq-side content (Model/CloudRain.v) and view literals
def coq_cloudrain(c):
    import struct
    desc = list(struct.unpack('>5I', c['desc'].ljust(20)[:20].encode('ascii')))
    steps = '; '.join('(CStep %d %d [%s])' % (L.f32_word(float(s['hhmm'])), s['date'],
                                               '; '.join(C.zll([s['fields'][v][k] for v in c['names']]) for k in range(c['nz'])))
                      for s in c['steps'])
    return '{| c_desc := %s; c_nx := %d; c_ny := %d; c_nz := %d; c_nvars := %d; c_steps := [%s] |}' % (
        C.zlist(desc), c['nx'], c['ny'], c['nz'], len(c['names']), steps)


def coq_cview(c, view):
    if not view:
        return '{| cv_nx := 0; cv_ny := 0; cv_nz := 0; cv_ntimes := 0; cv_nvars := 0; cv_stamps := []; cv_data := [] |}', '[]'
    dm = view['dims']
    keys = list(view['data'].keys())
    nt = len(view['data'][keys[0]]) if keys else 0
    data = []
    for t in range(nt):
        data.append('[' + '; '.join(C.zll([[w for row in view['data'][v][t][k] for w in row] for v in keys]) for k in range(dm['LAY'])) + ']')
    v = '{| cv_nx := %d; cv_ny := %d; cv_nz := %d; cv_ntimes := %d; cv_nvars := %d; cv_stamps := []; cv_data := %s |}' % (
        dm['COL'], dm['ROW'], dm['LAY'], dm['TSTEP'], len(keys), '[' + '; '.join(data) + ']')
    return v, coq_pairs(view.get('TFLAG') or [])


# ----------------------------------------------------------------------------- land use (static file, old style: 11 categories)
def gen_landuse(rng):
    nx, ny = rng.randint(1, 3), rng.randint(1, 3)
    fields = {'FLAND': [[L.finite_word(rng) for _ in range(nx * ny)] for _ in range(11)]}
    if rng.random() < 0.7:   # most files: first 8 payload bytes decodable as text (0.0 / small positive values)
        flat = [0, rng.choice([0, 0x3f000000, 0x3e4c4c4c])]
        k = 0
        for cat in fields['FLAND']:
            for i in range(len(cat)):
                if k < 2:
                    cat[i] = flat[k]
                    k += 1
    if rng.random() < 0.5:
        fields['TOPO'] = [[L.finite_word(rng) for _ in range(nx * ny)]]
    return dict(fmt='landuse', nx=nx, ny=ny, nz=1, steps=[dict(date=0, hhmm=0, fields=fields)], lstagger=0)


_records2 = records


def records(c):  # noqa: F811
    if c['fmt'] == 'landuse':
        f = c['steps'][0]['fields']
        out = [[w for cat in f['FLAND'] for w in cat]]
        if 'TOPO' in f:
            out.append(list(f['TOPO'][0]))
        return out
    return _records2(c)


_expected2 = expected_view


def expected_view(c):  # noqa: F811
    if c['fmt'] != 'landuse':
        return _expected2(c)
    f = c['steps'][0]['fields']
    nx, ny = c['nx'], c['ny']
    data = {'FLAND': [[cat[j * nx:(j + 1) * nx] for j in range(ny)] for cat in f['FLAND']]}
    if 'TOPO' in f:
        data['TOPO'] = [f['TOPO'][0][j * nx:(j + 1) * nx] for j in range(ny)]
    return dict(dims=dict(ROW=ny, COL=nx, LANDUSE=11), data=data, TFLAG=None, static=True)


_open2 = open_memmap


def open_memmap(fmt, path, c):  # noqa: F811
    if fmt == 'landuse':
        from PseudoNetCDF.camxfiles import Memmaps
        return Memmaps.landuse(path, c['ny'], c['nx'])
    return _open2(fmt, path, c)


_write2 = write


def write(fmt, f, path):  # noqa: F811
    if fmt == 'landuse':
        from PseudoNetCDF.camxfiles.landuse.Write import ncf2landuse
        out = ncf2landuse(f, path)
        if out is not None and hasattr(out, 'close'):
            out.close()
        return
    return _write2(fmt, f, path)


_observe2 = observe


def observe(f, fmt):  # noqa: F811
    if fmt != 'landuse':
        return _observe2(f, fmt)
    import numpy as np
    o = dict(dims={k: len(v) for k, v in f.dimensions.items() if k in ('ROW', 'COL', 'LANDUSE')})
    data = {}
    for v in f.variables.keys():
        a = np.asarray(f.variables[v][...], dtype='>f4')
        data[v] = a.view('>u4').astype('int64').tolist()
    o['data'] = data
    return o


_vm2 = view_matches


def view_matches(o, e, k=None):  # noqa: F811
    if not e.get('static'):
        return _vm2(o, e, k)
    why = []
    for d, n in e['dims'].items():
        if o['dims'].get(d) != n:
            why.append('dim %s=%s expected %s' % (d, o['dims'].get(d), n))
    if sorted(o['data'].keys()) != sorted(e['data'].keys()):
        why.append('variables %s expected %s' % (sorted(o['data'].keys()), sorted(e['data'].keys())))
    for v, arr in e['data'].items():
        if o['data'].get(v) != arr:
            why.append('data of %s differs' % v)
    return why


# ----------------------------------------------------------------------------- cloud / rain files (3-field layout before CAMx 4.3, 5-field since)
# published layout: header record  cldhdr (20 characters), nxcl, nycl, nzcl ; per time step a record  hour (HHMM), idate
# followed, per layer, by one record per field of nx*ny values:
#   before 4.3 : cloud water, precipitation water, optical depth            (CLOUD, PRECIP, COD)
#   since  4.3 : cloud water, rain, snow, graupel, optical depth            (CLOUD, RAIN, SNOW, GRAUPEL, COD)
CR_FIELDS = {3: ['CLOUD', 'PRECIP', 'COD'], 5: ['CLOUD', 'RAIN', 'SNOW', 'GRAUPEL', 'COD']}


def _cr_ambiguous(c):
    """the library tells the layouts apart by the file size only: a 3-field file whose data size is also a whole number of
    5-field steps is inherently ambiguous (nx*ny = 2, one layer, three steps) and is not generated"""
    if len(c['names']) != 3:
        return False
    lay = c['nz'] * (c['nx'] * c['ny'] + 2) * 4
    return (len(c['steps']) * (3 * lay + 16)) % (5 * lay + 16) == 0


def gen_cloud_rain(rng, tier='quick', rollover=0.3):
    while True:
        u = L.gen_uamiv(rng, tier, rollover)
        nx, ny, nz = rng.randint(1, 3), rng.randint(1, 3), rng.randint(1, 3)
        nsteps = rng.randint(1, 3)
        names = CR_FIELDS[rng.choice([3, 5])]
        r = rng.random()
        if 0.3 <= r < 0.4:
            # a 3-field file whose size is also a whole number of 5-field steps (2 cells, 1 layer, 3 steps: 3 * 64 = 2 * 96 bytes)
            (nx, ny), nz, nsteps, names = rng.choice([(1, 2), (2, 1)]), 1, 3, CR_FIELDS[3]
        if r < 0.3:
            # a 5-field file whose size is ALSO a whole number of 3-field steps (2 cells, 1 layer, 2 steps: 2 * 96 = 3 * 64
            # bytes): the reader must try the 5-field layout first
            (nx, ny), nz, nsteps, names = rng.choice([(1, 2), (2, 1)]), 1, 2, CR_FIELDS[5]
        base = u['steps'][0]
        steps = []
        for t in range(nsteps):
            d, h = L.yyjjj_add_hours(base['bdate'], base['bhour'], t)
            steps.append(dict(date=d, hhmm=h * 100,
                              fields={v: [[L.finite_word(rng) for _ in range(nx * ny)] for _ in range(nz)] for v in names}))
        c = dict(fmt='cloud_rain', nx=nx, ny=ny, nz=nz, names=names, steps=steps, lstagger=0,
                 desc=rng.choice(['CAMx_V4.3 CLOUD_RAIN', 'CAMx_V4.2 CLOUD_RAIN', 'CLOUD RAIN FILE']))
        if not _cr_ambiguous(c) or rng.random() < 0.5:
            return c      # ambiguous 3-field files are kept half of the time: known finding region 21


_records3 = records


def records(c):  # noqa: F811
    if c['fmt'] != 'cloud_rain':
        return _records3(c)
    import struct
    out = [list(struct.unpack('>5I', c['desc'].ljust(20)[:20].encode('ascii'))) + [c['nx'], c['ny'], c['nz']]]
    for s in c['steps']:
        out.append([L.f32_word(float(s['hhmm'])), s['date']])
        for k in range(c['nz']):
            for v in c['names']:
                out.append(list(s['fields'][v][k]))
    return out


_expected3 = expected_view


def expected_view(c):  # noqa: F811
    if c['fmt'] != 'cloud_rain':
        return _expected3(c)
    nx, ny = c['nx'], c['ny']
    dims = dict(TSTEP=len(c['steps']), LAY=c['nz'], ROW=ny, COL=nx)
    data = {v: [[[lay[j * nx:(j + 1) * nx] for j in range(ny)] for lay in s['fields'][v]] for s in c['steps']] for v in c['names']}
    tflag = [[(2000000 if s['date'] < 70000 else 1900000) + s['date'], s['hhmm'] * 100] for s in c['steps']]
    return dict(dims=dims, data=data, TFLAG=tflag, keys=list(c['names']))


_open3 = open_memmap


def open_memmap(fmt, path, c):  # noqa: F811
    if fmt == 'cloud_rain':
        from PseudoNetCDF.camxfiles import Memmaps
        return Memmaps.cloud_rain(path, c['ny'], c['nx'])
    return _open3(fmt, path, c)


_write3 = write


def write(fmt, f, path):  # noqa: F811
    if fmt == 'cloud_rain':
        from PseudoNetCDF.camxfiles.cloud_rain.Write import ncf2cloud_rain
        out = ncf2cloud_rain(f, path)
        if out is not None and hasattr(out, 'close'):
            out.close()
        return
    return _write3(fmt, f, path)


_observe3 = observe


def observe(f, fmt):  # noqa: F811
    if fmt != 'cloud_rain':
        return _observe3(f, fmt)
    import numpy as np
    o = dict(dims={k: len(v) for k, v in f.dimensions.items() if k in ('TSTEP', 'LAY', 'ROW', 'COL', 'VAR')})
    data = {}
    for v in f.variables.keys():
        if v == 'TFLAG':
            continue
        a = np.asarray(f.variables[v][...], dtype='>f4')
        data[v] = a.view('>u4').astype('int64').tolist()
    o['data'] = data
    o['TFLAG'] = np.asarray(f.variables['TFLAG'][:, 0, :]).astype('int64').tolist()
    return o


_vm3 = view_matches


def view_matches(o, e, k=None):  # noqa: F811
    why = _vm3(o, e, k)
    if 'keys' in e and list(o['data'].keys()) != e['keys']:
        why.append('variables %s expected %s' % (list(o['data'].keys()), e['keys']))
    return why
