"""C14 stream for GEOS-Chem bpch: byte prefixes of reference-encoded bpch files through bpch1.
Reuses the C18 machinery (harness/props/c18.py: generator, reference encoder, library driver, Coq term builder) and the Coq side
coq/Corr/BpchPrefix.v (bcheck) / coq/Proofs/BpchPrefixThm.v (prefix_open).

Case format:  dict(kind='bpch-cut', fmt='bpch', mode='rw', noscale=bool, content=<C18 content>, mut=dict(cut=<bytes>))
Splice into harness/props/c14.py (dispatch on case.get('fmt') == 'bpch'):

    from harness import bpchprefix as BP
    # gen():       out += BP.gen(rng, max(2, n // 4), tier)
    # impl():      if BP.is_bpch(case): return BP.impl(case)
    # coq_term():  if BP.is_bpch(case): return BP.coq_term(case, obs)
    # py_check():  if BP.is_bpch(case): return BP.py_check(case, obs)
    # nontrivial():if BP.is_bpch(case): return BP.nontrivial(case, obs)

The Coq term is `(BP <qualified C18 case record>)` of Corr/C14.v's `case14` (the CAMx terms are wrapped as `(Old ...)` by the tail block of
c14.py): every field / constructor is written with its full path because Corr/C14.v re-exports Corr/C09.v, whose Model.Uamiv shares
names with Model.Bpch."""
import re
from harness import common as C
from harness.props import c18 as M

REGION_TRACER_CUT = 18      # = Corr/BpchPrefix.v bpch_tracer_cut_region; finding C14-bpch-first-block-tracer-cut


def is_bpch(case):
    return case.get('fmt') == 'bpch'


def block_ends(c):
    """byte offsets of the end of every data block, and of every time block"""
    ends, tends, off = [], [], 34
    for t in c['times']:
        for tr in c['tracers']:
            off += 57 + tr['dim'][0] * tr['dim'][1] * tr['dim'][2]
            ends.append(4 * off)
        tends.append(4 * off)
    return ends, tends


def pick_cuts(rng, c, count=10):
    """every time-block end, every tracer boundary of the first time block, neighbours of block ends (+-1, +-4, one header
    further: 216..232), a few arbitrary bytes, the short header region"""
    ends, tends = block_ends(c)
    size = ends[-1]
    must = set(tends) | set(ends[:len(c['tracers'])]) | {136, 356, size}
    near = set()
    for e in ends:
        for d in (-4, -1, 1, 4, 216, 220, 224, 228, 232):
            if 0 <= e + d <= size:
                near.add(e + d)
    cuts = sorted(must)
    pool = sorted(near - must)
    rng.shuffle(pool)
    cuts += pool[:max(0, count - len(cuts))]
    cuts += [rng.randint(0, size) for _ in range(3)]
    return sorted(set(cuts))


def gen(rng, n, tier):
    out = []
    for i in range(n):
        scaled = rng.random() < 0.25
        c = M.gen_content(rng, tier, scaled, False)
        for x in pick_cuts(rng, c, 10 if tier != 'search' else 16):
            out.append(dict(kind='bpch-cut', fmt='bpch', mode='rw', noscale=not scaled, content=c, mut=dict(cut=x)))
    return out


def impl(case):
    return M.impl(case)


_FIELDS = ('b_model b_cat b_tid b_unit b_tau b_resv b_nx b_ny b_nz b_start b_data f_ftype f_title f_times t_ord t_name t_scale t_unit '
           'v_cat v_name v_tid v_unit0 v_resv v_nx v_ny v_nz v_start v_scale v_unit r_ftype r_title r_model r_nx r_ny r_vars r_taus r_data '
           's_ftype s_title s_vars s_taus s_data').split()
_CTORS = 'TName TNum UTab UHdr'.split()


def qualify(term):
    """C18 case term -> the same term with fully qualified names (usable where Model.Bpch / Corr.C18 are loaded but not imported)"""
    term = re.sub(r'\b(%s) :=' % '|'.join(_FIELDS), r'PNC.Model.Bpch.\1 :=', term)
    term = re.sub(r'\((%s) ' % '|'.join(_CTORS), r'(PNC.Model.Bpch.\1 ', term)
    term = re.sub(r'\((-?\d+|\(-\d+\)) # (\d+)\)', r'(Coq.QArith.QArith_base.Qmake \1 \2)', term)
    assert term.startswith('(Case ')
    return '(PNC.Corr.C18.Case ' + term[len('(Case '):]


def coq_term(case, obs):
    t = M.coq_term(case, obs)
    return None if t is None else '(BP %s)' % qualify(t)


def py_check(case, obs):
    """independent oracle for the C14 statement on one cut: the reader raises, or presents exactly the first k whole time blocks"""
    if 'raises' in obs:
        return dict(s_ok=False, why='harness/impl raised ' + str(obs)[:200])
    c = case['content']
    cut = case['mut']['cut']
    ends, tends = block_ends(c)
    p = len(c['tracers'])
    region = REGION_TRACER_CUT if cut in ends[:p - 1] else 0
    if not obs.get('open_ok'):
        return dict(s_ok=True, region=region, why='')
    why = []
    k = obs['ntime']
    if len(obs['vars']) != p:
        why.append('prefix of %d of %d bytes opened with %d of %d tracers in %d time block(s)' % (cut, ends[-1], len(obs['vars']), p, k))
    elif not (1 <= k <= len(c['times']) and tends[k - 1] <= cut):
        why.append('prefix of %d bytes presents %d time blocks; only %d are complete' % (cut, k, sum(1 for e in tends if e <= cut)))
    else:
        import numpy as np
        tabs = M.lookup_tables(c)
        for j, (tr, v) in enumerate(zip(c['tracers'], obs['vars'])):
            name, scale, unit = M.py_lookup(tabs, tr)
            for t in range(k):
                raw = np.array(c['times'][t]['data'][j], dtype='>u4').view('>f4')
                exp = raw if case['noscale'] else (raw.astype('f') * np.float32(scale)).astype('>f4')
                if exp.view('>u4').astype('int64').tolist() != v['data'][t]:
                    why.append('prefix of %d bytes: data of %s at time %d differ from the full file' % (cut, v['key'], t))
                    break
        for t in range(k):
            tm = c['times'][t]
            if obs['taus'][t] != M.f64words(float.fromhex(tm['tau'][0])) + M.f64words(float.fromhex(tm['tau'][1])):
                why.append('time bounds of block %d differ' % t)
    return dict(s_ok=not why, region=region, why='; '.join(why[:3]))


def nontrivial(case, obs):
    return bool(obs.get('open_ok'))
