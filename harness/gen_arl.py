"""Tie T for C20's file layer: regenerate coq/Gen/Arl.v from /repo's noaafiles/_arl.py.

translate/py2coq.py (read-only) supplies the expression translator; the forms of _arl.py it does not know are
normalised here first, fail-closed (anything unexpected raises Untranslatable = a broken translation obligation):
  * dtype([('NAME', '>10S'), ...])   list-of-pairs dtype literals with numpy S formats ('>10S', '>S4', '(%d,%d)>1S' % (..)),
                                      a pair may also name an already translated dtype (nested record)
  * d['KEY'] / d['KEY'][i]            a dictionary / record field read is a parameter named KEY / KEY_i
  * INT(x), np.float32(x)             numeric casts of integer-valued expressions are the identity
  * X.sum()                           a parameter named X_sum
  * slices of `vheader` in readvardef and the `vardef += ...` pieces of writevardef are extracted as constants
"""
import ast, os, re
from harness import common as C
from translate import py2coq as P

U = P.Untranslatable


class _Norm(ast.NodeTransformer):
    def visit_Subscript(self, node):
        self.generic_visit(node)
        v, s = node.value, node.slice
        if isinstance(v, ast.Name) and isinstance(s, ast.Constant) and isinstance(s.value, str) and re.fullmatch(r'[A-Za-z_]\w*', s.value):
            return ast.copy_location(ast.Name(id=s.value, ctx=ast.Load()), node)
        if isinstance(v, ast.Name) and isinstance(s, ast.Constant) and isinstance(s.value, int) and s.value >= 0 and v.id.isupper():
            return ast.copy_location(ast.Name(id='%s_%d' % (v.id, s.value), ctx=ast.Load()), node)
        return node

    def visit_Call(self, node):
        self.generic_visit(node)
        f = node.func
        if isinstance(f, ast.Name) and f.id in ('INT', 'FLOAT') and len(node.args) == 1:
            return node.args[0]
        if isinstance(f, ast.Attribute) and f.attr in ('float32', 'int32') and isinstance(f.value, ast.Name) and f.value.id == 'np' and len(node.args) == 1:
            return node.args[0]
        if isinstance(f, ast.Attribute) and f.attr == 'sum' and isinstance(f.value, ast.Name) and not node.args:
            return ast.copy_location(ast.Name(id=f.value.id + '_sum', ctx=ast.Load()), node)
        return node


def norm(node):
    import copy
    return ast.fix_missing_locations(_Norm().visit(copy.deepcopy(node)))


def defn(coqname, node, params, ty='Z'):
    cx = P.Ctx()
    term = P.expr(norm(node), cx)
    free = sorted(set(re.findall(r'\bv_[A-Za-z_][A-Za-z0-9_]*', term)))
    want = ['v_' + p for p in params]
    for f in free:
        if f not in want:
            raise U('free variable %s in %s not among declared parameters %s' % (f, coqname, params))
    ps = ' '.join('(v_%s : Z)' % p for p in params)
    return 'Definition %s %s : %s := %s.\n' % (coqname, ps, ty, term)


def one(vals, what):
    if len(vals) != 1:
        raise U('%s: expected exactly one assignment, found %d' % (what, len(vals)))
    return vals[0]


def s_format(node, known):
    """one format element of a list-of-pairs dtype -> (count term, size term)"""
    if isinstance(node, ast.Name):
        if node.id not in known:
            raise U('dtype element names unknown dtype %s' % node.id)
        return '1', '(dtype_itemsize %s)' % known[node.id]
    fill = []
    if isinstance(node, ast.Call) and getattr(node.func, 'id', getattr(node.func, 'attr', '')) == 'dtype' and len(node.args) == 1:
        node = node.args[0]
    if isinstance(node, ast.BinOp) and isinstance(node.op, ast.Mod) and isinstance(node.left, ast.Constant):
        r = node.right
        fill = [P.expr(norm(e), P.Ctx()) for e in (r.elts if isinstance(r, ast.Tuple) else [r])]
        node = node.left
    if not (isinstance(node, ast.Constant) and isinstance(node.value, str)):
        raise U('dtype format element')
    m = re.fullmatch(r'\s*(?:\(([^)]*)\))?\s*[<>=|]?(\d*)S(\d*)\s*', node.value)
    if not m or (m.group(2) and m.group(3)) or not (m.group(2) or m.group(3)):
        raise U('dtype format string %r' % node.value)
    size = int(m.group(2) or m.group(3))
    cnt = '1'
    if m.group(1) is not None:
        dims = []
        for d in m.group(1).split(','):
            d = d.strip()
            if d == '%d':
                if not fill:
                    raise U('unfilled %d')
                dims.append(fill.pop(0))
            elif d:
                dims.append(str(int(d)))
        cnt = '(' + ' * '.join(dims) + ')'
    if fill:
        raise U('unused % arguments in dtype format')
    return cnt, str(size)


def dtype_pairs(node, coqname, params, known):
    if not (isinstance(node, ast.Call) and getattr(node.func, 'id', getattr(node.func, 'attr', '')) == 'dtype' and len(node.args) == 1
            and isinstance(node.args[0], ast.List)):
        raise U('%s: not a dtype([...]) literal' % coqname)
    rows = []
    for e in node.args[0].elts:
        if not (isinstance(e, ast.Tuple) and len(e.elts) == 2 and isinstance(e.elts[0], ast.Constant) and isinstance(e.elts[0].value, str)):
            raise U('%s: dtype element is not a (name, format) pair' % coqname)
        cnt, size = s_format(e.elts[1], known)
        rows.append('("%s"%%string, %s, %s)' % (e.elts[0].value, cnt, size))
    ps = ' '.join('(v_%s : Z)' % p for p in params)
    return 'Definition %s %s : list (string * Z * Z) :=\n  [%s].\n' % (coqname, ps, ';\n   '.join(rows))


def slices_of(fn, name):
    """all `name[a:b]` slices inside fn, in source order -> Coq list (option Z * option Z)"""
    out = []
    for n in sorted((n for n in ast.walk(fn) if isinstance(n, ast.Subscript)), key=lambda n: (n.lineno, n.col_offset)):
        if isinstance(n.value, ast.Name) and n.value.id == name and isinstance(n.slice, ast.Slice):
            if n.slice.step is not None:
                raise U('slice step')
            b = []
            for x in (n.slice.lower, n.slice.upper):
                if x is None:
                    b.append('None')
                elif isinstance(x, ast.Constant) and isinstance(x.value, int):
                    b.append('(Some %d)' % x.value)
                else:
                    raise U('non-constant slice bound')
            out.append('(%s, %s)' % tuple(b))
    if not out:
        raise U('no slices of %s' % name)
    return out


def piece_width(v):
    """width of one `vardef += <piece>` of writevardef"""
    if isinstance(v, ast.Constant) and isinstance(v.value, str):
        return len(v.value)
    if isinstance(v, ast.BinOp) and isinstance(v.op, ast.Mod) and isinstance(v.left, ast.Constant) and isinstance(v.left.value, str):
        m = re.fullmatch(r'%(\d+)d', v.left.value)
        if m:
            return int(m.group(1))
    if isinstance(v, ast.Subscript) and isinstance(v.slice, ast.Slice) and v.slice.lower is None and isinstance(v.slice.upper, ast.Constant):
        return int(v.slice.upper.value)        # x[:6]
    if isinstance(v, ast.Call) and isinstance(v.func, ast.Attribute) and v.func.attr == 'decode':
        return piece_width(v.func.value)         # x.ljust(4)[:4].decode()
    raise U('writevardef piece ' + ast.dump(v)[:80])


def fmt_width(m, qual, target):
    v = one(m.assignments(qual, target), target)
    if isinstance(v, ast.BinOp) and isinstance(v.op, ast.Mod) and isinstance(v.left, ast.Constant):
        mm = re.fullmatch(r'%(\d+)(?:\.\d+)?[dE]', v.left.value)
        if mm:
            return int(mm.group(1)), v.right
    raise U('format of ' + target)


def translate():
    path = os.path.join(C.SRC, 'PseudoNetCDF', 'noaafiles', '_arl.py')
    out = [P.HEADER % 'noaafiles/_arl.py (via harness/gen_arl.py)']
    res = []

    def step(anchor, f):
        try:
            out.append(f())
            res.append(dict(anchor=anchor, ok=True, detail=''))
        except Exception as e:  # fail closed
            res.append(dict(anchor=anchor, ok=False, detail='%s: %s' % (type(e).__name__, e)))

    try:
        m = P.Module(path)
    except Exception as e:
        return [dict(anchor='_arl.py', ok=False, detail=str(e))]
    known = {}

    def dt(target, qual, coqname, params=()):
        def f():
            s = dtype_pairs(one(m.assignments(qual, target), target), coqname, params, known)
            known[target] = coqname
            return s
        return f
    step('_arl.thdtype', dt('thdtype', '', 'arl_thdtype'))
    step('_arl.vhdtype', dt('vhdtype', '', 'arl_vhdtype'))
    step('_arl.maparlpackedbit.lay1dtype', dt('lay1dtype', 'maparlpackedbit', 'arl_lay1dtype', ('ny', 'nx')))
    Q = 'maparlpackedbit'
    step('_arl.maparlpackedbit.srflen', lambda: defn('arl_srflen', one(m.assignments(Q, 'srflen'), 'srflen'), ['len_sfckeys']))
    step('_arl.maparlpackedbit.laylen', lambda: defn('arl_laylen', one(m.assignments(Q, 'laylen'), 'laylen'), ['len_laykeys', 'NZ']))
    step("_arl.maparlpackedbit.props['LENH']", lambda: defn('arl_LENH', one(m.assignments(Q, "props['LENH']"), 'LENH'), ['srflen', 'laylen']))
    step('_arl.maparlpackedbit.ncell', lambda: defn('arl_ncell', one(m.assignments(Q, 'ncell'), 'ncell'), ['nx', 'ny']))

    def hdr():
        v = one(m.assignments(Q, 'hdrdtype'), 'hdrdtype')
        if not (isinstance(v, ast.Call) and len(v.args) == 1 and isinstance(v.args[0], ast.BinOp) and isinstance(v.args[0].op, ast.Mod)
                and isinstance(v.args[0].left, ast.Constant) and v.args[0].left.value == '>S%d'):
            raise U('hdrdtype form')
        return defn('arl_hdrlen', v.args[0].right, ['ncell', 'hlen', 'thdtype_itemsize'])
    step('_arl.maparlpackedbit.hdrdtype', hdr)

    def vardef():
        v = one(m.assignments(Q, 'vardefdtype'), 'vardefdtype')
        if not (isinstance(v, ast.Call) and len(v.args) == 1 and isinstance(v.args[0], ast.BinOp) and v.args[0].left.value == '>S%d'):
            raise U('vardefdtype form')
        return defn('arl_vardeflen', v.args[0].right, ['hlen'])
    step('_arl.maparlpackedbit.vardefdtype', vardef)

    def timedtype():
        v = one(m.assignments(Q, 'timedtype'), 'timedtype')
        names = [e.elts[0].value for e in v.args[0].elts]
        vals = [getattr(e.elts[1], 'id', None) for e in v.args[0].elts]
        if names != ['timehead', 'vardef', 'hdr', 'surface', 'layers'] or vals != ['thdtype', 'vardefdtype', 'hdrdtype', 'sfcdtype', 'layersdtype']:
            raise U('timedtype field order %r' % (names,))
        return ('(* timedtype = timehead(thdtype) vardef hdr surface layers, in this order *)\n'
                'Definition arl_timedtype_order : list string := [%s].\n' % '; '.join('"%s"%%string' % n for n in names))
    step('_arl.maparlpackedbit.timedtype', timedtype)

    step('_arl.pack2d.KSUM', lambda: defn('arl_ksum', one(m.assignments('pack2d', 'KSUM'), 'KSUM'), ['CVAR_sum']))

    def shift(qual, target, coqname, params):
        v = one(m.assignments(qual, target), target)
        subs = [n for n in ast.walk(v) if isinstance(n, ast.BinOp) and isinstance(n.op, ast.Sub)]
        if len(subs) != 1:
            raise U('%s: expected one subtraction (7 - exponent)' % target)
        return defn(coqname, subs[0], params)
    step('_arl.pack2d.SCEXP', lambda: shift('pack2d', 'SCEXP', 'arl_pack_shift', ['NEXP']))
    step('_arl.unpack.scale', lambda: shift('unpack', 'scale', 'arl_unpack_shift', ['EXP']))

    def inqvh():
        v = one(m.assignments('inqarlpackedbit', 'vheader'), 'vheader')
        kw = None
        if isinstance(v, ast.Subscript) and isinstance(v.value, ast.Call):
            kw = {k.arg: k.value for k in v.value.keywords}.get('dtype')
        if not (isinstance(kw, ast.BinOp) and isinstance(kw.op, ast.Mod) and isinstance(kw.left, ast.Constant) and kw.left.value == '>%dS'):
            raise U('inqarlpackedbit vheader dtype form')
        return defn('arl_inq_vheaderlen', kw.right, ['hlen'])
    step('_arl.inqarlpackedbit.vheader', inqvh)

    def bump():
        fn = m.find('pack2d')
        hits = []
        for n_ in ast.walk(fn):
            if (isinstance(n_, ast.If) and isinstance(n_.test, ast.Compare) and len(n_.test.ops) == 1 and isinstance(n_.test.ops[0], ast.Gt)
                    and isinstance(n_.test.left, ast.BinOp) and isinstance(n_.test.left.op, ast.Mult)
                    and isinstance(n_.test.left.left, ast.Name) and n_.test.left.left.id == 'RMAX'
                    and isinstance(n_.test.left.right, ast.BinOp) and isinstance(n_.test.left.right.op, ast.Pow)
                    and isinstance(n_.test.left.right.left, ast.Constant) and n_.test.left.right.left.value == 2.0
                    and isinstance(n_.test.comparators[0], ast.Constant)
                    and len(n_.body) == 1 and isinstance(n_.body[0], ast.Assign) and not n_.orelse):
                hits.append(n_)
        if len(hits) != 1:
            raise U('pack2d: expected exactly one `if RMAX * 2.0**(..) > c: NEXP = ...`')
        t = hits[0]
        return (defn('arl_bump_shift', t.test.left.right.right, ['NEXP'])
                + 'Definition arl_bump_limit : Z := %d.\n' % int(t.test.comparators[0].value)
                + defn('arl_bump_nexp', t.body[0].value, ['NEXP']))
    step('_arl.pack2d.range-bump', bump)

    def gridoff(t, p):
        return lambda: defn('arl_' + t, one(m.assignments('inqarlpackedbit', t), t), [p])
    step('_arl.inqarlpackedbit.gridx_off', gridoff('gridx_off', 'GRID_0'))
    step('_arl.inqarlpackedbit.gridy_off', gridoff('gridy_off', 'GRID_1'))

    def rslices():
        return ('(* vheader[a:b] slices of readvardef in source order: level text, count, advance, key, checksum, advance *)\n'
                'Definition arl_readvardef_slices : list (option Z * option Z) :=\n  [%s].\n' % '; '.join(slices_of(m.find('readvardef'), 'vheader')))
    step('_arl.readvardef.slices', rslices)

    def wpieces():
        fn = m.find('writevardef')
        ws = [piece_width(n.value) for n in sorted((n for n in ast.walk(fn) if isinstance(n, ast.AugAssign)), key=lambda n: n.lineno)
              if isinstance(n.target, ast.Name) and n.target.id == 'vardef' and isinstance(n.op, ast.Add)]
        ret = [n for n in ast.walk(fn) if isinstance(n, ast.Return)]
        if len(ret) != 1:
            raise U('writevardef returns')
        r = ret[0].value
        if not (isinstance(r, ast.Call) and isinstance(r.func, ast.Attribute) and r.func.attr == 'ljust' and len(r.args) == 1
                and isinstance(r.args[0], ast.BinOp) and isinstance(r.args[0].op, ast.Add) and isinstance(r.args[0].right, ast.Constant)):
            raise U('writevardef return form')
        return ('(* widths of the pieces appended per level (height, count) and per variable (key, checksum, blank) *)\n'
                'Definition arl_writevardef_widths : list Z := [%s].\nDefinition arl_writevardef_extra : Z := %d.\n'
                % ('; '.join(str(w) for w in ws), r.args[0].right.value))
    step('_arl.writevardef.pieces', wpieces)

    def wlabel():
        W = 'writearlpackedbit'
        ws = []
        for t in ["varhead['LEVEL']", "varhead['EXP']", "varhead['PREC']", "varhead['VAR1']"]:
            w, arg = fmt_width(m, W, t)
            ws.append(w)
            if t == "varhead['LEVEL']":
                lvl = defn('arl_w_level', arg, ['li'])
        return lvl + 'Definition arl_w_label_widths : list Z := [%s].\n' % '; '.join(str(w) for w in ws)
    step('_arl.writearlpackedbit.layer-label', wlabel)

    P.write_if_changed(os.path.join(C.COQ, 'Gen', 'Arl.v'), ''.join(out))
    return res
