"""Tie T for the CAMx binary family: regenerate coq/Gen/Camx.v from /repo's working tree."""
import os
from harness import common as C
from translate import py2coq as P


def translate():
    R = os.path.join(C.SRC, 'PseudoNetCDF', 'camxfiles')
    out = [P.HEADER % 'camxfiles/timetuple.py, uamiv/Read.py, uamiv/Memmap.py, uamiv/Write.py']
    res = []

    def step(anchor, f):
        try:
            out.append(f())
            res.append(dict(anchor=anchor, ok=True, detail=''))
        except Exception as e:  # fail closed: the obligation is reported broken
            res.append(dict(anchor=anchor, ok=False, detail='%s: %s' % (type(e).__name__, e)))

    # ---- timetuple
    tt = P.Module(os.path.join(R, 'timetuple.py'))
    cx = P.Ctx()
    for f in ['timeadd', 'timediff', 'cmp_time', 'timerange']:
        step('timetuple.' + f, lambda f=f: tt.function(f, 'tt_' + f, cx) + '\n')
    # ---- uamiv/Read.py record arithmetic
    ur = P.Module(os.path.join(R, 'uamiv', 'Read.py'))
    cx2 = P.Ctx(funcs=dict(cx.funcs), selffields=[], selfprefix='ur')
    body = []
    for f in ['layerrecords', 'spcrecords', 'timerecords', 'recordposition']:
        def g(f=f):
            body.append(ur.function('uamiv.' + f, 'ur_' + f, cx2) + '\n')
            return ''
        step('uamiv/Read.uamiv.__' + f, g)
    out.append(P.self_record(cx2))
    out.extend(body)
    for tgt, ps in [('padded_size', ['record_size']), ('cell_count', ['record_size'])]:
        pass
    # ---- uamiv/Memmap.py block arithmetic and dtype literals
    um = P.Module(os.path.join(R, 'uamiv', 'Memmap.py'))
    for t, ps in [('date_time_block_size', []), ('spc_1_lay_block_size', ['nx', 'ny']),
                  ('data_block_size', ['date_time_block_size', 'nspec', 'nz', 'spc_1_lay_block_size'])]:
        step('uamiv/Memmap.__readheader.' + t, lambda t=t, ps=ps: um.assign_expr('uamiv.readheader', t, 'um_' + t, ps)[0])
    step('uamiv/Memmap.__readheader.ntimes',
         lambda: um.assign_expr('uamiv.readheader', 'ntimes', 'um_ntimes', ['size', 'offset', 'data_block_size'], q=True)[0])
    for t in ['emiss_hdr_fmt', 'grid_hdr_fmt', 'cell_hdr_fmt', 'time_hdr_fmt', 'spc_fmt']:
        step('uamiv/Memmap._make_header_fmt.' + t, lambda t=t: um.dtype_literal('uamiv._make_header_fmt', t, 'um_' + t))
    step('uamiv/Memmap.__readheader.spc_1_lay_fmt', lambda: um.dtype_literal('uamiv.readheader', 'spc_1_lay_fmt', 'um_spc_1_lay_fmt', ['ny', 'nx']))
    step('uamiv/Memmap.__readheader.date_time_fmt', lambda: um.dtype_literal('uamiv.readheader', 'date_time_fmt', 'um_date_time_fmt'))
    # ---- uamiv/Write.py layouts and pads
    uw = P.Module(os.path.join(R, 'uamiv', 'Write.py'))
    for t in ['_emiss_hdr_fmt', '_grid_hdr_fmt', '_cell_hdr_fmt', '_time_hdr_fmt', '_spc_fmt']:
        step('uamiv/Write.' + t, lambda t=t: uw.dtype_literal('', t, 'uw' + t))
    step('uamiv/Write.ncf2uamiv.buf', lambda: uw.assign_expr('ncf2uamiv', 'buf', 'uw_buf', ['data_size'], rename=None)[0])
    step("uamiv/Write.ncf2uamiv.spc_hdr['SPAD1']", lambda: uw.assign_expr('ncf2uamiv', "spc_hdr['SPAD1']", 'uw_spc_pad', ['nspec'])[0])
    step("uamiv/Write.ncf2uamiv.time_hdr['SPAD']", lambda: uw.assign_expr('ncf2uamiv', "time_hdr['SPAD']", 'uw_time_pad', [])[0])
    step('uamiv/Write.ncf2uamiv.date_s', lambda: uw.assign_expr('ncf2uamiv', 'date_s', 'uw_date2', ['date_s'], index=0)[0])

    # ---- met / boundary writers: record pads (must equal the byte count of the payload that follows)
    def mod(rel):
        return P.Module(os.path.join(R, rel))
    tw = mod('temperature/Write.py')
    step('temperature/Write.ncf2temperature.nelem', lambda: tw.assign_expr('ncf2temperature', 'nelem', 'tw_nelem', ['nr', 'nc'])[0])
    ow = mod('one3d/Write.py')
    step('one3d/Write.ncf2one3d.buf', lambda: ow.assign_expr('ncf2one3d', 'buf', 'ow_buf', ['v2d_size'])[0])
    hw = mod('height_pressure/Write.py')
    step('height_pressure/Write.ncf2height_pressure.buf', lambda: hw.assign_expr('ncf2height_pressure', 'buf', 'hw_buf', ['h2d_size'])[0])
    ww = mod('wind/Write.py')
    step('wind/Write.ncf2wind.buf[0]', lambda: ww.assign_expr('ncf2wind', 'buf', 'ww_buf_hdr', [], index=0)[0])
    step('wind/Write.ncf2wind.buf[1]', lambda: ww.assign_expr('ncf2wind', 'buf', 'ww_buf_data', ['vals_size'], index=1)[0])
    lw = mod('lateral_boundary/Write.py')
    step('lateral_boundary/Write.buf[0]', lambda: lw.assign_expr('ncf2lateral_boundary', 'buf', 'lw_buf_edge', ['nbcell'], index=0)[0])
    step('lateral_boundary/Write.buf[1]', lambda: lw.assign_expr('ncf2lateral_boundary', 'buf', 'lw_buf_data', ['data_size'], index=1)[0])
    lm = mod('lateral_boundary/Memmap.py')
    step('lateral_boundary/Memmap.data_block_size', lambda: lm.assign_expr('lateral_boundary.readheader', 'data_block_size', 'lm_data_block_size',
                                                                           ['date_time_block_size', 'nspec', 'spc_lat_block_size'])[0])
    step('lateral_boundary/Memmap.date_time_block_size', lambda: lm.assign_expr('lateral_boundary.readheader', 'date_time_block_size', 'lm_date_time_block_size', [])[0])
    # ---- lateral_boundary/Memmap.py: class-level header dtypes, the dtypes and block arithmetic of __readheader
    for t in ['emiss_hdr_fmt', 'grid_hdr_fmt', 'cell_hdr_fmt', 'time_hdr_fmt', 'spc_fmt']:
        step('lateral_boundary/Memmap.__' + t, lambda t=t: lm.dtype_literal('lateral_boundary', t, 'lm_' + t))
    step('lateral_boundary/Memmap.__readheader.__bound_fmt',
         lambda: lm.dtype_literal('lateral_boundary.readheader', 'bound_fmt', 'lm_bound_fmt', ['bdim']))
    step('lateral_boundary/Memmap.__readheader.date_time_fmt',
         lambda: lm.dtype_literal('lateral_boundary.readheader', 'date_time_fmt', 'lm_date_time_fmt'))
    step('lateral_boundary/Memmap.__readheader.spc_we_fmt',
         lambda: lm.dtype_literal('lateral_boundary.readheader', 'spc_we_fmt', 'lm_spc_we_fmt', ['ny', 'nz']))
    step('lateral_boundary/Memmap.__readheader.spc_sn_fmt',
         lambda: lm.dtype_literal('lateral_boundary.readheader', 'spc_sn_fmt', 'lm_spc_sn_fmt', ['nx', 'nz']))
    step('lateral_boundary/Memmap.__readheader.spc_lat_block_size',
         lambda: lm.assign_expr('lateral_boundary.readheader', 'spc_lat_block_size', 'lm_spc_lat_block_size', ['spc_lat_fmt_itemsize'])[0])
    # ntimes = float(size - offset) // 4. // data_block_size : FLOOR division (exact in binary64 while size < 2^53)
    step('lateral_boundary/Memmap.__readheader.ntimes',
         lambda: lm.assign_expr('lateral_boundary.readheader', 'ntimes', 'lm_ntimes', ['size', 'offset', 'data_block_size'])[0])
    # ---- lateral_boundary/Write.py layouts, pads, two-digit-year expression
    for t in ['_emiss_hdr_fmt', '_grid_hdr_fmt', '_cell_hdr_fmt', '_time_hdr_fmt', '_spc_fmt']:
        step('lateral_boundary/Write.' + t, lambda t=t: lw.dtype_literal('', t, 'lw' + t))
    step("lateral_boundary/Write.spc_hdr['SPAD1']",
         lambda: lw.assign_expr('ncf2lateral_boundary', "spc_hdr['SPAD1']", 'lw_spc_pad', ['nspec'])[0])
    step("lateral_boundary/Write.time_hdr['SPAD']",
         lambda: lw.assign_expr('ncf2lateral_boundary', "time_hdr['SPAD']", 'lw_time_pad', [])[0])
    step('lateral_boundary/Write.date', lambda: lw.assign_expr('ncf2lateral_boundary', 'date', 'lw_date2', ['date'], index=0)[0])
    # ---- one3d family (one3d / humidity / vertical_diffusivity): Memmap.py record arithmetic, Read.py seek arithmetic
    om = mod('one3d/Memmap.py')
    step('one3d/Memmap.__init__.__record_items',
         lambda: om.assign_expr('one3d.__init__', 'record_items', 'om_record_items', ['rows', 'cols'])[0])
    # time_steps = self.__records / lays : TRUE division (a float); createDimension truncates it with int()
    step('one3d/Memmap.__init__.time_steps',
         lambda: om.assign_expr('one3d.__init__', 'time_steps', 'om_time_steps', ['records', 'lays'], q=True)[0])
    orr = mod('one3d/Read.py')
    cx3 = P.Ctx(funcs=dict(cx.funcs), selffields=[], selfprefix='o3r')
    body3 = []
    for f in ['layerrecords', 'timerecords', 'recordposition']:
        def g3(f=f):
            body3.append(orr.function('one3d.' + f, 'o3r_' + f, cx3) + '\n')
            return ''
        step('one3d/Read.one3d.__' + f, g3)
    out.append(P.self_record(cx3))
    out.extend(body3)
    step('one3d/Read.__readheader.padded_size',
         lambda: orr.assign_expr('one3d.readheader', 'padded_size', 'o3r_padded_size_of', ['record_size'])[0])
    # ---- height_pressure/Read.py seek arithmetic; temperature/Read.py position generators (start and increment)
    hr = mod('height_pressure/Read.py')
    cx4 = P.Ctx(funcs=dict(cx.funcs), selffields=[], selfprefix='hpr')
    body4 = []
    for f in ['layerrecords', 'timerecords', 'recordposition']:
        def g4(f=f):
            body4.append(hr.function('height_pressure.' + f, 'hpr_' + f, cx4) + '\n')
            return ''
        step('height_pressure/Read.height_pressure.__' + f, g4)
    out.append(P.self_record(cx4))
    out.extend(body4)
    tr = mod('temperature/Read.py')
    step('temperature/Read.__readheader.area_padded_size',
         lambda: tr.assign_expr('temperature.readheader', 'area_padded_size', 'tr_area_padded_size_of', ['area_size'])[0])
    step('temperature/Read.__readheader.padded_size',
         lambda: tr.assign_expr('temperature.readheader', 'padded_size', 'tr_padded_size_of', ['record_size'])[0])
    step('temperature/Read.__surfpos.pos',
         lambda: tr.assign_expr('temperature.surfpos', 'pos', 'tr_surfpos0', ['data_start_byte'])[0])
    step('temperature/Read.__surfpos.inc',
         lambda: tr.assign_expr('temperature.surfpos', 'inc', 'tr_surf_inc', ['area_padded_size', 'padded_size', 'nlayers'])[0])
    step('temperature/Read.__airpos.pos',
         lambda: tr.assign_expr('temperature.airpos', 'pos', 'tr_airpos0', ['area_padded_size', 'data_start_byte'])[0])
    step('temperature/Read.__airpos.inc',
         lambda: tr.assign_expr('temperature.airpos', 'inc', 'tr_air_inc', ['area_padded_size', 'padded_size', 'nlayers'])[0])
    # ---- wind/Read.py seek arithmetic
    wrd = mod('wind/Read.py')
    cx5 = P.Ctx(funcs=dict(cx.funcs), selffields=[], selfprefix='wr')
    body5 = []
    for f in ['layerrecords', 'timerecords', 'recordposition']:
        def g5(f=f):
            body5.append(wrd.function('wind.' + f, 'wr_' + f, cx5) + '\n')
            return ''
        step('wind/Read.wind.__' + f, g5)
    out.append(P.self_record(cx5))
    out.extend(body5)
    text = ''.join(out)
    P.write_if_changed(os.path.join(C.COQ, 'Gen', 'Camx.v'), text)
    return res
