"""C04 — PseudoNetCDFFile.stack concatenates in argument order and inverts splitting (core/_files.py);
legacy functional form core/_functions.stack_files."""
from harness import common as C
from harness.props import c02 as S2

ID = 'C04'
N = {'quick': 1500, 'thorough': 20000}
SEARCH_N = {'quick': 2500, 'thorough': 15000}
SHARD = 150
CASE_TIMEOUT = 30.0
RULE = ('files with 1..4 dimensions of length 1..5, 1..4 variables of rank 0..4 over arbitrary dimension subsets/orders (masked and '
        'unmasked, int32/float32/float64, own fill_value / missing_value / _FillValue among 0, -999, -1, numpy default with UNMASKED cells holding exactly '
        'that value, coordinate variable of the stack dimension, attributes), distinct integer cells per file; "split": every partition of the '
        'chosen dimension into 1..5 consecutive pieces (length-1 and occasionally empty pieces) made with sliceDimensions, stacked, compared '
        'with the original, and the stacked file sliced at every extent compared with the piece; "multi": 2..5 independently built files of '
        'differing lengths along the stack dimension (any axis position) stacked in order, `other` given as list or as single file; '
        '"mfopen": the split pieces saved as netCDF part<i>.nc (no zero padding, sometimes >= 10 pieces) and opened with pncmfopen (with and without '
        'format=) or netcdf.open_mfdataset in shuffled / reversed / rotated / split argument order, compared with the model stack of the same list; '
        '"legacy": stack_files on the same inputs; malformed: unknown stack dimension, another dimension disagreeing. '
        'Non-trivial = the call succeeded on >= 2 non-empty files and some variable carries the stack dimension.')
TRUSTED = ['numpy.ma.concatenate along an axis is MODELLED (Model/Stack.v concat_at: blocks of the inputs in list order under every outer index), '
           'tied to numpy 2.5 by the correspondence and by an independent numpy object-array oracle',
           'slicing with unit-stride slices is the C02 model (split_file / piece_at); tied by the correspondence (library pieces == model pieces)']
ASSUMPTIONS = ['stacked files carry the same dimension names and the same variables with the same dimension tuples (the documented use); '
               'files that differ in variable sets are outside the modelled domain',
               'dimension ORDER of the result (stack dimension moved last) is not part of the property; lengths, names and unlimited flags are']
TECHNIQUE = 'Coq proof (induction over partitions and file lists, flat C-order arrays) + differential correspondence'
LEVEL_TEXT = ('Theorems (Props/C04.v, all closed under the global context) about a Gallina model of stack/split over abstract cells (a mask is part '
              'of the cell): for every axis position (outer/inner), every cell type, every partition of the axis into any number of consecutive pieces '
              '(incl. empty ones) stacking the pieces reproduces the array (C04_stack_split_inverse), slicing the stack of ANY list of arrays at the '
              'extent of the i-th reproduces the i-th (C04_slice_of_stack_is_piece), the stacked size is the sum (C04_stack_length), one piece is the '
              'identity (C04_stack_single), stacking is associative (C04_stack_assoc), and at ANY axis the piece is the C02 orthogonal slice with a unit-stride '
              'selector on that axis, so both laws are also stated through the slicing model (C04_piece_is_slice, C04_stack_of_slices, C04_slice_of_stack); concatenation is the only array whose slices at the extents are the parts (C04_concat_unique); WHOLE FILE: impl_stack (split_file f k lens) k returns every variable of f and its dimension lengths for every well-formed file, dimension and partition (C04_stack_split_file). Tie H: whole-file model (impl_stack, split_file) vs '
              'library on every generated case incl. errors; the laws are also checked directly on the library output (checkS) and by a numpy oracle.')
LEVEL_NOTE = ('Trusted: Coq kernel + vm_compute; harness; numpy concatenate semantics as modelled; netCDF4 save/reopen of the pieces in the mfopen cases '
              '(round trip of int32 data, masks via _FillValue). open_mfdataset(stackdim=None) always raises on the unchanged tree (for/else) and is not exercised.')


# ----------------------------------------------------------------------------- generation
def gen(rng, n, tier):
    out = []
    for _ in range(n):
        dims, vs = S2._gen_file(rng, ndims=rng.choice([1, 2, 2, 3, 3, 4]), maxcells=60)
        names = [d[0] for d in dims]
        sd = rng.choice(names)
        # make sure some variable carries the stack dimension, sometimes its coordinate variable
        if rng.random() < 0.4 and not any(v['name'] == sd for v in vs):
            vs.append(dict(name=sd, dims=[sd], masked=False, attrs={'units': 'u_' + sd}))
        r = rng.random()
        if r < 0.08:
            how = rng.choice(['unknown-dim', 'dim-mismatch'])
            others = [d for d in names if d != sd]
            if how == 'dim-mismatch' and not others:
                how = 'unknown-dim'
            nf = rng.randint(2, 3)
            lens = [rng.randint(1, 3) for _ in range(nf)]
            case = dict(kind='malformed-' + how, dims=dims, vars=vs, sd=sd, lens=lens, seeds=[rng.randrange(10 ** 6) for _ in range(nf)])
            if how == 'unknown-dim':
                case['sd_call'] = 'q'
            else:
                case['bad'] = [rng.randrange(1, nf), rng.choice(others), rng.choice([1, 2])]
            out.append(case)
        elif r < 0.20:
            out.append(_gen_mfopen(rng, dims, vs, sd))
        elif r < 0.50:
            nlen = [d[1] for d in dims if d[0] == sd][0]
            if rng.random() < 0.5:
                nlen = rng.randint(1, 5)
                dims = [[d[0], nlen if d[0] == sd else d[1], d[2]] for d in dims]
                for v in vs:   # masks must be regenerated for the new size
                    size = 1
                    for dn in v['dims']:
                        size *= dict((d[0], d[1]) for d in dims)[dn]
                    if v.get('masked'):
                        v['mask'] = [1 if rng.random() < 0.25 else 0 for _ in range(size)]
            k = rng.randint(1, min(5, nlen))
            cuts = sorted(rng.sample(range(1, nlen), k - 1)) if k > 1 else []
            lens = [b - a for a, b in zip([0] + cuts, cuts + [nlen])]
            if rng.random() < 0.08:
                lens.insert(rng.randint(0, len(lens)), 0)       # an empty piece
            out.append(dict(kind='split%d' % min(len(lens), 4), dims=dims, vars=vs, sd=sd, lens=lens))
        else:
            nf = rng.choice([2, 2, 3, 3, 4, 5])
            lens = [rng.choice([1, 1, 2, 3]) for _ in range(nf)]
            kind = 'multi%d' % min(nf, 4)
            case = dict(kind=kind, dims=dims, vars=vs, sd=sd, lens=lens, seeds=[rng.randrange(10 ** 6) for _ in range(nf)])
            if nf == 2 and rng.random() < 0.4:
                case['single_other'] = True
            if rng.random() < 0.15 and tier != 'search':
                case['kind'] = 'legacy'
            out.append(case)
    return out


def _gen_mfopen(rng, dims, vs, sd):
    """split pieces saved as netCDF part<i>.nc (no zero padding) and opened with the multi-file helpers in an
    argument order that is mostly NOT the sorted order of the paths"""
    many = rng.random() < 0.4
    nlen = rng.randint(10, 12) if many else rng.randint(2, 6)
    # keep the other dimensions small so that 10+ pieces stay cheap
    dims = [[d[0], nlen if d[0] == sd else (min(d[1], 2) if many else d[1]), d[2]] for d in dims]
    lend = dict((d[0], d[1]) for d in dims)
    vs = [dict(v) for v in vs if len(v['dims']) > 0 or rng.random() < 0.5]
    for v in vs:      # netCDF itself masks cells equal to _FillValue on reading: keep these files plain int32 / -999
        for key in ('fill', 'fillkey', 'fillcells', 'dtype'):
            v.pop(key, None)
    if not any(sd in v['dims'] for v in vs):
        vs.append(dict(name='S', dims=[sd], masked=False, attrs={'units': 'u_S'}))
    for v in vs:
        size = 1
        for dn in v['dims']:
            size *= lend[dn]
        if v.get('masked'):
            v['mask'] = [1 if rng.random() < 0.25 else 0 for _ in range(size)]
    if many:
        k = rng.randint(10, nlen)
    else:
        k = rng.randint(2, nlen)
    cuts = sorted(rng.sample(range(1, nlen), k - 1))
    lens = [b - a for a, b in zip([0] + cuts, cuts + [nlen])]
    how = rng.choice(['shuffled', 'shuffled', 'reversed', 'argument', 'rotated'])
    order = list(range(k))
    if how == 'shuffled':
        rng.shuffle(order)
    elif how == 'reversed':
        order.reverse()
    elif how == 'rotated':
        j = rng.randrange(1, k)
        order = order[j:] + order[:j]
    via = rng.choice(['pncmfopen', 'pncmfopen', 'pncmfopen-fmt', 'open_mfdataset'])
    return dict(kind='mfopen-%s%s' % (how, '-10plus' if k >= 10 else ''), dims=dims, vars=vs, sd=sd, lens=lens, order=order, via=via)


def _file_case(case, fi):
    """the fi-th input file of a multi/legacy/malformed case as a C02-style file description"""
    import random
    rr = random.Random(case['seeds'][fi])
    dims = [[d[0], case['lens'][fi] if d[0] == case['sd'] else d[1], d[2]] for d in case['dims']]
    if case.get('bad') and case['bad'][0] == fi:
        dims = [[d[0], d[1] + case['bad'][2] if d[0] == case['bad'][1] else d[1], d[2]] for d in dims]
    lend = dict((d[0], d[1]) for d in dims)
    vs = []
    for v in case['vars']:
        size = 1
        for dn in v['dims']:
            size *= lend[dn]
        w = dict(v)
        if w.get('masked'):
            w['mask'] = [1 if rr.random() < 0.25 else 0 for _ in range(size)]
        vs.append(w)
    return dict(dims=dims, vars=vs, base=fi * 100000)


def _cells(fc, vi, v):
    lend = dict((d[0], d[1]) for d in fc['dims'])
    size = 1
    for dn in v['dims']:
        size *= lend[dn]
    mask = v['mask'] if v.get('masked') else [0] * size
    vals = S2._apply_fill(v, [fc.get('base', 0) + vi * 1000 + k for k in range(size)], mask)
    return vals, mask


def _build(fc):
    import numpy as np
    from PseudoNetCDF import PseudoNetCDFFile
    f = PseudoNetCDFFile()
    lend = {}
    for n, l, u in fc['dims']:
        d = f.createDimension(n, l)
        d.setunlimited(bool(u))
        lend[n] = l
    for vi, v in enumerate(fc['vars']):
        shape = tuple(lend[n] for n in v['dims'])
        vals, mask = _cells(fc, vi, v)
        S2._create(f, v, shape, vals, mask)
    f.title = 'file %d' % (fc.get('base', 0) // 100000)
    f.NVAL = 7
    return f


def _impl_mfopen(case):
    import os, shutil, tempfile
    sd = case['sd']
    orig = _build(dict(dims=case['dims'], vars=case['vars']))
    ext, c0 = [], 0
    for l in case['lens']:
        ext.append((c0, c0 + l))
        c0 += l
    pieces = [orig.sliceDimensions(**{sd: slice(a, b)}) for a, b in ext]
    tmp = tempfile.mkdtemp(dir=os.path.join(C.VERIF, '.work'))
    try:
        paths = []
        for i, p in enumerate(pieces):
            path = os.path.join(tmp, 'part%d.nc' % i)       # part10 sorts before part2
            o = p.save(path, format='NETCDF4_CLASSIC', verbose=0)
            o.close()
            paths.append(path)
        order = case['order']
        args = [paths[i] for i in order]
        if case['via'] == 'pncmfopen':
            from PseudoNetCDF._getreader import pncmfopen
            st = pncmfopen(args, stackdim=sd)
        elif case['via'] == 'pncmfopen-fmt':
            from PseudoNetCDF._getreader import pncmfopen
            st = pncmfopen(args, stackdim=sd, format='netcdf')
        else:
            from PseudoNetCDF.core._files import netcdf
            st = netcdf.open_mfdataset(*args, stackdim=sd)
        files = [S2._observe(pieces[i]) for i in order]
        oext, c0 = [], 0
        for i in order:
            oext.append((c0, c0 + case['lens'][i]))
            c0 += case['lens'][i]
        back = [S2._observe(st.sliceDimensions(**{sd: slice(a, b)})) for a, b in oext]
        return dict(files=files, stacked=S2._observe(st), back=back)
    finally:
        shutil.rmtree(tmp, ignore_errors=True)


def impl(case):
    sd = case['sd']
    if case['kind'].startswith('mfopen'):
        return _impl_mfopen(case)
    if case['kind'].startswith('split'):
        orig = _build(dict(dims=case['dims'], vars=case['vars']))
        ext, c0 = [], 0
        for l in case['lens']:
            ext.append((c0, c0 + l))
            c0 += l
        pieces = [orig.sliceDimensions(**{sd: slice(a, b)}) for a, b in ext]
        files = [S2._observe(p) for p in pieces]
        st = pieces[0].stack(pieces[1:], sd)
        back = [S2._observe(st.sliceDimensions(**{sd: slice(a, b)})) for a, b in ext]
        return dict(files=files, stacked=S2._observe(st), back=back)
    fcs = [_file_case(case, fi) for fi in range(len(case['lens']))]
    fs = [_build(fc) for fc in fcs]
    files = [S2._observe(f) for f in fs]
    if case['kind'] == 'legacy':
        from PseudoNetCDF.core._functions import stack_files
        st = stack_files(fs, sd)
        return dict(files=files, stacked=S2._observe(st), back=[])
    try:
        other = fs[1] if case.get('single_other') else fs[1:]
        st = fs[0].stack(other, case.get('sd_call', sd))
    except Exception as e:  # the inputs are still needed for the model
        return dict(files=files, raises=type(e).__name__, msg=str(e)[:200])
    ext, c0 = [], 0
    for l in case['lens']:
        ext.append((c0, c0 + l))
        c0 += l
    back = [S2._observe(st.sliceDimensions(**{sd: slice(a, b)})) for a, b in ext]
    return dict(files=files, stacked=S2._observe(st), back=back)


# ----------------------------------------------------------------------------- Coq term
def _ids(case):
    return dict((d[0], i) for i, d in enumerate(case['dims']))


def _ovars(ids, obsfile):
    return '[' + '; '.join('(%s, %s)' % (C.natlist([ids[n] for n in v['dims']]), S2._ccells(v['data'])) for v in obsfile['vars']) + ']'


def _ivars(ids, fc):
    parts = []
    for vi, v in enumerate(fc['vars']):
        vals, mask = _cells(fc, vi, v)
        cells = '[' + '; '.join('(%s, %s)' % (C.zc(x), 'true' if m else 'false') for x, m in zip(vals, mask)) + ']'
        parts.append('(%s, %s)' % (C.natlist([ids[n] for n in v['dims']]), cells))
    return '[' + '; '.join(parts) + ']'


def coq_term(case, obs):
    if case['kind'] == 'legacy' or 'files' not in obs:
        return None
    ids = _ids(case)
    k = ids.get(case.get('sd_call', case['sd']), len(ids) + 3)
    names = [d[0] for d in case['dims']]
    for f in obs['files']:
        if [d[0] for d in f['dims']] != names:
            return None
    files = '[' + '; '.join('(%s, %s)' % (C.natlist([d[1] for d in f['dims']]), _ovars(ids, f)) for f in obs['files']) + ']'
    if 'raises' in obs:
        o = 'None'
        back = '[]'
    else:
        st = obs['stacked']
        try:
            o = 'Some ([%s], %s)' % ('; '.join('(%d%%nat, %d%%nat)' % (ids[d[0]], d[1]) for d in st['dims']), _ovars(ids, st))
            back = '[' + '; '.join(_ovars(ids, b) for b in obs['back']) + ']'
        except KeyError:
            return None
    if case['kind'].startswith('split') or (case['kind'].startswith('mfopen') and case['order'] == sorted(case['order'])):
        fc = dict(dims=case['dims'], vars=case['vars'])
        orig = 'Some ((%s, %s), %s)' % (C.natlist([d[1] for d in case['dims']]), _ivars(ids, fc), C.natlist(case['lens']))
    else:
        orig = 'None'
    return '(Case %d%%nat %s (%s) (%s) %s)' % (k, files, o, orig, back)


# ----------------------------------------------------------------------------- independent oracle
def _arr(obsvar):
    import numpy as np
    a = np.empty(len(obsvar['data']), dtype=object)
    a[:] = obsvar['data']
    return a.reshape(obsvar['shape'])


def py_check(case, obs):
    import numpy as np
    malformed = case['kind'].startswith('malformed')
    if 'raises' in obs:
        return dict(s_ok=malformed, region=0, why='' if malformed else 'in-domain stack raised %s: %s' % (obs['raises'], obs.get('msg', '')[:100]))
    if malformed:
        return dict(s_ok=False, region=0, why='incompatible inputs did not raise')
    sd = case['sd']
    st = obs['stacked']
    files = obs['files']
    why = []
    region = 0
    total = sum(dict((d[0], d[1]) for d in f['dims'])[sd] for f in files)
    f0 = files[0]
    exp_dims = sorted([d[0], total if d[0] == sd else d[1], d[2]] for d in f0['dims'])
    got_dims = sorted(st['dims'])
    if case['kind'] == 'legacy':      # the statement does not speak about the unlimited flag of the legacy form
        got_dims = [d[:2] for d in got_dims]
        exp_dims = [d[:2] for d in exp_dims]
    if got_dims != exp_dims:
        why.append('dimensions %s != %s' % (sorted(st['dims']), exp_dims))
    if [v['name'] for v in st['vars']] != [v['name'] for v in f0['vars']]:
        why.append('variables %s' % [v['name'] for v in st['vars']])
    for vi, sv in enumerate(st['vars']):
        if vi >= len(f0['vars']) or sv['name'] != f0['vars'][vi]['name']:
            continue
        v0 = f0['vars'][vi]
        if sv['dims'] != v0['dims']:
            why.append('%s dims %s' % (sv['name'], sv['dims']))
            continue
        if sd in v0['dims']:
            e = np.concatenate([_arr(f['vars'][vi]) for f in files], axis=v0['dims'].index(sd))
        else:
            e = _arr(v0)
        if list(e.shape) != sv['shape'] or e.ravel().tolist() != sv['data']:
            why.append('%s: got %s %s expected %s %s' % (sv['name'], sv['shape'], sv['data'][:10], list(e.shape), e.ravel().tolist()[:10]))
        if case['kind'] != 'legacy':
            if sv['masked'] != v0['masked']:
                why.append('%s masked-ness changed' % sv['name'])
            if sv['attrs'] != v0['attrs']:
                why.append('%s attributes %s != %s' % (sv['name'], sv['attrs'], v0['attrs']))
        if sv['dtype'] != S2.NPDT[case['vars'][vi].get('dtype', 'i')]:
            why.append('%s dtype %s' % (sv['name'], sv['dtype']))
    if case['kind'] != 'legacy' and st['gattrs'] != f0['gattrs']:
        why.append('global attributes %s != %s' % (st['gattrs'], f0['gattrs']))
    # slicing back
    for i, b in enumerate(obs['back']):
        for vi, bv in enumerate(b['vars']):
            pv = files[i]['vars'][vi]
            if sd in pv['dims'] and (bv['shape'] != pv['shape'] or bv['data'] != pv['data']):
                why.append('slice %d of the stack != piece for %s' % (i, pv['name']))
    return dict(s_ok=not why, region=region, why='; '.join(why)[:600])


def nontrivial(case, obs):
    if 'raises' in obs or 'stacked' not in obs:
        return False
    return sum(1 for l in case['lens'] if l > 0) >= 2 and any(case['sd'] in v['dims'] for v in case['vars'])


def shrink(case):
    vs = case['vars']
    if len(vs) > 1:
        for j in range(len(vs)):
            yield dict(case, vars=vs[:j] + vs[j + 1:])
    if case['kind'].startswith('mfopen'):
        k = len(case['lens'])
        if k > 2:       # merge two neighbouring pieces, keep the relative argument order
            for j in range(k - 1):
                lens = case['lens'][:j] + [case['lens'][j] + case['lens'][j + 1]] + case['lens'][j + 2:]
                order = [i if i <= j else i - 1 for i in case['order'] if i != j + 1]
                yield dict(case, lens=lens, order=order)
        return
    if not case['kind'].startswith('split') and len(case['lens']) > 2 and 'bad' not in case:
        for j in range(len(case['lens'])):
            yield dict(case, lens=case['lens'][:j] + case['lens'][j + 1:], seeds=case['seeds'][:j] + case['seeds'][j + 1:])
    for v in vs:
        if v.get('masked'):
            yield dict(case, vars=[dict(w, masked=False) if w is v else w for w in vs])
