"""C12 — decoded times are the true instants for every supported encoding.
Drives getTimes / date2num / time2idx / add_time_variables / updatetflag of the real library and compares with
coq/Model/Times.v (F) and with the calendar specification (S, in Coq) plus cftime / integer datetime arithmetic
(S, independent Python oracle)."""
import calendar as _cal
from harness import common as C

ID = 'C12'
N = {'quick': 1500, 'thorough': 40000}
SEARCH_N = {'quick': 3000, 'thorough': 20000}
SHARD = 250
RULE = ('kinds: cf-std (CF "unit since ref" on standard/gregorian/proleptic/absent calendar; units days hours minutes seconds '
        '(+weeks, years, misspelt units as malformed); reference dates 1900-2100 biased to leap days, Feb 28, Mar 1, Dec 31, Jan 1, '
        'rendered in the 15 spellings _parse_ref_date accepts (date only, H, H:M, H:M:S, with UTC, Z, numeric zone with or without '
        'colon, unpadded month/day) plus rejected spellings (T separator, fractional seconds) and invalid fields; values on the '
        '1/64-unit grid (binary64-exact), offsets up to +-300 years, float64/int32 storage; bounds none / time_bounds variable / '
        'approximate midpoints; date2num and time2idx round trips); cf-fixed (noleap, 365_day, all_leap, 366_day: whole-day values '
        'with Jan-1 midnight reference, sub-day values and references with time of day / zone, seconds, references that are not '
        'Jan 1 incl. whole-year offsets, values around Feb 29 of common and leap years, years/weeks units; bounds none / variable / '
        'midpoints); tau0/tau1; tflag (valid rows incl. leap days, year ends, day/year '
        'crossings; malformed rows: day 0/366/367+, 240000, minute/second >= 60, negative, -635, year 0 / >= 10000; bounds with and '
        'without TSTEP); sdate (SDATE/STIME/TSTEP attributes incl. SDATE < 1, TSTEP 0, >= 100 h, negative, malformed); synth '
        '(add_time_variables with / without TFLAG, then decoded, bounds too); updatetflag (IOAPI file from attributes: TFLAG rows '
        'written then decoded). Non-trivial = decoding returned at least one instant different from the reference instant.')
TRUSTED = ['binary64 arithmetic of the library is exact on the generated 1/64-unit grid; the TFLAG float expression '
           'jjj + (h + m/60 + s/3600)/24 is modelled in exact arithmetic (timedelta rounds to microseconds; error < 1e-8 s)',
           '365/366-day branch (repaired): integer microsecond arithmetic, modelled exactly; timedelta(unit=float(x)) is exact on the '
           '1/64-unit grid as in the standard branch',
           '_parse_ref_date modelled as a finite table of spellings (strptime itself is not re-implemented)',
           'netCDF4.date2num modelled as exact division from the reference instant that _parse_ref_date yields (the repaired date2num '
           'normalises the units string first); np.interp + round modelled on Z (ascending coordinates only)',
           'cftime.num2date and Python integer datetime arithmetic as independent oracles in py_check']
ASSUMPTIONS = ['TSTEP < 0 in add_time_variable, descending time coordinates in time2idx, int32 overflow of arange*tmpseconds, '
               'milliseconds/microseconds units, 360_day/julian calendars and datetype != datetime are not modelled',
               'exceptions are compared as "raised" without distinguishing the type']
CASE_TIMEOUT = 30.0

SPELLINGS = ['SpD', 'SpHMS', 'SpHM', 'SpH', 'SpHMS_UTC', 'SpHM_UTC', 'SpH_UTC', 'SpHMS_Z', 'SpHM_Z', 'SpH_Z',
             'SpHMS_tz', 'SpHM_tz', 'SpH_tz', 'SpD_sp_tz', 'SpD_tz', 'SpT', 'SpFrac']
ACCEPTED = SPELLINGS[:15]
UNITS = {'days': 'UDays', 'hours': 'UHours', 'minutes': 'UMinutes', 'seconds': 'USeconds', 'weeks': 'UWeeks',
         'years': 'UYears'}
US64 = {'days': 1350000000, 'hours': 56250000, 'minutes': 937500, 'seconds': 15625, 'weeks': 9450000000}
CALS = {None: 'CalStd', 'standard': 'CalStd', 'gregorian': 'CalStd', 'proleptic_gregorian': 'CalStd', 'Gregorian': 'CalStd',
        'noleap': 'CalNoleap', '365_day': 'CalNoleap', 'NOLEAP': 'CalNoleap', 'all_leap': 'CalAllLeap',
        '366_day': 'CalAllLeap', 'All_Leap': 'CalAllLeap'}


# ----------------------------------------------------------------------------- rendering
def render_ref(r):
    y, m, d, H, M, S, tz = r['y'], r['m'], r['d'], r['H'], r['M'], r['S'], r['tz']
    date = ('%04d-%02d-%02d' if r.get('pad', True) else '%04d-%d-%d') % (y, m, d)
    sgn = '-' if tz < 0 else '+'
    tzs = ('%s%02d:%02d' if r.get('tzcolon') else '%s%02d%02d') % (sgn, abs(tz) // 60, abs(tz) % 60)
    sp = r['sp']
    hms, hm, h = ' %02d:%02d:%02d' % (H, M, S), ' %02d:%02d' % (H, M), ' %02d' % H
    return {
        'SpD': date, 'SpHMS': date + hms, 'SpHM': date + hm, 'SpH': date + h,
        'SpHMS_UTC': date + hms + ' UTC', 'SpHM_UTC': date + hm + ' UTC', 'SpH_UTC': date + h + ' UTC',
        'SpHMS_Z': date + hms + 'Z', 'SpHM_Z': date + hm + 'Z', 'SpH_Z': date + h + 'Z',
        'SpHMS_tz': date + hms + tzs, 'SpHM_tz': date + hm + tzs, 'SpH_tz': date + h + tzs,
        'SpD_sp_tz': date + ' ' + tzs, 'SpD_tz': date + tzs,
        'SpT': date + 'T%02d:%02d:%02d' % (H, M, S), 'SpFrac': date + hms + '.0'}[sp]


def eff_ref(r):
    """fields the spelling actually carries"""
    sp = r['sp']
    hasH = sp not in ('SpD', 'SpD_sp_tz', 'SpD_tz')
    hasM = sp in ('SpHMS', 'SpHM', 'SpHMS_UTC', 'SpHM_UTC', 'SpHMS_Z', 'SpHM_Z', 'SpHMS_tz', 'SpHM_tz', 'SpT', 'SpFrac')
    hasS = sp in ('SpHMS', 'SpHMS_UTC', 'SpHMS_Z', 'SpHMS_tz', 'SpT', 'SpFrac')
    hasTz = sp.endswith('_tz')
    return (r['y'], r['m'], r['d'], r['H'] if hasH else 0, r['M'] if hasM else 0, r['S'] if hasS else 0,
            r['tz'] if hasTz else 0)


# ----------------------------------------------------------------------------- generators
def _date(rng, lo=1900, hi=2100):
    y = rng.choice([rng.randint(lo, hi), rng.choice([1900, 1904, 1999, 2000, 2001, 2004, 2096, 2100])])
    y = min(max(y, lo), hi)
    st = rng.random()
    if st < 0.3:
        m, d = rng.choice([(1, 1), (12, 31), (2, 28), (3, 1), (12, 30), (1, 31)])
    elif st < 0.4 and _cal.isleap(y):
        m, d = 2, 29
    else:
        m = rng.randint(1, 12)
        d = rng.randint(1, _cal.monthrange(y, m)[1])
    return y, m, d


def _ref(rng, jan1=False, midnight=False, malformed=0.08):
    y, m, d = _date(rng)
    if jan1:
        m, d = 1, 1
    H, M, S = rng.choice([(0, 0, 0), (0, 0, 0), (12, 0, 0), (23, 59, 59), (6, 30, 15), (rng.randint(0, 23), rng.randint(0, 59), rng.randint(0, 59))])
    tz = rng.choice([0, 0, 0, 60, -360, 330, -570, 840, -720, 765])
    sp = rng.choice(ACCEPTED)
    if midnight:
        H = M = S = 0
        tz = 0
    r = dict(sp=sp, y=y, m=m, d=d, H=H, M=M, S=S, tz=tz, pad=rng.random() < 0.85, tzcolon=rng.random() < 0.5)
    q = rng.random()
    if q < malformed / 2:
        r['sp'] = rng.choice(['SpT', 'SpFrac'])
    elif q < malformed:
        k = rng.choice(['m13', 'd31', 'feb30', 'h24', 'm0'])
        if k == 'm13':
            r['m'] = 13
        elif k == 'm0':
            r['m'] = 0
        elif k == 'd31':
            r['m'], r['d'] = 4, 31
        elif k == 'feb30':
            r['m'], r['d'] = 2, 29 if not _cal.isleap(y) else 30
        else:
            r['H'] = 24
            r['sp'] = 'SpHMS'
    return r


def _vals(rng, unit, maxyears, whole_days=False, uniform=False):
    """values in 1/64 unit"""
    per_day = {'days': 1, 'hours': 24, 'minutes': 1440, 'seconds': 86400, 'weeks': 1.0 / 7, 'years': 1.0 / 365}[unit]
    n = rng.randint(1, 5)
    span_days = min(rng.choice([3, 40, 400, 3000, int(maxyears * 365)]), int(maxyears * 365))
    g = 64 * int(per_day) if (whole_days and per_day >= 1) else rng.choice([64, 64, 64, 32, 16, 1])
    if unit in ('weeks', 'years'):
        g = rng.choice([64, 32])
    lim = max(1, int(span_days * per_day * 64) // g)
    start = rng.randint(-lim, lim) if rng.random() < 0.5 else rng.randint(0, lim)
    if rng.random() < 0.15:
        start = 0
    if uniform or rng.random() < 0.6:
        step = rng.choice([1, 2, 3, 24, 365, 366, rng.randint(1, 50)]) * (2 if uniform else 1)
        if abs(start) + n * step > 2 * lim + 4:      # keep the series inside the stated span
            step = 2 if uniform else 1
        vals = [(start + i * step) * g for i in range(n)]
    else:
        vals = sorted({(start + rng.randint(0, max(1, lim // 3))) * g for _ in range(n)})
        if rng.random() < 0.1:
            vals = vals[::-1] if rng.random() < 0.5 else vals + vals[:1]
    return vals


def _store(rng, vals):
    if all(v % 64 == 0 and abs(v // 64) < 2 ** 31 for v in vals) and rng.random() < 0.3:
        return 'i'
    return 'd'


def gen_cf_std(rng, tier):
    cal = rng.choice([None, 'standard', 'gregorian', 'proleptic_gregorian', 'Gregorian'])
    q = rng.random()
    unit = rng.choice(['days', 'hours', 'minutes', 'seconds'])
    ustr = unit
    if q < 0.04:
        unit = ustr = 'weeks'
    elif q < 0.07:
        unit = ustr = 'years'
    elif q < 0.10:
        ustr = rng.choice(['hour', 'day', 'months', 'secs', 'Hours'])
        unit = 'other'
    r = _ref(rng)
    bm = rng.choice(['none', 'none', 'none', 'mid', 'var'])
    vals = _vals(rng, unit if unit in US64 or unit == 'years' else 'hours', 300, uniform=(bm == 'mid'))
    c = dict(kind='cf-std', cal=cal, unit=unit, ustr=ustr, ref=r, vals=vals, bmode=bm, store=_store(rng, vals))
    if bm == 'var':
        w = rng.choice([64, 32, 128, 640])
        c['his'] = [v + w for v in vals]
    if bm == 'mid' and rng.random() < 0.1:
        c['vals'] = vals[:1]
    return c


def gen_cf_fixed(rng, tier):
    cal = rng.choice(['noleap', '365_day', 'all_leap', '366_day', 'noleap', 'all_leap', 'NOLEAP', 'All_Leap'])
    leap = CALS[cal] == 'CalAllLeap'
    N = 366 if leap else 365
    st = rng.random()
    bm = rng.choice(['none', 'none', 'none', 'var'])
    if st < 0.5:
        sub = 'dom'
        unit = rng.choice(['days', 'days', 'hours', 'minutes'])
        r = _ref(rng, jan1=True, midnight=True, malformed=0.0)
        if rng.random() < 0.2:
            bm = 'mid'
        vals = _vals(rng, unit, 120, whole_days=True, uniform=(bm == 'mid'))
    elif st < 0.62:
        sub = 'tod'
        unit = rng.choice(['days', 'hours', 'minutes'])
        r = _ref(rng, jan1=True, midnight=rng.random() < 0.5, malformed=0.0)
        vals = _vals(rng, unit, 120)
    elif st < 0.70:
        sub = 'seconds'
        unit = 'seconds'
        r = _ref(rng, jan1=True, midnight=True, malformed=0.0)
        vals = _vals(rng, unit, 1.9, whole_days=rng.random() < 0.7)      # read as minutes: 60 x further
    elif st < 0.84:
        sub = 'refnotjan1'
        unit = rng.choice(['days', 'days', 'hours', 'minutes', 'seconds'])
        r = _ref(rng, midnight=rng.random() < 0.7, malformed=0.0)
        vals = _vals(rng, unit, 0.8 if unit == 'seconds' else 50, whole_days=rng.random() < 0.7)
        if rng.random() < 0.4:          # exact-integer fractional years (rounding band of the float sum)
            y, m, d, *_ = eff_ref(r)
            cum = [0, 31, 59 + leap, 90 + leap, 120 + leap, 151 + leap, 181 + leap, 212 + leap, 243 + leap, 273 + leap,
                   304 + leap, 334 + leap]
            if 1 <= m <= 12:
                k0 = cum[m - 1] + d - 1
                f = {'days': 1, 'hours': 24, 'minutes': 1440, 'seconds': 1440}[unit]
                vals = sorted({(k0 + N * rng.randint(-5, 40)) * 64 * f for _ in range(rng.randint(1, 4))})
    elif st < 0.93:
        sub = 'feb29'
        unit = 'days'
        y = rng.choice([1900, 1999, 2001, 2003, 2100, 2000, 2004])
        r = dict(sp=rng.choice(['SpD', 'SpHMS']), y=y, m=1, d=1, H=0, M=0, S=0, tz=0, pad=True, tzcolon=False)
        base = rng.choice([57, 58, 59, 60, 59 + N, 59 - N, 59 + 4 * N])
        vals = [(base + i * rng.choice([1, 1, 2])) * 64 for i in range(rng.randint(1, 4))]
    else:
        sub = 'misc'
        unit = rng.choice(['years', 'weeks', 'days'])
        r = _ref(rng, malformed=0.3)
        vals = _vals(rng, unit, 40)
    ustr = unit
    c = dict(kind='cf-fixed-' + sub, cal=cal, unit=unit, ustr=ustr, ref=r, vals=vals, bmode=bm, store=_store(rng, vals))
    if bm == 'var':
        w = rng.choice([64, 64 * 24, 128])
        if unit in ('hours',):
            w = 64 * 24
        if unit in ('minutes', 'seconds'):
            w = 64 * 1440 * (60 if unit == 'seconds' else 1)
        c['his'] = [v + w for v in vals]
    return c


def gen_tau(rng, tier):
    n = rng.randint(1, 4)
    start = rng.randint(0, 24 * 366 * 30) * rng.choice([64, 64, 32])
    step = rng.choice([64, 64 * 24, 64 * 744, 32])
    vals = [start + i * step for i in range(n)]
    return dict(kind='tau', vals=vals, his=[v + step for v in vals], bmode=rng.choice(['none', 'var']))


def _yj(rng):
    y, m, d = _date(rng, 1900, 2100)
    import datetime
    j = (datetime.date(y, m, d) - datetime.date(y, 1, 1)).days + 1
    return y, j


def _step(rng):
    return rng.choice([10000, 10000, 3000, 1500, 240000, 30000, 60000, 120000, 1, 100, 235959, 7440000, 1000000,
                       rng.randint(0, 99) * 10000 + rng.randint(0, 59) * 100 + rng.randint(0, 59), 0, 250000])


def _advance(y, j, hms, step_s, i):
    import datetime
    t = datetime.datetime(y, 1, 1) + datetime.timedelta(days=j - 1, seconds=hms + step_s * i)
    jj = (t.date() - datetime.date(t.year, 1, 1)).days + 1
    return t.year * 1000 + jj, t.hour * 10000 + t.minute * 100 + t.second


def _hms(rng):
    return rng.choice([0, 0, 23 * 3600, 23 * 3600 + 59 * 60 + 59, 12 * 3600, rng.randint(0, 86399)])


def _sec(step):
    return step // 10000 * 3600 + step % 10000 // 100 * 60 + step % 100


def gen_tflag(rng, tier):
    n = rng.randint(1, 5)
    y, j = _yj(rng)
    hms = _hms(rng)
    step = _step(rng)
    flags = [list(_advance(y, j, hms, _sec(step), i)) for i in range(n)]
    kind = 'tflag'
    if rng.random() < 0.18:
        kind = 'tflag-malformed'
        k = rng.randrange(n)
        bad = rng.choice(['j0', 'j366', 'j367', 'h24', 'm60', 's60', 'neg', 'm635', 'y0', 'y10000', 'big', 'j999'])
        d, t = flags[k]
        yy = d // 1000
        if bad == 'j0':
            d = yy * 1000
        elif bad == 'j366':
            d = yy * 1000 + 366
        elif bad == 'j367':
            d = yy * 1000 + rng.randint(367, 400)
        elif bad == 'j999':
            d = yy * 1000 + 999
        elif bad == 'h24':
            t = rng.choice([240000, 250000, 990000, 1000000])
        elif bad == 'm60':
            t = t // 10000 * 10000 + rng.randint(60, 99) * 100 + t % 100
        elif bad == 's60':
            t = t // 100 * 100 + rng.randint(60, 99)
        elif bad == 'neg':
            t = -rng.choice([1, 100, 10000, 123456])
        elif bad == 'm635':
            d = -635
        elif bad == 'y0':
            d = rng.choice([1, 366, 0, -1000, 999])
        elif bad == 'y10000':
            d = 10000001
        else:
            t = rng.randint(1000000, 2147483647)
        flags[k] = [d, t]
    tstep = step if rng.random() < 0.7 else None
    bounds = rng.random() < 0.4
    return dict(kind=kind, flags=flags, tstep=tstep, bounds=bounds)


def gen_sdate(rng, tier):
    y, j = _yj(rng)
    hms = _hms(rng)
    sdate, stime = _advance(y, j, hms, 0, 0)
    tstep = _step(rng)
    kind = 'sdate'
    q = rng.random()
    if q < 0.2:
        kind = 'sdate-malformed'
        bad = rng.choice(['s0', 'sneg', 'j366', 'j367', 'j0', 'h24', 'm60', 'tneg', 'y0', 'big', 'stneg', 'st7'])
        if bad == 's0':
            sdate = 0
        elif bad == 'sneg':
            sdate = -rng.randint(1, 2000000)
        elif bad == 'j366':
            sdate = y * 1000 + 366
        elif bad == 'j367':
            sdate = y * 1000 + rng.randint(367, 999)
        elif bad == 'j0':
            sdate = y * 1000
        elif bad == 'h24':
            stime = rng.choice([240000, 236000, 235960, 996060])
        elif bad == 'm60':
            tstep = rng.choice([6000, 9999, 16090, 99])
        elif bad == 'tneg':
            tstep = -rng.choice([5, 10000, 13000, 123456, 100])
        elif bad == 'y0':
            sdate = rng.choice([1, 366, 999])
        elif bad == 'big':
            sdate = rng.choice([10000001, 99999999])
        elif bad == 'stneg':
            stime = -rng.choice([1, 10000])
        else:
            stime = rng.choice([1000000, 2359590])
    return dict(kind=kind, sdate=sdate, stime=stime, tstep=tstep, n=rng.randint(1, 5), bounds=rng.random() < 0.4)


def gen_synth(rng, tier):
    y, j = _yj(rng)
    hms = _hms(rng)
    step = _step(rng)
    if rng.random() < 0.15:
        step = rng.choice([1000000, 7440000, 1680000, 87600000, 1000001])
    n = rng.randint(1, 4)
    flags = [list(_advance(y, j, hms, _sec(step), i)) for i in range(n)]
    hasflag = rng.random() < 0.55
    kind = 'synth-flag' if hasflag else 'synth-attrs'
    sdate, stime = flags[0]
    if rng.random() < 0.1:
        kind += '-malformed'
        bad = rng.choice(['zero', 'h24', 'j366'])
        if bad == 'zero' and hasflag:
            flags[0][0] = 0
        elif bad == 'h24':
            if hasflag:
                flags[-1][1] = 240000
            else:
                stime = 240000
        else:
            if hasflag:
                flags[-1][0] = flags[-1][0] // 1000 * 1000 + 366
            else:
                sdate = sdate // 1000 * 1000 + 366
    return dict(kind=kind, hasflag=hasflag, sdate=sdate, stime=stime, tstep=step, flags=flags, n=n)


def gen_ut(rng, tier):
    y, j = _yj(rng)
    sdate, stime = _advance(y, j, _hms(rng), 0, 0)
    return dict(kind='updatetflag', sdate=sdate, stime=stime, tstep=_step(rng), n=rng.randint(1, 4))


def gen(rng, n, tier):
    out = []
    table = [(0.30, gen_cf_std), (0.24, gen_cf_fixed), (0.03, gen_tau), (0.17, gen_tflag), (0.10, gen_sdate),
             (0.10, gen_synth), (0.06, gen_ut)]
    for _ in range(n):
        q = rng.random()
        acc = 0.0
        for p, g in table:
            acc += p
            if q < acc:
                out.append(g(rng, tier))
                break
        else:
            out.append(gen_tflag(rng, tier))
    return out


# ----------------------------------------------------------------------------- implementation
def _fields(t):
    import datetime
    if t.tzinfo is not None:
        t = t.astimezone(datetime.timezone.utc)
    return [t.year, t.month, t.day, t.hour, t.minute, t.second, t.microsecond]


def _try(f):
    try:
        return f()
    except BaseException as e:  # noqa
        return {'raises': type(e).__name__, 'msg': str(e)[:120]}


def _times(f, **kw):
    def go():
        out = f.getTimes(**kw)
        return [_fields(t) for t in out]
    return _try(go)


def _cf_file(case):
    import numpy as np
    from PseudoNetCDF import PseudoNetCDFFile
    f = PseudoNetCDFFile()
    vals = case['vals']
    f.createDimension('time', len(vals))
    if case['kind'] == 'tau':
        v = f.createVariable('tau0', 'd', ('time',))
        v[:] = np.array(vals, dtype='d') / 64.
        v = f.createVariable('tau1', 'd', ('time',))
        v[:] = np.array(case['his'], dtype='d') / 64.
        return f
    v = f.createVariable('time', case['store'], ('time',))
    if case['store'] == 'i':
        v[:] = np.array([x // 64 for x in vals], dtype='i')
    else:
        v[:] = np.array(vals, dtype='d') / 64.
    v.units = '%s since %s' % (case['ustr'], render_ref(case['ref']))
    if case['cal'] is not None:
        v.calendar = case['cal']
    if case['bmode'] == 'var':
        f.createDimension('nv', 2)
        b = f.createVariable('time_bounds', 'd', ('time', 'nv'))
        b[:, 0] = np.array(vals, dtype='d') / 64.
        b[:, 1] = np.array(case['his'], dtype='d') / 64.
    return f


def _flag_file(flags, nvar=2, **att):
    import numpy as np
    from PseudoNetCDF import PseudoNetCDFFile
    f = PseudoNetCDFFile()
    f.createDimension('TSTEP', len(flags))
    f.createDimension('VAR', nvar)
    f.createDimension('DATE-TIME', 2)
    v = f.createVariable('TFLAG', 'i', ('TSTEP', 'VAR', 'DATE-TIME'))
    v[:] = np.array(flags, dtype='i').reshape(len(flags), 1, 2).repeat(nvar, 1)
    for k, x in att.items():
        if x is not None:
            setattr(f, k, x)
    return f


def impl(case):
    import numpy as np
    k = case['kind']
    if k.startswith('cf') or k == 'tau':
        f = _cf_file(case)
        bounds = case['bmode'] != 'none'
        obs = dict(times=_times(f, bounds=bounds))
        if not bounds and k != 'tau' and isinstance(obs['times'], list):
            def d2n():
                t = f.getTimes()
                x = np.asarray(f.date2num(t), dtype='d')
                return [float(v).hex() for v in x]
            obs['d2n'] = _try(d2n)

            def idx():
                t = f.getTimes()
                i = f.time2idx(t, dim='time')
                return [None if v is np.ma.masked else int(v) for v in np.ma.asarray(i).tolist()] \
                    if np.ma.isMaskedArray(i) and np.ma.is_masked(i) else [int(v) for v in np.asarray(i)]
            obs['idx'] = _try(idx)
        return obs
    if k.startswith('tflag'):
        f = _flag_file(case['flags'], TSTEP=case['tstep'])
        return dict(times=_times(f, bounds=case['bounds']))
    if k.startswith('sdate'):
        from PseudoNetCDF import PseudoNetCDFFile
        f = PseudoNetCDFFile()
        f.createDimension('TSTEP', case['n'])
        f.SDATE, f.STIME, f.TSTEP = case['sdate'], case['stime'], case['tstep']
        return dict(times=_times(f, bounds=case['bounds']))
    if k.startswith('synth'):
        from PseudoNetCDF.conventions.ioapi._ioapi import add_time_variables
        if case['hasflag']:
            f = _flag_file(case['flags'], SDATE=case['sdate'], STIME=case['stime'], TSTEP=case['tstep'])
        else:
            from PseudoNetCDF import PseudoNetCDFFile
            f = PseudoNetCDFFile()
            f.createDimension('TSTEP', case['n'])
            f.SDATE, f.STIME, f.TSTEP = case['sdate'], case['stime'], case['tstep']
        obs = dict(orig=_times(f), origb=_times(f, bounds=True))
        r = _try(lambda: add_time_variables(f))
        if isinstance(r, dict):
            obs['time'] = r
            return obs
        obs['time'] = [float(v).hex() for v in np.asarray(f.variables['time'][:], dtype='d')]
        obs['units'] = str(f.variables['time'].units)
        obs['dec'] = _times(f)
        obs['decb'] = _times(f, bounds=True)
        return obs
    if k == 'updatetflag':
        from PseudoNetCDF.cmaqfiles._ioapi import ioapi_base
        n = case['n']

        def go():
            f = ioapi_base.from_arrays(O3=np.zeros((n, 1, 2, 2), dtype='f'),
                                       fileattrs=dict(SDATE=case['sdate'], STIME=case['stime'], TSTEP=case['tstep']))
            tf = f.variables['TFLAG'][:]
            same = bool((tf == tf[:, :1, :]).all())
            return dict(flags=[[int(a), int(b)] for a, b in tf[:, 0, :]], same=same, sdate=int(f.SDATE), stime=int(f.STIME),
                        dec=_times(f))
        r = _try(go)
        return r if 'raises' not in r else dict(flags=r)
    raise ValueError('unknown kind ' + k)


# ----------------------------------------------------------------------------- Coq terms
def _dts(o):
    if not isinstance(o, list):
        return 'None'
    return '(Some %s)' % C.zll(o)


def _pairs(fl):
    return '[' + '; '.join('(%s, %s)' % (C.zc(a), C.zc(b)) for a, b in fl) + ']'


def _ref_term(r):
    return '(Ref %s %s %s %s %s %s %s %s)' % (r['sp'], C.zc(r['y']), C.zc(r['m']), C.zc(r['d']), C.zc(r['H']),
                                              C.zc(r['M']), C.zc(r['S']), C.zc(r['tz']))


def _grid(hexes):
    """floats (hex) -> ints in 1/64, or None if not on the grid"""
    out = []
    for h in hexes:
        x = float.fromhex(h) * 64
        if x != x or abs(x) > 2 ** 62 or x != int(x):
            return None
        out.append(int(x))
    return out


def coq_term(case, obs):
    k = case['kind']
    if 'raises' in obs:
        return None
    if k.startswith('cf') or k == 'tau':
        if k == 'tau':
            cal, unit, ref = 'CalStd', 'UHours', '(Ref SpD 1985 1 1 0 0 0 0)'
        else:
            cal, unit, ref = CALS[case['cal']], UNITS.get(case['unit'], 'UOther'), _ref_term(case['ref'])
        bm = {'none': 'BNone', 'mid': 'BMid', 'var': '(BVar %s)' % C.zlist(case.get('his', []))}[case['bmode']]
        d2n = idx = 'None'
        if isinstance(obs.get('d2n'), list):
            g = _grid(obs['d2n'])
            if g is not None:
                d2n = '(Some %s)' % C.zlist(g)
                asc = all(a < b for a, b in zip(case['vals'], case['vals'][1:]))
                if asc and isinstance(obs.get('idx'), list) and all(v is not None for v in obs['idx']):
                    idx = '(Some %s)' % C.zlist(obs['idx'])
        return '(CaseCF %s %s %s %s %s %s %s %s)' % (cal, unit, ref, bm, C.zlist(case['vals']), _dts(obs['times']), d2n, idx)
    if k.startswith('tflag'):
        return '(CaseTF %s %s %s %s)' % (_pairs(case['flags']), C.copt(case['tstep'], C.zc), C.cbool(case['bounds']),
                                         _dts(obs['times']))
    if k.startswith('sdate'):
        return '(CaseSD %s %s %s %d%%nat %s %s)' % (C.zc(case['sdate']), C.zc(case['stime']), C.zc(case['tstep']), case['n'],
                                                    C.cbool(case['bounds']), _dts(obs['times']))
    if k.startswith('synth'):
        ot = 'None'
        if isinstance(obs.get('time'), list):
            g = _grid(obs['time'])
            if g is None or any(v % 64 for v in g):
                return None
            ot = '(Some %s)' % C.zlist([v // 64 for v in g])
        return '(CaseSY %s %s %s %s %s %d%%nat %s %s %s)' % (
            C.cbool(case['hasflag']), C.zc(case['sdate']), C.zc(case['stime']), C.zc(case['tstep']), _pairs(case['flags']),
            case['n'], ot, _dts(obs.get('dec')), _dts(obs.get('decb')))
    if k == 'updatetflag':
        fl = obs.get('flags')
        of = '(Some %s)' % _pairs(fl) if isinstance(fl, list) else 'None'
        return '(CaseUT %s %s %s %d%%nat %s %s)' % (C.zc(case['sdate']), C.zc(case['stime']), C.zc(case['tstep']), case['n'],
                                                    of, _dts(obs.get('dec')))
    return None


# ----------------------------------------------------------------------------- independent oracle
def _flag_instant(d, t):
    import datetime
    y, j = divmod(d, 1000)
    if not (1 <= y <= 9999 and 1 <= j <= (366 if _cal.isleap(y) else 365)):
        return None
    h, m, s = t // 10000, t % 10000 // 100, t % 100
    if not (0 <= t and h < 24 and m < 60 and s < 60):
        return None
    return datetime.datetime(y, 1, 1) + datetime.timedelta(days=j - 1, hours=h, minutes=m, seconds=s)


def _valid_step(t):
    return t >= 0 and t % 10000 // 100 < 60 and t % 100 < 60


def _fl(t):
    return [t.year, t.month, t.day, t.hour, t.minute, t.second, t.microsecond]


def py_check(case, obs):
    import datetime
    k = case['kind']
    why = []
    if 'raises' in obs:
        return dict(s_ok=True, f_ok=False, why='harness failure: %s %s' % (obs.get('raises'), obs.get('msg')))
    if k.startswith('cf') and isinstance(obs.get('times'), list) and case['unit'] in ('days', 'hours', 'minutes', 'seconds') \
            and case['ref']['sp'] in ACCEPTED:
        import cftime
        y, m, d, H, M, S, tz = eff_ref(case['ref'])
        cal = {'CalStd': 'proleptic_gregorian', 'CalNoleap': 'noleap', 'CalAllLeap': 'all_leap'}[CALS[case['cal']]]
        vals = list(case['vals'])
        if case['bmode'] == 'var':
            vals = vals + [case['his'][-1]]
        elif case['bmode'] == 'mid':
            if len(vals) < 2:
                vals = None
            else:
                dt = (vals[-1] - vals[0]) // (len(vals) - 1)
                vals = [v - dt // 2 for v in vals] + [vals[-1] + dt // 2]
        if vals is not None:
            try:
                us = [v * US64[case['unit']] - tz * 60000000 for v in vals]
                exp = cftime.num2date(us, 'microseconds since %04d-%02d-%02d %02d:%02d:%02d' % (y, m, d, H, M, S), cal,
                                      only_use_cftime_datetimes=True)
                exp = [[t.year, t.month, t.day, t.hour, t.minute, t.second, t.microsecond] for t in exp]
            except Exception as e:  # reference date not valid in that calendar etc.
                exp = None
            if exp is not None:
                if exp != obs['times']:
                    bad = [i for i, (a, b) in enumerate(zip(exp, obs['times'])) if a != b]
                    why.append('cftime differs at %s: expected %s got %s' % (bad[:3], exp[bad[0]] if bad else exp, obs['times'][bad[0]] if bad else obs['times']))
                if case['bmode'] == 'none':
                    d2n = obs.get('d2n')
                    if isinstance(d2n, list):
                        for h, v in zip(d2n, case['vals']):
                            x = float.fromhex(h)
                            if abs(x - v / 64.) > 1e-9 * max(1.0, abs(v / 64.)):
                                why.append('date2num(getTimes()) %r != stored %r' % (x, v / 64.))
                                break
                    elif isinstance(d2n, dict) and exp == obs['times']:
                        why.append('date2num raised %s' % d2n.get('raises'))
                    idx = obs.get('idx')
                    asc = all(a < b for a, b in zip(case['vals'], case['vals'][1:]))
                    if asc and isinstance(idx, list) and idx != list(range(len(case['vals']))):
                        why.append('time2idx(getTimes()) = %s' % idx)
                    elif asc and isinstance(idx, dict) and exp == obs['times']:
                        why.append('time2idx raised %s' % idx.get('raises'))
    elif k == 'tau' and isinstance(obs.get('times'), list):
        vals = case['vals'] + ([case['his'][-1]] if case['bmode'] == 'var' else [])
        exp = [_fl(datetime.datetime(1985, 1, 1) + datetime.timedelta(microseconds=v * US64['hours'])) for v in vals]
        if exp != obs['times']:
            why.append('tau0 decode differs')
    elif k.startswith('tflag') and isinstance(obs.get('times'), list):
        ts = [_flag_instant(d, t) for d, t in case['flags']]
        if all(t is not None for t in ts) and (case['tstep'] is None or _valid_step(case['tstep'])):
            if case['bounds']:
                if case['tstep'] is not None:
                    ts = ts + [ts[-1] + datetime.timedelta(seconds=_sec(case['tstep']))]
                elif len(ts) >= 2:
                    ts = ts + [ts[-1] + (ts[-1] - ts[0]) / (len(ts) - 1)]
            if [_fl(t) for t in ts] != obs['times']:
                why.append('TFLAG decode differs from julian arithmetic')
    elif k.startswith('sdate') and isinstance(obs.get('times'), list):
        t0 = _flag_instant(case['sdate'], case['stime'])
        if t0 is not None and _valid_step(case['tstep']):
            n = case['n'] + (1 if case['bounds'] else 0)
            exp = [_fl(t0 + i * datetime.timedelta(seconds=_sec(case['tstep']))) for i in range(n)]
            if exp != obs['times']:
                why.append('SDATE/STIME/TSTEP decode differs from julian arithmetic')
    elif k.startswith('synth'):
        if isinstance(obs.get('dec'), list) and isinstance(obs.get('orig'), list) and _valid_step(case['tstep']):
            valid = all(_flag_instant(d, t) is not None for d, t in case['flags']) if case['hasflag'] else \
                _flag_instant(case['sdate'], case['stime']) is not None
            if valid:
                if obs['dec'] != obs['orig']:
                    why.append('synthesised time variable decodes to %s, flags/attributes to %s' % (obs['dec'][:3], obs['orig'][:3]))
                if isinstance(obs.get('decb'), list) and isinstance(obs.get('origb'), list) and obs['decb'] != obs['origb']:
                    why.append('synthesised time_bounds decode differs from bounds of flags/attributes')
    elif k == 'updatetflag':
        fl = obs.get('flags')
        t0 = _flag_instant(case['sdate'], case['stime'])
        if isinstance(fl, list) and t0 is not None and _valid_step(case['tstep']):
            exp = [t0 + i * datetime.timedelta(seconds=_sec(case['tstep'])) for i in range(case['n'])]
            got = [_flag_instant(d, t) for d, t in fl]
            if got != exp or not obs.get('same'):
                why.append('TFLAG rows written by updatetflag do not encode the start/step instants')
    return dict(s_ok=not why, why='; '.join(why))


def translate():
    from harness import gen_times
    return gen_times.translate()


def nontrivial(case, obs):
    for key in ('times', 'dec'):
        t = obs.get(key)
        if isinstance(t, list) and len(t) >= 1 and any(r != t[0] for r in t[1:]):
            return True
    t = obs.get('times')
    return isinstance(t, list) and len(t) == 1 and case.get('vals', [0]) != [0]


def shrink(case):
    for key in ('vals', 'flags'):
        v = case.get(key)
        if isinstance(v, list) and len(v) > 1 and case['kind'] not in ('updatetflag',):
            for i in range(len(v)):
                c = dict(case)
                c[key] = v[:i] + v[i + 1:]
                if 'his' in case and key == 'vals':
                    c['his'] = case['his'][:i] + case['his'][i + 1:]
                if key == 'flags' and 'n' in case:
                    c['n'] = len(c[key])
                yield c
    if case.get('n', 1) > 1 and 'flags' not in case:
        yield dict(case, n=case['n'] - 1)
    if case.get('bounds'):
        yield dict(case, bounds=False)
    if case.get('bmode') in ('mid', 'var') and case['kind'] != 'tau':
        c = dict(case, bmode='none')
        c.pop('his', None)
        yield c


LEVEL_TEXT = ('Theorems (Props/C12.v, 29, all closed under the global context) over Model/Times.v on a proved calendar library '
              '(Base/Calendar.v: civil date <-> day number for the proleptic Gregorian, noleap and all_leap calendars and '
              'YYYYJJJ/HHMMSS <-> seconds are mutual inverses for all years, lia + a 146097-day era sweep). Every clause is full strength: '
              'CF standard calendars (every unit, accepted spelling, zone, series length: C12_cf_standard_correct), 365/366-day calendars '
              '(every unit, reference date, time of day, zone: C12_cf_fixed_calendar, C12_fixed_fields_denote_instant, '
              'C12_cf_fixed_matches_spec, C12_cf_fixed_returns; Feb 29 of a common year raises), TFLAG rows incl. bounds '
              '(C12_tflag_correct, C12_tflag_bounds_correct), SDATE/STIME/TSTEP (C12_sdate_tstep_correct), updatetflag rows '
              '(C12_updatetflag_roundtrip), synthesised time variable (C12_synth_matches_flags, C12_synth_matches_attrs, '
              'C12_synth_bounds_edge), date2num round trip (C12_date2num_roundtrip), time2idx identity (C12_time2idx_identity). '
              'Extension: date2num round trip in the 365/366-day calendars (C12_date2num_fixed_roundtrip), time2idx through date2num '
              '(C12_time2idx_of_getTimes), updatetflag then getTimes (C12_updatetflag_then_decode), midpoint bounds of evenly spaced '
              'series (C12_bounds_midpoints). Tie T (coq/Gen/Times.v regenerated from getTimes / add_time_variable on every run): TFLAG '
              'field split and the fractional-day expression read exactly over Q (C12_gen_tflag_fields, C12_gen_tflag_days_exact, '
              'C12_gen_tflag_instant), bounds step (C12_gen_bounds_step), the digit slices of \'%06d\' % TSTEP in getTimes and '
              'add_time_variable for digit strings of any length (C12_gen_sdate_step, C12_gen_synth_step on Base/DecDigits.v). '
              'No _partial/_refuted theorem is left: the defects found were repaired (fixes/C12-*.patch) and the model describes the '
              'repaired code. Tie H: getTimes / date2num / time2idx / add_time_variables / updatetflag of the library vs the model on every '
              'generated case, plus cftime and integer datetime arithmetic as independent oracles.')
LEVEL_NOTE = ('Trusted: Coq kernel + vm_compute; the harness; binary64 exactness of the library on the 1/64-unit grid and of the TFLAG '
              'fractional-day expression (checked by F on every case, not proved); _parse_ref_date as a table of spellings; cftime as oracle. '
              'Not modelled: tau0 beyond hours-since-1985 decoding, TSTEP < 0 in add_time_variable, descending time2idx, 360_day/julian; '
              'time2t, gettimes/gettimebnds of coordutil.')
TECHNIQUE = 'Coq proof (calendar inverses by lia + finite era sweep, induction over time series) + differential correspondence'
