"""C18 — GEOS-Chem binary punch: read/write round trip, scaling, write/read round trip, second reader.
Reference encoder written from the bpch format description with struct only; files, tracerinfo.dat and
diaginfo.dat are generated; the library's bpch1 / ncf2bpch / bpch2 are driven on them."""
import os, shutil, struct, io, contextlib
from fractions import Fraction
from harness import common as C, camxlib as L, gen_bpch

ID = 'C18'
N = {'quick': 400, 'thorough': 8000}
SEARCH_N = {'quick': 600, 'thorough': 4000}
SHARD = 50
CASE_TIMEOUT = 30.0
RULE = ('bpch contents with 1-3 time blocks x 1-3 tracers in 1-3 categories, nx,ny 1-3, per-tracer layer counts 1-3 (rarely 48/49), nested-grid '
        'offsets (I0,J0,L0 each independently 1 or >1: all 8 combinations), tracerinfo.dat/diaginfo.dat generated as text (category offsets 0/100/1000/2000, entries present or missing); three directions: '
        'rw = reference-encoded file -> bpch1 (noscale or scaled) -> ncf2bpch; wr = hand-built bpch-convention file -> ncf2bpch -> bpch1; '
        'b2 = bpch2 AND bpch1 on the same file (60% with complete tables, else any tables incl. missing categories / tracer numbers), both evaluated in Coq. Data: arbitrary finite binary32 patterns (noscale) or small dyadic values whose product with SCALE is exact (scaled). '
        'Malformed stream: byte truncations (random, block/time-block boundaries +-, one header further; S = every-prefix alternatives), trailing words, edits of record markers / tracer ids / categories / skip / dims / title markers. '
        'Non-trivial = library opened the file and presented >= 1 variable.')
TRUSTED = ['numpy structured dtype over a memmap = fixed-size chunking (modelled by chunks/firstn/skipn)',
           'character fields (left justified, blank or NUL padded, no leading blank) and float64 time stamps are moved, never computed on',
           'binary32 multiplication by SCALE is exact on the generated scaled stream (checked through the exact value of the words in Coq)',
           'py2coq translator semantics table plus the driver-side dtype-string split described in harness/gen_bpch.py',
           'variable keys "<category>_<name>" are mapped back to (category, name index) by the harness; names are alphabetic']
ASSUMPTIONS = ['table keys unique (tracer numbers in tracerinfo.dat, categories in diaginfo.dat); no two tracers of a file share offset+id '
               '(bpch1 stores the fallback attributes of tracers WITHOUT a tracerinfo line per offset+id, so two such blocks with equal offset+id both present the unit of '
               'the one walked last - the model presents each block\'s own header unit; on malformed files where an edit creates such a collision the `units` of fallback '
               'variables is explicitly NOT compared: Corr/C18.v unit_collision, corpus/C18/fallback-unit-collision.json)',
               'one model grid per file and one time stamp per time block (what GEOS-Chem writes)']
LEVEL_TEXT = ('Theorems (Props/C18.v, 12, all closed under the global context; no _partial) over Model/Bpch.v (both readers and the writer as repaired): the '
              'record-walking spec decoder inverts the spec encoder for every content (C18_dec_enc); for EVERY bpch-convention content and tables with unique keys the model '
              'of bpch1 (header walk, time_type strides, itemcount, assertions; field positions from the translated dtype literals) presents exactly the content '
              '(C18_reader_presents_content), ncf2bpch reproduces the words (C18_read_write_bytes, C18_writer_conforms), writing any bpch-convention view and reading it '
              'back returns it (C18_write_read); the dict-based name/scale/unit lookup is the offset(category)+id association (C18_scale_lookup, '
              'C18_lookup_is_association); layouts and pads agree (C18_layouts, re-checked against the source on every run). CLAUSE 4: the model of the block-walking '
              'reader bpch2 (walk over every block, groups by key in order of first appearance, first-row table lookups with bpch1\'s fallbacks) presents a closed form '
              '(C18_bpch2_presents_content) and the SAME variables, time stamps and data as bpch1 for every bpch-convention file (C18_readers_agree). EVERY BYTE PREFIX '
              '(C18_every_prefix; C18_prefix_whole_time_blocks_only_refuted = C14 finding, not a C18 clause). Tie T: dtype literals, pads and skip regenerated from _bpch.py '
              'into coq/Gen/Bpch.v; tie H: reference encoder == Coq enc, bpch1 == impl_open (incl. errors on the malformed stream), ncf2bpch == impl_write, bpch2 == '
              'impl_bpch2 (units compared by text: bpch2 presents header units as str, bpch1 as bytes) on every case.')
LEVEL_NOTE = ('NO CLAIM (F): the `units` attribute of variables without a tracerinfo line on files holding two such blocks with equal offset+id (reader quirk, see ASSUMPTIONS). Trusted: Coq kernel + vm_compute, py2coq and the driver normalisation, the harness (observation of the library object, string pools). Scaled WRITE '
              '(vals / scale) is checked on exact values by correspondence only; inexact binary32 scaling is decided by a Python oracle.')
TECHNIQUE = 'Coq proof (codec round trip, reader/writer model refinement over Fortran record framing) + translation from source + differential correspondence'

CATS = ['IJ-AVG-$', 'CHEM-L=$', 'BXHGHT-$', 'PEDGE-$', 'DAO-FLDS', 'ND49']
NAMES = ['NOx', 'Ox', 'PAN', 'CO', 'ALK4', 'ISOP', 'OH', 'PSURF', 'TMPU', 'NAIR']
UNITS = ['ppbv', 'pptv', 'molec/cm3', 'hPa', 'K', 'v/v']
SCALES = ['1.000E+00', '1.000E+09', '1.000E+06', '1.000E+03', '2.000E+00', '5.000E-01', '1.250E-01']


def translate():
    return gen_bpch.translate()


# ----------------------------------------------------------------------------- reference encoder (struct only)
def swords(s):
    """fixed-width string (already at full width, latin-1) -> big-endian words"""
    b = s.encode('latin-1')
    assert len(b) % 4 == 0
    return list(struct.unpack('>%dI' % (len(b) // 4), b))


def f64words(x):
    return list(struct.unpack('>2I', struct.pack('>d', x)))


def model_words(m):
    return swords(m['name']) + [L.f32_word(float.fromhex(m['res'][0])), L.f32_word(float.fromhex(m['res'][1])),
                                m['hp'] & 0xffffffff, m['c180'] & 0xffffffff]


def blocks_of(case):
    """content -> list of time blocks, each a list of block dicts (all fields as words / ints)"""
    out = []
    mw = model_words(case['model'])
    for t in case['times']:
        tb = []
        for tr, d in zip(case['tracers'], t['data']):
            tb.append(dict(model=mw, cat=swords(tr['cat']), tid=tr['tid'], unit=swords(tr['unit']),
                           tau=f64words(float.fromhex(t['tau'][0])) + f64words(float.fromhex(t['tau'][1])),
                           resv=swords(tr['resv']), dim=list(tr['dim']), start=list(tr['start']), data=list(d)))
        out.append(tb)
    return out


def encode(case):
    """reference encoder: the whole file as big-endian words"""
    ws = L.rec(swords(case['ftype'])) + L.rec(swords(case['title']))
    for tb in blocks_of(case):
        for b in tb:
            ws += L.rec(b['model'])
            ws += L.rec(b['cat'] + [b['tid']] + b['unit'] + b['tau'] + b['resv'] + b['dim'] + b['start'] + [4 * len(b['data']) + 8])
            ws += L.rec(b['data'])
    return ws


def apply_mut(ws, mut):
    """-> (bytes given to the library)"""
    ws = list(ws)
    for i, v in (mut or {}).get('edits', []):
        if 0 <= i < len(ws):
            ws[i] = v
    ws += (mut or {}).get('append', [])
    b = L.bytes_of_words(ws)
    cut = (mut or {}).get('cut')
    if cut is not None:
        b = b[:cut]
    return b


def tinfo_text(case):
    lines = ['# tracerinfo.dat generated', '# NAME     FULLNAME                    MOLWT  C   TRACER     SCALE UNIT']
    for e in case['tinfo']:
        lines.append('%-8s %-30s%10.3E%3d%9d%10s %s' % (e['name'], e['name'] + ' tracer', e['molwt'], e['c'], e['ord'], e['scale'], e['unit']))
    return '\n'.join(lines) + '\n'


def dinfo_text(case):
    lines = ['# diaginfo.dat generated']
    for e in case['dinfo']:
        lines.append('%8d %-40s %s' % (e['offset'], e['cat'], 'desc ' + e['cat']))
    return '\n'.join(lines) + '\n'


# ----------------------------------------------------------------------------- generation
def _pad(rng, s, n, allow_nul=False):
    return s.ljust(n, '\0' if (allow_nul and rng.random() < 0.5) else ' ')


def gen_content(rng, tier, scaled, wr, full_tables=False):
    ncat = rng.randint(1, 3)
    cats = rng.sample(CATS, ncat)
    ntr = rng.randint(1, 3)
    offs = {}
    dinfo = []
    pool_off = [0, 100, 1000, 2000]
    rng.shuffle(pool_off)
    for i, c in enumerate(cats):
        if full_tables or rng.random() < 0.8:
            offs[c] = pool_off[i]
            dinfo.append(dict(offset=pool_off[i], cat=c))
    if rng.random() < 0.3:   # an unrelated category line
        extra = rng.choice([c for c in CATS if c not in cats])
        dinfo.append(dict(offset=3000, cat=extra))
    rng.shuffle(dinfo)
    nx, ny = rng.randint(1, 3), rng.randint(1, 3)
    big = rng.random() < 0.04
    tracers, used, ords = [], set(), set()
    while len(tracers) < ntr:
        c = rng.choice(cats)
        tid = rng.randint(1, 6)
        o = tid + offs.get(c, 0)
        if (c, tid) in used or o in ords:
            continue
        used.add((c, tid)); ords.add(o)
        nz = rng.randint(1, 3)
        if big and not tracers:
            nz = rng.choice([48, 49, 49])
        # window offsets (I0, J0, L0): each axis independently 1 or > 1, so that all 8 combinations occur per tracer
        # (purely vertical, longitude-only, ... windows exercise the reader's `any(start != 0)` guard and the writer's rebuild)
        start = [rng.randint(2, 40) if rng.random() < 0.5 else 1,
                 rng.randint(2, 30) if rng.random() < 0.5 else 1,
                 rng.randint(2, 5) if rng.random() < 0.5 else 1]
        tracers.append(dict(cat=c.ljust(40), tid=tid, unit=_pad(rng, rng.choice(UNITS), 40, wr), resv=''.ljust(40) if rng.random() < 0.7 else 'res'.ljust(40),
                            dim=[1 if nz > 3 else nx, 1 if nz > 3 else ny, nz], start=start))
    # tracerinfo: entries for most tracers (present / missing / only the un-offset number present)
    tinfo, names = [], list(NAMES)
    rng.shuffle(names)
    have = set()
    for tr in tracers:
        o = tr['tid'] + offs.get(tr['cat'].strip(), 0)
        r = rng.random()
        if (full_tables or r < 0.75) and o not in have:
            tinfo.append(dict(name=names.pop(), ord=o, scale=rng.choice(SCALES), unit=rng.choice(UNITS), molwt=rng.choice([0.046, 0.048, 0.121]), c=rng.choice([1, 3, 4])))
            have.add(o)
        elif r < 0.9 and tr['tid'] not in have and tr['tid'] not in ords:
            tinfo.append(dict(name=names.pop(), ord=tr['tid'], scale=rng.choice(SCALES), unit=rng.choice(UNITS), molwt=0.03, c=1))
            have.add(tr['tid'])
    for _ in range(rng.randint(0, 2)):   # unrelated lines
        o = rng.randint(7, 90) + rng.choice([0, 100, 1000, 2000])
        if o not in have and o not in ords and names:
            tinfo.append(dict(name=names.pop(), ord=o, scale=rng.choice(SCALES), unit=rng.choice(UNITS), molwt=0.03, c=1))
            have.add(o)
    if not tinfo:
        tinfo.append(dict(name=names.pop(), ord=99, scale='1.000E+00', unit='K', molwt=0.03, c=1))
    rng.shuffle(tinfo)
    nt = rng.randint(1, 3)
    t0 = float(rng.randint(0, 200000))
    times = []
    for t in range(nt):
        data = []
        for tr in tracers:
            n = tr['dim'][0] * tr['dim'][1] * tr['dim'][2]
            if scaled:
                d = [L.f32_word(rng.randint(-8, 8) * 2.0 ** rng.randint(-4, 4)) for _ in range(n)]
            else:
                d = [L.finite_word(rng) for _ in range(n)]
            data.append(d)
        times.append(dict(tau=[(t0 + 24.0 * t).hex(), (t0 + 24.0 * (t + 1)).hex()], data=data))
    model = dict(name=_pad(rng, rng.choice(['GEOS5_47L', 'GEOS4_30L', 'MERRA_47L']), 20, wr),
                 res=[rng.choice([5.0, 2.5, 0.625]).hex(), rng.choice([4.0, 2.0, 0.5]).hex()], hp=rng.choice([0, 1]), c180=rng.choice([0, 1]))
    return dict(ftype='CTM bin 02'.ljust(40), title=('GEOS-CHEM Checkpoint File %d' % rng.randint(0, 99)).ljust(80),
                model=model, tracers=tracers, times=times, tinfo=tinfo, dinfo=dinfo)


def word_roles(case):
    """index of interesting words of the encoded file: list of (role, block number, index)"""
    roles = [('gm', -1, 0), ('gm', -1, 11), ('gm', -1, 12), ('gm', -1, 33)]
    off = 34
    k = 0
    for t in case['times']:
        for tr in case['tracers']:
            n = tr['dim'][0] * tr['dim'][1] * tr['dim'][2]
            roles += [('hm', k, off), ('hm', k, off + 10), ('hm', k, off + 11), ('hm', k, off + 54), ('cat', k, off + 12), ('tid', k, off + 22),
                      ('dim', k, off + 47 + (k % 3)), ('skip', k, off + 53), ('dm', k, off + 55), ('dm', k, off + 56 + n), ('tau', k, off + 33)]
            off += 57 + n
            k += 1
    return roles, off


def gen_mut(rng, case):
    ws_len = len(encode(case))
    roles, _ = word_roles(case)
    r = rng.random()
    if r < 0.35:
        # block / time-block boundaries (and just around them, and 220 bytes = one header further) are the interesting cuts
        ends, off = [], 34
        for t in case['times']:
            for tr in case['tracers']:
                off += 57 + tr['dim'][0] * tr['dim'][1] * tr['dim'][2]
                ends.append(4 * off)
        bnd = rng.choice(ends) + rng.choice([0, 0, 0, -4, 4, 1, 216, 220, 224, 228, 232])
        return dict(cut=rng.choice([rng.randint(0, 4 * ws_len), 4 * rng.randint(0, ws_len), rng.randint(130, 360),
                                    max(0, min(4 * ws_len, bnd)), max(0, min(4 * ws_len, bnd))]))
    if r < 0.45:
        return dict(append=[L.finite_word(rng) for _ in range(rng.choice([1, 2, 55, 60]))])
    role, k, i = rng.choice(roles)
    ws = encode(case)
    if role in ('gm', 'hm', 'dm'):
        v = rng.choice([0, ws[i] + 4, 36, 168])
    elif role == 'tid':
        v = rng.choice([ws[i] + 1, 1, 2, 7])
    elif role == 'cat':
        v = rng.choice(swords(rng.choice(CATS).ljust(40))[:1])
    elif role == 'dim':
        v = rng.choice([ws[i] + 1, 1, 49])
    elif role == 'skip':
        v = max(0, ws[i] + rng.choice([-8, -4, 4, 8, 228]))
    else:
        v = L.finite_word(rng)
    return dict(edits=[[i, v]])


def gen(rng, n, tier):
    out = []
    for i in range(n):
        r = rng.random()
        if r < 0.12:
            full = rng.random() < 0.6
            c = gen_content(rng, tier, False, False, full_tables=full)
            out.append(dict(kind='b2-complete-tables' if full else 'b2-any-tables', mode='b2', noscale=True, content=c, mut=None))
            continue
        wr = 0.55 <= r < 0.8
        mal = r >= 0.8
        scaled = rng.random() < (0.4 if not mal else 0.2)
        c = gen_content(rng, tier, scaled, wr)
        if tier == 'search' and rng.random() < 0.3:
            # boundary bias: one tracer, few blocks
            c['tracers'] = c['tracers'][:1]
            for t in c['times']:
                t['data'] = t['data'][:1]
        mut = gen_mut(rng, c) if mal else None
        kind = ('mal-' + ('cut' if 'cut' in mut else 'append' if 'append' in mut else 'edit')) if mal else \
               ('wr-' if wr else 'rw-') + ('scaled' if scaled else 'noscale')
        out.append(dict(kind=kind, mode='wr' if wr else 'rw', noscale=not scaled, content=c, mut=mut))
    return out


# ----------------------------------------------------------------------------- driving the library
def _bytes_words(b, n, fill=b'\0'):
    """numpy bytes value (trailing NULs stripped) of an S<n> field -> words"""
    b = bytes(b).ljust(n, fill)[:n]
    return list(struct.unpack('>%dI' % (n // 4), b))


def observe(f, nvars_hint=None):
    import numpy as np
    out = {}
    out['ftype'] = _bytes_words(f.ftype if isinstance(f.ftype, bytes) else str(f.ftype).encode('latin-1'), 40)
    out['title'] = _bytes_words(f.toptitle if isinstance(f.toptitle, bytes) else str(f.toptitle).encode('latin-1'), 80)
    res = np.asarray(f.modelres, dtype='>f4').view('>u4').astype('int64').tolist()
    out['model'] = _bytes_words(f.modelname if isinstance(f.modelname, bytes) else str(f.modelname).encode('latin-1'), 20) + res + \
        [int(f.halfpolar) & 0xffffffff, int(f.center180) & 0xffffffff]
    out['nx'] = len(f.dimensions['longitude'])
    out['ny'] = len(f.dimensions['latitude'])
    out['ntime'] = len(f.dimensions['time'])
    keys = [k for k in f.variables.keys()]
    vs = []
    for k in keys:
        if k == 'layer_bounds':
            break
        v = f.variables[k]
        arr = np.asarray(v[...])
        u = v.units
        d = dict(key=k, cat=str(v.category), tid=int(v.tracerid), unit0=_bytes_words(v.base_units, 40), resv=_bytes_words(v.reserved, 40),
                 shape=[int(s) for s in arr.shape], dims=list(v.dimensions),
                 start=[int(getattr(v, a, 0)) + 1 for a in ('STARTI', 'STARTJ', 'STARTK')],
                 scale=float(v.scale).hex(),
                 units=dict(s=u) if isinstance(u, str) else dict(b=bytes(u).decode('latin-1')),
                 dtype=str(arr.dtype),
                 data=[np.ascontiguousarray(arr[t], dtype='>f4').view('>u4').astype('int64').ravel().tolist() for t in range(arr.shape[0])])
        vs.append(d)
    out['vars'] = vs
    tb = np.asarray(f.variables['time_bounds'][...], dtype='>f8')
    out['taus'] = [np.ascontiguousarray(tb[t]).view('>u4').astype('int64').ravel().tolist() for t in range(tb.shape[0])]
    return out


def observe2(f2):
    """what the block-walking reader presents: per variable (its own order) ids, attributes and data per time"""
    import numpy as np
    out = {}
    out['ftype'] = _bytes_words(f2.ftype if isinstance(f2.ftype, bytes) else str(f2.ftype).encode('latin-1'), 40)
    out['title'] = _bytes_words(f2.toptitle if isinstance(f2.toptitle, bytes) else str(f2.toptitle).encode('latin-1'), 80)
    vs = []
    for k in list(f2._gcvars.keys()):
        v = f2.variables[k]
        arr = np.asarray(v[...])
        bu = v.base_units
        vs.append(dict(key=k, cat=str(v.category), tid=int(v.tracerid),
                       unit0=_bytes_words(bu if isinstance(bu, bytes) else str(bu).encode('latin-1'), 40),
                       shape=[int(x) for x in arr.shape], dims=list(v.dimensions),
                       start=[int(getattr(v, a_, 0)) + 1 for a_ in ('STARTI', 'STARTJ', 'STARTK')],
                       scale=float(v.scale).hex(), units=dict(s=str(v.units)), has_reserved=hasattr(v, 'reserved'),
                       data=[np.ascontiguousarray(arr[t], dtype='>f4').view('>u4').astype('int64').ravel().tolist() for t in range(arr.shape[0])]))
    out['vars'] = vs
    t0 = np.asarray(f2.variables['tau0'][...]); t1 = np.asarray(f2.variables['tau1'][...])
    out['tau_dtype'] = str(t0.dtype)
    # bpch2 stores tau0/tau1 as integers; whole-hour stamps (all that is generated) convert back exactly
    out['taus'] = [f64words(float(a)) + f64words(float(b)) for a, b in zip(t0.tolist(), t1.tolist())]
    return out


def build_ncf(c, noscale):
    """a bpch-convention file built by hand (PseudoNetCDFFile + the attributes ncf2bpch documents by use)"""
    import numpy as np
    from PseudoNetCDF import PseudoNetCDFFile
    g = PseudoNetCDFFile()
    nt = len(c['times'])
    g.createDimension('time', nt)
    tr0 = c['tracers'][0]
    g.createDimension('longitude', tr0['dim'][0])
    g.createDimension('latitude', tr0['dim'][1])
    g.ftype = c['ftype'].rstrip(' ')
    g.toptitle = c['title'].rstrip(' ')
    g.modelname = c['model']['name'].rstrip('\0')
    g.modelres = np.array([float.fromhex(h) for h in c['model']['res']], dtype='f')
    g.halfpolar = c['model']['hp']
    g.center180 = c['model']['c180']
    g.noscale = noscale
    tabs = lookup_tables(c)
    for j, tr in enumerate(c['tracers']):
        nx, ny, nz = tr['dim']
        for dk, dn in (('layer%d' % nz, nz), ('lat%d' % ny, ny), ('lon%d' % nx, nx)):
            if dk not in g.dimensions:
                g.createDimension(dk, dn)
        name, scale, unit = py_lookup(tabs, tr)
        v = g.createVariable('V%d_%s' % (j, tr['cat'].strip()), 'f', ('time', 'layer%d' % nz, 'lat%d' % ny, 'lon%d' % nx))
        raw = np.array([L.bytes_of_words(t['data'][j]) for t in c['times']]).view('>f4').reshape(nt, nz, ny, nx).astype('f')
        v[:] = raw if noscale else raw * np.float32(scale)
        v.tracerid = tr['tid']
        v.category = tr['cat'].strip()
        v.base_units = tr['unit'].rstrip('\0')
        v.reserved = tr['resv'].strip() or ' '
        v.scale = float(scale)
        v.units = unit if isinstance(unit, str) else 'unknown'
        if tr['start'] != [1, 1, 1]:
            v.STARTI, v.STARTJ, v.STARTK = tr['start'][0] - 1, tr['start'][1] - 1, tr['start'][2] - 1
    for k, col in (('tau0', 0), ('tau1', 1)):
        tv = g.createVariable(k, 'd', ('time',))
        tv[:] = np.array([float.fromhex(t['tau'][col]) for t in c['times']])
    return g


def impl(case):
    import warnings
    warnings.simplefilter('ignore')
    import numpy as np
    from PseudoNetCDF.geoschemfiles._bpch import bpch1, ncf2bpch
    c = case['content']
    d = tempfile_dir()
    obs = {}
    sink = io.StringIO()
    try:
        with open(os.path.join(d, 'tracerinfo.dat'), 'w') as f:
            f.write(tinfo_text(c))
        with open(os.path.join(d, 'diaginfo.dat'), 'w') as f:
            f.write(dinfo_text(c))
        p = os.path.join(d, 'in.bpch')
        if case['mode'] in ('rw', 'b2'):
            b = apply_mut(encode(c), case.get('mut'))
            with open(p, 'wb') as f:
                f.write(b)
            obs['size'] = len(b)
            obs['ws'] = L.words_of_bytes(b[:len(b) - len(b) % 4])
        else:
            od = os.path.join(d, 'o')
            os.makedirs(od)
            for nm in ('tracerinfo.dat', 'diaginfo.dat'):
                shutil.copy(os.path.join(d, nm), os.path.join(od, nm))
            p = os.path.join(od, 'w.bpch')
            try:
                with contextlib.redirect_stdout(sink):
                    g = build_ncf(c, case['noscale'])
                    ncf2bpch(g, p).close()
                obs['written'] = L.words_of_bytes(open(p, 'rb').read())
            except Exception as e:
                obs['write_error'] = '%s: %s' % (type(e).__name__, str(e)[:200])
                return obs
        try:
            with contextlib.redirect_stdout(sink):
                f1 = bpch1(p, noscale=case['noscale'])
                obs.update(observe(f1))
            obs['open_ok'] = True
        except Exception as e:
            obs['open_ok'] = False
            obs['open_error'] = '%s: %s' % (type(e).__name__, str(e)[:160])
        if case['mode'] == 'rw' and obs['open_ok'] and case['noscale']:
            p2 = os.path.join(d, 'o2')
            os.makedirs(p2)
            try:
                with contextlib.redirect_stdout(sink):
                    ncf2bpch(f1, os.path.join(p2, 'w.bpch')).close()
                obs['written'] = L.words_of_bytes(open(os.path.join(p2, 'w.bpch'), 'rb').read())
            except Exception as e:
                obs['write_error'] = '%s: %s' % (type(e).__name__, str(e)[:200])
        if case['mode'] == 'b2':
            from PseudoNetCDF.geoschemfiles._newbpch import bpch2
            try:
                with contextlib.redirect_stdout(sink):
                    f2 = bpch2(p, noscale=True)
                    obs['b2'] = dict(ok=True, **observe2(f2))
            except Exception as e:
                obs['b2'] = dict(ok=False, err='%s: %s' % (type(e).__name__, str(e)[:120]))
    finally:
        shutil.rmtree(d, ignore_errors=True)
    return obs


def tempfile_dir():
    import tempfile
    w = os.path.join(C.VERIF, '.work')
    os.makedirs(w, exist_ok=True)
    return tempfile.mkdtemp(dir=w, prefix='bpch')


# ----------------------------------------------------------------------------- Coq terms
def pools(c):
    return sorted(set(e['name'] for e in c['tinfo'])), sorted(set(e['unit'] for e in c['tinfo']))


def qlit(x):
    fr = Fraction(x)
    return '(%s # %d)' % (C.zc(fr.numerator), fr.denominator)


def coq_tables(c):
    names, units = pools(c)
    T = '[' + '; '.join('{| t_ord := %d; t_name := %d; t_scale := %s; t_unit := %d |}' % (
        e['ord'], names.index(e['name']), qlit(float(e['scale'])), units.index(e['unit'])) for e in c['tinfo']) + ']'
    D = '[' + '; '.join('(%s, %d)' % (C.zlist(swords(e['cat'].ljust(40))), e['offset']) for e in c['dinfo']) + ']'
    return T, D


def coq_block(b):
    return ('{| b_model := %s; b_cat := %s; b_tid := %d; b_unit := %s; b_tau := %s; b_resv := %s; b_nx := %d; b_ny := %d; b_nz := %d; '
            'b_start := %s; b_data := %s |}') % (C.zlist(b['model']), C.zlist(b['cat']), b['tid'], C.zlist(b['unit']), C.zlist(b['tau']),
                                                 C.zlist(b['resv']), b['dim'][0], b['dim'][1], b['dim'][2], C.zlist(b['start']), C.zlist(b['data']))


def coq_file(c):
    tbs = '[' + '; '.join('[' + '; '.join(coq_block(b) for b in tb) + ']' for tb in blocks_of(c)) + ']'
    return '{| f_ftype := %s; f_title := %s; f_times := %s |}' % (C.zlist(swords(c['ftype'])), C.zlist(swords(c['title'])), tbs)


EMPTY_VIEW = '{| r_ftype := []; r_title := []; r_model := []; r_nx := 0; r_ny := 0; r_vars := []; r_taus := []; r_data := [] |}'
EMPTY_VIEW2 = '{| s_ftype := []; s_title := []; s_vars := []; s_taus := []; s_data := [] |}'


def coq_vars(c, ovars, resv=True, text_units=False):
    names, units = pools(c)
    vs = []
    for v in ovars:
        key, cat = v['key'], v['cat']
        nm = key[len(cat) + 1:] if key.startswith(cat + '_') else None
        if nm is not None and nm in names:
            tn = '(TName %d)' % names.index(nm)
        elif nm is not None and nm.isdigit():
            tn = '(TNum %d)' % int(nm)
        else:
            tn = '(TName (-1))'
        u = v['units']
        if text_units:   # bpch2: every unit is a str; compared by text (Corr unit_text)
            tu = '(UHdr %s)' % C.zlist(swords((u.get('s', u.get('b')) or '').ljust(40)[:40]))
        elif 's' in u:
            tu = '(UTab %d)' % (units.index(u['s']) if u['s'] in units else -1)
        else:
            own = struct.pack('>10I', *v['unit0']).rstrip(b'\0').strip()
            if u['b'].encode('latin-1') == own:
                tu = '(UHdr %s)' % C.zlist(v['unit0'])
            else:
                tu = '(UHdr %s)' % C.zlist(swords(u['b'].ljust(40)[:40]))
        nt, nz, ny, nx = v['shape']
        if not resv:
            v = dict(v, resv=[])
        vs.append('{| v_cat := %s; v_name := %s; v_tid := %d; v_unit0 := %s; v_resv := %s; v_nx := %d; v_ny := %d; v_nz := %d; v_start := %s; '
                  'v_scale := %s; v_unit := %s |}' % (C.zlist(swords(cat.ljust(40)[:40])), tn, v['tid'], C.zlist(v['unit0']), C.zlist(v['resv']),
                                                     nx, ny, nz, C.zlist(v['start']), qlit(float.fromhex(v['scale'])), tu))
    return vs


def coq_view2(c, obs):
    b2 = obs.get('b2') or {}
    if not b2.get('ok'):
        return EMPTY_VIEW2
    vs = coq_vars(c, b2['vars'], resv=False, text_units=True)
    data = '[' + '; '.join(C.zll(v['data']) for v in b2['vars']) + ']'
    return '{| s_ftype := %s; s_title := %s; s_vars := [%s]; s_taus := %s; s_data := %s |}' % (
        C.zlist(b2['ftype']), C.zlist(b2['title']), '; '.join(vs), C.zll(b2['taus']), data)


def coq_view(c, obs):
    if not obs.get('open_ok'):
        return EMPTY_VIEW
    vs = coq_vars(c, obs['vars'])
    ntime = obs['ntime']
    data = '[' + '; '.join(C.zll([v['data'][t] for v in obs['vars']]) for t in range(ntime)) + ']'
    return ('{| r_ftype := %s; r_title := %s; r_model := %s; r_nx := %d; r_ny := %d; r_vars := [%s]; r_taus := %s; r_data := %s |}' % (
        C.zlist(obs['ftype']), C.zlist(obs['title']), C.zlist(obs['model']), obs['nx'], obs['ny'], '; '.join(vs), C.zll(obs['taus']), data))


def coq_term(case, obs):
    if 'raises' in obs:
        return None
    c = case['content']
    if case['mode'] == 'wr' and 'written' not in obs:
        return None   # decided by py_check (writer raised)
    T, D = coq_tables(c)
    ref = encode(c)
    mode = {'rw': 0, 'wr': 1, 'b2': 2}[case['mode']]
    # well-formed mode-0 cases give the library exactly the reference encoding: the words are not repeated in the term
    ws = obs.get('ws', []) if (mode == 0 and case.get('mut') is not None) else []
    upool = C.zll([swords(u.ljust(40)[:40]) for u in pools(c)[1]]) if mode == 2 else '[]'
    return '(Case %d %s %s %s %s %s %d %s %s %s %s %s %s %s %s %s)' % (
        mode, T, D, coq_file(c), C.zlist(ref), C.zlist(ws), obs.get('size', 0), C.cbool(case.get('mut') is not None),
        C.cbool(not case['noscale']), C.cbool(obs.get('open_ok', False)), coq_view(c, obs),
        C.cbool('written' in obs), C.zlist(obs.get('written', [])),
        C.cbool(bool((obs.get('b2') or {}).get('ok'))), coq_view2(c, obs), upool)


# ----------------------------------------------------------------------------- independent Python oracle
def lookup_tables(c):
    td = {}
    for e in c['tinfo']:
        td.setdefault(e['ord'], e)
    dd = {}
    for e in c['dinfo']:
        dd.setdefault(e['cat'].strip(), e['offset'])
    return td, dd


def py_lookup(tabs, tr):
    td, dd = tabs
    o = tr['tid'] + dd.get(tr['cat'].strip(), 0)
    if o in td:
        return td[o]['name'], float(td[o]['scale']), td[o]['unit']
    if tr['tid'] in td:
        return td[tr['tid']]['name'], 1.0, tr['unit'].rstrip('\0').strip().encode('latin-1')
    return str(tr['tid']), 1.0, tr['unit'].rstrip('\0').strip().encode('latin-1')


def region_of(case):
    return 0


def py_check(case, obs):
    import numpy as np
    if 'raises' in obs:
        return dict(s_ok=False, f_ok=False, region=region_of(case), why='harness/impl raised ' + str(obs)[:200])
    c = case['content']
    reg = region_of(case)
    why = []
    if case['mode'] == 'b2':
        # independent comparison of the two readers' presentations (clause 4)
        b2 = obs.get('b2') or {}
        if not b2.get('ok'):
            why.append('bpch2 raised ' + str(b2.get('err')))
        elif not obs.get('open_ok'):
            why.append('bpch1 raised ' + str(obs.get('open_error')))
        else:
            v1 = {(v['cat'], v['tid']): v for v in obs['vars']}
            if [(v['cat'], v['tid']) for v in b2['vars']] != [(v['cat'], v['tid']) for v in obs['vars']]:
                why.append('bpch2 presents variables %s, bpch1 %s' % ([v['key'] for v in b2['vars']], [v['key'] for v in obs['vars']]))
            for v in b2['vars']:
                w = v1.get((v['cat'], v['tid']))
                if w is None:
                    continue
                if v['data'] != w['data']:
                    why.append('bpch2 data differ for ' + v['key'])
                if v['units'].get('s', v['units'].get('b')) != w['units'].get('s', w['units'].get('b')):   # text; str vs bytes is a type difference only
                    why.append('bpch2 unit of %s is %r, bpch1 has %r' % (v['key'], v['units'], w['units']))
                for fld in ('key', 'scale', 'unit0', 'start', 'shape'):
                    if v[fld] != w[fld]:
                        why.append('bpch2 %s of %s is %r, bpch1 has %r' % (fld, v['key'], v[fld], w[fld]))
            if b2['taus'] != obs['taus']:
                why.append('bpch2 time stamps differ')
        return dict(s_ok=not why, region=reg, why='; '.join(why[:3]))
    if case.get('mut') is not None:
        return dict(s_ok=True, region=0, why='')
    if case['mode'] == 'rw' and (obs.get('ws') != encode(c) or obs.get('size') != 4 * len(obs.get('ws', []))):
        return dict(s_ok=False, f_ok=False, region=0, why='harness: file given to the library is not the reference encoding')
    if case['mode'] == 'wr' and 'written' not in obs:
        return dict(s_ok=False, region=reg, why='library writer raised ' + str(obs.get('write_error')))
    if not obs.get('open_ok'):
        return dict(s_ok=False, region=reg, why='bpch1 raised on a well-formed file: ' + str(obs.get('open_error')))
    tabs = lookup_tables(c)
    if len(obs['vars']) != len(c['tracers']) or obs['ntime'] != len(c['times']):
        why.append('presents %d variables x %d times, file has %d x %d' % (len(obs['vars']), obs['ntime'], len(c['tracers']), len(c['times'])))
    else:
        for j, (tr, v) in enumerate(zip(c['tracers'], obs['vars'])):
            name, scale, unit = py_lookup(tabs, tr)
            if v['key'] != '%s_%s' % (tr['cat'].strip(), name):
                why.append('key %s, expected %s_%s' % (v['key'], tr['cat'].strip(), name))
            if float.fromhex(v['scale']) != scale:
                why.append('scale of %s is %s, table says %s' % (v['key'], float.fromhex(v['scale']), scale))
            got_u = v['units'].get('s', v['units'].get('b'))
            exp_u = unit if isinstance(unit, str) else unit.decode('latin-1')
            if got_u != exp_u or (('s' in v['units']) != isinstance(unit, str)):
                why.append('unit of %s is %r, expected %r' % (v['key'], got_u, exp_u))
            if v['tid'] != tr['tid'] or v['cat'] != tr['cat'].strip():
                why.append('ids of %s differ' % v['key'])
            if v['start'] != tr['start'] or v['shape'][1:] != tr['dim'][::-1]:
                why.append('grid of %s: start %s shape %s' % (v['key'], v['start'], v['shape']))
            if v['dims'][1] != 'layer%d' % tr['dim'][2]:
                why.append('layer dimension of %s is %s' % (v['key'], v['dims'][1]))
            for t, tm in enumerate(c['times']):
                raw = np.array(tm['data'][j], dtype='>u4').view('>f4')
                exp = raw if case['noscale'] else (raw.astype('f') * np.float32(scale)).astype('>f4')
                if exp.view('>u4').astype('int64').tolist() != v['data'][t]:
                    why.append('data of %s at time %d differ from raw%s' % (v['key'], t, '' if case['noscale'] else ' * scale'))
                    break
        for t, tm in enumerate(c['times']):
            if obs['taus'][t] != f64words(float.fromhex(tm['tau'][0])) + f64words(float.fromhex(tm['tau'][1])):
                why.append('time bounds of block %d differ' % t)
    if case['mode'] == 'rw' and case['noscale']:
        if 'written' not in obs:
            why.append('library writer raised ' + str(obs.get('write_error')))
        elif obs['written'] != encode(c):
            why.append('written bytes differ from the original')
    return dict(s_ok=not why, region=reg, why='; '.join(why[:3]))


def nontrivial(case, obs):
    return bool(obs.get('open_ok')) and len(obs.get('vars', [])) >= 1


def shrink(case):
    c = case['content']
    if case.get('mut') is not None:
        return
    if len(c['times']) > 1:
        yield dict(case, content=dict(c, times=c['times'][:-1]))
    if len(c['tracers']) > 1:
        for j in range(len(c['tracers'])):
            yield dict(case, content=dict(c, tracers=c['tracers'][:j] + c['tracers'][j + 1:],
                                          times=[dict(t, data=t['data'][:j] + t['data'][j + 1:]) for t in c['times']]))
    if len(c['tinfo']) > 1:
        yield dict(case, content=dict(c, tinfo=c['tinfo'][:-1]))
