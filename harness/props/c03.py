"""C03 — PseudoNetCDFFile.applyAlongDimensions equals the numpy/numpy.ma function along the named axes."""
import itertools
from fractions import Fraction
from harness import common as C

ID = 'C03'
N = {'quick': 3000, 'thorough': 30000}
SEARCH_N = {'quick': 2500, 'thorough': 20000}
SHARD = 150
RULE = ('files with 2-4 dimensions (lengths 1-4), 1-4 data variables over a random ORDERED subset of the dimensions '
        '(<= 24 cells; int32/int64/float64; ~40% masked, possibly a fully masked lane), optional 1-D coordinate variables, '
        'variables lacking the named dimensions; 1-3 named dimensions, each with a named reducer (sum prod min max mean; '
        'std/var only against the Python oracle) or a length-changing callable (numpy.diff, x[::k], numpy.convolve with an '
        'integer kernel in modes full/same/valid), incl. middle axes and mixed reducer/callable; keyword order random. '
        'the documented dict(func1d=f, **kwargs) form for ~30% of the callables (numpy.convolve with v=, mode= keywords); '
        'numpy.sum/max/min/mean/prod passed as 1-D functions (scalar results, axis kept; unmasked variables); 10% (50% of the search '
        'stream) widening cases: int8/int16/int32 data near the dtype maximum under sum / prod (numpy int64), float32 data with 24-bit '
        'integers under numpy.convolve (numpy float64) — result dtype of every variable compared with numpy\'s, integer values exactly; '
        'Malformed stream (~12%): unknown dimension, method without keepdims, missing method. 12% of the cases go through the IOAPI '
        'wrapper (ioapi_base.from_arrays file with (TSTEP,LAY,ROW,COL) variables; data variables, dimension lengths, VGLVLS/NLAYS '
        'compared; TFLAG left to C10) and 12% through the string forms core/_functions.reduce_dim / convolve_dim on the subset they '
        'express (one dimension; named reducer / integer kernel) — all against the same model call impl_apply. '
        'Every case: F = Coq model (Model/Apply.v, vm_compute) vs library: exception class or new dimension lengths + '
        'per-variable shape and cells (exact; non-dyadic means within 2^-40 relative or 2^-30 absolute); S = Coq spec_file_ok and an independent '
        'numpy oracle (explicit lane loops). Non-trivial = some variable changed shape.')
TRUSTED = ['numpy reductions (method(axis, keepdims=True)) and apply_along_axis implement the pointwise definition NdApply.apply_axis '
           '(validated by the F comparison, not proved)',
           'binary64 results are compared with exact rationals: equal, or within 2^-40 relative / 2^-30 absolute for non-dyadic means (cancellation)',
           'not in the Coq model (Python oracle only): std/var; numpy.convolve on a masked lane (numpy ignores the mask and uses hidden data)']
ASSUMPTIONS = ['dimension lengths >= 1; numpy broadcasting of a mismatching length-1 axis on assignment is not modelled']
DIMS = ['t', 'z', 'y', 'x']
REDS = ['sum', 'prod', 'min', 'max', 'mean']
COMMUTING = {'sum', 'prod', 'min', 'max'}
NONINT = {'mean', 'std', 'var'}


# ----------------------------------------------------------------------------- generation
def _gen_func(rng, tier, n):
    r = rng.random()
    if r < 0.55:
        return dict(t='red', name=rng.choice(REDS + ['sum', 'mean', 'mean']))
    if r < 0.60 and tier != 'search':
        return dict(t='red', name=rng.choice(['std', 'var']))
    if r < 0.64 and tier != 'search':
        return dict(t='callred', name=rng.choice(['sum', 'max', 'min', 'mean', 'prod']))   # numpy.sum etc. passed as 1-D functions
    if r < 0.72 and n >= 2:
        return dict(t='diff')
    if r < 0.82:
        return dict(t='sub', step=rng.randint(1, 3))
    ker = [rng.randint(-2, 3) for _ in range(rng.randint(1, 3))]
    return dict(t='conv', mode=rng.choice(['full', 'same', 'valid']), ker=ker)


def _base(f):
    """the callable behind the documented dict(func1d=..., **kwargs) form"""
    return f['inner'] if f['t'] == 'dict' else f


def _one(rng, tier):
    nd = rng.randint(2, 4)
    names = rng.sample(DIMS, nd)
    names.sort(key=DIMS.index)
    dims = [[d, rng.choice([1, 2, 2, 3, 3, 4])] for d in names]
    dl = dict(dims)
    nf = rng.choice([1, 1, 2, 2, 3])
    fdims = rng.sample(names, min(nf, nd))
    funcs = [[d, _gen_func(rng, tier, dl[d])] for d in fdims]
    for df in funcs:
        if df[1]['t'] != 'red' and rng.random() < 0.3:
            df[1] = dict(t='dict', inner=df[1])      # applyAlongDimensions(x=dict(func1d=f, **kwargs))
    use_prod = any(_base(f).get('name') == 'prod' for _, f in funcs)
    callred = any(_base(f)['t'] == 'callred' for _, f in funcs)
    vars_ = []
    nv = rng.randint(1, 4)
    for i in range(nv):
        for _ in range(20):
            k = rng.randint(1, min(3, nd))
            vd = rng.sample(names, k)
            if rng.random() < 0.6:
                vd.sort(key=DIMS.index)
            size = 1
            for d in vd:
                size *= dl[d]
            if size <= 24:
                break
        else:
            vd = [names[0]]
            size = dl[names[0]]
        dtype = rng.choice(['i8', 'i4', 'f8', 'f8'])
        den = 1 if (dtype != 'f8' or use_prod or rng.random() < 0.3) else 4
        lim = 2 if use_prod else rng.choice([3, 9, 40])
        data = [rng.randint(-lim, lim) for _ in range(size)]
        mask = None
        if rng.random() < 0.4:
            p = rng.choice([0.15, 0.4, 0.8])
            mask = [1 if rng.random() < p else 0 for _ in range(size)]
            if rng.random() < 0.3 and size > 1:
                # mask one whole lane along the last axis
                ln = dl[vd[-1]]
                o = rng.randrange(size // ln) * ln
                for j in range(ln):
                    mask[o + j] = 1
        if callred:
            mask = None          # numpy.sum(...) on a fully masked lane returns the masked constant: outside the model
        vars_.append(dict(name='ABCD'[i], dtype=dtype, dims=vd, data=data, den=den, mask=mask))
    for d in names:
        if rng.random() < 0.35:
            n = dl[d]
            dtype = rng.choice(['i8', 'f8'])
            start = rng.randint(-5, 5)
            stepv = rng.randint(1, 4)
            vars_.append(dict(name=d, dtype=dtype, dims=[d], data=[start + stepv * j for j in range(n)],
                              den=1 if dtype == 'i8' else rng.choice([1, 4]), mask=None))
    rng.shuffle(vars_)
    kind = 'ok'
    r = rng.random()
    if r < 0.12 or (tier == 'search' and r < 0.05):
        bad = rng.choice(['nokey', 'cumsum', 'ptp'])
        kind = 'bad-' + bad
        if bad == 'nokey':
            missing = [d for d in DIMS if d not in names] or ['q']
            funcs.insert(rng.randint(0, len(funcs)), [missing[0], dict(t='red', name='sum')])
        elif bad == 'cumsum':
            funcs[rng.randrange(len(funcs))][1] = dict(t='red', name='cumsum')
        else:
            funcs[rng.randrange(len(funcs))][1] = dict(t='red', name=rng.choice(['ptp', 'median']))
    if kind == 'ok':
        fs = [f for _, f in funcs]
        tags = set('red' if f['t'] == 'red' else 'call' for f in fs)
        kind = 'ok-' + ('mixed' if len(tags) > 1 else tags.pop()) + str(len(fs))
        if any(f['t'] == 'dict' for f in fs):
            kind += '-dict'
        if any(v['mask'] is not None for v in vars_):
            kind += '-masked'
    return dict(kind=kind, dims=dims, vars=vars_, funcs=funcs)


IONAMES = {'t': 'TSTEP', 'z': 'LAY', 'y': 'ROW', 'x': 'COL'}


def _one_ioapi(rng, tier):
    """ioapi_base.applyAlongDimensions: same call through the IOAPI wrapper (data variables are (TSTEP,LAY,ROW,COL))"""
    dims = [[d, rng.choice([1, 2, 2, 3])] for d in DIMS]
    dl = dict(dims)
    nf = rng.choice([1, 1, 2])
    fdims = rng.sample(DIMS, nf)
    if rng.random() < 0.5 and 'z' not in fdims:
        fdims[0] = 'z'
    funcs = []
    for d in fdims:
        f = _gen_func(rng, 'search', dl[d])
        if d == 'z' and f['t'] == 'red' and f['name'] == 'mean' and dl['z'] == 3:
            dl['z'] = 2                       # float32 VGLVLS: keep the mean dyadic
            dims = [[k, dl[k]] for k in DIMS]
        if d == 't' and f['t'] != 'red':
            f = dict(t='red', name=rng.choice(['sum', 'max', 'mean']))   # TSTEP: reducers only (TFLAG/updatemeta is C10)
        funcs.append([d, f])
    use_prod = any(f['t'] == 'red' and f['name'] == 'prod' for _, f in funcs)
    size = dl['t'] * dl['z'] * dl['y'] * dl['x']
    vars_ = []
    for i in range(rng.randint(1, 2)):
        lim = 2 if use_prod else 9
        den = 1 if use_prod else 4
        vars_.append(dict(name='AB'[i], dtype='f8', dims=list(DIMS), data=[rng.randint(-lim, lim) for _ in range(size)], den=den, mask=None))
    nl = dl['z']
    top = rng.randint(nl, 8)
    edges = sorted(rng.sample(range(0, top + 1), nl + 1), reverse=True)      # descending sigma edges in 1/8
    return dict(kind='ioapi-' + '+'.join(_base(f).get('name', _base(f)['t']) for _, f in funcs), via='ioapi',
                dims=dims, vars=vars_, funcs=funcs, vgl=edges)


def _one_string(rng, tier):
    """core/_functions.reduce_dim / convolve_dim: the string forms of the command line, on the subset they express"""
    for _ in range(50):
        c = _one(rng, tier)
        if c['kind'].startswith('ok'):
            break
    used = [d for d, _ in c['dims'] if any(d in v['dims'] for v in c['vars'])]
    d = rng.choice(used)
    dl = dict(c['dims'])
    if rng.random() < 0.6:
        c['funcs'] = [[d, dict(t='red', name=rng.choice(REDS))]]
        c['via'] = 'reduce_dim'
        if c['funcs'][0][1]['name'] == 'prod':
            for v in c['vars']:
                v['data'] = [max(-2, min(2, x)) for x in v['data']]
                v['den'] = 1
    else:
        ker = [rng.randint(-2, 3) for _ in range(rng.randint(1, 3))]
        c['funcs'] = [[d, dict(t='conv', mode=rng.choice(['full', 'same', 'valid']), ker=ker)]]
        c['via'] = 'convolve_dim'
        for v in c['vars']:
            if d in v['dims']:
                v['mask'] = None             # convolve on masked lanes is outside the model
    c['kind'] = c['via'] + '-' + _base(c['funcs'][0][1]).get('name', 'conv')
    return c


NARROW_MAX = {'i1': 127, 'i2': 32767, 'i4': 2147483647}


def _one_narrow(rng, tier):
    """results that are WIDER than the input dtype within one kind: sum/prod of int8/int16/int32 data whose result does not
    fit the input dtype (numpy gives int64), float32 data under a function that returns float64 (numpy.convolve with an
    integer/double kernel) with results that float32 cannot hold; the result variable must have numpy's dtype and values"""
    nd = rng.randint(1, 3)
    names = sorted(rng.sample(DIMS, nd), key=DIMS.index)
    mode = rng.choice(['intsum', 'intsum', 'intprod', 'f4conv', 'f4conv'])
    dims = [[d, rng.choice([2, 2, 3, 4] if mode != 'intprod' else [2, 2, 3])] for d in names]
    dl = dict(dims)
    nf = 1 if (mode == 'intprod' or rng.random() < 0.6) else min(2, nd)
    fdims = rng.sample(names, nf)
    if mode == 'intsum':
        funcs = [[d, rng.choice([dict(t='red', name='sum'), dict(t='red', name='sum'), dict(t='callred', name='sum')])] for d in fdims]
    elif mode == 'intprod':
        funcs = [[d, dict(t='red', name='prod')] for d in fdims]
    else:
        funcs = []
        for d in fdims:
            f = dict(t='conv', mode=rng.choice(['full', 'same', 'valid']), ker=rng.choice([[1, 1], [1, 2, 1], [1, -1], [2, 1], [1, 1, 1]]))
            funcs.append([d, dict(t='dict', inner=f) if rng.random() < 0.3 else f])
    callred = any(_base(f)['t'] == 'callred' for _, f in funcs)
    vars_ = []
    for i in range(rng.randint(1, 3)):
        k = rng.randint(1, nd)
        vd = rng.sample(names, k)
        if rng.random() < 0.6:
            vd.sort(key=DIMS.index)
        size = 1
        for d in vd:
            size *= dl[d]
        if mode == 'f4conv':
            dtype = 'f4'
            data = [rng.choice([1, -1]) * rng.randint(2 ** 23, 2 ** 24 - 1) for _ in range(size)]
        elif mode == 'intprod':
            dtype = rng.choice(['i1', 'i2'])
            lo, hi = (11, 15) if dtype == 'i1' else (150, 181)
            data = [rng.choice([1, 1, -1]) * rng.randint(lo, hi) for _ in range(size)]
        else:
            dtype = rng.choice(['i1', 'i2', 'i4'])
            mx = NARROW_MAX[dtype]
            data = [rng.choice([1, 1, 1, -1]) * rng.randint(mx // 2, mx) for _ in range(size)]
        mask = None
        if mode != 'f4conv' and not callred and rng.random() < 0.3:
            mask = [1 if rng.random() < 0.25 else 0 for _ in range(size)]
        vars_.append(dict(name='ABCD'[i], dtype=dtype, dims=vd, data=data, den=1, mask=mask))
    if not any(d in v['dims'] for v in vars_ for d in fdims):
        vars_[0]['dims'] = list(names)
        size = 1
        for d in names:
            size *= dl[d]
        vars_[0]['data'] = (vars_[0]['data'] * size)[:size]
        if vars_[0]['mask'] is not None:
            vars_[0]['mask'] = (vars_[0]['mask'] * size)[:size]
    return dict(kind='narrow-' + mode, dims=dims, vars=vars_, funcs=funcs)


def gen(rng, n, tier):
    out = []
    for _ in range(n):
        r = rng.random()
        if r < (0.5 if tier == 'search' else 0.10):
            out.append(_one_narrow(rng, tier))
            continue
        r = rng.random()
        if r < 0.12:
            out.append(_one_ioapi(rng, tier))
        elif r < 0.24:
            out.append(_one_string(rng, tier))
        else:
            out.append(_one(rng, tier))
    return out


# ----------------------------------------------------------------------------- the library
def _arr(v, shape):
    import numpy as np
    a = np.array(v['data'], dtype='f8').reshape(shape) / v['den']
    a = a.astype(v['dtype'])
    if v['mask'] is not None:
        a = np.ma.masked_array(a, mask=np.array(v['mask'], dtype=bool).reshape(shape))
    return a


def _pyfunc(f):
    import numpy as np
    if f['t'] == 'red':
        return f['name']
    if f['t'] == 'diff':
        return np.diff
    if f['t'] == 'callred':
        return getattr(np, f['name'])
    if f['t'] == 'sub':
        st = f['step']
        return lambda a: a[::st]
    if f['t'] == 'conv':
        ker, mode = list(f['ker']), f['mode']
        return lambda a: np.convolve(a, ker, mode)
    if f['t'] == 'dict':
        g = f['inner']
        if g['t'] == 'conv':
            return dict(func1d=np.convolve, v=list(g['ker']), mode=g['mode'])
        return dict(func1d=_pyfunc(g))
    raise ValueError(f)


def _cells(a):
    import numpy as np
    mk = np.ma.getmaskarray(a).ravel().tolist()
    d = np.ma.getdata(a)
    flat = d.ravel().tolist()
    isint = d.dtype.kind in 'iub'
    return [None if m_ else (int(x) if isint else float(x).hex()) for x, m_ in zip(flat, mk)]


def _impl_ioapi(case):
    import numpy as np
    from PseudoNetCDF.cmaqfiles import ioapi_base
    dl = dict(case['dims'])
    shape = [dl[d] for d in DIMS]
    arrs = {v['name']: _arr(v, shape) for v in case['vars']}
    fa = dict(SDATE=2020001, STIME=0, TSTEP=10000, VGLVLS=np.array(case['vgl'], dtype='f') / 8, VGTOP=5000.,
              XORIG=0., YORIG=0., XCELL=1000., YCELL=1000., NTHIK=1)
    f = ioapi_base.from_arrays(fileattrs=fa, **arrs)
    kw = {IONAMES[d]: _pyfunc(fn) for d, fn in case['funcs']}
    with np.errstate(all='ignore'):
        out = f.applyAlongDimensions(**kw)
    back = {v: k for k, v in IONAMES.items()}
    return dict(dims=[[back[k], len(v)] for k, v in out.dimensions.items() if k in back],
                vars=[dict(name=k, dims=[back[d] for d in v.dimensions], shape=list(v.shape), dtype=v.dtype.str[1:],
                           cells=_cells(v[...])) for k, v in out.variables.items() if k != 'TFLAG'],
                vglvls=[float(x).hex() for x in np.asarray(out.VGLVLS, dtype='d').ravel().tolist()],
                nlays=int(out.NLAYS), meta_dims={k: len(v) for k, v in out.dimensions.items() if k not in back})


def _impl_string(case, f):
    import numpy as np
    from PseudoNetCDF.core._functions import reduce_dim, convolve_dim
    (d, fn), = case['funcs']
    with np.errstate(all='ignore'):
        if case['via'] == 'reduce_dim':
            out = reduce_dim(f, '%s,%s' % (d, fn['name']))
        else:
            out = convolve_dim(f, ','.join([d, fn['mode']] + [str(k) for k in fn['ker']]))
    order = [k for k, _ in case['dims']]
    return dict(dims=[[k, len(out.dimensions[k])] for k in order if k in out.dimensions],
                vars=[dict(name=k, dims=list(v.dimensions), shape=list(v.shape), dtype=v.dtype.str[1:],
                           cells=_cells(v[...])) for k, v in out.variables.items()])


def impl(case):
    import numpy as np
    from PseudoNetCDF import PseudoNetCDFFile
    if case.get('via') == 'ioapi':
        return _impl_ioapi(case)
    f = PseudoNetCDFFile()
    dl = dict(case['dims'])
    for d, n in case['dims']:
        f.createDimension(d, n)
    for v in case['vars']:
        shape = [dl[d] for d in v['dims']]
        f.createVariable(v['name'], v['dtype'], tuple(v['dims']), values=_arr(v, shape))
    if case.get('via') in ('reduce_dim', 'convolve_dim'):
        return _impl_string(case, f)
    kw = {}
    for d, fn in case['funcs']:
        kw[d] = _pyfunc(fn)
    with np.errstate(all='ignore'):
        out = f.applyAlongDimensions(**kw)
    return dict(dims=[[k, len(v)] for k, v in out.dimensions.items()],
                vars=[dict(name=k, dims=list(v.dimensions), shape=list(v.shape), dtype=v.dtype.str[1:],
                           cells=_cells(v[...])) for k, v in out.variables.items()])


# ----------------------------------------------------------------------------- Coq term
ERRS = {'KeyError': 'KeyError', 'TypeError': 'TypeError', 'AttributeError': 'AttributeError', 'ValueError': 'ValueError'}
NAMED = {'sum': 'RSum', 'prod': 'RProd', 'min': 'RMin', 'max': 'RMax', 'mean': 'RMean',
         'cumsum': 'BadNoKeepdims', 'ptp': 'BadNoAttr', 'median': 'BadNoAttr'}
MODES = {'full': 0, 'same': 1, 'valid': 2}


def _did(d):
    return DIMS.index(d) if d in DIMS else 9


def _vid(name):
    return _did(name) if name in DIMS else 10 + 'ABCD'.index(name)


def _q(fr):
    fr = Fraction(fr)
    return '(q %s %d)' % (C.zc(fr.numerator), fr.denominator)


def _cell_in(x, den):
    return 'm' if x is None else _q(Fraction(x, den))


def _cell_out(x):
    if x is None:
        return 'm'
    if isinstance(x, int):
        return _q(x)
    return _q(Fraction(float.fromhex(x)))


def _fdesc(f):
    if f['t'] == 'red':
        return NAMED.get(f['name'])
    if f['t'] == 'callred':
        return NAMED[f['name']]
    if f['t'] == 'diff':
        return 'FDiff'
    if f['t'] == 'sub':
        return '(FSub %d%%nat)' % f['step']
    if f['t'] == 'conv':
        return '(FConv %d%%nat [%s])' % (MODES[f['mode']], '; '.join('(Qmake %s 1)' % C.zc(k) for k in f['ker']))
    if f['t'] == 'dict':
        return _fdesc(f['inner'])


def _in_model(case):
    fd = {d: f for d, f in case['funcs']}
    for d, f in case['funcs']:
        if _fdesc(f) is None:
            return False
    for v in case['vars']:
        if v['mask'] is not None and any(d in fd and _base(fd[d])['t'] == 'conv' for d in v['dims']):
            return False
    return True


def coq_term(case, obs):
    if not _in_model(case):
        return None
    dl = dict(case['dims'])
    cdims = ['(%d%%nat, %d%%nat)' % (_did(d), n) for d, n in case['dims']]
    fdz = dict((d, f) for d, f in case['funcs']).get('z')
    extra_in = None
    odims, ovars = [], []
    if case.get('via') == 'ioapi' and 'raises' not in obs and fdz is not None and fdz['t'] == 'red':
        # VGLVLS through the same model call: the wrapper reduces a (lay, nv) bounds variable with the LAY function
        if len(obs['vglvls']) != 2:
            return None
        nl = dl['z']
        layb = []
        for i in range(nl):
            layb += [_q(Fraction(case['vgl'][i], 8)), _q(Fraction(case['vgl'][i + 1], 8))]
        extra_in = '(IVar 14%%nat [1%%nat; 8%%nat] [%d%%nat; 2%%nat] [%s])' % (nl, '; '.join(layb))
        cdims.append('(8%nat, 2%nat)')
        odims.append('(8%nat, 2%nat)')
        ovars.append('([1%%nat; 2%%nat], [%s])' % '; '.join(_q(Fraction(float.fromhex(x))) for x in obs['vglvls']))
    if 'raises' in obs:
        if obs['raises'] not in ERRS:
            return None
        o = '(ORaise %s)' % ERRS[obs['raises']]
    else:
        if [v['name'] for v in obs['vars']] != [v['name'] for v in case['vars']]:
            return None
        o = '(OFile [%s] [%s])' % (
            '; '.join(['(%d%%nat, %d%%nat)' % (_did(d), n) for d, n in obs['dims']] + odims),
            '; '.join(['(%s, [%s])' % (C.natlist(v['shape']), '; '.join(_cell_out(x) for x in v['cells'])) for v in obs['vars']] + ovars))
    vs = []
    for v in case['vars']:
        cells = [None if (v['mask'] is not None and v['mask'][i]) else x for i, x in enumerate(v['data'])]
        # integer dtypes hold the truncated value of data/den (den is 1 for them)
        vs.append('(IVar %d%%nat %s %s [%s])' % (
            _vid(v['name']), C.natlist([_did(d) for d in v['dims']]),
            C.natlist([dl[d] for d in v['dims']]), '; '.join(_cell_in(x, v['den']) for x in cells)))
    if extra_in:
        vs.append(extra_in)
    return '(Case [%s] [%s] [%s] %s)' % (
        '; '.join(cdims), '; '.join(vs),
        '; '.join('(%d%%nat, %s)' % (_did(d), _fdesc(f)) for d, f in case['funcs']), o)


# ----------------------------------------------------------------------------- independent numpy oracle
def _lanewise(func, a, k):
    """apply func to every 1-D lane of a along axis k with explicit loops (no apply_along_axis)"""
    import numpy as np
    other = [n for i, n in enumerate(a.shape) if i != k]
    res = {}
    for idx in np.ndindex(*other):
        sl = list(idx)
        sl.insert(k, slice(None))
        res[idx] = func(a[tuple(sl)])
    first = res[next(iter(res))]
    m_ = len(first)
    shp = list(a.shape)
    shp[k] = m_
    outd = np.zeros(shp, dtype=np.result_type(*[np.ma.getdata(r).dtype for r in res.values()]))
    outm = np.zeros(shp, dtype=bool)
    for idx, r in res.items():
        sl = list(idx)
        sl.insert(k, slice(None))
        outd[tuple(sl)] = np.ma.getdata(r)
        outm[tuple(sl)] = np.ma.getmaskarray(r)
    return np.ma.masked_array(outd, mask=outm)


def _apply1(a, k, f):
    import numpy as np
    if f['t'] == 'dict' and f['inner']['t'] == 'callred':
        f = f['inner']
    if f['t'] == 'callred':
        return getattr(np, f['name'])(np.asarray(a), axis=k, keepdims=True)
    if f['t'] == 'red':
        a = np.ma.masked_array(a)
        return getattr(np.ma, f['name'])(a, axis=k, keepdims=True) if hasattr(np.ma, f['name']) else getattr(a, f['name'])(axis=k, keepdims=True)
    return _lanewise(_pyfunc(_base(f)), np.ma.masked_array(a), k)


def _same(exp, shape, cells):
    import numpy as np
    if list(exp.shape) != list(shape):
        return False
    em = np.ma.getmaskarray(exp).ravel().tolist()
    ed = np.ma.getdata(exp).ravel().tolist()
    for m_, e, c in zip(em, ed, cells):
        if m_ != (c is None):
            return False
        if c is None:
            continue
        if isinstance(c, int):
            if int(c) != int(e) or e != int(e):      # integer results are compared exactly
                return False
            continue
        x = float.fromhex(c)
        if not (x == e or abs(x - e) <= 1e-9 * max(abs(e), abs(x))):
            return False
    return True


def py_check(case, obs):
    import numpy as np
    dl = dict(case['dims'])
    region = 0
    fd = {d: f for d, f in case['funcs']}
    malformed = any(d not in dl for d in fd) or any(
        f['t'] == 'red' and f['name'] not in ('sum', 'prod', 'min', 'max', 'mean', 'std', 'var') for f in fd.values())
    if 'raises' in obs:
        if obs['raises'] not in ERRS:
            return dict(s_ok=False, f_ok=False, region=region, why='unexpected exception %s: %s' % (obs['raises'], obs.get('msg')))
        if malformed:
            return dict(s_ok=True, region=region, why='')
        return dict(s_ok=False, region=region, why='in-domain call raised %s: %s' % (obs['raises'], obs.get('msg')))
    if malformed:
        return dict(s_ok=True, region=region, why='')
    why = []
    with np.errstate(all='ignore'):
        exp_dims = []
        for d, n in case['dims']:
            if d in fd:
                f = fd[d]
                exp_dims.append([d, 1 if _base(f)['t'] in ('red', 'callred') else len(_pyfunc(_base(f))(np.arange(n)))])
            else:
                exp_dims.append([d, n])
        if obs['dims'] != exp_dims:
            why.append('dimension lengths %s, expected %s' % (obs['dims'], exp_dims))
        odl = dict(obs['dims'])
        if [v['name'] for v in obs['vars']] != [v['name'] for v in case['vars']]:
            why.append('variable set/order changed')
        else:
            for v, o in zip(case['vars'], obs['vars']):
                a = _arr(v, [dl[d] for d in v['dims']])
                if o['dims'] != v['dims'] or o['shape'] != [odl.get(d) for d in v['dims']]:
                    why.append('%s: shape %s does not match its dimensions' % (v['name'], o['shape']))
                    continue
                axes = [k for k, d in enumerate(v['dims']) if d in fd]
                if not axes:
                    if not _same(np.ma.masked_array(a), o['shape'], o['cells']) or o['dtype'] != v['dtype']:
                        why.append('%s lacks the named dimensions but changed' % v['name'])
                    continue
                fs = [fd[v['dims'][k]] for k in axes]
                commuting = all(f['t'] == 'red' and f['name'] == fs[0]['name'] and f['name'] in COMMUTING for f in fs)
                oks = []
                edt = None
                for perm in itertools.permutations(axes):
                    e = a
                    for k in perm:
                        e = _apply1(e, k, fd[v['dims'][k]])
                    oks.append(_same(e, o['shape'], o['cells']))
                    edt = edt or np.ma.getdata(e).dtype.str[1:]
                if case.get('via') != 'convolve_dim' and o['dtype'] != edt:
                    # the result variable takes the dtype numpy gives the result (convolve_dim stores into a variable of
                    # the input dtype by construction; its values are exact for the integer kernels generated)
                    why.append('%s: result dtype %s, numpy gives %s' % (v['name'], o['dtype'], edt))
                if not (all(oks) if commuting else any(oks)):
                    why.append('%s: values differ from the axis-wise %s along %s' % (
                        v['name'], [_base(f).get('name', _base(f)['t']) for f in fs], [v['dims'][k] for k in axes]))
                elif v['dtype'] != 'f8' and o['dtype'][0] != 'f' and any(
                        f['t'] == 'red' and f['name'] in NONINT for f in fs):
                    why.append('%s: %s of an integer variable stored as %s' % (v['name'], [f.get('name') for f in fs], o['dtype']))
        if case.get('via') == 'ioapi':
            lo = np.array(case['vgl'][:-1], dtype='f') / 8
            hi = np.array(case['vgl'][1:], dtype='f') / 8
            if 'z' in fd:
                f = fd['z']
                if f['t'] == 'red':
                    lo, hi = getattr(lo, f['name'])(keepdims=True), getattr(hi, f['name'])(keepdims=True)
                else:
                    g = _pyfunc(_base(f))
                    lo, hi = np.asarray(g(lo)), np.asarray(g(hi))
            exp = np.append(lo, hi[-1:]).astype('d').tolist()
            got = [float.fromhex(x) for x in obs['vglvls']]
            if len(exp) != len(got) or any(abs(a - b) > 1e-6 * max(1.0, abs(a)) for a, b in zip(exp, got)):
                why.append('VGLVLS %s, expected %s' % (got, exp))
            if obs['nlays'] != len(lo):
                why.append('NLAYS %s, expected %d' % (obs['nlays'], len(lo)))
    return dict(s_ok=not why, region=region, why='; '.join(why))


def nontrivial(case, obs):
    if 'raises' in obs:
        return False
    named = set(d for d, _ in case['funcs'])
    return any(any(d in named for d in v['dims']) for v in case['vars'])


def shrink(case):
    vs = case['vars']
    if len(vs) > 1:
        for j in range(len(vs)):
            yield dict(case, vars=vs[:j] + vs[j + 1:])
    fs = case['funcs']
    if len(fs) > 1:
        for j in range(len(fs)):
            yield dict(case, funcs=fs[:j] + fs[j + 1:])
    for j, v in enumerate(vs):
        if v['mask'] is not None:
            yield dict(case, vars=vs[:j] + [dict(v, mask=None)] + vs[j + 1:])
    used = set(d for v in vs for d in v['dims']) | set(d for d, _ in fs)
    if any(d not in used for d, _ in case['dims']):
        yield dict(case, dims=[[d, n] for d, n in case['dims'] if d in used])


LEVEL_TEXT = ('Theorems (Props/C03.v, all closed under the global context) over a Gallina model of the repaired applyAlongDimensions on '
              'arrays (shape, index function) with option-Q cells: every completed call satisfies the property, all dtypes, reducers and '
              'callables incl. the dict form (C03_spec, full strength); every output variable is exactly the per-axis composition over its '
              'named axes (C03_values_axiswise); variables lacking the dimensions are the same variables (C03_unaffected_vars); new '
              'dimension lengths and shape consistency incl. coordinate variables (C03_new_dimlens, C03_reducer_len_one, '
              'C03_result_wellformed); keepdims reductions with any associative-commutative operation commute over any set of distinct '
              'axes, any rank/shape, masked-aware (C03_reducers_any_order, C03_masked_reducers_any_order, C03_masked_iff_all_masked, '
              'C03_sum_prod_any_order); the code ignores naming order (C03_naming_order_irrelevant); integer-valued variables stay '
              'integer-valued under sum/prod/min/max/diff/sub-sampling/integer-kernel convolution while mean is fractional '
              '(C03_integer_lanes_stay_integer, C03_integer_vars_stay_integer, C03_mean_fractional); an in-domain call completes for every '
              'well-formed file (C03_completes, C03_reducers_usable, C03_callables_usable, C03_diff_sub_uniform). Tie T: 14 statement anchors of '
              'applyAlongDimensions, the IOAPI wrapper and reduce_dim/convolve_dim regenerated into Gen/C03Src.v every run '
              '(C03_source_is_model). Tie H: library vs model on every '
              'generated case incl. exception classes, through PseudoNetCDFFile.applyAlongDimensions, the IOAPI wrapper (data, dims, '
              'VGLVLS via the same model call) and the string forms reduce_dim/convolve_dim. No known finding is left: the two defects of '
              'applyAlongDimensions and the string forms\' unmasking of untouched variables are repaired (known_findings fixed:, corpus '
              'cases).')
LEVEL_NOTE = ('Trusted: Coq kernel + vm_compute; the harness; numpy axis semantics = NdApply.apply_axis (differentially validated). '
              'Not proved: absence of ValueError for well-formed files; std/var and convolve-on-masked are Python-oracle only; result '
              'dtypes are checked by the oracle, the model only proves the value class; IOAPI TFLAG/VAR-LIST metadata after the call is '
              'C10; reduce_dim weights/bounds-variable forms and fuzzy dimension names are not driven.')
TECHNIQUE = 'Coq proof (induction over axis lists / permutations, fold exchange) + vm_compute refutation witness + differential correspondence'


# ----------------------------------------------------------------------------- tie T
def translate():
    """Re-read from the source, on every run, the statements Model/Apply.v transcribes and write them as the record
    coq/Gen/C03Src.v src_apply; Props/C03.v proves src_apply = model_apply.  A changed statement flips its field, the
    theorem no longer checks (broken obligation -> failing-input search)."""
    import ast
    import os
    from harness import common as C
    out = []

    def ob(anchor, ok, detail='statement changed'):
        out.append(dict(anchor=anchor, ok=bool(ok), detail='' if ok else detail))
    un = lambda n: ast.unparse(n).strip()
    v = dict.fromkeys(['enum', 'reverse', 'named_test', 'reducer', 'callable', 'dtype', 'assign', 'len_named', 'len_call', 'coord',
                       'dims', 'ioapi', 'reduce_dim', 'convolve_dim'], False)
    try:
        t = ast.parse(open(os.path.join(C.SRC, 'PseudoNetCDF', 'core', '_files.py')).read())
        cls = [n for n in t.body if isinstance(n, ast.ClassDef) and n.name == 'PseudoNetCDFFile'][0]
        f = [n for n in cls.body if isinstance(n, ast.FunctionDef) and n.name == 'applyAlongDimensions'][0]
        vloop = [n for n in f.body if isinstance(n, ast.For) and un(n.iter) == 'self.variables.items()']
        if len(vloop) == 1:
            vl = vloop[0]
            sts = [un(n) for n in vl.body]
            v['enum'] = 'dik = list(enumerate(vdims))' in sts and 'vdims = varo.dimensions' in sts and 'newvals = varo[...]' in sts
            inner = [n for n in vl.body if isinstance(n, ast.For)]
            if len(inner) == 1:
                il = inner[0]
                v['reverse'] = un(il.iter) == 'dik[::-1]' and un(il.target) in ('(di, dk)', 'di, dk')
                tests = [n for n in il.body if isinstance(n, ast.If)]
                v['named_test'] = len(il.body) == 1 and len(tests) == 1 and un(tests[0].test) == 'dk in dimfuncs' and not tests[0].orelse
                if tests:
                    body = tests[0].body
                    asg = [un(n) for n in ast.walk(tests[0]) if isinstance(n, ast.Assign)]
                    branch = [n for n in body if isinstance(n, ast.If) and un(n.test) == 'noopts and isinstance(dfunc, str)']
                    v['reducer'] = (len(branch) == 1 and [un(b) for b in branch[0].body] == ['newvals = getattr(newvals, dfunc)(axis=di, keepdims=True)'])
                    v['callable'] = ('opts = dict(axis=di, arr=newvals)' in asg and 'dfunc = dimfuncs[dk]' in asg
                                     and "opts['func1d'] = dfunc" in asg and len(branch) == 1
                                     and un(branch[0].orelse[0]) == 'newvals = np.apply_along_axis(**opts)'
                                     and any(isinstance(n, ast.Expr) and un(n) == 'opts.update(dfunc)' for n in ast.walk(tests[0])))
            v['dtype'] = 'newvaro = outf.copyVariable(varo, key=vark, dtype=newvals.dtype, withdata=False)' in sts
            v['assign'] = sts[-1] == 'newvaro[...] = newvals'
        dloop = [n for n in f.body if isinstance(n, ast.For) and un(n.iter) == 'dimfuncs.items()']
        if len(dloop) == 1:
            asg = [un(n) for n in ast.walk(dloop[0]) if isinstance(n, ast.Assign)]
            v['len_named'] = 'newdl = getattr(dvar[...], df)(keepdims=True).size' in asg
            v['len_call'] = 'newdl = df(dvar[:]).size' in asg and "newdl = dfopts.pop('func1d')(dvar[:], **dfopts).size" in asg and 'dfopts = dict(df)' in asg
            ifs = [n for n in ast.walk(dloop[0]) if isinstance(n, ast.If)]
            v['coord'] = ('dvar = self.variables[dk]' in asg and asg.count('dvar = np.arange(len(dv))') == 2
                          and any(un(n.test) == 'dk in self.variables' for n in ifs) and any(un(n.test) == 'dvar.ndim != 1' for n in ifs)
                          and 'dimlens[dk] = newdl' in asg)
        cl = [n for n in f.body if isinstance(n, ast.For) and un(n.iter) == 'self.dimensions.items()']
        v['dims'] = any([un(b) for b in n.body] == ['newdl = dimlens[dk]', 'outf.copyDimension(dv, key=dk, dimlen=newdl)'] for n in cl)
    except Exception as e:
        ob('core/_files.py: parse applyAlongDimensions', False, str(e)[:300])
    try:
        t = ast.parse(open(os.path.join(C.SRC, 'PseudoNetCDF', 'cmaqfiles', '_ioapi.py')).read())
        cls = [n for n in t.body if isinstance(n, ast.ClassDef) and n.name == 'ioapi_base'][0]
        f = [n for n in cls.body if isinstance(n, ast.FunctionDef) and n.name == 'applyAlongDimensions'][0]
        sts = [un(n) for n in ast.walk(f) if isinstance(n, (ast.Assign, ast.Return, ast.Expr))]
        v['ioapi'] = ('outf = PseudoNetCDFFile.applyAlongDimensions(self, *args, **kwds)' in sts
                      and "newlayf = layf.applyAlongDimensions(lay=kwds['LAY'])" in sts
                      and 'layb[:, 0] = self.VGLVLS[:-1]' in sts and 'layb[:, 1] = self.VGLVLS[1:]' in sts
                      and "nlayb = newlayf.variables['lay_bounds']" in sts
                      and 'outf.VGLVLS = np.append(nlayb[:, 0], nlayb[-1, 1]).view(np.ndarray)' in sts and 'return outf' in sts)
    except Exception as e:
        ob('cmaqfiles/_ioapi.py: parse ioapi_base.applyAlongDimensions', False, str(e)[:300])
    try:
        t = ast.parse(open(os.path.join(C.SRC, 'PseudoNetCDF', 'core', '_functions.py')).read())
        fns = {n.name: n for n in t.body if isinstance(n, ast.FunctionDef)}
        rs = [un(n) for n in ast.walk(fns['reduce_dim']) if isinstance(n, (ast.Assign, ast.Expr))]
        v['reduce_dim'] = ('axis = list(var.dimensions).index(dimkey)' in rs and 'vreshape = var[slice(None)]' in rs
                           and 'vout = _getfunc(vreshape, func)(axis=axis, keepdims=True)' in rs
                           and 'outf.copyVariable(var, key=varkey)' in rs
                           and "outfunc = getattr(a, func)" in [un(n) for n in ast.walk(fns['_getfunc']) if isinstance(n, ast.Assign)])
        cs = [un(n) for n in ast.walk(fns['convolve_dim']) if isinstance(n, (ast.Assign, ast.Expr))]
        v['convolve_dim'] = ('axisi = list(var.dimensions).index(dimkey)' in cs
                             and 'values = np.apply_along_axis(func1d=lambda x_: np.convolve(weights, x_, mode=mode), axis=axisi, arr=var[:])' in cs
                             and 'outf.variables[vark][:] = values' in cs and 'outf.copyVariable(var, key=vark)' in cs
                             and 'dim = outf.createDimension(dimkey, len(np.convolve(weights, np.arange(len(dim)), mode=mode)))' in cs)
    except Exception as e:
        ob('core/_functions.py: parse reduce_dim / convolve_dim', False, str(e)[:300])
    names = dict(enum='dik = list(enumerate(vdims))', reverse='for di, dk in dik[::-1]', named_test='if dk in dimfuncs',
                 reducer='getattr(newvals, dfunc)(axis=di, keepdims=True)', callable='np.apply_along_axis(**opts) with opts = dict(axis=di, arr=newvals) + func1d/dict',
                 dtype='copyVariable(varo, key=vark, dtype=newvals.dtype, withdata=False)', assign='newvaro[...] = newvals',
                 len_named='newdl = getattr(dvar[...], df)(keepdims=True).size', len_call='newdl = df(dvar[:]).size / dict form',
                 coord='1-D coordinate variable else arange', dims='copyDimension(dv, key=dk, dimlen=dimlens[dk]) for every dimension',
                 ioapi='ioapi_base.applyAlongDimensions: core call + VGLVLS from layf.applyAlongDimensions', reduce_dim='reduce_dim statements',
                 convolve_dim='convolve_dim statements')
    order = ['enum', 'reverse', 'named_test', 'reducer', 'callable', 'dtype', 'assign', 'len_named', 'len_call', 'coord', 'dims',
             'ioapi', 'reduce_dim', 'convolve_dim']
    for k in order:
        ob('applyAlongDimensions source: %s' % names[k], v[k])
    text = ('(* GENERATED by harness/props/c03.py translate() from src/PseudoNetCDF/core/_files.py, cmaqfiles/_ioapi.py and '
            'core/_functions.py on every run - do not edit. *)\nFrom PNC Require Import Base.Util Base.NdApply Model.Apply.\n'
            'Definition src_apply : apply_src := ASrc %s.\n') % ' '.join('true' if v[k] else 'false' for k in order)
    path = os.path.join(C.COQ, 'Gen', 'C03Src.v')
    os.makedirs(os.path.dirname(path), exist_ok=True)
    if not os.path.exists(path) or open(path).read() != text:
        with open(path, 'w') as fh:
            fh.write(text)
    return out
