"""C13 — memory-mapped and record-based CAMx readers agree (uamiv stream in Coq; met formats via camxfmt)."""
import os, shutil, signal
from harness import common as C, camxlib as L, gen_camx
from harness.props import c09

ID = 'C13'
N = {'quick': 300, 'thorough': 5000}
SEARCH_N = {'quick': 600, 'thorough': 3000}
SHARD = 60
CASE_TIMEOUT = 40.0
RULE = ('reference-encoded uamiv files (so no library writer is involved) opened by the Memmap reader and by the record reader '
        '(Read.py) under a 6 s limit; both views compared in Coq; every seek the record reader performs is captured '
        '(date, time, species, layer, byte position) and compared with the TRANSLATED __recordposition arithmetic. '
        'Non-trivial = both readers opened the file.')
TRUSTED = c09.TRUSTED + ['struct.unpack record reads of Read.py are word moves']
ASSUMPTIONS = ['a reader that raises does not "accept" the file (statement quantifies over files both accept)']
LEVEL_TEXT = ('Theorems (Props/C13.v): the record reader\'s seek arithmetic, translated from uamiv/Read.py and timetuple.py (tie T), equals the byte '
              'offset of the record in the specification layout for all grids/species/layers/steps (C13_recordposition_is_spec_offset); the Memmap '
              'reader model presents exactly the encoded content (C13_memmap_presents_content); BOTH READERS AGREE ON THE DATA of every well-formed file: the cells found at the '
              'translated seek position of (step, species, layer) are the cells the Memmap model presents (C13_readers_agree_on_data, '
              'C13_record_at_seek_position); the translated timerange generator terminates with '
              'the orbit whenever the end time is reached and provably never terminates when the end date is below the start date '
              '(C13_timerange_terminates, C13_timerange_diverges_refuted). Tie H: both library readers on the same reference-encoded files, '
              'views compared; captured seeks == translated arithmetic. '
              'ONE3D FAMILY (one3d / humidity / vertical_diffusivity; Model/One3d.v, Proofs/One3dProofs.v; Memmap reader model with the translated record_items and time_steps expressions, reshapes / first-stamp-change / memmap size rules hand-modelled): the record reader\'s seek arithmetic is TRANSLATED from one3d/Read.py (C13_one3d_recordposition_is_spec_offset), '
              'both readers present the same cells (C13_one3d_readers_agree_on_data), the hand-modelled probing finds the layout on files with >= 2 steps '
              'and fails on single-step files (C13_one3d_probe_finds_layout, C13_one3d_probe_single_step). Tie H: constructor OC of Corr/C13.v (probe == '
              'library header fields and step count, every getArray seek at the translated position, cells presented == words found there). '
              'TEMPERATURE and HEIGHT/PRESSURE (Model/TempHp.v, Proofs/TempHpProofs.v; layered record files over the One3d codec; both Memmap readers hand-modelled incl. the for-loop fall-through, the lazy reshapes and the marker check): height_pressure __recordposition translated (C13_heightpres_recordposition_is_spec_offset, '
              'C13_heightpres_readers_agree_on_data); temperature position generators: start and increment translated, loop hand-modelled '
              '(C13_temperature_surface_positions, C13_temperature_air_positions). Tie H: constructors TC / HC of Corr/C13.v. '
              'WIND (Model/Wind.v, Proofs/WindProofs.v; Memmap reader hand-modelled incl. the RecordFile walk of its __init__, with a three-valued result read / raise / never returns): the record reader seek arithmetic is TRANSLATED from wind/Read.py (C13_wind_recordposition_is_spec_offset) and both readers '
              'present the same cells (C13_wind_readers_agree_on_data). Tie H: constructor WC (every getArray seek at the translated position, cells == words there).')
LEVEL_NOTE = 'Trusted: Coq kernel+vm_compute, py2coq, harness. The record reader probing loops (__gettimestep) are hand-modelled or left to the correspondence.'
TECHNIQUE = 'Coq proof over source-translated arithmetic + differential correspondence of both readers'


def translate():
    return gen_camx.translate()


def gen(rng, n, tier):
    out = []
    for i in range(n):
        c = L.gen_uamiv(rng, tier, rollover=0.25)
        if len(c['names']) >= 2 and rng.random() < 0.3:
            # a species whose name is a proper prefix of an EARLIER listed species (NO2 before NO): a reader that looks a
            # species up by leading characters returns the wrong one
            lng, sht = rng.choice([('NO2', 'NO'), ('FORMALD', 'FORM'), ('X12', 'X1'), ('PAR2', 'PAR'), ('O3N', 'O3')])
            i = rng.randrange(len(c['names']) - 1)
            j = rng.randrange(i + 1, len(c['names']))
            rest = [x for k, x in enumerate(c['names']) if k not in (i, j)]
            if lng not in rest and sht not in rest:
                c['names'][i], c['names'][j] = lng, sht
        out.append(dict(kind='uamiv-' + c['name'], content=c))
    return out


def impl(case):
    import numpy as np
    from PseudoNetCDF.camxfiles.Memmaps import uamiv
    from PseudoNetCDF.camxfiles.uamiv.Read import uamiv as ruamiv
    c = case['content']
    ws = L.uamiv_encode(c)
    d = L.workdir()
    obs = dict(nwords=len(ws))
    try:
        p = os.path.join(d, 'f.uamiv')
        with open(p, 'wb') as f:
            f.write(L.bytes_of_words(ws))
        try:
            f = uamiv(p)
            obs['mm'] = L.observe_uamiv_file(f)
            obs['mm_ok'] = True
        except Exception as e:
            obs['mm_ok'] = False
            obs['mm_error'] = type(e).__name__
        obs['rd_timeout'] = False
        signal.setitimer(signal.ITIMER_REAL, 6.0)
        try:
            r = ruamiv(p)
            seeks = []
            pos = []
            orig_new = r.rffile._newrecord

            def newrec(x, orig_new=orig_new):
                pos.append(int(x))
                return orig_new(x)
            r.rffile._newrecord = newrec
            orig_seek = r.seek

            def seek(date=None, time=None, spc=-1, k=0, chkvar=True):
                n0 = len(pos)
                res = orig_seek(date, time, spc, k, chkvar)
                if len(pos) > n0 and date is not None and float(time) == int(time):
                    seeks.append([int(date), int(time), int(spc) + 1, int(k), pos[-1]])
                return res
            r.seek = seek
            obs['self'] = dict(nlayers=int(r.nlayers), start_date=int(r.start_date), start_time=float(r.start_time),
                               time_step=float(r.time_step), nspec=int(r.nspec), data_start_byte=int(r.data_start_byte),
                               padded_size=int(r.padded_size), padded_time_hdr_size=int(r.padded_time_hdr_size))
            obs['rd'] = L.observe_uamiv_file(r)
            obs['rd_ok'] = True
            obs['seeks'] = seeks[:40]
        except C.CaseTimeout:
            obs['rd_ok'] = False
            obs['rd_timeout'] = True
        except Exception as e:
            obs['rd_ok'] = False
            obs['rd_error'] = '%s: %s' % (type(e).__name__, str(e)[:100])
        finally:
            signal.setitimer(signal.ITIMER_REAL, 25.0)
    finally:
        shutil.rmtree(d, ignore_errors=True)
    return obs


def _view(c, o, ok):
    fake = dict(open_ok=ok)
    if ok:
        fake.update(o)
        fake['dims'] = dict(o['dims'])
        fake['dims'].setdefault('VAR', len(o['vars']))
    return c09.coq_view(c, fake)[0]


def coq_term(case, obs):
    if 'raises' in obs:
        return None
    c = case['content']
    ws = L.uamiv_encode(c)
    hours = '[' + '; '.join('(%d, %d)' % (s['bhour'], s['ehour']) for s in c['steps']) + ']'
    s = obs.get('self')
    if s and float(s['start_time']) == int(s['start_time']) and float(s['time_step']) == int(s['time_step']):
        selft = ('{| ur_nlayers := %d; ur_start_date := %d; ur_start_time := %d; ur_time_step := %d; ur_nspec := %d; '
                 'ur_data_start_byte := %d; ur_padded_size := %d; ur_padded_time_hdr_size := %d |}') % (
            s['nlayers'], s['start_date'], int(s['start_time']), int(s['time_step']), s['nspec'], s['data_start_byte'],
            s['padded_size'], s['padded_time_hdr_size'])
        seeks = '[' + '; '.join('(%d, %d, %d, %d, %d)' % tuple(x) for x in obs.get('seeks', [])) + ']'
    else:
        selft = ('{| ur_nlayers := 1; ur_start_date := 0; ur_start_time := 0; ur_time_step := 1; ur_nspec := 1; '
                 'ur_data_start_byte := 0; ur_padded_size := 0; ur_padded_time_hdr_size := 0 |}')
        seeks = '[]'
    return '(UC (Case %s %s %s %s %s %s %s %s %s %s None))' % (
        L.coq_uamiv(c), hours, C.zlist(ws), C.cbool(obs.get('mm_ok', False)), _view(c, obs.get('mm'), obs.get('mm_ok', False)),
        C.cbool(obs.get('rd_ok', False)), _view(c, obs.get('rd'), obs.get('rd_ok', False)),
        C.cbool(obs.get('rd_timeout', False)), selft, seeks)


def py_check(case, obs):
    if 'raises' in obs:
        return dict(s_ok=False, why='harness/impl raised ' + str(obs))
    return dict(s_ok=True)


def nontrivial(case, obs):
    return bool(obs.get('mm_ok')) and bool(obs.get('rd_ok'))


shrink = c09.shrink


# ----------------------------------------------------------------------------- met formats: Memmap vs Read
from harness import camxfmt as M, metcheck as MC  # noqa

_gen_u = gen


def gen(rng, n, tier):  # noqa: F811
    out = _gen_u(rng, n // 2, tier)
    # gridded emissions files usually carry nz = 0 in the grid header (one implicit layer): python-judged stream
    for case in out:
        c = case['content']
        if c['name'] == 'EMISSIONS' and rng.random() < 0.5:
            c['nz_header'] = 0
            case['kind'] = 'uamiv-EMISSIONS-nz0'
    for i in range(n - len(out)):
        c = M.gen_met(rng, tier=tier, rollover=0.3)
        out.append(dict(kind='met-' + c['fmt'], content=c, write=False, read=True))
    # older wind files: time record  hour, idate  WITHOUT the lstagger word (8 bytes), three or more steps
    # (nx*ny = 2 is left out: the data records would be as long as the time record)
    for i in range(max(2, n // 15)):
        c = M.gen_met(rng, fmt='wind', tier=tier, rollover=0.3, min_steps=3)
        while c['nx'] * c['ny'] == 2:
            c = M.gen_met(rng, fmt='wind', tier=tier, rollover=0.3, min_steps=3)
        c['lstagger'] = None
        out.append(dict(kind='met-wind-nostagger', content=c, write=False, read=True))
    return out


_impl_u = impl


def impl(case):  # noqa: F811
    if MC.is_o3(case):
        return MC.run_o3_read(case)
    if MC.is_th(case):
        return MC.run_th_read(case)
    if MC.is_wind(case):
        return MC.run_w_read(case)
    if case['kind'].startswith('met-'):
        return MC.run_met(case)
    return _impl_u(case)


_coq_u = coq_term


def coq_term(case, obs):  # noqa: F811
    if MC.is_o3(case):
        return None if 'raises' in obs else MC.o3_term_read(case, obs)
    if MC.is_th(case):
        return None if 'raises' in obs else MC.th_term_read(case, obs)
    if MC.is_wind(case):
        return None if 'raises' in obs else MC.w_term_read(case, obs)
    if case['kind'].startswith('met-') or case['kind'] == 'uamiv-EMISSIONS-nz0':
        return None
    return _coq_u(case, obs)


def year_crossing(c):
    ds = [s['date'] for s in c['steps']]
    return any(b // 1000 != a // 1000 for a, b in zip(ds, ds[1:]))


_py_u = py_check


def py_check(case, obs):  # noqa: F811
    if case['kind'] == 'uamiv-EMISSIONS-nz0':
        if 'raises' in obs:
            return dict(s_ok=False, why='harness/impl raised ' + str(obs))
        why = []
        if obs.get('rd_timeout'):
            why.append('record reader did not terminate')
        if obs.get('mm_ok') and obs.get('rd_ok'):
            a, b = obs['mm'], obs['rd']
            for dname in ('TSTEP', 'LAY', 'ROW', 'COL'):
                if a['dims'].get(dname) != b['dims'].get(dname):
                    why.append('dimension %s: Memmap %s, Read %s' % (dname, a['dims'].get(dname), b['dims'].get(dname)))
            for v in a['data']:
                if v in b['data'] and MC.squeeze(a['data'][v]) != MC.squeeze(b['data'][v]):
                    why.append('data of %s differ between the readers' % v)
        d0, d1 = case['content']['steps'][0]['bdate'], case['content']['steps'][-1]['edate']
        return dict(s_ok=not why, region=1 if d1 < d0 else 0, why='; '.join(why[:3]))
    if not case['kind'].startswith('met-'):
        return _py_u(case, obs)
    if 'raises' in obs:
        return dict(s_ok=False, why='harness/impl raised ' + str(obs))
    c = case['content']
    mm, rd = obs['mm'], obs['rd']
    why = []
    if mm['status'] == 'timeout':
        why.append('Memmap reader did not terminate')
    if rd['status'] == 'timeout':
        why.append('record reader did not terminate')
    if mm['status'] == 'ok' and rd['status'] == 'ok':
        a, b = mm['view'], rd['view']
        for dname in ('TSTEP', 'LAY', 'ROW', 'COL'):
            if dname in a['dims'] and dname in b['dims'] and a['dims'][dname] != b['dims'][dname]:
                why.append('dimension %s: Memmap %s, Read %s' % (dname, a['dims'][dname], b['dims'][dname]))
        for v in a['data']:
            if v in b['data'] and MC.squeeze(a['data'][v]) != MC.squeeze(b['data'][v]):
                why.append('data of %s differ between the readers' % v)
        if 'TFLAG' in a and 'TFLAG' in b and a['TFLAG'] != b['TFLAG']:
            why.append('TFLAG differs: %s vs %s' % (a['TFLAG'][:2], b['TFLAG'][:2]))
    region = MC.region_of(c)
    if region == 0 and year_crossing(c):
        region = 13
    return dict(s_ok=not why, region=region, why='; '.join(why[:3]))


_nt_u = nontrivial


def nontrivial(case, obs):  # noqa: F811
    if case['kind'].startswith('met-'):
        return obs.get('mm', {}).get('status') == 'ok' and obs.get('rd', {}).get('status') == 'ok'
    return _nt_u(case, obs)


def shrink(case):  # noqa: F811
    if case['kind'].startswith('met-'):
        c = case['content']
        if len(c['steps']) > 2:
            yield dict(case, content=dict(c, steps=c['steps'][:-1]))
        return
    for x in c09.shrink(case):
        yield x
