"""C20 — ARL packed-bit: pack2d/unpack error bound, exact first element, no wrap, checksum;
file layer: reference-encoded ARL files read by arlpackedbit, writearlpackedbit output decoded by the reference decoder."""
from fractions import Fraction
from harness import common as C

ID = 'C20'
N = {'quick': 1500, 'thorough': 40000}
SEARCH_N = {'quick': 3000, 'thorough': 20000}
RULE = ('fields NY 1..4 x NX 2..7; "exact" stream: integer grids times 2^ue (binary32-exact, evaluated in Coq against '
        'Model/Arl.v: bytes, unpacked values, checksum, exponent) — random walks, constant fields, largest difference '
        'at 2^k, 2^k-1, and in (127q,128q]; "float" stream: arbitrary binary32 fields 1e-30..1e30 checked against the '
        'exact-rational statement in Python. Non-trivial = at least one non-zero reconstruction error or a non-127 code. '
        'File layer (3.5% of the cases, each ~2 s of Coq evaluation): ARL files of 1..3 periods, a surface level with its own 1..3 variables and 0..3 upper '
        'levels with 1..3 variables (same list, or ragged), NX 2..6 and NY >= 2 chosen so that nx*ny just covers LENH (the format needs nx*ny >= LENH >= 124, '
        'so 2..5 x 2..5 grids do not exist in this format; padding 0..a few bytes, or >= 108 in the bigpad stream), blank or NUL padding, written by a Python '
        'reference encoder (compared byte for byte with the Coq encoder, decoded by the Coq decoder) and read by arlpackedbit: variable list, level list, times '
        'and every unpacked field compared exactly with the Coq model of the reader and with the ideal view of the content; separate streams: two columns / two rows, '
        'thin large grids (file-large / write-large: NX or NY 1000..3100 with the other 2..4, thousands in the grid-id letters, for the reader and for the writer; both >= 1000 would need files of megabytes and is not generated), '
        'key shared by surface and upper level (region 6), writearlpackedbit on an in-memory file (output compared byte for byte with the Gallina writer and decoded by the reference decoder). '
        'foreign-* (8%): fields packed by a reference packer with the ORIGINAL exponent rule (largest difference up to 128 quanta, codes may wrap), decoded by the library unpack only. '
        'Corpus: the witnesses of the five repaired defects.')
TRUSTED = ['numpy binary32 elementwise arithmetic is exact on the exact stream (checked per case: unpacked values integral in the unit)',
           'libm logf used for NEXP: model uses floor(log2 RMAX)+1 and accepts NEXP one lower at exact powers of two',
           'modelled, not verified: numpy int32->uint8 store wraps mod 256; np.cumsum sums sequentially',
           'file layer: Python float()/int() parsing of label text (VAR1 text -> value is supplied by the harness as a table; level heights are compared as text), '
           'numpy memmap structured-dtype offsets (modelled by lib_offset and tied to the translated dtype sizes), strptime century pivot (times compared as yy mm dd hh)',
           'harness/gen_arl.py normalisations in front of translate/py2coq.py (list-of-pairs dtype literals, dict field reads as parameters, INT()/np.float32() casts as identity)']
ASSUMPTIONS = ['the Z model equals the binary32 computation only where every intermediate is representable (exact stream); '
               'the float stream is decided by the Python rational oracle, not by the model',
               'file layer: lat-lon grids only (GRIDX = 0; projected grids need pyproj, absent here), distinct level heights, one single-record index header per period (LENH <= nx*ny), '
               'identical index layout and keys in every period, 2 <= nx, ny <= 999 (a single row or column still raises IndexError in the cell-edge code: np.diff(x)[0]; not generated)']


def gen(rng, n, tier):
    out = []
    for i in range(n):
        if rng.random() < FILE_FRACTION[tier if tier in FILE_FRACTION else 'quick']:
            out.append(gen_file(rng, tier))
            continue
        if rng.random() < 0.08:
            out.append(gen_foreign(rng))
            continue
        r = rng.random()
        ny = rng.randint(1, 4)
        nx = rng.randint(2, 7)
        if r < 0.25 and tier != 'search':
            # float stream
            mag = 10.0 ** rng.uniform(-30, 30)
            style = rng.choice(['uniform', 'smooth', 'spiky'])
            import struct
            rows = []
            base = rng.uniform(-1, 1) * mag
            for j in range(ny):
                row = []
                for k in range(nx):
                    if style == 'uniform':
                        v = rng.uniform(-1, 1) * mag
                    elif style == 'smooth':
                        base += rng.uniform(-1, 1) * mag * 1e-3
                        v = base
                    else:
                        v = rng.choice([0.0, mag, -mag, mag * rng.random()])
                    v = struct.unpack('f', struct.pack('f', v))[0]
                    row.append(v.hex())
                rows.append(row)
            out.append(dict(kind='float-' + style, rows_hex=rows))
            continue
        ue = rng.randint(-60, 60)
        style = rng.choice(['walk', 'walk', 'const', 'pow2', 'pow2m1', 'edge', 'edge', 'edge-acc'])
        if tier == 'search':
            style = rng.choice(['walk', 'pow2', 'pow2m1', 'edge', 'edge-acc', 'walk-big'])
        D = rng.choice([1, 3, 50, 1000, 4000, 16000])
        v0 = rng.randint(-D * 1000, D * 1000)
        if style == 'const':
            rows = [[v0] * nx for _ in range(ny)]
        elif style in ('walk', 'walk-big'):
            rows = []
            cur = v0
            for j in range(ny):
                cur = (rows[-1][0] if rows else v0) + rng.randint(-D, D)
                row = [cur]
                for k in range(nx - 1):
                    cur += rng.randint(-D, D)
                    row.append(cur)
                rows.append(row)
        else:
            # q = 128 units -> [64q,128q) = [8192,16384); build from differences in scan order
            k = rng.randint(7, 13)
            big = {'pow2': 2 ** k, 'pow2m1': 2 ** k - 1}.get(style)
            if big is None:
                q = 2 ** (k - 6)
                big = rng.randint(127 * q + 1, 128 * q) if style == 'edge' else rng.randint(127 * q + q // 2, 128 * q - 1)
            rows = []
            placed = False
            for j in range(ny):
                first = (rows[-1][0] if rows else v0) + (rng.randint(-big, big) if rows else 0)
                row = [first]
                for kx in range(nx - 1):
                    ch = rng.random()
                    if ch < 0.35 or (not placed and j == ny - 1 and kx == nx - 2):
                        d = big * rng.choice([1, -1]); placed = True
                    elif ch < 0.6 and style == 'edge-acc':
                        d = rng.choice([1, -1]) * (big // 256 // 2 + rng.randint(-1, 1))  # about half a quantum
                    else:
                        d = rng.randint(-big, big)
                    row.append(row[-1] + d)
                rows.append(row)
        out.append(dict(kind='exact-' + style, ue=ue, rows=rows))
    return out


def _field(case):
    import numpy as np
    if 'rows_hex' in case:
        return np.array([[float.fromhex(h) for h in r] for r in case['rows_hex']], dtype='f')
    a = np.ldexp(np.array(case['rows'], dtype='d'), case['ue'])
    f = a.astype('f')
    assert (f.astype('d') == a).all(), 'not binary32-exact'
    return f


def impl(case):
    if case['kind'].startswith('foreign-'):
        return impl_foreign(case)
    if case['kind'].startswith('file-'):
        return impl_file(case)
    if case['kind'].startswith('write'):
        return impl_write(case)
    import numpy as np
    from PseudoNetCDF.noaafiles._arl import pack2d, unpack
    x = _field(case)
    with np.errstate(all='ignore'):
        cvar, prec, nexp, var1, ksum = pack2d(x)
        b = cvar.view('uint8')
        u = unpack(cvar, np.array(var1), np.array(nexp))
    return dict(nexp=int(nexp), ksum=int(ksum), bytes=b.astype(int).tolist(), var1=float(var1).hex(),
                prec=float(prec).hex(), unp=[[float(v).hex() for v in r] for r in u.astype('d')],
                dtype=str(u.dtype))


def _exact_view(case, obs):
    """rescale to a unit in which h is an integer >= 1; None if not representable as ints"""
    if 'rows' not in case or 'raises' in obs:
        return None
    ue, nexp = case['ue'], obs['nexp']
    s = max(0, 8 - (nexp - ue))
    if s > 40:
        return None
    ue2 = ue - s
    rows = [[v << s for v in r] for r in case['rows']]
    h = 2 ** (nexp - 8 - ue2)
    unp = []
    for r in obs['unp']:
        rr = []
        for hx in r:
            f = Fraction(float.fromhex(hx)) / (Fraction(2) ** ue2)
            if f.denominator != 1:
                return None
            rr.append(int(f))
        unp.append(rr)
    return h, rows, nexp - ue2, unp


def coq_term(case, obs):
    if case['kind'].startswith('foreign-'):
        return coq_term_foreign(case, obs)
    if case['kind'].startswith('file-'):
        return coq_term_file(case, obs)
    if case['kind'].startswith('write'):
        return coq_term_write(case, obs)
    ev = _exact_view(case, obs)
    if ev is None:
        return None
    h, rows, nrel, unp = ev
    return '(Case (FieldC %s %s %s %s %s %s))' % (C.zc(h), C.zll(rows), C.zc(nrel), C.zll(obs['bytes']), C.zll(unp), C.zc(obs['ksum']))


def py_check(case, obs):
    """exact-rational oracle for the statement, independent of the Coq model"""
    if case['kind'].startswith('foreign-'):
        return dict(s_ok='raises' not in obs, region=0, why='unpack raised' if 'raises' in obs else '')
    if case['kind'].startswith(('file-', 'write')):
        return py_check_file(case, obs)
    if 'raises' in obs:
        return dict(s_ok=False, why='in-domain pack/unpack raised %s' % obs.get('raises'))
    if 'rows_hex' in case:
        x = [[Fraction(float.fromhex(h)) for h in r] for r in case['rows_hex']]
    else:
        x = [[Fraction(v) * Fraction(2) ** case['ue'] for v in r] for r in case['rows']]
    q = Fraction(2) ** (obs['nexp'] - 7)
    u = [[Fraction(float.fromhex(h)) for h in r] for r in obs['unp']]
    diffs = [abs(r[k + 1] - r[k]) for r in x for k in range(len(r) - 1)] + \
            [abs(x[j + 1][0] - x[j][0]) for j in range(len(x) - 1)]
    rmax = max(diffs) if diffs else Fraction(0)
    region = 0 if rmax <= 127 * q else (1 if rmax <= 128 * q else 2)
    err = max(abs(a - b) for ra, rb in zip(x, u) for a, b in zip(ra, rb))
    why = []
    if err > q:
        why.append('max error %.4f quanta > 1' % float(err / q))
    if u[0][0] != x[0][0]:
        why.append('first element not exact')
    if obs['ksum'] != sum(sum(r) for r in obs['bytes']) % 255:
        why.append('checksum != byte sum mod 255')
    if rmax > 0 and not (rmax <= 128 * q):
        why.append('exponent too small for RMAX')
    return dict(s_ok=not why, region=region, why='; '.join(why))


def nontrivial(case, obs):
    if case['kind'].startswith(('file-', 'write', 'foreign-')):
        return True
    if 'raises' in obs:
        return False
    return any(b != 127 for r in obs['bytes'] for b in r)


def shrink(case):
    if case['kind'].startswith('foreign-'):
        return
    if case['kind'].startswith(('file-', 'write')):
        for c in shrink_file(case):
            yield c
        return
    if 'rows' not in case:
        return
    rows = case['rows']
    if len(rows) > 1:
        for j in range(len(rows)):
            yield dict(case, rows=rows[:j] + rows[j + 1:])
    if len(rows[0]) > 2:
        for k in range(len(rows[0])):
            yield dict(case, rows=[r[:k] + r[k + 1:] for r in rows])

LEVEL_TEXT = ('Theorems (Props/C20.v, all closed under the global context), describing /repo after the repairs eb44dd8, 409cb18 (reader), fa89813 (pack2d exponent), '
              '6a4afc6 (writer). Pack layer, exact Gallina model of pack2d/unpack: MAIN C20_spec_fixed_exponent: for EVERY field shape (>=2 columns) and EVERY field, with the '
              'exponent pack2d chooses (nexp_rule_fixed, tied to the source by C20_gen_bump; C20_fixed_exponent_covers) the round trip is within one (even half a) quantum, first '
              'element exact, no code outside 0..255; for any h with RMAX <= 127 quanta C20_error_bound_half, C20_spec_in_range; for every input C20_first_exact, '
              'C20_decoder_mirrors_encoder; decoding of fields packed by other tools with any exponent is the packer\'s running value whenever no code wrapped '
              '(C20_foreign_decode; why the original rule was insufficient: C20_original_rule_overflows, C20_exponent_covers). File layer (Model/ArlFile.v): '
              'full strength: reference decoder inverts reference encoder (C20_file_dec_enc); record offsets (C20_file_record_at_offset, C20_file_lib_offset); table parser '
              '(C20_file_readvardef); times (C20_file_times); grid sizes up to 26999 with the thousands letters of the grid id (C20_file_grid_size_roundtrip; enc/dec/impl_read/impl_write all use it); writer (since 6a4afc6, 8d118b4): for every in-memory file the output decodes to its content, the reader model returns the ideal view and every '
              'field comes back within half a quantum (C20_file_write_read); tie T over Gen/Arl.v (C20_gen_sizes, C20_gen_label_fields, C20_gen_lenh, C20_gen_record_length, '
              'C20_gen_table_widths, C20_gen_bump). _partial: reader model = ideal view for every well-formed uniform content with >= 2x2 cells and no key shared between surface '
              'and upper levels (C20_file_reader_partial); fields of a foreign spec-encoded file within one quantum when RMAX <= 127 q (C20_file_field_bound_partial). '
              '_refuted (vm_compute witness = the one remaining known finding): key shared by surface and upper level (C20_file_shared_key_refuted, region 6). '
              'Ties: H (library pack2d/unpack, arlpackedbit, writearlpackedbit vs models, bit-for-bit on binary32-exact data; writer output byte-identical to impl_write) and T (20 anchors of _arl.py).')
LEVEL_NOTE = ('Trusted: Coq kernel + vm_compute; the correspondence harness incl. its Python reference encoder (checked per case against the Coq encoder); '
              'numpy binary32 arithmetic exact on the generated exact stream (verified per case); logf only through the exponent check; Python float() of the '
              'E14.7 label text; translate/py2coq.py and the normalisations in harness/gen_arl.py. The arbitrary-float stream is decided by a rational oracle in Python.')
TECHNIQUE = 'Coq proof (induction over the scan / over the record structure, lia/nia, finite sweeps for the I2/I3/I4 text fields) + vm_compute refutation witnesses + translated layout arithmetic + differential correspondence'


# =============================================================================== file layer
# ARL packed data (HYSPLIT user guide sect. 4): every record = 50-byte ASCII label + nx*ny bytes.
# Per period: INDX record = label + 108-byte fixed header + level/variable table + padding,
# then one record per level per variable.  The reference encoder below is written from that
# description; coq/Model/ArlFile.v `enc` is the same thing in Gallina and is compared per case.
FILE_FRACTION = {'quick': 0.035, 'thorough': 0.015, 'search': 0.04}
FILE_UE = -7            # unit of the integer view of file cases: 2^-7 (NEXP >= 1, so h = 2^(NEXP-1) >= 1)
SFC_KEYS = ['PRSS', 'T02M', 'U10M', 'V10M', 'SHGT', 'TPP1', 'P   ', 'MSLP']
LAY_KEYS = ['TEMP', 'UWND', 'VWND', 'WWND', 'HGTS', 'RELH', 'Q1  ', 'SPHU']
SFC_TEXTS = ['   0.0', '    0.', '1.0000', '   1.0', '0.0000']
LAY_TEXTS = ['1000.0', ' 925.0', ' 850.0', ' 700.5', '  500.', '0.9980', '.99500', '0.9000', ' .8500', '  20.0', '  10.5']
FILE_KINDS = ['write-large'] + ['file-large'] * 2 + ['file-ok'] * 8 + ['file-nulpad'] * 2 + ['file-ragged'] * 3 + ['file-bigpad'] * 2 + ['file-narrow'] * 2 + ['file-dupkey'] + ['write'] * 2


def _lenh(levels):
    return 108 + sum(8 + 8 * len(l['keys']) for l in levels)


def gen_file(rng, tier):
    import datetime
    kind = rng.choice(FILE_KINDS + (['file-large'] * 6 if tier == 'search' else []))
    nt = rng.randint(1, 3)
    nlay = rng.choice([0, 1, 1, 2, 2, 3])
    if kind == 'file-large':
        nt, nlay = 1, rng.choice([0, 0, 1])
    if kind == 'write-large':
        nt, nlay = 1, 1
    if kind in ('file-ragged', 'file-dupkey', 'write', 'write-large'):
        nlay = max(nlay, 2 if kind == 'file-ragged' else 1)
    sfct = rng.choice(SFC_TEXTS)
    used = {float(sfct)}
    levels = [dict(text=sfct, keys=rng.sample(SFC_KEYS, 1 if kind in ('file-large', 'write-large') else rng.randint(1, 3)))]
    laykeys = rng.sample(LAY_KEYS, 1 if kind in ('file-large', 'write-large') else rng.randint(1, 3))
    for _ in range(nlay):
        while True:
            t = rng.choice(LAY_TEXTS)
            if float(t) not in used:
                used.add(float(t))
                break
        ks = list(laykeys)
        if kind == 'file-ragged':
            ks = rng.sample(LAY_KEYS, rng.randint(1, 3))
        levels.append(dict(text=t, keys=ks))
    if kind == 'file-dupkey':
        levels[0]['keys'][rng.randrange(len(levels[0]['keys']))] = levels[1]['keys'][0]
        if len(set(levels[0]['keys'])) != len(levels[0]['keys']):
            levels[0]['keys'] = [levels[1]['keys'][0]]
    lenh = _lenh(levels)
    # the format needs nx*ny >= LENH (single-record index header); padding 0.. a few bytes, or >= 108 (bigpad)
    need = lenh + (108 if kind == 'file-bigpad' else 0)
    if kind in ('file-large', 'write-large'):
        # 1000 or more points in one direction: thousands go into the grid-id letters, NX/NY fields hold the rest
        nx, ny = rng.choice([1000, 1001, 1003, 1999, 2000, 2005, 3100, rng.randint(1000, 3100)]), rng.choice([2, 2, 2, 3, 4])
        if kind == 'write-large':
            nx, ny = rng.choice([1000, 1001, 1003, 1999, 2005]), 2
        if rng.random() < 0.5:
            nx, ny = ny, nx
    elif kind == 'file-narrow':
        nx, ny = 2, -(-need // 2) + rng.choice([0, 0, 1])
        if rng.random() < 0.5:
            nx, ny = ny, nx
    else:
        nx = rng.randint(2, 6)
        ny = max(2, -(-need // nx) + rng.choice([0, 0, 0, 1, 3]))
    d0 = datetime.datetime(rng.choice([1995, 1999, 2000, 2017, 2068, 1969]), rng.randint(1, 12), rng.randint(1, 28), rng.choice([0, 3, 6, 12, 18, 21, 23]))
    step = rng.choice([1, 3, 6, 12, 24, 30])
    ff = rng.choice([0, 0, 3, 12])
    times = []
    for i in range(nt):
        d = d0 + datetime.timedelta(hours=step * i)
        times.append([d.year % 100, d.month, d.day, d.hour, ff])
    D = rng.choice([1, 3, 50, 1000]) if kind not in ('file-large', 'write-large') else rng.choice([1, 3])
    fields = []
    for t in range(nt):
        ft = []
        for l in levels:
            fl = []
            for k in l['keys']:
                style = rng.choice(['walk', 'walk', 'walk', 'const', 'spiky'])
                # a different magnitude per record: the exponents of one variable differ from time to time
                Df = D if kind in ('file-large', 'write-large') else rng.choice([1, 3, 50, 1000])
                v0 = rng.randint(-20000, 20000)
                rows = []
                for j in range(ny):
                    cur = (rows[-1][0] if rows else v0) + (rng.randint(-Df, Df) if style != 'const' else 0)
                    row = [cur]
                    for i in range(nx - 1):
                        if style == 'walk':
                            cur += rng.randint(-Df, Df)
                        elif style == 'spiky':
                            cur += rng.choice([0, 0, Df, -Df])
                        row.append(cur)
                    rows.append(row)
                if kind == 'write':
                    ds = [abs(r[i + 1] - r[i]) for r in rows for i in range(nx - 1)] + [abs(rows[j + 1][0] - rows[j][0]) for j in range(ny - 1)]
                    m = max(ds)
                    if m > 0 and m & (m - 1) == 0:
                        rows[-1][-1] += 3 * m
                fl.append(rows)
            ft.append(fl)
        fields.append(ft)
    fixed = 'TEST' + '%3d' % rng.choice([0, 6]) + '%2d' % 0 + ''.join('%7.2f' % v for v in [
        90, 0, rng.choice([1.0, 0.5, 0.25]), rng.choice([1.0, 0.5, 2.5]), 0, 0, 0, 1, 1, rng.choice([-90.0, 20.5, 40.0]), rng.choice([0.0, -125.25, 100.0]), 0])
    grid = rng.choice(['99', ' 1', '12']) if kind not in ('file-large', 'write-large') else chr(64 + nx // 1000) + chr(64 + ny // 1000)
    return dict(kind=kind, nx=nx, ny=ny, pad=0 if kind == 'file-nulpad' else 32, grid=grid,
                vsys2='%2d' % rng.randint(1, 4), fixed=fixed, times=times, levels=levels, fields=fields)


def _trunc_div(n, d):
    q = abs(n) // d
    return q if n >= 0 else -q


def _int_pack(x, h):
    """pack integer rows with half quantum h (exact): bytes rows"""
    out = [[0] * len(r) for r in x]
    rold = x[0][0]
    col = []
    for j in range(len(x)):
        c = _trunc_div(x[j][0] - rold + 255 * h, 2 * h)
        out[j][0] = c % 256
        rold = (c - 127) * 2 * h + rold
        col.append(rold)
    for j in range(len(x)):
        rold = col[j]
        for i in range(1, len(x[j])):
            c = _trunc_div(x[j][i] - rold + 255 * h, 2 * h)
            out[j][i] = c % 256
            rold = (c - 127) * 2 * h + rold
    return out


def _int_rmax(x):
    ds = [abs(r[i + 1] - r[i]) for r in x for i in range(len(r) - 1)] + [abs(x[j + 1][0] - x[j][0]) for j in range(len(x) - 1)]
    return max(ds) if ds else 0


def _nexp_rel(rmax, fixed):
    """NEXP relative to the unit: original PAKOUT rule floor(log2 RMAX)+1, or the library's rule since fa89813
    (one more when RMAX exceeds 127 quanta 2^(NEXP-7))"""
    e = rmax.bit_length()
    if fixed and 127 * 2 ** e < 128 * rmax:
        e += 1
    return e


def ref_pack(rows, fixed=False):
    """pack one field of ints (true values); exact integer arithmetic in unit 2^FILE_UE.
    -> (bytes row-major, NEXP, VAR1 int, KSUM).  Written from the ARL description (PAKOUT):
    NEXP = floor(log2 RMAX) + 1 (1 when RMAX = 0), code = INT(diff * 2^(7-NEXP) + 127.5).
    fixed=True: the exponent rule of the library's own packer."""
    s = -FILE_UE
    x = [[v << s for v in r] for r in rows]
    rmax = _int_rmax(x)
    nexp = 1 if rmax == 0 else _nexp_rel(rmax, fixed) + FILE_UE
    h = 1 << (nexp - 8 - FILE_UE)
    flat = [b for r in _int_pack(x, h) for b in r]
    return flat, nexp, rows[0][0], sum(flat) % 255


def ref_content(case):
    """the structured content (what coq/Model/ArlFile.v calls list period_t), as nested dicts"""
    nx, ny = case['nx'], case['ny']
    lenh = _lenh(case['levels'])
    periods = []
    for t, tm in enumerate(case['times']):
        lv = []
        for li, l in enumerate(case['levels']):
            vs = []
            for vi, k in enumerate(l['keys']):
                data, nexp, var1, ksum = ref_pack(case['fields'][t][li][vi], fixed=case['kind'].startswith('write'))
                vs.append(dict(key=k, ck=ksum, exp=nexp, prec='%14.7E' % (2.0 ** nexp / 254.0), var1='%14.7E' % float(var1), data=data, v1=var1))
            lv.append(dict(text=l['text'], vars=vs))
        periods.append(dict(time=''.join('%2d' % v for v in tm), grid=case['grid'], fixed=case['fixed'], nx=nx, ny=ny,
                            vsys2=case['vsys2'], pad=[case['pad']] * max(0, nx * ny - lenh), levels=lv))
    return periods


def ref_encode(periods):
    """reference encoder: content -> bytes"""
    out = bytearray()
    for p in periods:
        nz = len(p['levels'])
        table = ''
        for l in p['levels']:
            table += l['text'] + '%2d' % len(l['vars'])
            for v in l['vars']:
                table += v['key'] + '%3d' % v['ck'] + ' '
        lenh = 108 + len(table)
        zero = '%14.7E' % 0.0
        idx = p['time'] + '%2d' % 0 + p['grid'] + 'INDX' + '%4d' % 0 + zero + zero
        assert len(idx) == 50
        idx += p['fixed'] + '%3d%3d%3d' % (p['nx'] % 1000, p['ny'] % 1000, nz) + p['vsys2'] + '%4d' % lenh
        assert len(idx) == 158, len(idx)
        out += idx.encode('ascii') + table.encode('ascii') + bytes(p['pad'])
        for li, l in enumerate(p['levels']):
            for v in l['vars']:
                lab = p['time'] + '%2d' % li + p['grid'] + v['key'] + '%4d' % v['exp'] + v['prec'] + v['var1']
                assert len(lab) == 50, lab
                out += lab.encode('ascii') + bytes(v['data'])
    return bytes(out)


def _to_unit(a):
    """float array -> nested ints in unit 2^FILE_UE, or None when not exact"""
    import numpy as np
    s = np.ldexp(np.asarray(a, dtype='d'), -FILE_UE)
    if not np.all(np.isfinite(s)) or not np.all(s == np.round(s)):
        return None
    return np.round(s).astype('int64').tolist()


def _lvl_text(val, case):
    for l in case['levels']:
        import numpy as np
        if float(np.float32(float(l['text']))) == float(np.float32(val)):
            return l['text']
    return 'x%r' % (float(val),)


def impl_file(case):
    import os, shutil, tempfile, datetime, re
    import numpy as np
    from PseudoNetCDF.noaafiles._arl import arlpackedbit
    d = tempfile.mkdtemp(dir=os.path.join(C.VERIF, '.work'))
    try:
        path = os.path.join(d, 'f.arl')
        data = ref_encode(ref_content(case))
        with open(path, 'wb') as fh:
            fh.write(data)
        with np.errstate(all='ignore'):
            f = arlpackedbit(path)
            keys = list(f.variables.keys())
            keys = keys[:keys.index('x')] if 'x' in keys else keys
            vs = []
            for k in keys:
                a = np.asarray(f.variables[k])
                sfc = (a.ndim == 3)
                if sfc:
                    a = a[:, None]
                u = _to_unit(a)
                vs.append(dict(key=k, sfc=sfc, dtype=str(a.dtype), shape=list(a.shape), vals=u if u is not None else 'inexact'))
            tv = f.variables['time']
            m = re.match(r'hours since (\d+)-(\d+)-(\d+) (\d+):(\d+):(\d+)', tv.units)
            t0 = datetime.datetime(*[int(g) for g in m.groups()])
            times = []
            for hh in np.asarray(tv[:]).tolist():
                t = t0 + datetime.timedelta(hours=int(hh))
                times.append([t.year % 100, t.month, t.day, t.hour])
            obs = dict(nz1=len(f.dimensions['z']), nx=len(f.dimensions['x']), ny=len(f.dimensions['y']),
                       sfclvl=_lvl_text(float(f.SFCVGLVL), case), zlvls=[_lvl_text(float(z), case) for z in np.asarray(f.variables['z'][:]).tolist()],
                       times=times, vars=vs)
            del f
        return obs
    finally:
        shutil.rmtree(d, ignore_errors=True)


def impl_write(case):
    import os, shutil, tempfile, datetime
    import numpy as np
    from PseudoNetCDF import PseudoNetCDFFile
    from PseudoNetCDF.noaafiles._arl import writearlpackedbit, thdtype
    d = tempfile.mkdtemp(dir=os.path.join(C.VERIF, '.work'))
    try:
        path = os.path.join(d, 'w.arl')
        nt, nx, ny = len(case['times']), case['nx'], case['ny']
        nz = len(case['levels']) - 1
        f = PseudoNetCDFFile()
        f.createDimension('time', nt); f.createDimension('z', nz); f.createDimension('y', ny); f.createDimension('x', nx)
        hdr = ref_encode(ref_content(case))[:158]
        rec = np.frombuffer(hdr, dtype=thdtype)[0]
        for k in thdtype.names:
            setattr(f, k, rec[k])
        f.SFCVGLVL = float(case['levels'][0]['text'])
        for vi, k in enumerate(case['levels'][0]['keys']):
            v = f.createVariable(k, 'f', ('time', 'y', 'x'))
            v[:] = np.array([case['fields'][t][0][vi] for t in range(nt)], dtype='f')
            v.grid = case['grid'].encode(); v.VKEY = k.encode()
        for vi, k in enumerate(case['levels'][1]['keys'] if nz else []):
            v = f.createVariable(k, 'f', ('time', 'z', 'y', 'x'))
            v[:] = np.array([[case['fields'][t][l + 1][vi] for l in range(nz)] for t in range(nt)], dtype='f')
            v.grid = case['grid'].encode(); v.VKEY = k.encode()
        z = f.createVariable('z', 'f', ('z',))
        z[:] = [float(l['text']) for l in case['levels'][1:]]
        tm = case['times']
        cent = lambda yy: 1900 + yy if yy >= 69 else 2000 + yy
        t0 = datetime.datetime(cent(tm[0][0]), tm[0][1], tm[0][2], tm[0][3])
        tv = f.createVariable('time', 'i', ('time',))
        tv.units = t0.strftime('hours since %Y-%m-%d %H:%M:%S')
        tv[:] = [int((datetime.datetime(cent(a[0]), a[1], a[2], a[3]) - t0).total_seconds() // 3600) for a in tm]
        with np.errstate(all='ignore'):
            writearlpackedbit(f, path)
        with open(path, 'rb') as fh:
            data = fh.read()
        return dict(bytes=list(data))
    finally:
        shutil.rmtree(d, ignore_errors=True)


def _bs(s):
    return C.zlist(list(s.encode('latin1')) if isinstance(s, str) else list(s))


def _coq_periods(periods):
    ps = []
    for p in periods:
        lv = []
        for l in p['levels']:
            vs = ['(Var %s %s %s %s %s %s)' % (_bs(v['key']), C.zc(v['ck']), C.zc(v['exp']), _bs(v['prec']), _bs(v['var1']), C.zlist(v['data']))
                  for v in l['vars']]
            lv.append('(Lvl %s [%s])' % (_bs(l['text']), '; '.join(vs)))
        ps.append('(Period %s %s %s %s %s %s %s [%s])' % (_bs(p['time']), _bs(p['grid']), _bs(p['fixed']), C.zc(p['nx']), C.zc(p['ny']),
                                                       _bs(p['vsys2']), C.zlist(p['pad']), '; '.join(lv)))
    return '[' + '; '.join(ps) + ']'


def _unit_rows(case):
    s = -FILE_UE
    return '[' + '; '.join('[' + '; '.join('[' + '; '.join(C.zll([[v << s for v in r] for r in rows]) for rows in fl) + ']' for fl in ft) + ']'
                           for ft in case['fields']) + ']'


def _v1tab(periods):
    tab = {}
    for p in periods:
        for l in p['levels']:
            for v in l['vars']:
                assert float(v['var1']) == float(v['v1'])
                tab[v['var1']] = v['v1'] << (-FILE_UE)
    return '[' + '; '.join('(%s, %s)' % (_bs(k), C.zc(z)) for k, z in sorted(tab.items())) + ']'


def coq_term_file(case, obs):
    periods = ref_content(case)
    data = ref_encode(periods)
    if 'raises' in obs:
        o = 'None'
    else:
        if any(v['vals'] == 'inexact' for v in obs['vars']):
            return None
        evs = []
        for v in obs['vars']:
            vals = '[' + '; '.join('[' + '; '.join('Some ' + C.zll(lv) for lv in tv) + ']' for tv in v['vals']) + ']'
            evs.append('(%s, %s, %s)' % (_bs(v['key']), C.cbool(v['sfc']), vals))
        o = '(Some (EView %s %s %s %s [%s] %s [%s]))' % (C.zc(obs['nz1']), C.zc(obs['nx']), C.zc(obs['ny']), _bs(obs['sfclvl']),
                                                      '; '.join(_bs(z) for z in obs['zlvls']), C.zll(obs['times']), '; '.join(evs))
    return '(RCase (FileC %s %s %s %s %s %s))' % (_coq_periods(periods), C.zlist(list(data)), C.zc(FILE_UE), _v1tab(periods), _unit_rows(case), o)


def ref_vgtxt(v):
    """F6 text of a level height with as many decimals as fit (the rule the ARL tools use)"""
    import math
    dp = 0 if v == 0 else math.floor(math.log10(v) + 1)
    return (('%%6.%df' % min(5, 5 - dp)) % v)[-6:]


def _write_texts(case):
    import numpy as np
    lv = [ref_vgtxt(float(case['levels'][0]['text']))] + [ref_vgtxt(float(np.float32(float(l['text'])))) for l in case['levels'][1:]]
    ff = '%2d' % case['times'][0][4]
    tm = ['%02d%02d%02d%02d' % tuple(t[:4]) + ff for t in case['times']]
    return lv, tm


def coq_term_write(case, obs):
    import numpy as np
    periods = ref_content(case)
    lv, tm = _write_texts(case)
    o = 'None' if 'raises' in obs else '(Some %s)' % C.zlist(obs['bytes'])
    s = -FILE_UE
    wps = []
    tab = {}
    for t, p in enumerate(periods):
        lvls = []
        for li, l in enumerate(p['levels']):
            fs = []
            for vi, v in enumerate(l['vars']):
                rows = [[x << s for x in r] for r in case['fields'][t][li][vi]]
                prec = '%14.7E' % np.float32(2.0 ** v['exp'] / 254.0)
                tab[v['var1']] = v['v1'] << s
                fs.append('(WField %s %s %s %s %s %s)' % (_bs(v['key']), C.zc(1 << (v['exp'] - 8 - FILE_UE)), C.zc(v['exp']), _bs(prec), _bs(v['var1']), C.zll(rows)))
            lvls.append('(%s, [%s])' % (_bs(lv[li]), '; '.join(fs)))
        wps.append('(WPeriod %s [%s])' % (_bs(tm[t]), '; '.join(lvls)))
    win = '(WInput %s %s %s %s %s [%s])' % (_bs(case['grid']), _bs(case['fixed']), C.zc(case['nx']), C.zc(case['ny']), _bs(case['vsys2']), '; '.join(wps))
    return '(WCase (WriteC %s %s %s %s [%s] [%s] %s %s %s %s))' % (
        C.zc(case['nx']), C.zc(case['ny']), C.zc(FILE_UE), C.zll([t[:4] for t in case['times']]),
        '; '.join(_bs(x) for x in lv),
        '; '.join('[' + '; '.join(_bs(k) for k in l['keys']) + ']' for l in case['levels']),
        _v1tab(periods), _unit_rows(case), win, o)


def file_region(case):
    if case['nx'] < 2 or case['ny'] < 2:
        return 5
    if set(case['levels'][0]['keys']) & set(k for l in case['levels'][1:] for k in l['keys']):
        return 6
    return 0


def py_check_file(case, obs):
    """region of the case (mirror of Corr.C20.region_file) and exact-representability of what was read;
    the S and F verdicts of file cases come from Coq"""
    region = file_region(case)
    if 'raises' in obs:
        return dict(s_ok=False, region=region, why='in-domain %s raised %s: %s' % ('writearlpackedbit' if region == 4 else 'arlpackedbit',
                                                                                 obs.get('raises'), str(obs.get('msg'))[:120]))
    if case['kind'].startswith('write'):
        return dict(s_ok=True, region=region)
    bad = [v['key'] for v in obs['vars'] if v['vals'] == 'inexact']
    if bad:
        return dict(s_ok=False, f_ok=False, region=region, why='values read for %s are not multiples of 2^%d' % (bad, FILE_UE))
    return dict(s_ok=True, region=region)


def shrink_file(case):
    nt = len(case['times'])
    if nt > 1:
        for t in range(nt):
            yield dict(case, times=case['times'][:t] + case['times'][t + 1:], fields=case['fields'][:t] + case['fields'][t + 1:])
    nl = len(case['levels'])
    if nl > 2:
        for l in range(1, nl):
            yield dict(case, levels=case['levels'][:l] + case['levels'][l + 1:], fields=[ft[:l] + ft[l + 1:] for ft in case['fields']])
    for l in range(nl):
        ks = case['levels'][l]['keys']
        if len(ks) > 1 and (case['kind'] != 'write' or l == 0):
            for v in range(len(ks)):
                lv = [dict(x) for x in case['levels']]
                lv[l]['keys'] = ks[:v] + ks[v + 1:]
                yield dict(case, levels=lv, fields=[[fl if i != l else fl[:v] + fl[v + 1:] for i, fl in enumerate(ft)] for ft in case['fields']])


# ------------------------------------------------------------------- fields packed by another tool
def gen_foreign(rng):
    """a field packed by a foreign tool with the ORIGINAL exponent rule (largest difference anywhere up to
    128 quanta, so codes may wrap); only the library's unpack is exercised"""
    ny, nx = rng.randint(1, 4), rng.randint(2, 7)
    style = rng.choice(['edge', 'edge', 'walk', 'pow2m1'])
    k = rng.randint(7, 13)
    q = 2 ** (k - 6)
    big = {'walk': rng.randint(1, 2 ** k), 'pow2m1': 2 ** k - 1}.get(style) or rng.randint(127 * q + 1, 128 * q - 1)
    v0 = rng.randint(-50000, 50000)
    rows = []
    placed = False
    for j in range(ny):
        first = (rows[-1][0] if rows else v0) + (rng.randint(-big, big) if rows else 0)
        row = [first]
        for kx in range(nx - 1):
            if rng.random() < 0.35 or (not placed and j == ny - 1 and kx == nx - 2):
                d = big * rng.choice([1, -1]); placed = True
            else:
                d = rng.randint(-big, big)
            row.append(row[-1] + d)
        rows.append(row)
    return dict(kind='foreign-' + style, ue=rng.randint(-40, 40), rows=rows)


def _foreign_view(case):
    rmax = _int_rmax(case['rows'])
    nrel = 1 if rmax == 0 else _nexp_rel(rmax, False)
    s = max(0, 8 - nrel)
    rows = [[v << s for v in r] for r in case['rows']]
    h = 1 << (nrel + s - 8)
    return rows, h, nrel + s, case['ue'] - s


def impl_foreign(case):
    import numpy as np
    from PseudoNetCDF.noaafiles._arl import unpack
    rows, h, nrel, ue2 = _foreign_view(case)
    b = np.array(_int_pack(rows, h), dtype='uint8')
    var1 = np.ldexp(np.float64(rows[0][0]), ue2)
    with np.errstate(all='ignore'):
        u = unpack(b.view('>S1'), np.array(var1), np.array(nrel + ue2))
    return dict(bytes=b.astype(int).tolist(), unp=[[float(v).hex() for v in r] for r in u.astype('d')], dtype=str(u.dtype))


def coq_term_foreign(case, obs):
    if 'raises' in obs:
        return None
    rows, h, nrel, ue2 = _foreign_view(case)
    unp = []
    for r in obs['unp']:
        rr = []
        for hx in r:
            f = Fraction(float.fromhex(hx)) / (Fraction(2) ** ue2)
            if f.denominator != 1:
                return None
            rr.append(int(f))
        unp.append(rr)
    return '(DCase (DecodeC %s %s %s %s %s))' % (C.zc(h), C.zll(rows), C.zc(nrel), C.zll(obs['bytes']), C.zll(unp))


def translate():
    from harness import gen_arl
    return gen_arl.translate()
