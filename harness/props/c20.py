"""C20 — ARL packed-bit: pack2d/unpack error bound, exact first element, no wrap, checksum."""
from fractions import Fraction
from harness import common as C

ID = 'C20'
N = {'quick': 1500, 'thorough': 40000}
SEARCH_N = {'quick': 3000, 'thorough': 20000}
RULE = ('fields NY 1..4 x NX 2..7; "exact" stream: integer grids times 2^ue (binary32-exact, evaluated in Coq against '
        'Model/Arl.v: bytes, unpacked values, checksum, exponent) — random walks, constant fields, largest difference '
        'at 2^k, 2^k-1, and in (127q,128q]; "float" stream: arbitrary binary32 fields 1e-30..1e30 checked against the '
        'exact-rational statement in Python. Non-trivial = at least one non-zero reconstruction error or a non-127 code.')
TRUSTED = ['numpy binary32 elementwise arithmetic is exact on the exact stream (checked per case: unpacked values integral in the unit)',
           'libm logf used for NEXP: model uses floor(log2 RMAX)+1 and accepts NEXP one lower at exact powers of two',
           'modelled, not verified: numpy int32->uint8 store wraps mod 256; np.cumsum sums sequentially']
ASSUMPTIONS = ['the Z model equals the binary32 computation only where every intermediate is representable (exact stream); '
               'the float stream is decided by the Python rational oracle, not by the model']


def gen(rng, n, tier):
    out = []
    for i in range(n):
        r = rng.random()
        ny = rng.randint(1, 4)
        nx = rng.randint(2, 7)
        if r < 0.25 and tier != 'search':
            # float stream
            mag = 10.0 ** rng.uniform(-30, 30)
            style = rng.choice(['uniform', 'smooth', 'spiky'])
            import struct
            rows = []
            base = rng.uniform(-1, 1) * mag
            for j in range(ny):
                row = []
                for k in range(nx):
                    if style == 'uniform':
                        v = rng.uniform(-1, 1) * mag
                    elif style == 'smooth':
                        base += rng.uniform(-1, 1) * mag * 1e-3
                        v = base
                    else:
                        v = rng.choice([0.0, mag, -mag, mag * rng.random()])
                    v = struct.unpack('f', struct.pack('f', v))[0]
                    row.append(v.hex())
                rows.append(row)
            out.append(dict(kind='float-' + style, rows_hex=rows))
            continue
        ue = rng.randint(-60, 60)
        style = rng.choice(['walk', 'walk', 'const', 'pow2', 'pow2m1', 'edge', 'edge', 'edge-acc'])
        if tier == 'search':
            style = rng.choice(['walk', 'pow2', 'pow2m1', 'edge', 'edge-acc', 'walk-big'])
        D = rng.choice([1, 3, 50, 1000, 4000, 16000])
        v0 = rng.randint(-D * 1000, D * 1000)
        if style == 'const':
            rows = [[v0] * nx for _ in range(ny)]
        elif style in ('walk', 'walk-big'):
            rows = []
            cur = v0
            for j in range(ny):
                cur = (rows[-1][0] if rows else v0) + rng.randint(-D, D)
                row = [cur]
                for k in range(nx - 1):
                    cur += rng.randint(-D, D)
                    row.append(cur)
                rows.append(row)
        else:
            # q = 128 units -> [64q,128q) = [8192,16384); build from differences in scan order
            k = rng.randint(7, 13)
            big = {'pow2': 2 ** k, 'pow2m1': 2 ** k - 1}.get(style)
            if big is None:
                q = 2 ** (k - 6)
                big = rng.randint(127 * q + 1, 128 * q) if style == 'edge' else rng.randint(127 * q + q // 2, 128 * q - 1)
            rows = []
            placed = False
            for j in range(ny):
                first = (rows[-1][0] if rows else v0) + (rng.randint(-big, big) if rows else 0)
                row = [first]
                for kx in range(nx - 1):
                    ch = rng.random()
                    if ch < 0.35 or (not placed and j == ny - 1 and kx == nx - 2):
                        d = big * rng.choice([1, -1]); placed = True
                    elif ch < 0.6 and style == 'edge-acc':
                        d = rng.choice([1, -1]) * (big // 256 // 2 + rng.randint(-1, 1))  # about half a quantum
                    else:
                        d = rng.randint(-big, big)
                    row.append(row[-1] + d)
                rows.append(row)
        out.append(dict(kind='exact-' + style, ue=ue, rows=rows))
    return out


def _field(case):
    import numpy as np
    if 'rows_hex' in case:
        return np.array([[float.fromhex(h) for h in r] for r in case['rows_hex']], dtype='f')
    a = np.ldexp(np.array(case['rows'], dtype='d'), case['ue'])
    f = a.astype('f')
    assert (f.astype('d') == a).all(), 'not binary32-exact'
    return f


def impl(case):
    import numpy as np
    from PseudoNetCDF.noaafiles._arl import pack2d, unpack
    x = _field(case)
    with np.errstate(all='ignore'):
        cvar, prec, nexp, var1, ksum = pack2d(x)
        b = cvar.view('uint8')
        u = unpack(cvar, np.array(var1), np.array(nexp))
    return dict(nexp=int(nexp), ksum=int(ksum), bytes=b.astype(int).tolist(), var1=float(var1).hex(),
                prec=float(prec).hex(), unp=[[float(v).hex() for v in r] for r in u.astype('d')],
                dtype=str(u.dtype))


def _exact_view(case, obs):
    """rescale to a unit in which h is an integer >= 1; None if not representable as ints"""
    if 'rows' not in case or 'raises' in obs:
        return None
    ue, nexp = case['ue'], obs['nexp']
    s = max(0, 8 - (nexp - ue))
    if s > 40:
        return None
    ue2 = ue - s
    rows = [[v << s for v in r] for r in case['rows']]
    h = 2 ** (nexp - 8 - ue2)
    unp = []
    for r in obs['unp']:
        rr = []
        for hx in r:
            f = Fraction(float.fromhex(hx)) / (Fraction(2) ** ue2)
            if f.denominator != 1:
                return None
            rr.append(int(f))
        unp.append(rr)
    return h, rows, nexp - ue2, unp


def coq_term(case, obs):
    ev = _exact_view(case, obs)
    if ev is None:
        return None
    h, rows, nrel, unp = ev
    return '(Case %s %s %s %s %s %s)' % (C.zc(h), C.zll(rows), C.zc(nrel), C.zll(obs['bytes']), C.zll(unp), C.zc(obs['ksum']))


def py_check(case, obs):
    """exact-rational oracle for the statement, independent of the Coq model"""
    if 'raises' in obs:
        return dict(s_ok=False, why='in-domain pack/unpack raised %s' % obs.get('raises'))
    if 'rows_hex' in case:
        x = [[Fraction(float.fromhex(h)) for h in r] for r in case['rows_hex']]
    else:
        x = [[Fraction(v) * Fraction(2) ** case['ue'] for v in r] for r in case['rows']]
    q = Fraction(2) ** (obs['nexp'] - 7)
    u = [[Fraction(float.fromhex(h)) for h in r] for r in obs['unp']]
    diffs = [abs(r[k + 1] - r[k]) for r in x for k in range(len(r) - 1)] + \
            [abs(x[j + 1][0] - x[j][0]) for j in range(len(x) - 1)]
    rmax = max(diffs) if diffs else Fraction(0)
    region = 0 if rmax <= 127 * q else (1 if rmax <= 128 * q else 2)
    err = max(abs(a - b) for ra, rb in zip(x, u) for a, b in zip(ra, rb))
    why = []
    if err > q:
        why.append('max error %.4f quanta > 1' % float(err / q))
    if u[0][0] != x[0][0]:
        why.append('first element not exact')
    if obs['ksum'] != sum(sum(r) for r in obs['bytes']) % 255:
        why.append('checksum != byte sum mod 255')
    if rmax > 0 and not (rmax <= 128 * q):
        why.append('exponent too small for RMAX')
    return dict(s_ok=not why, region=region, why='; '.join(why))


def nontrivial(case, obs):
    if 'raises' in obs:
        return False
    return any(b != 127 for r in obs['bytes'] for b in r)


def shrink(case):
    if 'rows' not in case:
        return
    rows = case['rows']
    if len(rows) > 1:
        for j in range(len(rows)):
            yield dict(case, rows=rows[:j] + rows[j + 1:])
    if len(rows[0]) > 2:
        for k in range(len(rows[0])):
            yield dict(case, rows=[r[:k] + r[k + 1:] for r in rows])

LEVEL_TEXT = ('Theorems (Props/C20.v, all closed under the global context) over an exact Gallina model of pack2d/unpack: for every '
              'field shape (>=2 columns), every quantum and every field whose scan-order neighbour differences are <= 127 quanta the round '
              'trip is within half a quantum, no code leaves 0..255, the decoder reproduces the encoder\'s running values and the first '
              'element is exact (C20_error_bound_half, C20_spec_partial, C20_first_exact, C20_decoder_mirrors_encoder); the full statement '
              '(differences < 128 quanta, which is all the exponent rule guarantees: C20_exponent_covers) is refuted with vm_compute '
              'witnesses (C20_error_bound_q_refuted, C20_no_wraparound_refuted) that replay on the library = known findings. '
              'Tie H: library pack2d/unpack vs model on binary32-exact fields, bit-for-bit (bytes, values, checksum, exponent).')
LEVEL_NOTE = ('Trusted: Coq kernel + vm_compute; the correspondence harness; numpy binary32 arithmetic exact on the generated exact stream '
              '(verified per case); logf only through the exponent check. The arbitrary-float stream is decided by a rational oracle in Python, '
              'not by the model. ARL file layout (index record, LENH) not yet modelled.')
TECHNIQUE = 'Coq proof (induction over the scan, lia/nia) + vm_compute refutation witnesses + differential correspondence'
