"""C16 — val2idx / time2idx: value-to-index lookup returns the containing or nearest cell."""
import io, os, contextlib, math
from fractions import Fraction
from harness import common as C

ID = 'C16'
N = {'quick': 4000, 'thorough': 60000}
SEARCH_N = {'quick': 3000, 'thorough': 20000}
CASE_TIMEOUT = 20.0
RULE = ('in-memory PseudoNetCDFFile with one coordinate (2..7 values; ascending/descending; uniform, power-of-two and arbitrary '
        'integer spacing times 2^ue; coordinate dtype float64 / float32 / int32 / int64 with exactly representable values: integer coordinates '
        'are whole numbers queried at fractions, float32 coordinates are queried with float64 values one unit (< float32 rounding) beside every '
        'coordinate and edge) and none / 1-D (n+1) / n x 2 bounds variable (found through <dim>_bounds, '
        '<dim>_bnds or the bounds attribute); every method x bounds x clean x left/right(None|nan); query values at centres, edges, '
        'midpoints, one unit inside/outside every edge, outside the domain (1-D, 2-D and scalar val); the same through time2idx with '
        'datetimes that are naive, UTC-aware or timezone-aware with non-zero offsets (-05:00, +05:30, -09:30, +13:00, ...: the true instant '
        'is computed in exact integer microseconds and both date2num and the looked-up cells are compared with it). "exact" stream (dyadic, evaluated in Coq against Model/Val2idx.v: cells, warning, exception, coordinate after the '
        'call); "float" stream: queries nextafter() just inside/outside every edge on realistic grids, decided by the rational oracle '
        'in Python only; malformed stream: unknown option words, non-monotonic / repeated coordinates. Non-trivial = some query lands in '
        'a cell other than 0 or is masked.')
TRUSTED = ['numpy.interp modelled as: x > xp[-1] -> right, x < xp[0] -> left, else the bracketing segment of an ascending xp with the exact '
           'linear formula (numpy\'s guessed binary search is only reached for ascending xp on generated cases)',
           'binary64 arithmetic is exact or decision-safe on the exact stream (spacings < 2^21 units; nearest-method ties only generated '
           'when the spacing is a power of two)',
           'float nan -> int32 cast gives INT_MIN (x86-64); np.round is round-half-even',
           'cftime date2num is exact on dyadic offsets (checked per case against the rational value)']
ASSUMPTIONS = ['theorems are over exact integers in a dyadic unit; binary64 rounding of the fractional index within a few ulp of an '
               'edge/midpoint is outside the model and covered only by the float stream + Python oracle (former finding C16-float-edge, repaired by faed7f7)',
               'the model describes val2idx as repaired by fixes/C16-val2idx-*.patch (pending fix: commits); run against a tree without '
               'them the corpus cases corpus/C16/*.json fail and the check reports a violation']

METHODS = ['nearest', 'bounds', 'exact']
TZ_OFFSETS = [-300, 330, -570, 780, 60, -720, 345]      # minutes east of UTC: -05:00, +05:30, -09:30, +13:00, ...
TUNITS = {'hours': 3600 * 10 ** 6, 'minutes': 60 * 10 ** 6, 'seconds': 10 ** 6, 'days': 86400 * 10 ** 6}


def _ispow2(d):
    d = abs(d)
    return d > 0 and d & (d - 1) == 0


def _coord(rng, n, style):
    """strictly ascending integer centres and edges (edges interleave the centres)"""
    if style == 'uniform':
        d = rng.choice([2, 4, 6, 10, 16, 50])
        e0 = rng.randint(-200, 200) * 2
        es = [e0 + d * k for k in range(n + 1)]
        cs = [e0 + d * k + d // 2 for k in range(n)]
    elif style == 'pow2':
        es = [rng.randint(-200, 200) * 2]
        for k in range(n):
            es.append(es[-1] + 2 ** rng.randint(1, 6))
        cs = [(a + b) // 2 for a, b in zip(es, es[1:])]
        # centres spaced by powers of two as well (for tie queries): rebuild from centres
        if rng.random() < 0.5:
            cs = [rng.randint(-200, 200) * 2]
            for k in range(n - 1):
                cs.append(cs[-1] + 2 ** rng.randint(1, 6))
            es = [cs[0] - 1] + [(a + b) // 2 for a, b in zip(cs, cs[1:])] + [cs[-1] + 1]
    else:
        es = [rng.randint(-300, 300)]
        for k in range(n):
            es.append(es[-1] + rng.randint(2, 40))
        cs = [rng.randint(a + 1, b - 1) if b - a > 2 else a + 1 for a, b in zip(es, es[1:])]
        if any(not (a < c < b) for a, c, b in zip(es, cs, es[1:])):
            cs = [a + 1 for a in es[:-1]]
            es = [a for a in es]
    return cs, es


def _queries(rng, cs, es, method, nob, tier):
    pts = set()
    lo, hi = min(es + cs), max(es + cs)
    span = hi - lo
    for c in cs:
        pts.update([c, c + 1, c - 1])
    for e in (es if not nob else []):
        pts.update([e, e + 1, e - 1])
    for a, b in zip(cs, cs[1:]):
        pts.add((a + b) // 2)
        pts.add((a + b) // 2 + 1)
    pts.update([lo - 1, hi + 1, lo - span, hi + span, lo - 1000, hi + 7])
    for _ in range(4):
        pts.add(rng.randint(lo - span // 2, hi + span // 2))
    pts = sorted(pts)
    k = rng.randint(1, 6 if tier != 'search' else 8)
    sel = [rng.choice(pts) for _ in range(k)]
    r = rng.random()
    if r < 0.35:    # in-range only (so that bounds='error' completes and nothing is clamped)
        inr = [p for p in pts if min(es) <= p <= max(es) and min(cs) <= p <= max(cs)] or [cs[0]]
        sel = [rng.choice(inr) for _ in range(k)]
    elif r < 0.45:
        sel = list(cs)
    elif r < 0.55 and not nob:
        sel = list(es)
    return sel


def _tie_safe(cs, xs):
    """nearest-method: a query exactly midway between two centres is only allowed if their spacing is a power of two"""
    for a, b in zip(cs, cs[1:]):
        if not _ispow2(b - a):
            for x in xs:
                if 2 * x == a + b:
                    return False
    return True


def gen(rng, n, tier):
    out = []
    while len(out) < n:
        r = rng.random()
        if r < 0.12 and tier != 'search':
            out.append(_gen_float(rng))
            continue
        if r < 0.20 and tier != 'search':
            out.append(_gen_malformed(rng))
            continue
        nn = rng.randint(2, 7)
        style = rng.choice(['uniform', 'uniform', 'pow2', 'irregular', 'irregular'])
        cs, es = _coord(rng, nn, style)
        direction = 'asc' if rng.random() < 0.7 else 'desc'
        rep = rng.choice(['none', 'none', '1d', '2d'])
        method = rng.choice(METHODS + ['bounds', 'nearest'])
        bounds = rng.choice(['ignore', 'warn', 'warn', 'error'])
        clean = rng.choice(['mask', 'mask', 'none'])
        left = rng.choice(['none', 'none', 'nan'])
        right = left if rng.random() < 0.7 else rng.choice(['none', 'nan'])
        dtype = rng.choice(['f8', 'f8', 'f4', 'f4', 'i4', 'i8'])
        # integer coordinates hold whole numbers while queries are fractional (finer unit); float32 coordinates have few
        # significant bits while float64 queries one unit beside them lie within float32 rounding of the coordinate / edge
        mult = 1
        if dtype in ('i4', 'i8'):
            k = rng.randint(1, 6)
            ue, mult = -k, 2 ** k
        elif dtype == 'f4' and rng.random() < 0.7:
            k = rng.randint(16, 20)
            ue, mult = rng.randint(-34, -20), 2 ** k
        else:
            ue = rng.randint(-20, 10)
        front = 'val2idx'
        tunit = None
        if rng.random() < 0.2:
            front = 'time2idx'
            tunit = rng.choice(sorted(TUNITS))
            if dtype in ('i4', 'i8'):
                pass                    # integer time variable, queries at fractions of the unit (whole microseconds)
            else:
                dtype, mult = 'f8', 1
                ue = rng.randint(-2, 2) if tunit != 'seconds' else rng.randint(0, 6)
        narrow = rng.random() < (0.3 if tier == 'search' else 0.14)
        tref = None
        if narrow:
            # narrow integer coordinate with LARGE values (neighbouring values sum past the dtype's range): int16 heights,
            # int8/uint16 codes, int32 epoch seconds ("seconds since 1970-01-01", after 2004)
            dtype = rng.choice(['i1', 'i2', 'i4', 'i4', 'u2'])
            top = {'i1': 127, 'i2': 32767, 'i4': 2147483647, 'u2': 65535}[dtype]
            k = rng.randint(1, 3)
            ue, mult = -k, 2 ** k
            cap = 8 if dtype == 'i1' else 200
            raw = [top - rng.randint(0, 3)]
            for a, b in zip(cs, cs[1:]):
                raw.append(raw[-1] - max(1, min(cap, b - a)))
            raw = raw[::-1]
            cs = [r_ * mult for r_ in raw]
            es = [cs[0] - mult] + [(a + b) // 2 for a, b in zip(cs, cs[1:])] + [cs[-1] + mult]
            if rng.random() < 0.85:
                rep = 'none'
            front, tunit = 'val2idx', None
            if dtype == 'i4' and rng.random() < 0.5:
                front, tunit, tref = 'time2idx', 'seconds', '1970-01-01'
            mult = 1      # already applied
        if mult > 1:
            cs = [c * mult for c in cs]
            es = [e * mult for e in es]
        nob = (rep == 'none')
        xs = _queries(rng, cs, es, method, nob, tier)
        if tier == 'search':
            # boundary-biased: interior edges / midpoints and their neighbours, the top edge
            cand = []
            for e in (es if not nob else [(a + b) // 2 for a, b in zip(cs, cs[1:])] + [cs[-1] + (cs[-1] - cs[-2]) // 2]):
                cand += [e - 1, e, e + 1]
            xs = [rng.choice(cand + cs) for _ in range(rng.randint(1, 6))]
        if method != 'bounds' and not _tie_safe(cs, xs):
            continue
        if direction == 'desc':
            cs, es = cs[::-1], es[::-1]
        bkey = rng.choice(['_bounds', '_bnds', 'attr'])
        vshape = rng.choice(['1d', '1d', '1d', 'scalar', '2d'])
        if vshape == 'scalar':
            xs = xs[:1]
        tzmin, tztag = None, ''
        if front == 'time2idx':
            # query datetimes: naive, UTC-aware, or aware with non-zero UTC offsets (the instant is the same)
            tzkind = rng.choice(['naive', 'utc', 'offset', 'offset', 'offset'])
            if tzkind == 'utc':
                tzmin = [0] * len(xs)
            elif tzkind == 'offset':
                tzmin = [rng.choice(TZ_OFFSETS) for _ in xs]
            tztag = '-t' + tzkind
        case = dict(kind='%s-%s-%s-%s-%s%s' % (direction, rep, method, style, dtype, tztag),
                    ue=ue, cs=cs, dtype=dtype, rep=rep, es=(es if rep != 'none' else None), bkey=bkey, method=method,
                    bounds=bounds, clean=clean, left=left, right=right, xs=xs, vshape=vshape, front=front, tunit=tunit,
                    tzmin=tzmin, tref=tref)
        out.append(case)
    return out


def _gen_malformed(rng):
    nn = rng.randint(2, 6)
    cs, es = _coord(rng, nn, 'irregular')
    case = dict(kind='malformed', ue=rng.randint(-4, 4), cs=cs, dtype='f8', rep='none', es=None, bkey='_bounds',
                method=rng.choice(METHODS), bounds=rng.choice(['ignore', 'warn', 'error']), clean=rng.choice(['mask', 'none']),
                left='none', right='none', xs=[cs[0], cs[-1]], vshape='1d', front='val2idx', tunit=None)
    what = rng.choice(['method', 'bounds', 'clean', 'nonmono', 'repeat', 'repeat'])
    if what == 'method':
        case['method'] = rng.choice(['linear', 'Nearest', ''])
    elif what == 'bounds':
        case['bounds'] = rng.choice(['raise', 'Warn', 'mask'])
    elif what == 'clean':
        case['clean'] = rng.choice(['nan', 'Mask', 'clip'])
    elif what == 'nonmono':
        k = rng.randrange(1, nn) if nn > 2 else 1
        cs2 = cs[:k] + [cs[k - 1] - rng.randint(1, 5)] + cs[k:]
        case['cs'] = cs2
        case['xs'] = [cs2[0]]
    else:
        k = rng.randrange(0, nn)
        cs2 = cs[:k + 1] + [cs[k]] + cs[k + 1:]
        if rng.random() < 0.3:
            cs2 = [cs[0]] * rng.randint(2, 4)      # all equal: zero spacing
        case['cs'] = cs2
        case['xs'] = [cs2[0]]
    case['kind'] = 'malformed-' + what
    return case


def _gen_float(rng):
    """realistic binary64 grids; queries 1 ulp inside/outside edges.  Decided by py_check only."""
    style = rng.choice(['lon', 'lat', 'sigma', 'offset', 'zero-cross'])
    if style == 'lon':
        d = rng.choice([2.5, 0.625, 5.0, 1.25, 0.1, 1.0 / 3])
        n = rng.randint(4, 40)
        e0 = -180.0
    elif style == 'lat':
        d = rng.choice([2.0, 0.5, 4.0, 0.25, 0.3])
        n = rng.randint(4, 40)
        e0 = -90.0
    elif style == 'sigma':
        n = rng.randint(3, 30)
        d = 1.0 / n
        e0 = 0.0
    elif style == 'offset':
        d = rng.choice([0.5, 3.0, 12000.0, 0.7])
        n = rng.randint(3, 20)
        e0 = rng.choice([100.0, 1e6, -4321.5])
    else:
        d = rng.choice([1 / 16., 0.1, 3.0])
        n = 2 * rng.randint(2, 20)
        e0 = -d * (n // 2)
    es = [e0 + d * k for k in range(n + 1)]
    cs = [(a + b) / 2 for a, b in zip(es, es[1:])]
    method = rng.choice(['bounds', 'bounds', 'nearest'])
    xs = []
    for _ in range(rng.randint(1, 5)):
        if method == 'bounds':
            e = rng.choice(es)
            xs.append(rng.choice([e, math.nextafter(e, -math.inf), math.nextafter(e, math.inf)]))
        else:
            c = rng.choice(cs)
            xs.append(rng.choice([c, math.nextafter(c, -math.inf), math.nextafter(c, math.inf)]))
    desc = rng.random() < 0.15
    if desc:
        es, cs = es[::-1], cs[::-1]
    return dict(kind='float-%s-%s%s' % (style, method, '-desc' if desc else ''), fl=True, cs_hex=[c.hex() for c in cs],
                es_hex=[e.hex() for e in es], rep=rng.choice(['1d', '2d']), method=method, xs_hex=[x.hex() for x in xs],
                bounds='ignore', clean='mask', left='none', right='none')


# ----------------------------------------------------------------------------- implementation side
def _mkfile(name, cs, dtype, rep, es, bkey, tunits=None):
    import numpy as np
    from PseudoNetCDF import PseudoNetCDFFile
    f = PseudoNetCDFFile()
    n = len(cs)
    f.createDimension(name, n)
    v = f.createVariable(name, dtype, (name,))
    v[:] = np.asarray(cs).astype(dtype)
    if tunits:
        v.units = tunits
    if rep != 'none':
        bname = name + bkey if bkey != 'attr' else 'my_edges'
        if bkey == 'attr':
            v.bounds = bname
        e = np.asarray(es, dtype='d')
        if rep == '1d':
            f.createDimension('ne', n + 1)
            b = f.createVariable(bname, 'd', ('ne',))
            b[:] = e
        else:
            f.createDimension('nv', 2)
            b = f.createVariable(bname, 'd', (name, 'nv'))
            b[:] = np.array([e[:-1], e[1:]]).T
    return f


def impl(case):
    import numpy as np, warnings, datetime
    if case.get('fl'):
        cs = [float.fromhex(h) for h in case['cs_hex']]
        es = [float.fromhex(h) for h in case['es_hex']]
        f = _mkfile('x', cs, 'f8', case['rep'], es, '_bounds')
        xs = np.array([float.fromhex(h) for h in case['xs_hex']])
        with warnings.catch_warnings(), contextlib.redirect_stderr(io.StringIO()), np.errstate(all='ignore'):
            warnings.simplefilter('ignore')
            r = f.val2idx('x', xs, method=case['method'], bounds='ignore')
        return dict(cells=np.ma.asarray(r).reshape(-1).tolist())
    ue = case['ue']
    vals = np.ldexp(np.array(case['cs'], dtype='d'), ue)
    if not (vals.astype(case['dtype']).astype('d') == vals).all():
        raise AssertionError('coordinate not representable in ' + case['dtype'])
    es = None if case['es'] is None else np.ldexp(np.array(case['es'], dtype='d'), ue)
    name = 'time' if case['front'] == 'time2idx' else 'x'
    tunits = None
    if case['front'] == 'time2idx':
        tunits = '%s since %s 00:00:00' % (case['tunit'], case.get('tref') or '2000-01-01')
    f = _mkfile(name, vals, case['dtype'], case['rep'], es, case['bkey'], tunits)
    xs = np.ldexp(np.array(case['xs'], dtype='d'), ue)
    kw = dict(method=case['method'], bounds=case['bounds'], clean=case['clean'])
    if case['left'] == 'nan':
        kw['left'] = np.nan
    if case['right'] == 'nan':
        kw['right'] = np.nan
    obs = {}
    if case['front'] == 'time2idx':
        us = TUNITS[case['tunit']]
        ref = datetime.datetime(*[int(v) for v in (case.get('tref') or '2000-01-01').split('-')])
        q = []
        for x in case['xs']:
            micro = Fraction(x) * Fraction(2) ** ue * us
            if micro.denominator != 1:
                raise AssertionError('query not a whole microsecond')
            q.append(ref + datetime.timedelta(microseconds=int(micro)))
        tzmin = case.get('tzmin')
        if tzmin is not None:
            # the same instants, written in a zone with the given offset
            q = [t.replace(tzinfo=datetime.timezone.utc).astimezone(datetime.timezone(datetime.timedelta(minutes=m)))
                 for t, m in zip(q, tzmin)]
            obs['asked'] = [t.isoformat() for t in q]
        arg = np.array(q)
        nums = np.asarray(f.date2num(arg, timekey='time'), dtype='d')
        obs['nums'] = [float(v).hex() for v in nums.reshape(-1)]
        call = lambda: f.time2idx(arg, dim='time', **kw)   # noqa
    else:
        if case['vshape'] == 'scalar':
            arg = xs[0]
        elif case['vshape'] == '2d':
            arg = xs.reshape(1, -1) if len(xs) % 2 else xs.reshape(2, -1)
        else:
            arg = xs
        call = lambda: f.val2idx(name, arg, **kw)   # noqa
    err = io.StringIO()
    try:
        with warnings.catch_warnings(), contextlib.redirect_stderr(err), np.errstate(all='ignore'):
            warnings.simplefilter('always')
            r = call()
        a = np.ma.asarray(r)
        obs['cells'] = [None if c is None else int(c) for c in a.reshape(-1).tolist()]
        obs['masked_type'] = bool(isinstance(r, np.ma.MaskedArray))
        obs['dtype'] = str(a.dtype)
        obs['shape'] = list(a.shape)
    except Exception as e:   # noqa
        obs['raises'] = type(e).__name__
        obs['msg'] = str(e)[:80]
    obs['warned'] = 'Values are out of bounds' in err.getvalue()
    # coordinate after the call, in half units
    after = np.ldexp(np.asarray(f.variables[name][:], dtype='d'), 1 - ue)
    obs['coord2'] = [int(v) if float(v).is_integer() else float(v).hex() for v in after]
    return obs


# ----------------------------------------------------------------------------- Coq side
_M = {'nearest': 'MNearest', 'bounds': 'MBounds', 'exact': 'MExact'}
_B = {'ignore': 'BIgnore', 'warn': 'BWarn', 'error': 'BError'}
_CL = {'none': 'CNone', 'mask': 'CMask'}
_ERR = {'NotImplementedError': 'ENotImpl', 'IndexError': 'EIndex'}


def _err_of(obs):
    nm = obs.get('raises')
    if nm == 'ValueError':
        msg = obs.get('msg', '')
        if 'neither ascending' in msg:
            return 'ENotMono'
        if 'out of bounds' in msg:
            return 'EOutOfBounds'
        return None
    return _ERR.get(nm)


def _scale(case):
    return 2 if (case['rep'] == 'none' and case['method'] == 'bounds') else 1


def coq_term(case, obs):
    if case.get('fl'):
        return None
    if case['rep'] == 'none':
        bv = 'NoBounds'
    elif case['rep'] == '1d':
        bv = '(Edges %s)' % C.zlist(case['es'])
    else:
        es = case['es']
        bv = '(Rows [%s])' % '; '.join('(%s, %s)' % (C.zc(a), C.zc(b)) for a, b in zip(es, es[1:]))
    cfg = '(Cfg %s %s %s %s %s %s %s)' % (
        _M.get(case['method'], 'MOther'), _B.get(case['bounds'], 'BOther'), _CL.get(case['clean'], 'COther'),
        C.cbool(case['left'] == 'nan'), C.cbool(case['right'] == 'nan'),
        C.zlist(case['cs']), bv)
    if 'raises' in obs:
        e = _err_of(obs)
        if e is None:
            # an exception the model has no name for: make F fail visibly
            o = '(Done [] false [])'
        else:
            o = '(Raised %s)' % e
    else:
        s = _scale(case)
        co = []
        for v in obs['coord2']:
            if not isinstance(v, int) or (s == 1 and v % 2):
                co = None
                break
            co.append(v if s == 2 else v // 2)
        if co is None:
            o = '(Done [] false [])'
        else:
            cells = '[' + '; '.join('Masked' if c is None else '(Idx %s)' % C.zc(c) for c in obs['cells']) + ']'
            o = '(Done %s %s %s)' % (cells, C.cbool(obs['warned']), C.zlist(co))
    return '(Case %s %s %s)' % (cfg, C.zlist(case['xs']), o)


# ----------------------------------------------------------------------------- independent oracle
def _spec_cells(method, cs, cells, xs, got, lnan, rnan, clean):
    """exact-rational statement of the property for one call; returns list of reasons"""
    why = []
    n = len(cs)
    emin = min(min(a, b) for a, b in cells)
    emax = max(max(a, b) for a, b in cells)
    cmin, cmax = min(cs), max(cs)
    for x, r in zip(xs, got):
        if method == 'nearest':
            nanout = (x < cmin and lnan) or (x > cmax and rnan)
            if r is None:
                if not (nanout and clean == 'mask'):
                    why.append('x=%s masked although inside the coordinate range' % float(x))
            elif 0 <= r < n:
                if any(abs(x - cs[r]) > abs(x - c) for c in cs):
                    why.append('x=%s -> %d is not the closest coordinate value' % (float(x), r))
            elif not (nanout and clean == 'none'):
                why.append('x=%s -> invalid index %d' % (float(x), r))
        elif method == 'bounds':
            nanout = (x < emin and lnan) or (x > emax and rnan)
            if r is None:
                if not (nanout and clean == 'mask'):
                    why.append('x=%s masked although inside the domain' % float(x))
            elif 0 <= r < n:
                a, b = cells[r]
                ok = min(a, b) <= x <= max(a, b)
                ok = ok or (x < emin and not lnan and min(a, b) == emin) or (x > emax and not rnan and max(a, b) == emax)
                if not ok:
                    why.append('x=%s reported in cell %d = [%s, %s] which does not contain it' % (float(x), r, float(a), float(b)))
            elif not (nanout and clean == 'none'):
                why.append('x=%s -> index %d is not a cell (n=%d)' % (float(x), r, n))
        else:
            if r is None:
                if x in cs:
                    why.append('x=%s equals a coordinate value but is masked' % float(x))
            elif not (0 <= r < n and cs[r] == x):
                why.append('x=%s -> %s but coordinate there differs' % (float(x), r))
    return why


def _natural_edges(cs):
    d = [b - a for a, b in zip(cs, cs[1:])]
    mids = [(a + b) / 2 for a, b in zip(cs, cs[1:])]
    if all(x == d[0] for x in d):
        return [cs[0] - d[0] / 2] + mids + [cs[-1] + d[-1] / 2]
    return [cs[0]] + mids + [cs[-1]]


def _near_boundary(method, cs, es, xs):
    """float stream: a query within 2^-40 (relative to the grid magnitude) of a decision boundary without being on it"""
    bnd = es if method == 'bounds' else [(a + b) / 2 for a, b in zip(cs, cs[1:])]
    mag = max(abs(v) for v in es) or Fraction(1)
    tol = mag * Fraction(1, 2 ** 40)
    for x in xs:
        for b in bnd:
            if x != b and abs(x - b) <= tol:
                return True
    return False


def py_check(case, obs):
    if case.get('fl'):
        if 'raises' in obs:
            return dict(s_ok=False, region=0, why='in-domain lookup raised ' + str(obs.get('raises')))
        cs = [Fraction(float.fromhex(h)) for h in case['cs_hex']]
        es = [Fraction(float.fromhex(h)) for h in case['es_hex']]
        xs = [Fraction(float.fromhex(h)) for h in case['xs_hex']]
        why = _spec_cells(case['method'], cs, list(zip(es, es[1:])), xs, obs['cells'], False, False, 'mask')
        region = 1 if _near_boundary(case['method'], cs, es, xs) else 0
        if case['method'] == 'bounds' and _bounds_by_search():
            region = 0          # the cell is found by exact comparisons: no rounding left on this path
        return dict(s_ok=not why, region=region, why='; '.join(why[:3]))
    if case['kind'].startswith('malformed'):
        return dict(s_ok=True, region=0, why='')      # judged by the Coq side (bad option words must raise NotImplementedError)
    res = dict(s_ok=True, region=0, why='')
    why = []
    if case['front'] == 'time2idx' and 'nums' in obs:
        exp = [Fraction(x) * Fraction(2) ** case['ue'] for x in case['xs']]
        got = [Fraction(float.fromhex(h)) for h in obs['nums']]
        if exp != got:
            res['f_ok'] = False
            why.append('date2num differs from the exact offset')
    if 'raises' in obs:
        res['why'] = '; '.join(why)
        return res          # judged by the Coq side (spec_outcome)
    cs = [Fraction(c) for c in case['cs']]
    xs = [Fraction(x) for x in case['xs']]
    if case['rep'] == 'none':
        es = _natural_edges(cs)
    else:
        es = [Fraction(e) for e in case['es']]
    cells = list(zip(es, es[1:]))
    sw = _spec_cells(case['method'], cs, cells, xs, obs['cells'], case['left'] == 'nan', case['right'] == 'nan', case['clean'])
    if obs.get('dtype') != 'int32':
        sw.append('result dtype %s' % obs.get('dtype'))
    if sw:
        res['s_ok'] = False
    res['why'] = '; '.join((why + sw)[:3])
    return res


def nontrivial(case, obs):
    if 'raises' in obs or 'cells' not in obs:
        return False
    return any(c is None or c > 0 for c in obs['cells'])


def shrink(case):
    if case.get('fl'):
        xs = case['xs_hex']
        if len(xs) > 1:
            for k in range(len(xs)):
                yield dict(case, xs_hex=xs[:k] + xs[k + 1:])
        return
    xs = case['xs']
    tzm = case.get('tzmin')
    if len(xs) > 1:
        for k in range(len(xs)):
            yield dict(case, xs=xs[:k] + xs[k + 1:], vshape='1d',
                       tzmin=(None if tzm is None else tzm[:k] + tzm[k + 1:]))
    n = len(case['cs'])
    if n > 2 and not case['kind'].startswith('malformed'):
        for k in (0, n - 1):
            cs = case['cs'][:k] + case['cs'][k + 1:]
            es = case['es']
            if es is not None:
                es = es[1:] if k == 0 else es[:-1]
            yield dict(case, cs=cs, es=es)
    if case.get('vshape') != '1d':
        yield dict(case, vshape='1d')
    if case.get('front') == 'time2idx':
        yield dict(case, front='val2idx', tunit=None, tzmin=None)


_SRCH = ["j = np.searchsorted(dimevals, val, side='right')", 'j = np.clip(j, 1, dimevals.size - 1)',
         'inside = (val >= dimevals[0]) & (val <= dimevals[-1])', 'fidx = np.where(inside, np.minimum(cidx[j - 1], cidx[j]), fidx)']


def _val2idx_statements():
    import ast
    path = os.path.join(C.SRC, 'PseudoNetCDF', 'core', '_files.py')
    tree = ast.parse(open(path).read())
    fn = None
    for n in tree.body:
        if isinstance(n, ast.ClassDef) and n.name == 'PseudoNetCDFFile':
            for c in n.body:
                if isinstance(c, ast.FunctionDef) and c.name == 'val2idx':
                    fn = c
    if fn is None:
        return None, None
    un = lambda n: ast.unparse(n).strip()   # noqa
    sts = [un(n) for n in ast.walk(fn) if isinstance(n, (ast.Assign, ast.AugAssign, ast.Expr, ast.Return, ast.Raise))]
    ifs = [un(n.test) for n in ast.walk(fn) if isinstance(n, ast.If)]
    return sts, ifs


def _bounds_by_search():
    try:
        sts, _ = _val2idx_statements()
        return sts is not None and all(x in sts for x in _SRCH)
    except Exception:   # noqa
        return False


def translate():
    """Tie T for C16: (1) fail-closed AST obligations — the statements of val2idx / time2idx / date2num that Model/Val2idx.v
    transcribes are what the source says now; (2) coq/Gen/Val2idxSrc.v is regenerated: whether the bounds path locates the cell
    with searchsorted (fixes/C16-val2idx-bounds-exact-cell.patch) or by truncating the interpolated index."""
    import ast
    from translate import py2coq
    out = []

    def ob(anchor, ok, detail='statement not found / changed'):
        out.append(dict(anchor=anchor, ok=bool(ok), detail='' if ok else detail))
    flag = False
    try:
        sts, ifs = _val2idx_statements()
        if sts is None:
            ob('PseudoNetCDFFile.val2idx', False, 'function missing')
        else:
            flag = all(x in sts for x in _SRCH)
            ob('val2idx: the bounds path locates the cell with the searchsorted block (fix faed7f7)', flag,
               'searchsorted block missing: values a few ulp below an edge can be reported in the next cell again')
            ob('val2idx: bounds path is either interp-truncate or the complete searchsorted block (bounds_by_search)',
               flag or not any(x in sts for x in _SRCH) and not any('searchsorted' in x for x in sts), 'partial / different searchsorted block')
            need = [

                ("start = dimvals[:1].astype('d')", 'derive_edges: start is a copy'),
                ("end = dimvals[-1:].astype('d')", 'derive_edges: end is a copy'),
                ("start -= dval[0]", 'derive_edges: uniform extension'),
                ("end += dval[-1]", 'derive_edges: uniform extension'),
                ("dimevals = np.concatenate([start, dimvals[1:] - dval, end])", 'derive_edges: midpoints'),
                ("dimevals = dimbv[:]", 'edges_of_bvar: 1-D'),
                ("dimevals = np.append(dimbv[:, 0], dimbv[-1, 1])", 'edges_of_bvar: n x 2'),
                ("idx = np.arange(dimevals.size)", 'fidx_one: idx0 (bounds)'),
                ("idx = np.arange(dimvals.size)", 'fidx_one: idx0'),

                ("dimevals = dimevals[::-1]", 'descending: reverse edges'),
                ("dimvals = dimvals[::-1]", 'descending: reverse centres'),
                ("idx = idx[::-1]", 'descending: reverse idx'),
                ("raise ValueError('coordinate is neither ascending nor descending')", 'ENotMono'),
                ("cidx = np.minimum(idx, dimvals.size - 1)", 'fidx_one: clamp of the index vector'),
                ("fidx = np.interp(val, dimevals, cidx, left=left, right=right)", 'fidx_one: interp (bounds)'),
                ("fidx = np.interp(val, dimvals, idx, left=left, right=right)", 'fidx_one: interp (nearest/exact)'),
                ("fidx = np.ma.masked_where(~np.isin(val, dimvals), fidx)", 'to_cell: exact mask'),
                ("outfidx = np.ma.masked_where(~np.isfinite(np.ma.getdata(fidx)), fidx)", 'to_cell: clean=mask'),
                ("isleft = val < dimevals[0]", 'is_out'), ("isright = val > dimevals[-1]", 'is_out'), ("isout = isleft | isright", 'is_out'),
                ("raise ValueError(outmesg)", 'EOutOfBounds'),
                ("outidx = np.round(outfidx, 0).astype('i')", 'to_cell: rint'), ("outidx = outfidx.astype('i')", 'to_cell: truncation'),
                ("return outidx", 'result')]
            for st, what in need:
                ob('val2idx: `%s` (%s)' % (st, what), st in sts)
            ob("val2idx: `dval = np.diff(dimvals.astype('d')) / 2` (derive_edges: differences formed in float, fix 3b237b6)",
               "dval = np.diff(dimvals.astype('d')) / 2" in sts, 'differences formed in the coordinate dtype again (narrow / unsigned types wrap)')
            ob("val2idx: `ddimevals = np.diff(np.asarray(dimevals, dtype='d'))` (direction test: differences formed in float, fix 3b237b6)",
               "ddimevals = np.diff(np.asarray(dimevals, dtype='d'))" in sts, 'differences formed in the edge dtype again (narrow / unsigned types wrap)')
            for t, what in [("method not in ('exact', 'nearest', 'bounds')", 'bad_opts'), ("bounds not in ('ignore', 'warn', 'error')", 'bad_opts'),
                            ("clean not in ('none', 'mask')", 'bad_opts'), ("(dval == dval[0]).all()", 'uniform'),
                            ("(ddimevals < 0).all()", 'all_neg first'), ("(ddimevals > 0).all()", 'all_pos'),
                            ("method == 'nearest'", 'rint vs trunc'), ("bounds != 'ignore'", 'warn/raise only when requested')]:
                ob('val2idx: `if %s` (%s)' % (t, what), t in ifs)
            ob('val2idx: no bare `dimevals[::-1]` expression statement (the no-op of the descending defect)', 'dimevals[::-1]' not in sts)
            vas = [x for x in sts if x.startswith('val =') or x.startswith('val[') or x.split(' ')[0] == 'val']
            ob('val2idx: the query values are taken as given — `val = np.asarray(val)` is the only statement that (re)binds or updates val '
               '(no re-typing to the coordinate dtype between the 1-D check and the lookup)', vas == ['val = np.asarray(val)'],
               'val is re-bound / updated: %r' % vas)
        path = os.path.join(C.SRC, 'PseudoNetCDF', 'core', '_files.py')
        src = open(path).read()
        ob('date2num: aware datetimes are converted with `t.astimezone(utc).replace(tzinfo=None)`', 't.astimezone(utc).replace(tzinfo=None) for t in time[:]' in src)
        ob('time2idx: `nums = self.date2num(time, timekey=timekey)` then `return self.val2idx(dim=dim, val=nums, **kwds)`',
           'nums = self.date2num(time, timekey=timekey)' in src and 'return self.val2idx(dim=dim, val=nums, **kwds)' in src)
    except Exception as e:   # noqa
        ob('core/_files.py: parse', False, str(e))
    text = ('(* GENERATED by harness/props/c16.py translate() from src/PseudoNetCDF/core/_files.py — do not edit. *)\n'
            '(* true iff the bounds path of val2idx locates the cell inside the domain with np.searchsorted on the edges *)\n'
            'Definition bounds_by_search : bool := %s.\n' % ('true' if flag else 'false'))
    py2coq.write_if_changed(os.path.join(C.COQ, 'Gen', 'Val2idxSrc.v'), text)
    return out


LEVEL_TEXT = ('Theorems (Props/C16.v, all closed under the global context) over an exact Gallina model of the repaired val2idx (options, three '
              'bounds representations, edge derivation, direction test with reversal, numpy.interp, index clamp, round/truncate, masking, warning '
              'and ValueError): for strictly monotonic coordinates in BOTH directions, of ANY length and spacing, and EVERY query value, nearest '
              'returns a closest coordinate (C16_nearest_correct), bounds returns a cell whose edges contain the value (both outer edges '
              'included) and clamps or masks out-of-range values as requested (C16_bounds_correct), exact returns the equal coordinate or masks '
              '(C16_exact_correct); the whole call warns / raises iff requested and some value is outside '
              '(C16_out_of_range_warned_or_rejected) and never changes the coordinate (C16_coordinate_unchanged); n x 2 rows and derived '
              'midpoint edges reduce to the edge-list case (C16_rows_are_cells, C16_derived_edges_natural). Tie H: library vs model on dyadic '
              'inputs (cells, warning, exception, coordinate after the call); the former failing inputs run first from corpus/C16. Binary64 '
              '1-ulp edge behaviour is decided by a rational Python oracle only (former finding C16-float-edge, repaired by faed7f7: the cell is '
              'located by exact comparisons; the theorems cover both the old and the new variant). Tie T: '
              'translate() checks 47 modelled statements of val2idx/time2idx/date2num against the source AST and regenerates '
              'Gen/Val2idxSrc.v (which bounds variant the source has; C16_model_follows_source).')
LEVEL_NOTE = ('Trusted: Coq kernel + vm_compute; the correspondence harness; numpy.interp bracket search abstracted to the unique bracketing '
              'segment on ascending xp; binary64 exact/decision-safe on the dyadic stream; cftime date2num exact on dyadic offsets (checked). '
              'Not covered: a composite theorem over spec_outcome (the per-value theorems and the whole-call theorem are separate); masked or '
              'NaN query values; numeric left/right fills; time2t (deprecated); length-1 coordinates; netCDF4-backed variables.')
TECHNIQUE = 'Coq proof (induction over the coordinate list, lia/nia) + vm_compute refutation witnesses + differential correspondence'
