"""C07 — save to netCDF (pncgen / Pseudo2NetCDF.convert) and reopen (pncopen format='netcdf')."""
import os, shutil, struct, tempfile
from harness import common as C

ID = 'C07'
N = {'quick': 1500, 'thorough': 12000}
SEARCH_N = {'quick': 800, 'thorough': 4000}
SHARD = 125
RULE = ('fill values include 0, 0.0 and -0.0 in every branch of the fill precedence (missing_value / fill_value / array fill / _FillValue); float cells of masked and plain variables (f4, f8) include nan, +inf, -inf, -0.0 and denormals, compared by bit pattern; in-memory files: 1..3 dimensions (lengths 1..4, 0..2 unlimited, used or unused), 1..4 variables of rank 0..3 over dtypes '
        'b B h H i I q Q f d c (restricted to b h i f d c for the three classic flavours), plain and masked variables with fill given by '
        'the masked array alone / missing_value / fill_value / both equal / both different / a hidden _FillValue, unmasked cells equal to the '
        'fill (adversarial), global and variable attributes of kind str / int / float / int array / float array / bool; every case is saved '
        'in one of NETCDF3_CLASSIC, NETCDF3_64BIT_OFFSET, NETCDF4_CLASSIC, NETCDF4 with complevel 0 or 4 and reopened; dimensions, '
        'attributes, dtypes, dimension tuples, masks and bit patterns compared. Non-trivial = a masked cell or an unlimited dimension or a bool attribute.')
TRUSTED = ['stage 1 (impl_convert: fill choice, value written into masked cells) is compared with the raw stored cells and _FillValue read with '
           'netCDF4 auto-masking switched off; only stage 2 (nc_load) is the assumed oracle',
           'netCDF-C / HDF5 / netCDF4-python store and return a representable image unchanged; cells equal to _FillValue or missing_value come '
           'back masked; unlimited dimensions have the written length (this is the modelled oracle, exercised by every case, not verified)',
           'attribute values are compared by value (int64 <-> int32 and float32 <-> float64 representation changes of attributes are not distinguished); '
           'the _FillValue attribute added by netCDF is not counted as an attribute change']
ASSUMPTIONS = ['no attribute is called scale_factor / add_offset / valid_min / valid_max / valid_range (netCDF4-python would rescale or mask on read)',
               'integer attributes fit int32 in classic flavours',
               'character variables are unmasked S1 arrays; string (vlen) variables, groups and compound types are not generated']

CLASSIC = ['NETCDF3_CLASSIC', 'NETCDF3_64BIT_OFFSET', 'NETCDF4_CLASSIC']
DT = {'b': 1, 'B': 2, 'h': 3, 'H': 4, 'i': 5, 'I': 6, 'q': 7, 'Q': 8, 'f': 9, 'd': 10, 'c': 11}
NPDT = {'b': 'i1', 'B': 'u1', 'h': 'i2', 'H': 'u2', 'i': 'i4', 'I': 'u4', 'q': 'i8', 'Q': 'u8', 'f': 'f4', 'd': 'f8', 'c': 'S1'}
STR2CODE = {'i1': 1, 'u1': 2, 'i2': 3, 'u2': 4, 'i4': 5, 'u4': 6, 'i8': 7, 'u8': 8, 'f4': 9, 'f8': 10, 'S1': 11}
DEFAULT_FILL = {'b': -127, 'B': 255, 'h': -32767, 'H': 65535, 'i': -2147483647, 'I': 4294967295, 'q': -9223372036854775806,
                'Q': 18446744073709551614, 'f': 9.969209968386869e+36, 'd': 9.969209968386869e+36}
DIMN = ['t', 'x', 'y', 'lev', 'n']
VARN = ['a', 'b', 'temp', 'O3', 'm', 'q', 's', 'flagv']
AKEYS = ['title', 'units', 'long_name', 'history', 'n', 'ratio', 'levels', 'ok', 'comment', 'var_desc', 'Conventions', 'zz']


def _aval(rng, flav):
    r = rng.random()
    if r < 0.35:
        return {'s': rng.choice(['K', 'hello world', 'ppb', 'a: b', 'x', 'm s-1', 'CF-1.6', 'line1 line2'])}
    if r < 0.5:
        return {'i': [rng.randint(-2 ** 31 + 1, 2 ** 31 - 1) if rng.random() < 0.3 else rng.randint(-100, 100)]}
    if r < 0.65:
        return {'f': [rng.choice([2.5, -1e-3, 1e20, 0.0, 3.14159, -7.0])]}
    if r < 0.75:
        return {'i': [rng.randint(-50, 50) for _ in range(rng.randint(2, 4))], 'dt': 'i4'}
    if r < 0.85:
        return {'f': [rng.choice([0.5, 1.0, 2.25, -8.0, 1e-5]) for _ in range(rng.randint(2, 4))]}
    return {'b': rng.random() < 0.5}


def _cellval(rng, dt):
    if dt == 'c':
        return rng.choice(['a', 'b', 'Z', ' ', '0'])
    if dt in 'fd':
        if rng.random() < 0.18:
            # special values: must come back unmasked and bit-identical
            return rng.choice([float('nan'), float('inf'), float('-inf'), -0.0,
                               (1e-45 if dt == 'f' else 5e-324), (-3e-45 if dt == 'f' else -1.5e-323),
                               (1e-39 if dt == 'f' else 2e-310)])
        v = rng.choice([0.0, 1.0, -2.5, 3.75, 1e-3, 123456.789, -1e10, 2.0 ** -20, 7.0, -0.0, 1e30])
        if rng.random() < 0.5:
            v = rng.uniform(-1000, 1000)
        if dt == 'f':
            v = struct.unpack('<f', struct.pack('<f', v))[0]
        return v
    lo, hi = {'b': (-128, 127), 'B': (0, 255), 'h': (-32768, 32767), 'H': (0, 65535), 'i': (-2 ** 31, 2 ** 31 - 1),
              'I': (0, 2 ** 32 - 1), 'q': (-2 ** 63, 2 ** 63 - 1), 'Q': (0, 2 ** 64 - 1)}[dt]
    if rng.random() < 0.7:
        v = rng.randint(max(lo, -120), min(hi, 120))
        return v if v != DEFAULT_FILL[dt] else 0
    v = rng.choice([lo, hi, rng.randint(lo, hi)])
    # netCDF default fill values are masked by netCDF4-python when no _FillValue is defined (ASSUMPTIONS)
    if v == DEFAULT_FILL[dt]:
        v = v // 2
    return v


def _fillval(rng, dt):
    # zero-valued fills (falsy in Python): 0, 0.0, -0.0 - alone and in every combination of the fill attributes
    if rng.random() < 0.3:
        return rng.choice([0.0, -0.0, 0.0]) if dt in 'fd' else 0
    if dt in 'fd':
        return rng.choice([-999.0, -9999.0, 1e20, -5.0, 9.5])
    if dt in 'bB':
        return rng.choice([99, 100, 127])
    if dt in 'BHIQ':
        return rng.choice([99, 250, 9999])
    return rng.choice([-99, -127, 99])


def gen(rng, n, tier):
    out = []
    for _ in range(n):
        flav = rng.choice(CLASSIC + ['NETCDF4', 'NETCDF4'])
        classic = flav in CLASSIC
        r = rng.random()
        if tier == 'search':
            kind = 'valid'
        elif r < 0.70:
            kind = 'valid'
        elif r < 0.82:
            kind = 'fill-differs'
        elif r < 0.91:
            kind = 'unlim-unused'
        else:
            kind = 'collide'
        nd = rng.randint(1, 3)
        dnames = rng.sample(DIMN, nd)
        dims = [[d, rng.randint(1, 4), False] for d in dnames]
        nun = rng.choice([0, 1, 1, 2]) if not classic else rng.choice([0, 1, 1])
        if kind == 'unlim-unused':
            nun = max(nun, 1)
        unl = rng.sample(range(nd), min(nun, nd)) if not classic else ([0] if nun else [])
        for i in unl:
            dims[i][2] = True
        nv = rng.randint(1, 4)
        vnames = rng.sample(VARN, nv)
        dts = 'bhifdc' if classic else 'bBhHiIqQfdc'
        vs = []
        for vn in vnames:
            dt = rng.choice(dts)
            rank = rng.choice([0, 1, 1, 2, 2, 3])
            rank = min(rank, nd)
            idx = sorted(rng.sample(range(nd), rank))
            if classic and unl and unl[0] in idx:
                idx = [unl[0]] + [i for i in idx if i != unl[0]]
            vd = [dims[i][0] for i in idx]
            size = 1
            for i in idx:
                size *= dims[i][1]
            masked = dt != 'c' and rng.random() < 0.55
            cells = [_cellval(rng, dt) for _ in range(size)]
            v = dict(name=vn, dt=dt, dims=vd, attrs=[], masked=masked, mafill=None, mv=None, fv=None, hid=None, cells=cells)
            if masked:
                pm = rng.choice([0.0, 0.3, 0.6])
                v['cells'] = [None if rng.random() < pm else c for c in cells]
                mode = rng.choice(['ma', 'ma', 'mv', 'fv', 'both-eq'])
                if kind == 'fill-differs' and rank > 0:
                    mode = 'both-diff'
                    if not any(c is None for c in v['cells']):
                        v['cells'][rng.randrange(size)] = None
                fillv = _fillval(rng, dt)
                if rank == 0 and fillv == 0 and dt in 'fd':
                    fillv = 0.0      # netCDF4 stores +0.0 for a masked SCALAR whose fill is -0.0 (same mask on read; raw sign differs)
                v['mafill'] = fillv
                if mode in ('mv', 'both-eq', 'both-diff'):
                    v['mv'] = fillv
                if mode in ('fv', 'both-eq'):
                    v['fv'] = fillv
                if mode == 'both-diff':
                    other = _fillval(rng, dt)
                    while other == fillv:
                        other = _fillval(rng, dt) + rng.randint(1, 3)
                    v['fv'] = other
                    v['mafill'] = other
            elif dt != 'c' and rng.random() < 0.25:
                which = rng.choice(['hid', 'mv', 'fv'])
                v[which] = _fillval(rng, dt)
            fills = [x for x in (v['mv'], v['fv'], v['mafill'] if masked else None, v['hid']) if x is not None]
            # keep unmasked cells away from the fills unless this is the collision stream
            v['cells'] = [c if (c is None or c not in fills) else ((c - 1) if c > 0 else (c + 1)) for c in v['cells']]
            if kind == 'collide' and not fills and dt != 'c' and size > 0 and rng.random() < 0.6:
                v['cells'][rng.randrange(size)] = DEFAULT_FILL[dt]
            if kind == 'collide' and fills and dt != 'c' and size > 0:
                unm = [i for i, c in enumerate(v['cells']) if c is not None]
                if unm:
                    kind = 'ood-equals-declared-fill'
                    v['cells'][rng.choice(unm)] = v['mv'] if v['mv'] is not None else (v['fv'] if v['fv'] is not None else fills[0])
            # attributes (missing_value / fill_value are placed among them in random order)
            keys = rng.sample(AKEYS, rng.randint(0, 3))
            at = [[k, _aval(rng, flav)] for k in keys]
            if v['mv'] is not None:
                at.insert(rng.randint(0, len(at)), ['missing_value', {'fill': v['mv']}])
            if v['fv'] is not None:
                at.insert(rng.randint(0, len(at)), ['fill_value', {'fill': v['fv']}])
            v['attrs'] = at
            vs.append(v)
        if kind != 'unlim-unused':
            used = set(d for v in vs for d in v['dims'])
            for d in dims:
                if d[2] and d[0] not in used:
                    d[2] = False
        else:
            used = set(d for v in vs for d in v['dims'])
            if all((not d[2]) or d[0] in used for d in dims):
                extra = [x for x in DIMN if x not in dnames][0]
                if classic:
                    for d in dims:
                        d[2] = False
                dims.append([extra, rng.randint(1, 4), True])
        gat = [[k, _aval(rng, flav)] for k in rng.sample(AKEYS, rng.randint(0, 5))]
        out.append(dict(kind=kind, flavour=flav, complevel=rng.choice([0, 0, 4]), dims=dims, gattrs=gat, vars=vs))
    return out


# ----------------------------------------------------------------------------- keys
def _key(x, dt):
    """bit pattern (floats), value (ints), code point (char) of x in dtype dt"""
    import numpy as np
    if dt == 'c':
        if isinstance(x, bytes):
            return x[0] if x else 0
        return ord(x)
    if dt == 'f':
        return struct.unpack('<I', struct.pack('<f', float(x)))[0]
    if dt == 'd':
        return struct.unpack('<Q', struct.pack('<d', float(x)))[0]
    return int(np.array(x).astype(NPDT[dt]))


def _attr_py(a, dt=None):
    import numpy as np
    if 's' in a:
        return a['s']
    if 'b' in a:
        return bool(a['b'])
    if 'fill' in a:
        return np.array(a['fill']).astype(NPDT[dt])[()]
    if 'i' in a:
        return np.array(a['i'], dtype='i4') if len(a['i']) > 1 else int(a['i'][0])
    return np.array(a['f'], dtype='f8') if len(a['f']) > 1 else float(a['f'][0])


def _attr_canon(val):
    """observed attribute value -> (kind, data)"""
    import numpy as np
    if isinstance(val, str):
        return [0, [ord(c) for c in val]]
    arr = np.atleast_1d(np.asarray(val))
    if arr.dtype.kind == 'b':
        return [3, [int(x) for x in arr]]
    if arr.dtype.kind in 'iu':
        return [1, [int(x) for x in arr]]
    if arr.dtype.kind == 'f':
        return [2, [struct.unpack('<Q', struct.pack('<d', float(x)))[0] for x in arr]]
    return [9, [ord(c) for c in str(val)]]


def _attr_in(a, dt=None):
    return _attr_canon(_attr_py(a, dt))


def impl(case):
    import numpy as np
    from PseudoNetCDF import PseudoNetCDFFile, pncopen
    from PseudoNetCDF.sci_var import PseudoNetCDFMaskedVariable
    import gc
    gc.collect()
    work = tempfile.mkdtemp(dir=os.path.join(C.VERIF, '.work'))
    try:
        f = PseudoNetCDFFile()
        for d, n, u in case['dims']:
            dim = f.createDimension(d, n)
            if u:
                dim.setunlimited(True)
        for k, a in case['gattrs']:
            setattr(f, k, _attr_py(a))
        dlen = {d: n for d, n, u in case['dims']}
        for v in case['vars']:
            dt = v['dt']
            shape = tuple(dlen[d] for d in v['dims'])
            if dt == 'c':
                data = np.array([c.encode() for c in v['cells']], dtype='S1').reshape(shape)
            else:
                data = np.array([0 if c is None else c for c in v['cells']], dtype=NPDT[dt]).reshape(shape)
            if v['masked']:
                mask = np.array([c is None for c in v['cells']], dtype=bool).reshape(shape)
                arr = np.ma.MaskedArray(data, mask=mask, fill_value=np.array(v['mafill']).astype(NPDT[dt])[()])
                var = f.variables[v['name']] = PseudoNetCDFMaskedVariable(f, v['name'], dt, tuple(v['dims']), values=arr)
            else:
                var = f.createVariable(v['name'], dt, tuple(v['dims']))
                var[...] = data
            for k, a in v['attrs']:
                setattr(var, k, _attr_py(a, dt))
            if v['hid'] is not None:
                var._FillValue = np.array(v['hid']).astype(NPDT[dt])[()]
        path = os.path.join(work, 'o.nc')
        try:
            o = f.save(path, format=case['flavour'], complevel=case['complevel'], verbose=0)
            o.close()
        except Exception as e:
            return dict(err='save: %s: %s' % (type(e).__name__, str(e)[:200]))
        try:
            g = pncopen(path, format='netcdf')
        except Exception as e:
            return dict(err='open: %s: %s' % (type(e).__name__, str(e)[:200]))
        obs = dict(dims=[[k, len(d), bool(d.isunlimited())] for k, d in g.dimensions.items()],
                   gattrs=[[k, _attr_canon(getattr(g, k))] for k in g.ncattrs()], vars=[], data_model=g.data_model)
        for k, v in g.variables.items():
            a = v[...]
            code = STR2CODE.get(v.dtype.str.lstrip('<>|='), 0)
            dtc = [c for c, n in DT.items() if n == code]
            dtc = dtc[0] if dtc else 'd'
            m = np.ma.getmaskarray(a).ravel().tolist()
            d = np.ma.getdata(a).ravel().tolist()
            cells = [None if mk else _key(x, dtc) for x, mk in zip(d, m)]
            obs['vars'].append(dict(name=k, dt=code, dims=list(v.dimensions),
                                    attrs=[[n, _attr_canon(v.getncattr(n))] for n in v.ncattrs() if n != '_FillValue'],
                                    fillattr=('_FillValue' in v.ncattrs()), cells=cells))
        g.close()
        del g, v, a
        gc.collect()
        # raw file content, netCDF4 auto-masking and scaling switched off: what was really stored
        import netCDF4
        ds = netCDF4.Dataset(path)
        ds.set_auto_maskandscale(False)
        obs['raw'] = []
        for k, v in ds.variables.items():
            code = STR2CODE.get(v.dtype.str.lstrip('<>|='), 0)
            dtc = [c for c, n in DT.items() if n == code]
            dtc = dtc[0] if dtc else 'd'
            d = np.asarray(v[...]).ravel().tolist()
            fill = _key(v.getncattr('_FillValue'), dtc) if '_FillValue' in v.ncattrs() else None
            obs['raw'].append([fill, [_key(x, dtc) for x in d]])
        ds.close()
        return obs
    finally:
        shutil.rmtree(work, ignore_errors=True)


# ----------------------------------------------------------------------------- Coq term
def _n(s):
    return C.zlist([ord(c) for c in s])


def _av(kd):
    return '(AV %d %s)' % (kd[0], C.zlist(kd[1]))


def _attrs(l, dt=None):
    return '[' + '; '.join('(%s, %s)' % (_n(k), _av(_attr_in(a, dt))) for k, a in l) + ']'


def _oattrs(l):
    return '[' + '; '.join('(%s, %s)' % (_n(k), _av(kd)) for k, kd in l) + ']'


def _ocells(cells):
    return '[' + '; '.join('None' if c is None else '(Some %s)' % C.zc(c) for c in cells) + ']'


def _dims(ds):
    return '[' + '; '.join('(Dim %s %d %s)' % (_n(d), n, C.cbool(u)) for d, n, u in ds) + ']'


def coq_term(case, obs):
    if 'raises' in obs:
        return None
    vs = []
    for v in case['vars']:
        dt = v['dt']
        k = lambda x: None if x is None else _key(x, dt)
        vs.append('(PVar %s %d [%s] %s %s %s %s %s %s %s %s)' % (
            _n(v['name']), DT[dt], '; '.join(_n(d) for d in v['dims']), _attrs(v['attrs'], dt), C.cbool(v['masked']),
            C.zc(k(v['mafill']) or 0), C.copt(k(v['mv']), C.zc), C.copt(k(v['fv']), C.zc), C.copt(k(v['hid']), C.zc),
            C.copt(None if dt == 'c' else _key(DEFAULT_FILL[dt], dt), C.zc),
            _ocells([k(c) for c in v['cells']])))
    f = '(PFile %s %s [%s])' % (_dims(case['dims']), _attrs(case['gattrs']), '; '.join(vs))
    if 'err' in obs:
        o = 'None'
    else:
        ovs = ['(DVar %s %d [%s] None None %s %s)' % (_n(v['name']), v['dt'], '; '.join(_n(d) for d in v['dims']),
                                                     _oattrs(v['attrs']), _ocells(v['cells'])) for v in obs['vars']]
        o = '(Some (NFile %s %s [%s]))' % (_dims(obs['dims']), _oattrs(obs['gattrs']), '; '.join(ovs))
    raw = '[' + '; '.join('(%s, %s)' % (C.copt(fl, C.zc), C.zlist(cells)) for fl, cells in obs.get('raw', [])) + ']'
    return '(Case 0 %s %s %s)' % (f, o, raw)


# ----------------------------------------------------------------------------- independent oracle
def py_check(case, obs):
    if 'raises' in obs:
        return dict(s_ok=False, f_ok=False, why='harness impl raised %s %s' % (obs.get('raises'), obs.get('msg')))
    if 'err' in obs:
        return dict(s_ok=False, why=obs['err'])
    for v in case['vars']:
        dt = v['dt']
        decl = v['mv'] if v['mv'] is not None else (v['fv'] if v['fv'] is not None else (v['mafill'] if v['masked'] else v['hid']))
        declk = [_key(x, dt) for x in (decl, v['mv']) if x is not None]
        if any(c is not None and _key(c, dt) in declk for c in v['cells']):
            return dict(s_ok=True, why='an unmasked cell equals the declared fill value: outside the domain')
    why = []
    if obs['data_model'] != case['flavour']:
        why.append('flavour %s -> %s' % (case['flavour'], obs['data_model']))
    if obs['dims'] != [list(d) for d in case['dims']]:
        why.append('dimensions %r -> %r' % (case['dims'], obs['dims']))

    def norm(kd):
        return [1 if kd[0] == 3 else kd[0], kd[1]]
    if [[k, norm(_attr_in(a))] for k, a in case['gattrs']] != obs['gattrs']:
        why.append('global attributes differ')
    if [v['name'] for v in case['vars']] != [v['name'] for v in obs['vars']]:
        why.append('variable names/order differ')
    else:
        for v, o in zip(case['vars'], obs['vars']):
            dt = v['dt']
            if DT[dt] != o['dt']:
                why.append('dtype of %s' % v['name'])
            if v['dims'] != o['dims']:
                why.append('dimensions of %s' % v['name'])
            if [[k, norm(_attr_in(a, dt))] for k, a in v['attrs']] != o['attrs']:
                why.append('attributes of %s' % v['name'])
            exp = [None if c is None else _key(c, dt) for c in v['cells']]
            if exp != o['cells']:
                lost = sum(1 for a, b in zip(exp, o['cells']) if a is None and b is not None)
                gained = sum(1 for a, b in zip(exp, o['cells']) if a is not None and b is None)
                why.append('cells of %s differ (%d masks lost, %d gained)' % (v['name'], lost, gained))
    return dict(s_ok=not why, region=0, why='; '.join(why[:4]))


def nontrivial(case, obs):
    if 'raises' in obs or 'err' in obs:
        return False
    return (any(c is None for v in case['vars'] for c in v['cells']) or any(d[2] for d in case['dims'])
            or any('b' in a for k, a in case['gattrs']))


def shrink(case):
    vs = case['vars']
    for j in range(len(vs)):
        if len(vs) > 1:
            yield dict(case, vars=vs[:j] + vs[j + 1:])
    for j in range(len(case['gattrs'])):
        yield dict(case, gattrs=case['gattrs'][:j] + case['gattrs'][j + 1:])
    for j, v in enumerate(vs):
        for q in range(len(v['attrs'])):
            if v['attrs'][q][0] not in ('missing_value', 'fill_value'):
                yield dict(case, vars=vs[:j] + [dict(v, attrs=v['attrs'][:q] + v['attrs'][q + 1:])] + vs[j + 1:])


LEVEL_TEXT = ('Theorems (Props/C07.v, all closed under the global context) about the decision logic of the REPAIRED Pseudo2NetCDF.convert '
              '(fix C07-fill-conflict) composed with an ASSUMED netCDF store/load behaviour (part of the model, not verified): C07_save_open_partial '
              '(whole file, any number of dimensions, attributes, variables, cells: on the boolean domain save+open is the identity on dimensions incl. '
              'unlimited flag, attributes, dtypes, dimension tuples, cells and masks), C07_cells_partial; about stage 1 alone (impl_convert, compared with the raw stored cells, no assumption): C07_written_cells, C07_dimension_request, C07_masked_any_fill (full: masked cells are '
              'written with the declared _FillValue whatever missing_value / fill_value are), C07_fill_precedence, C07_attrs_kept; refuted: '
              'C07_unlimited_unused_refuted, C07_default_fill_refuted = known findings; an unmasked cell equal to the DECLARED fill value is outside '
              'the domain (in_quant). Tie H: real save + pncopen over four flavours x compression, field by field, bit patterns.')
LEVEL_NOTE = ('Partial by nature: netCDF-C / HDF5 / netCDF4-python are an assumed oracle (identity on representable images, _FillValue / missing_value masking, '
              'written length of unlimited dimensions); Coq kernel + vm_compute; the harness.')
TECHNIQUE = 'Coq proof (induction over dimensions / attributes / variables / cells) + vm_compute refutation witnesses + differential correspondence against netCDF4'
