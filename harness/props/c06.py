"""C06 — file arithmetic (f1 op f2 -> pncbo), eval() and mask() follow masked-array semantics."""
import math
from fractions import Fraction
from harness import common as C

ID = 'C06'
N = {'quick': 3000, 'thorough': 30000}
SEARCH_N = {'quick': 3000, 'thorough': 20000}
SHARD = 200
RULE = ('three streams. bin (55%): two conforming files (1-3 dims, <= 12 cells, 1-3 data variables of dtype f8/f4/i8/i4, plain or '
        'masked-typed with 0..all cells masked, optional coordinate variables, sometimes a variable missing on the right), every '
        'operator + - * / // ** % < <= > >= == !=, operands drawn from small integers/quarters, zeros, +-inf, nan and (for + - *) '
        '+-1e308. mask (30%): every subset of {where (own shape / with dims= as tuple or list / mis-shaped), greater, greater_equal, '
        'less, less_equal, values, equal, invalid}, the condition also as a variable carrying .dimensions and through the mask= alias, thresholds at and near data values (incl. 1e-6 / 1e-4 relative offsets for values=), '
        'masked and unmasked int/float variables incl. inf/nan, coordinate variables with coords=False/True. eval (15%): 1-3 assignment '
        'statements with random expression trees (names, constants, unary minus, + - * /, np.ma.masked_less/greater calls, depth <= 3) over plain / masked-typed int and '
        'float arrays incl. zeros, inf, nan, re-assignment of existing variables, copyall True/False, optional coordinate variable: '
        'evaluated in Coq (Model/EvalExpr.v) and by the Python oracle; other forms (np.sqrt, comparisons, **, %, //, masked_less) '
        'Python oracle only. F: Coq model vs library '
        'cell by cell (exact); S: Coq spec and independent Python oracle. Non-trivial = a result cell differs from the left operand / a '
        'cell got masked / a variable was created.')
TRUSTED = ['numpy elementwise arithmetic on the raw data (r) is an input to the model, computed by the harness with numpy itself; '
           'the model decides mask placement',
           'numpy.ma.masked_greater/less/equal/values/invalid/where semantics are modelled (isclose rtol 1e-5 atol 1e-8 for floats)',
           'eval(): numpy / numpy.ma array arithmetic for + - * / and unary minus is modelled (IEEE extended reals with exact finite '
           'part, compared within 2^-40 relative); other expression forms: oracle = exec of the same statements on numpy arrays']
ASSUMPTIONS = ['eval: divisors are sums/differences of untouched file variables and constants (the exact model has no signed zero)', 'operands conform (same shape per variable); +-1e308 operands only with + - * (numpy.ma\'s divide domain |a|*tiny >= |b| '
               'is modelled as b == 0)', 'integer ** negative integer raises inside numpy for both library and oracle: such cases only '
               'check that the library raises as numpy does']
OPS = ['+', '-', '*', '/', '//', '**', '%', '<', '<=', '>', '>=', '==', '!=']
CLS = {'/': 1, '//': 1, '%': 1, '**': 2}
DIMS = ['t', 'y', 'x']


# ----------------------------------------------------------------------------- values
def _enc(x):
    x = float(x)
    if math.isnan(x):
        return 'nan'
    if math.isinf(x):
        return 'inf' if x > 0 else '-inf'
    return x.hex()


def _dec(s):
    if s in ('nan', 'inf', '-inf'):
        return float(s)
    return float.fromhex(s)


def _val(rng, dtype, op):
    r = rng.random()
    if dtype[0] == 'i':
        if r < 0.3:
            return 0
        return rng.randint(-4, 6)
    if r < 0.2:
        return 0.0
    if r < 0.27:
        return rng.choice([float('inf'), float('-inf'), float('nan')])
    if r < 0.32 and op in ('+', '-', '*'):
        return rng.choice([1e308, -1e308])
    return rng.randint(-20, 24) / 4.0


def _gen_vars(rng, dims, op, nvars, pmasked):
    dl = dict(dims)
    names = [d for d, _ in dims]
    out = []
    for i in range(nvars):
        for _ in range(20):
            vd = rng.sample(names, rng.randint(1, len(names)))
            vd.sort(key=names.index)
            size = 1
            for d in vd:
                size *= dl[d]
            if size <= 12:
                break
        else:
            vd, size = [names[0]], dl[names[0]]
        dtype = rng.choice(['f8', 'f8', 'f4', 'i8', 'i4'])
        data = [_enc(_val(rng, dtype, op)) for _ in range(size)]
        mask = None
        if rng.random() < pmasked:
            p = rng.choice([0.0, 0.0, 0.2, 0.5, 1.0])
            mask = [1 if rng.random() < p else 0 for _ in range(size)]
        out.append(dict(name='ABC'[i], dtype=dtype, dims=vd, data=data, mask=mask))
    return out


def _gen_bin(rng, tier):
    op = rng.choice(OPS)
    nd = rng.randint(1, 3)
    dims = [[d, rng.randint(1, 4)] for d in DIMS[-nd:]]
    v1 = _gen_vars(rng, dims, op, rng.randint(1, 3), 0.45)
    v2 = []
    for v in v1:
        w = dict(v)
        w['data'] = [_enc(_val(rng, v['dtype'], op)) for _ in v['data']]
        if rng.random() < 0.2:
            w['dtype'] = rng.choice(['f8', 'i8'])
            w['data'] = [_enc(_val(rng, w['dtype'], op)) for _ in v['data']]
        w['mask'] = None
        if rng.random() < 0.35:
            p = rng.choice([0.0, 0.2, 0.5])
            w['mask'] = [1 if rng.random() < p else 0 for _ in v['data']]
        v2.append(w)
    coords = []
    for d, n in dims:
        if rng.random() < 0.4:
            c1 = dict(name=d, dtype='f8', dims=[d], data=[_enc(j * 1.5) for j in range(n)], mask=None)
            c2 = dict(c1, data=[_enc(100 + j) for j in range(n)])
            v1.append(c1)
            v2.append(c2)
            if rng.random() < 0.85:
                coords.append(d)
    if rng.random() < 0.1 and len(v2) > 1:
        v2.pop(rng.randrange(len(v2)))
    if rng.random() < 0.1:
        coords.append('ghost')
    k = 'bin' + op
    if any(v['mask'] is not None for v in v1 + v2):
        k += '-ma'
    return dict(kind=k, what='bin', op=op, dims=dims, vars1=v1, vars2=v2, coords=coords)


def _gen_mask(rng, tier):
    nd = rng.randint(1, 3)
    dims = [[d, rng.randint(1, 4)] for d in DIMS[-nd:]]
    vs = _gen_vars(rng, dims, '/', rng.randint(1, 3), 0.4)
    for v in vs:
        if v['dtype'] == 'f4':
            v['dtype'] = 'f8'
    coords = []
    for d, n in dims:
        if rng.random() < 0.35:
            vs.append(dict(name=d, dtype='f8', dims=[d], data=[_enc(j * 1.5) for j in range(n)], mask=None))
            coords.append(d)
    dl = dict(dims)
    pool = [_dec(x) for v in vs for x in v['data'] if x not in ('nan', 'inf', '-inf')] or [1.0]
    preds = {}
    for key in ['greater', 'greater_equal', 'less', 'less_equal', 'values', 'equal']:
        if rng.random() < 0.3:
            t = rng.choice(pool) + rng.choice([0, 0, 0.25, -0.25, 1])
            preds[key] = _enc(t)
    if 'values' in preds and rng.random() < 0.6:
        # put a float cell at a relative distance inside / outside isclose's tolerance
        t = _dec(preds['values'])
        for v in vs:
            if v['dtype'] == 'f8' and rng.random() < 0.7:
                j = rng.randrange(len(v['data']))
                v['data'][j] = _enc(t * (1 + rng.choice([1e-6, -1e-6, 1e-4, -1e-4])) + rng.choice([0, 5e-9, 2e-8]))
    invalid = rng.random() < 0.3
    where = None
    dims_arg = None
    r = rng.random()
    if r < 0.55:
        tv = rng.choice(vs)
        shape = [dl[d] for d in tv['dims']]
        n = 1
        for s in shape:
            n *= s
        q = rng.random()
        if q < 0.5:
            pass
        elif q < 0.7:
            dims_arg = dict(dims=list(tv['dims']), tuple=True)
        elif q < 0.88:
            dims_arg = dict(dims=list(tv['dims']), tuple=False)
        else:
            dims_arg = dict(dims=list(tv['dims']), tuple=True)
            shape = shape[:-1] + [shape[-1] + 1]
            n = 1
            for s in shape:
                n *= s
        where = dict(shape=shape, bits=[1 if rng.random() < 0.4 else 0 for _ in range(n)])
        if dims_arg is None and rng.random() < 0.35:
            # the condition is itself a variable: mask() takes maskdims from where.dimensions
            where['vardims'] = list(tv['dims'])
        if rng.random() < 0.3:
            where['alias'] = True             # passed as mask= (alias of where=)
    k = 'mask' + ''.join(sorted(x[0] + x[-1] for x in preds)) + ('-inv' if invalid else '')
    if where:
        k = 'mask-where' + ('' if dims_arg is None else ('-tuple' if dims_arg['tuple'] else '-list'))
        k += '-var' if where.get('vardims') else ''
        k += '-alias' if where.get('alias') else ''
    return dict(kind=k, what='mask', dims=dims, vars=vs, coords=coords, with_coords=rng.random() < 0.25,
                where=where, dims_arg=dims_arg, preds=preds, invalid=invalid)


EXPRS = ['C = np.ma.masked_less(A, 0) + B', 'C = np.ma.masked_greater(B, 1) * A', 'C = np.ma.masked_less(A, 0)', 'C = A + B', 'C = A * 2 - B', 'C = A / B', 'C = np.sqrt(A)', 'C = A > B', 'C = A + 1; D = B * C', 'A = A * 2',
         'C = np.ma.masked_less(A, 0) + B', 'C = A ** 2 % 3', 'C = -A // 2']


CONSTS = ['1', '2', '4', '1/2', '0', '-1', '3']
EOPS = ['+', '-', '*', '/']


def _gen_divisor(rng, clean):
    """divisors are built from untouched file variables and constants with + and - only: their zeros are
    +0.0 (the exact model has no signed zero; -0.0 only arises from products and negation)"""
    if not clean or rng.random() < 0.2:
        return ['c', rng.choice(CONSTS)]
    a = ['v', rng.choice(clean)]
    r = rng.random()
    if r < 0.5:
        return a
    b = ['v', rng.choice(clean)] if rng.random() < 0.6 else ['c', rng.choice(CONSTS)]
    return [rng.choice(['+', '-']), a, b]


def _gen_ast(rng, names, depth, clean=()):
    """expression tree that contains at least one variable; constants only beside a variable subtree"""
    if depth == 0 or rng.random() < 0.25:
        return ['v', rng.choice(names)]
    r = rng.random()
    if r < 0.12:
        return ['neg', _gen_ast(rng, names, depth - 1, clean)]
    if r < 0.30:
        # numpy.ma call inside the expression: the value is a plain numpy masked array, not a file variable
        return [rng.choice(['mlt', 'mgt']), _gen_ast(rng, names, depth - 1, clean), rng.choice(['0', '1', '-1', '1/2', '2'])]
    op = rng.choice(EOPS)
    a = _gen_ast(rng, names, depth - 1, clean)
    if op == '/':
        return [op, a, _gen_divisor(rng, list(clean))]
    b = ['c', rng.choice(CONSTS)] if rng.random() < 0.3 else _gen_ast(rng, names, depth - 1, clean)
    if rng.random() < 0.5:
        a, b = b, a
    return [op, a, b]


def _ast_str(t):
    if t[0] == 'v':
        return t[1]
    if t[0] == 'c':
        fr = Fraction(t[1])
        return '(%s)' % (repr(float(fr)) if fr.denominator != 1 else str(fr.numerator))
    if t[0] == 'neg':
        return '(-%s)' % _ast_str(t[1])
    if t[0] in ('mlt', 'mgt'):
        return 'np.ma.masked_%s(%s, %s)' % ('less' if t[0] == 'mlt' else 'greater', _ast_str(t[1]), _ast_str(['c', t[2]]))
    return '(%s %s %s)' % (_ast_str(t[1]), t[0], _ast_str(t[2]))


def _gen_eval(rng, tier):
    n = rng.randint(1, 4)
    dims = [['x', n]]
    vs = []
    coq_form = rng.random() < 0.75 or tier == 'search'
    for name in 'AB':
        dtype = rng.choice(['f8', 'i8'] if coq_form else ['f8', 'i8', 'f4'])
        mask = [1 if rng.random() < 0.3 else 0 for _ in range(n)] if rng.random() < 0.45 else None
        vs.append(dict(name=name, dtype=dtype, dims=['x'], data=[_enc(_val(rng, dtype, '/')) for _ in range(n)], mask=mask))
    coords = []
    if rng.random() < 0.4:
        vs.append(dict(name='x', dtype='f8', dims=['x'], data=[_enc(j * 1.5) for j in range(n)], mask=None))
        coords = ['x']
    copyall = rng.random() < 0.4
    if not coq_form:
        return dict(kind='eval-other', what='eval', dims=dims, vars=vs, coords=coords, copyall=copyall,
                    expr=rng.choice(EXPRS), stmts=None)
    names = ['A', 'B']
    clean = ['A', 'B']
    stmts = []
    for _ in range(rng.choice([1, 1, 2, 3])):
        tgt = rng.choice(['C', 'D', 'C', 'D', 'A', 'B'])
        stmts.append([tgt, _gen_ast(rng, names, rng.choice([1, 2, 2, 3]), clean)])
        if tgt not in names:
            names = names + [tgt]
        clean = [c for c in clean if c != tgt]
    expr = '; '.join('%s = %s' % (t, _ast_str(a)) for t, a in stmts)
    k = 'eval-%d' % len(stmts) + ('-ma' if any(v['mask'] is not None for v in vs) else '') + ('-copyall' if copyall else '')
    return dict(kind=k, what='eval', dims=dims, vars=vs, coords=coords, copyall=copyall, expr=expr, stmts=stmts)


def gen(rng, n, tier):
    out = []
    for _ in range(n):
        r = rng.random()
        if r < 0.55 or (tier == 'search' and r < 0.65):
            out.append(_gen_bin(rng, tier))
        elif r < 0.85 or tier == 'search':
            out.append(_gen_mask(rng, tier))
        else:
            out.append(_gen_eval(rng, tier))
    return out


# ----------------------------------------------------------------------------- library
def _arr(v, dl):
    import numpy as np
    shape = [dl[d] for d in v['dims']]
    a = np.array([_dec(x) for x in v['data']], dtype='f8').reshape(shape).astype(v['dtype'])
    if v['mask'] is not None:
        a = np.ma.masked_array(a, mask=np.array(v['mask'], dtype=bool).reshape(shape))
    return a


def _mkfile(dims, vs):
    from PseudoNetCDF import PseudoNetCDFFile
    f = PseudoNetCDFFile()
    dl = dict(dims)
    for d, n in dims:
        f.createDimension(d, n)
    for v in vs:
        f.createVariable(v['name'], v['dtype'], tuple(v['dims']), values=_arr(v, dl))
    return f


def _cells(a):
    import numpy as np
    mk = np.ma.getmaskarray(a).ravel().tolist()
    d = np.ma.getdata(a)
    isint = d.dtype.kind in 'iub'
    return [None if m_ else (int(x) if isint else _enc(x)) for x, m_ in zip(d.ravel().tolist(), mk)]


def _outvars(f):
    return [dict(name=k, dtype=v.dtype.str[1:], shape=list(v.shape), cells=_cells(v[...])) for k, v in f.variables.items()]


def _binop(a, b, op):
    return eval('a %s b' % op, {}, dict(a=a, b=b))


def impl(case):
    import numpy as np
    with np.errstate(all='ignore'):
        if case['what'] == 'bin':
            f1 = _mkfile(case['dims'], case['vars1'])
            f2 = _mkfile(case['dims'], case['vars2'])
            f1.setCoords(case['coords'])
            out = _binop(f1, f2, case['op'])
            return dict(vars=_outvars(out))
        if case['what'] == 'mask':
            f = _mkfile(case['dims'], case['vars'])
            f.setCoords(case['coords'])
            kw = {k: _dec(v) for k, v in case['preds'].items()}
            if case['invalid']:
                kw['invalid'] = True
            if case['where'] is not None:
                w = np.array(case['where']['bits'], dtype=bool).reshape(case['where']['shape'])
                if case['where'].get('vardims'):
                    from PseudoNetCDF.core._variables import PseudoNetCDFVariable
                    w = PseudoNetCDFVariable.from_array('cond', w, dims=tuple(case['where']['vardims']))
                kw['mask' if case['where'].get('alias') else 'where'] = w
            if case['dims_arg'] is not None:
                kw['dims'] = tuple(case['dims_arg']['dims']) if case['dims_arg']['tuple'] else list(case['dims_arg']['dims'])
            out = f.mask(coords=case['with_coords'], **kw)
            return dict(vars=_outvars(out))
        f = _mkfile(case['dims'], case['vars'])
        f.setCoords(case.get('coords', []))
        out = f.eval(case['expr'], copyall=case.get('copyall', False))
        return dict(vars=_outvars(out))


# ----------------------------------------------------------------------------- Coq terms
def _vid(name):
    return DIMS.index(name) if name in DIMS else (10 + 'ABCD'.index(name) if name in 'ABCD' else 99)


def _rv(x):
    """x: python float / int / numpy scalar"""
    x = float(x)
    if math.isnan(x):
        return 'NaN'
    if math.isinf(x):
        return 'PInf' if x > 0 else 'NInf'
    fr = Fraction(x)
    return '(F_ %s %d)' % (C.zc(fr.numerator), fr.denominator)


def _ocell(c):
    if c is None:
        return 'None'
    if isinstance(c, (int, bool)):
        return '(Some %s)' % _rv(int(c))
    return '(Some %s)' % _rv(_dec(c))


def _obs_term(obs, names, raise_kind=None):
    if 'raises' in obs:
        return '(ORaise %d%%nat)' % (1 if obs['raises'] == 'IndexError' else 0)
    by = {v['name']: v for v in obs['vars']}
    if [v['name'] for v in obs['vars']] != names:
        return None
    return '(OVars [%s])' % '; '.join('[%s]' % '; '.join(_ocell(c) for c in by[n]['cells']) for n in names)


def _bin_cells(case):
    """per variable of file 1: (bma, left cells, list of (m1, m2, b0, r)) — r via numpy on the raw data"""
    import numpy as np
    dl = dict(case['dims'])
    by2 = {v['name']: v for v in case['vars2']}
    res = []
    with np.errstate(all='ignore'):
        for v in case['vars1']:
            a = _arr(v, dl)
            ent = dict(name=v['name'], left=_cells(a), pair=None, bma=False)
            if v['name'] in by2:
                b = _arr(by2[v['name']], dl)
                ra, rb = np.ma.getdata(a), np.ma.getdata(b)
                r = np.asarray(_binop(np.array(ra), np.array(rb), case['op']))
                bma = isinstance(a, np.ma.MaskedArray) or isinstance(b, np.ma.MaskedArray)
                ent['bma'] = bma
                ent['pair'] = list(zip(np.ma.getmaskarray(a).ravel().tolist(), np.ma.getmaskarray(b).ravel().tolist(),
                                       (rb == 0).ravel().tolist(), r.ravel().tolist()))
            res.append(ent)
    return res


def _q(s):
    fr = Fraction(_dec(s))
    return '(Qmake %s %d)' % (C.zc(fr.numerator), fr.denominator)


def _ast_term(t):
    if t[0] == 'v':
        return '(EVar %d%%nat)' % _vid(t[1])
    if t[0] == 'c':
        fr = Fraction(t[1])
        return '(EConst (Qmake %s %d))' % (C.zc(fr.numerator), fr.denominator)
    if t[0] == 'neg':
        return '(ENeg %s)' % _ast_term(t[1])
    if t[0] in ('mlt', 'mgt'):
        fr = Fraction(t[2])
        return '(EMaskCmp %s %s (Qmake %s %d))' % (C.cbool(t[0] == 'mlt'), _ast_term(t[1]), C.zc(fr.numerator), fr.denominator)
    return '(EBin %s %s %s)' % ({'+': 'OAdd', '-': 'OSub', '*': 'OMul', '/': 'ODiv'}[t[0]], _ast_term(t[1]), _ast_term(t[2]))


def _eval_term(case, obs):
    if not case.get('stmts'):
        return None
    vs = []
    for v in case['vars']:
        cells = '; '.join('(MC %s %s)' % (_rv(_dec(x)), C.cbool(v['mask'] is not None and v['mask'][i])) for i, x in enumerate(v['data']))
        vs.append('(%d%%nat, EA %s [%s])' % (_vid(v['name']), 'KPncMa' if v['mask'] is not None else 'KPlain', cells))
    if 'raises' in obs:
        o = 'None'
    else:
        o = '(Some [%s])' % '; '.join('(%d%%nat, [%s])' % (_vid(v['name']), '; '.join(_ocell(c) for c in v['cells'])) for v in obs['vars'])
    return '(CEval (EF [%s] %s) %s [%s] %s)' % (
        '; '.join(vs), C.natlist([_vid(c) for c in case.get('coords', [])]), C.cbool(case.get('copyall', False)),
        '; '.join('(%d%%nat, %s)' % (_vid(t), _ast_term(a)) for t, a in case['stmts']), o)


def coq_term(case, obs):
    if case['what'] == 'eval':
        return _eval_term(case, obs)
    if case['what'] == 'bin':
        if 'raises' in obs:
            return None
        try:
            ents = _bin_cells(case)
        except Exception:
            return None
        o = _obs_term(obs, [v['name'] for v in case['vars1']])
        if o is None:
            return None
        vs = []
        for e in ents:
            pair = 'None' if e['pair'] is None else '(Some [%s])' % '; '.join(
                '(BC %s %s %s %s)' % (C.cbool(a), C.cbool(b), C.cbool(c), _rv(r)) for a, b, c, r in e['pair'])
            vs.append('(BV %d%%nat %s [%s] %s)' % (_vid(e['name']), C.cbool(e['bma']), '; '.join(_ocell(c) for c in e['left']), pair))
        return '(CBin %d%%nat %s [%s] %s)' % (CLS.get(case['op'], 0), C.natlist([_vid(c) for c in case['coords']]), '; '.join(vs), o)
    # mask
    if 'raises' in obs and obs['raises'] not in ('IndexError',):
        return None
    o = _obs_term(obs, [v['name'] for v in case['vars']])
    if o is None:
        return None
    dl = dict(case['dims'])
    p = case['preds']
    pt = '(Preds %s %s %s %s %s %s %s)' % tuple(
        [C.copt(p.get(k), _q) for k in ['greater', 'greater_equal', 'less', 'less_equal', 'values', 'equal']] + [C.cbool(case['invalid'])])
    if case['where'] is None:
        w = 'None'
    else:
        da = case['dims_arg'] or (dict(dims=case['where']['vardims']) if case['where'].get('vardims') else None)
        w = '(Some (WA %s [%s] %s))' % (C.natlist(case['where']['shape']), '; '.join(C.cbool(b) for b in case['where']['bits']),
                                        'None' if da is None else '(Some %s)' % C.natlist([_vid(d) for d in da['dims']]))
    vs = []
    for v in case['vars']:
        cells = '; '.join('(MC %s %s)' % (_rv(_dec(x)), C.cbool(v['mask'] is not None and v['mask'][i])) for i, x in enumerate(v['data']))
        vs.append('(MV %d%%nat %s %s %s [%s])' % (_vid(v['name']), C.cbool(v['dtype'][0] == 'f'), C.natlist([_vid(d) for d in v['dims']]),
                                                 C.natlist([dl[d] for d in v['dims']]), cells))
    return '(CMask %s %s %s %s [%s] %s)' % (C.natlist([_vid(c) for c in case['coords']]), C.cbool(case['with_coords']), w, pt, '; '.join(vs), o)


# ----------------------------------------------------------------------------- independent oracle
def _same_cell(exp, got):
    if exp is None or got is None:
        return exp is None and got is None
    a = float(exp) if isinstance(exp, (int, bool)) else _dec(exp)
    b = float(got) if isinstance(got, (int, bool)) else _dec(got)
    return a == b or (math.isnan(a) and math.isnan(b))


def _cmp_vars(expected, obs, why, label):
    by = {v['name']: v for v in obs['vars']}
    for name, cells in expected:
        if name not in by:
            why.append('%s: variable %s missing' % (label, name))
        elif len(cells) != len(by[name]['cells']) or not all(_same_cell(e, g) for e, g in zip(cells, by[name]['cells'])):
            why.append('%s: %s = %s, expected %s' % (label, name, by[name]['cells'], cells))


def py_check(case, obs):
    import numpy as np
    why = []
    region = 0
    with np.errstate(all='ignore'):
        if case['what'] == 'bin':
            try:
                ents = _bin_cells(case)
            except Exception as e:   # numpy itself refuses (integer ** negative integer)
                ok = 'raises' in obs
                return dict(s_ok=ok, region=0, why='' if ok else 'numpy raises %s but the library returned' % type(e).__name__)
            cls = CLS.get(case['op'], 0)
            exp = []
            for e in ents:
                if e['name'] in case['coords'] or e['pair'] is None:
                    exp.append((e['name'], e['left']))
                    continue
                cells = []
                for m1, m2, b0, r in e['pair']:
                    nf = not math.isfinite(float(r))
                    # masked-array semantics: numpy.ma also masks a zero divisor of / // % (matters for integers only)
                    cells.append(None if (m1 or m2 or nf or (e['bma'] and cls == 1 and b0)) else (_enc(r) if isinstance(r, float) else int(r)))
                exp.append((e['name'], cells))
            if 'raises' in obs:
                return dict(s_ok=False, f_ok=False, region=region, why='library raised %s: %s' % (obs['raises'], obs.get('msg')))
            _cmp_vars(exp, obs, why, 'f1 %s f2' % case['op'])
            if [v['name'] for v in obs['vars']] != [v['name'] for v in case['vars1']]:
                why.append('variable set/order differs from the left operand')
        elif case['what'] == 'mask':
            dl = dict(case['dims'])
            p = {k: _dec(v) for k, v in case['preds'].items()}
            w, da = case['where'], case['dims_arg']
            if w is not None and da is None and w.get('vardims'):
                da = dict(dims=w['vardims'])
            exp = []
            expect_index_error = False
            for v in case['vars']:
                a = _arr(v, dl)
                cells = _cells(a)
                if v['name'] in case['coords'] and not case['with_coords']:
                    exp.append((v['name'], cells))
                    continue
                shape = [dl[d] for d in v['dims']]
                bits = None
                if w is not None:
                    applies = (list(da['dims']) == list(v['dims'])) if da is not None else (w['shape'] == shape)
                    if applies and w['shape'] != shape:
                        expect_index_error = True
                    elif applies:
                        bits = w['bits']
                raw = np.ma.getdata(a).ravel().tolist()
                out = []
                for i, (c, x) in enumerate(zip(cells, raw)):
                    x = float(x)
                    hit = c is None or (bits is not None and bits[i])
                    hit = hit or ('greater' in p and x > p['greater']) or ('greater_equal' in p and x >= p['greater_equal'])
                    hit = hit or ('less' in p and x < p['less']) or ('less_equal' in p and x <= p['less_equal'])
                    hit = hit or ('equal' in p and x == p['equal'])
                    if 'values' in p:
                        if v['dtype'][0] == 'f':
                            hit = hit or (math.isfinite(x) and abs(x - p['values']) <= 1e-8 + 1e-5 * abs(p['values']))
                        else:
                            hit = hit or x == p['values']
                    hit = hit or (case['invalid'] and not math.isfinite(x))
                    out.append(None if hit else c)
                exp.append((v['name'], out))
            if 'raises' in obs:
                ok = expect_index_error and obs['raises'] == 'IndexError'
                return dict(s_ok=ok, f_ok=ok or obs['raises'] == 'IndexError', region=region,
                            why='' if ok else 'mask() raised %s: %s' % (obs['raises'], obs.get('msg')))
            if expect_index_error:
                why.append('mis-shaped where accepted')
            else:
                _cmp_vars(exp, obs, why, 'mask')
        else:
            if case.get('stmts') is None and 'np.ma.' in case['expr'] and not case['expr'].startswith('C = np.ma.'):
                region = 1
            if 'raises' in obs:
                return dict(s_ok=False, f_ok=False, region=0, why='eval raised %s: %s' % (obs['raises'], obs.get('msg')))
            dl = dict(case['dims'])
            env = {v['name']: _arr(v, dl) for v in case['vars']}
            env['np'] = np
            before = set(env)
            exec(compile(case['expr'], 'oracle', 'exec'), {}, env)
            import ast
            assigned = [t.id for st in ast.parse(case['expr']).body if isinstance(st, ast.Assign) for t in st.targets]
            exp = [(k, _cells(np.ma.masked_array(env[k]) if isinstance(env[k], np.ma.MaskedArray) else np.asarray(env[k]))) for k in assigned]
            _cmp_vars(exp, obs, why, 'eval(%r)' % case['expr'])
            keep = [v for v in case['vars'] if v['name'] not in assigned and
                    (case.get('copyall') or v['name'] in case.get('coords', []))]
            _cmp_vars([(v['name'], _cells(_arr(v, dl))) for v in keep], obs, why, 'eval untouched')
            extra = set(v['name'] for v in obs['vars']) - set(assigned) - set(v['name'] for v in case['vars'])
            if extra:
                why.append('unexpected variables %s' % sorted(extra))
    return dict(s_ok=not why, region=region, why='; '.join(why)[:600])


def nontrivial(case, obs):
    if 'raises' in obs:
        return False
    if case['what'] == 'eval':
        return True
    import numpy as np
    dl = dict(case['dims'])
    src = case['vars1'] if case['what'] == 'bin' else case['vars']
    by = {v['name']: v for v in obs['vars']}
    for v in src:
        if v['name'] in by and by[v['name']]['cells'] != _cells(_arr(v, dl)):
            return True
    return False


def shrink(case):
    if case['what'] == 'eval':
        return
    key = 'vars1' if case['what'] == 'bin' else 'vars'
    vs = case[key]
    if len(vs) > 1:
        for j in range(len(vs)):
            c = dict(case)
            c[key] = vs[:j] + vs[j + 1:]
            if case['what'] == 'bin':
                c['vars2'] = [v for v in case['vars2'] if v['name'] != vs[j]['name']]
            yield c
    if case['what'] == 'mask':
        for k in list(case['preds']):
            yield dict(case, preds={a: b for a, b in case['preds'].items() if a != k})
        if case['invalid']:
            yield dict(case, invalid=False)
        if case['where'] is not None:
            yield dict(case, where=None, dims_arg=None)


LEVEL_TEXT = ('Theorems (Props/C06.v, all closed under the global context) over an elementwise Gallina model of the repaired pncbo and '
              'mask(): `f1 op f2` equals the specification (operand masks united, non-finite results and numpy.ma zero divisors masked, '
              'coordinate and right-missing variables copied from the left) for every operator, shape, variable list, masked or plain '
              'operands (C06_binop_correct, full strength; C06_masked_operand_stays_masked, C06_coords_passthrough, '
              'C06_missing_right_copied, C06_never_exposes_nonfinite, C06_spec_cell_exact); mask(): exact masking, untouched unmasked '
              'values, monotone masks for all predicate combinations, integer and floating variables (C06_mask_exact_no_where, '
              'C06_mask_exact_where, C06_mask_keeps_unmasked, C06_mask_monotone, C06_mask_skips_coords) and whole-call equality for every '
              'input incl. dims= as a list (C06_mask_correct, full strength). For pncbo and mask() no _partial/_refuted theorem is left: the four defects '
              'found earlier (masked operand unmasked, x/0 not masked on masked-typed variables, dims list ignored, integer values= unmasking) are '
              'repaired (known_findings fixed:) and their inputs are corpus cases. eval(): assignment statements over names, constants, unary '
              'minus and + - * / create variables equal to the sequential cellwise evaluation on the file\'s arrays, other variables are '
              'identical copies of the base file (C06_eval_creates_expr, C06_eval_single, C06_eval_copyall_untouched, '
              'C06_eval_binop_cellwise, C06_eval_cell_mask; Model/EvalExpr.v, also np.ma.masked_less/greater calls); the library evaluates by '
              'masked-array semantics whenever the statements contain no np.ma.* call (C06_eval_masked_semantics_partial); with one, a plain '
              'variable on the left of the bare numpy masked array drops the mask (C06_eval_plain_left_drops_mask_refuted = known finding, '
              'numpy __array_priority__ dispatch); other expression forms: Python oracle only. '
              'Tie T: operator table, pncbo statements and the mask() chain regenerated into Gen/C06Src.v every run (C06_source_is_model). '
              'Tie H: library vs model on every generated bin/mask case and on the modelled eval cases.')
LEVEL_NOTE = ('Trusted: Coq kernel + vm_compute; the harness; numpy elementwise results are model inputs (the model decides mask placement); '
              'numpy.ma.masked_* semantics as modelled. eval(): IEEE extended-real arithmetic with exact finite part, no signed zero (divisors '
              'are generated so that their zeros are +0.0); the template variable\'s dims/attrs on created variables are not modelled.')
TECHNIQUE = 'Coq proof (elementwise refinement on a boolean domain, list induction) + vm_compute refutation witnesses + differential correspondence'


# ----------------------------------------------------------------------------- tie T
def translate():
    """Re-read from the source, on every run, what Model/Arith.v transcribes and write it as coq/Gen/C06Src.v:
    the operator table of PseudoNetCDFFile (dunder method -> symbol handed to pncbo, operand order), the statements of
    pncbo, and the numpy.ma chain of mask() (order, function, arguments).  Props/C06.v proves src_* = model_*; an edit of
    the source changes the term the kernel checks.  Unrecognised forms give a sentinel and a broken obligation."""
    import ast
    import os
    from harness import common as C
    out = []

    def ob(anchor, ok, detail=''):
        out.append(dict(anchor=anchor, ok=bool(ok), detail=detail))
    un = lambda n: ast.unparse(n).strip()
    ops, chain = [], []
    pn = dict(expr=False, view=False, nonfin=False, coord=False, missing=False, loop=False)
    ms = dict(tup=False, applies=False, skip=False, assign=False)
    try:
        t = ast.parse(open(os.path.join(C.SRC, 'PseudoNetCDF', 'core', '_files.py')).read())
        cls = [n for n in t.body if isinstance(n, ast.ClassDef) and n.name == 'PseudoNetCDFFile'][0]
        for f in cls.body:
            if not (isinstance(f, ast.FunctionDef) and f.name.startswith('__') and f.name.endswith('__')):
                continue
            calls = [n for n in ast.walk(f) if isinstance(n, ast.Call) and un(n.func) == 'pncbo']
            if not calls:
                continue
            kws = [dict((k.arg, k.value) for k in c.keywords) for c in calls]
            good = (len(calls) == 1 and isinstance(kws[0].get('op'), ast.Constant) and isinstance(kws[0]['op'].value, str)
                    and un(kws[0].get('ifile1', ast.Constant(0))) == 'self' and un(kws[0].get('ifile2', ast.Constant(0))) == 'lhs'
                    and un(kws[0].get('coordkeys', ast.Constant(0))) == 'self._operator_exclude_vars'
                    and [a.arg for a in f.args.args] == ['self', 'lhs'])
            ops.append((f.name, kws[0]['op'].value.strip() if good else '?'))
        ob('core/_files.py: operator methods call pncbo(op=<symbol>, ifile1=self, ifile2=lhs, coordkeys=self._operator_exclude_vars)',
           ops and all(o != '?' for _, o in ops), 'an operator method has another form: %s' % [n for n, o in ops if o == '?'])
        m = [f for f in cls.body if isinstance(f, ast.FunctionDef) and f.name == 'mask'][0]
        pre = [un(n) for n in ast.walk(m) if isinstance(n, ast.Assign)]
        ms['tup'] = 'maskdims = tuple(dims)' in pre
        loop = [n for n in m.body if isinstance(n, ast.For) and un(n.iter) == 'self.variables.items()'][0]
        for st in loop.body:
            if isinstance(st, ast.If) and un(st.test) == 'vk in coordkeys and (not coords)':
                ms['skip'] = [un(b) for b in st.body] == ['newvar[...] = vv[...]', 'continue'] and not st.orelse
            if isinstance(st, ast.Assign) and un(st) == 'newvar[...] = vals[...]':
                ms['assign'] = st is loop.body[-1]
            if not isinstance(st, ast.If) or st.orelse:
                if isinstance(st, ast.If) and st.orelse and 'verbose' not in un(st.test):
                    chain.append(('?', '?', un(st.test)))
                continue
            tst = un(st.test)
            body = [un(b) for b in st.body]
            if tst == 'where is not None':
                inner = st.body[0] if len(st.body) == 1 and isinstance(st.body[0], ast.If) else None
                if inner is not None and not inner.orelse:
                    ms['applies'] = un(inner.test) == 'maskdims == vv.dimensions or (maskdims is None and where.shape == vals.shape)'
                    ib = [un(b) for b in inner.body]
                    chain.append(('where', 'masked_where', 'where, vals') if ib == ['vals = np.ma.masked_where(where, vals)'] else ('where', '?', '; '.join(ib)))
                else:
                    chain.append(('where', '?', '; '.join(body)))
            elif tst == 'values is not None':
                okv = body == ['valmask = np.ma.getmaskarray(np.ma.masked_values(np.ma.getdata(vals), values))',
                               'vals = np.ma.masked_where(valmask, vals)']
                chain.append(('values', 'masked_values+masked_where', 'np.ma.getdata(vals), values') if okv else ('values', '?', '; '.join(body)))
            elif tst == 'invalid' or tst.endswith(' is not None'):
                kw = 'invalid' if tst == 'invalid' else tst[:-len(' is not None')]
                if 'verbose' in tst:
                    continue
                one = st.body[0] if len(st.body) == 1 else None
                if (isinstance(one, ast.Assign) and un(one.targets[0]) == 'vals' and isinstance(one.value, ast.Call)
                        and un(one.value.func).startswith('np.ma.')):
                    chain.append((kw, un(one.value.func)[len('np.ma.'):], ', '.join(un(a) for a in one.value.args)))
                else:
                    chain.append((kw, '?', '; '.join(body)))
        ob('core/_files.py mask(): the numpy.ma chain read off the variable loop', chain and all(f != '?' for _, f, _ in chain),
           'unrecognised step(s): %s' % [c for c in chain if c[1] == '?'])
        for k, v in ms.items():
            ob('core/_files.py mask(): statement `%s`' % dict(tup='maskdims = tuple(dims)', applies='where applicability test',
                                                               skip='coordinate variables copied and skipped', assign='newvar[...] = vals[...] last')[k], v, 'changed')
    except Exception as e:
        ob('core/_files.py: parse operator methods / mask()', False, str(e)[:300])
    try:
        t = ast.parse(open(os.path.join(C.SRC, 'PseudoNetCDF', 'core', '_functions.py')).read())
        f = [n for n in t.body if isinstance(n, ast.FunctionDef) and n.name == 'pncbo'][0]
        src = un(f)
        loop = [n for n in f.body if isinstance(n, ast.For)][0]
        pn['loop'] = un(loop.iter) == 'ifile1.variables.keys()' and un(loop.target) == 'k'
        top = loop.body[1] if len(loop.body) == 2 and isinstance(loop.body[1], ast.If) else None
        if top is not None:
            pn['coord'] = un(top.test) == 'k in coordkeys' and [un(b) for b in top.body] == ['tmpfile.copyVariable(in1var, key=k)']
            el = top.orelse[0] if len(top.orelse) == 1 and isinstance(top.orelse[0], ast.If) else None
            if el is not None:
                pn['missing'] = un(el.test) == 'k not in ifile2.variables.keys()' and un(el.body[-1]) == 'tmpfile.copyVariable(in1var, key=k)'
        pn['expr'] = "eval('in1var[...] %s in2var[...]' % op)" in src and 'in1var = ifile1.variables[k]' in src and 'in2var = ifile2.variables[k]' in src
        pn['view'] = "outval = eval('in1var[...] %s in2var[...]' % op).view(np.ma.MaskedArray)" in src
        pn['nonfin'] = 'outval = np.ma.masked_where(~np.isfinite(np.ma.getdata(outval)), outval)' in src
        for k, v in pn.items():
            ob('core/_functions.py pncbo: %s' % dict(expr='left operand, operator, right operand', view='.view(np.ma.MaskedArray)',
                                                     nonfin='masked_where(~isfinite(getdata))', coord='coordinate variables from ifile1',
                                                     missing='variables missing in ifile2 from ifile1', loop='loop over ifile1.variables')[k], v, 'changed')
    except Exception as e:
        ob('core/_functions.py: parse pncbo', False, str(e)[:300])
    cs = lambda s: '"' + s.replace('"', '""') + '"'
    b = lambda x: 'true' if x else 'false'
    text = ('(* GENERATED by harness/props/c06.py translate() from src/PseudoNetCDF/core/_files.py and core/_functions.py on every run'
            ' - do not edit. *)\nFrom PNC Require Import Base.Util Model.Arith.\nRequire Import String.\nLocal Open Scope string_scope.\n'
            'Definition src_ops : list (string * string) :=\n  [%s].\n'
            'Definition src_chain : list (string * (string * string)) :=\n  [%s].\n'
            'Definition src_pncbo : pncbo_src := PSrc %s %s %s %s %s %s.\n'
            'Definition src_mask : mask_src := MSrc %s %s %s %s.\n') % (
        ';\n   '.join('(%s, %s)' % (cs(n), cs(o)) for n, o in ops),
        ';\n   '.join('(%s, (%s, %s))' % (cs(k), cs(f), cs(a)) for k, f, a in chain),
        b(pn['expr']), b(pn['view']), b(pn['nonfin']), b(pn['coord']), b(pn['missing']), b(pn['loop']),
        b(ms['tup']), b(ms['applies']), b(ms['skip']), b(ms['assign']))
    path = os.path.join(C.COQ, 'Gen', 'C06Src.v')
    os.makedirs(os.path.dirname(path), exist_ok=True)
    if not os.path.exists(path) or open(path).read() != text:
        with open(path, 'w') as fh:
            fh.write(text)
    return out
