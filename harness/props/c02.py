"""C02 — PseudoNetCDFFile.sliceDimensions selects exactly the requested hyperslab (core/_files.py),
plus the string form core/_functions.slice_dim on the subset it can express."""
import itertools
from harness import common as C

ID = 'C02'
N = {'quick': 3000, 'thorough': 40000}
SEARCH_N = {'quick': 3000, 'thorough': 20000}
SHARD = 200
CASE_TIMEOUT = 20.0
RULE = ('files with 1..5 dimensions of length 1..4 (one may be unlimited), 1..4 variables of rank 0..5 over arbitrary dimension '
        'subsets/orders (int32/float32/float64, masked and unmasked, 1-D coordinate variables, attributes; masked variables carry their own '
        'fill_value / missing_value / _FillValue among 0, -999, -1, the numpy default fill, and some UNMASKED cells hold exactly that value), cells = '
        'distinct integers so that any permutation shows; selectors over any subset of dimensions in random keyword order: +/- ints, slices with None/+/-/oversized '
        'start/stop/step incl. empty and reversed, index lists with repeats and negative entries, 2..3 equal-length lists (zipped); '
        'targeted streams for int+list separated by a slice axis and zipped+int (the repaired defects); malformed stream (unknown dimension, out-of-range '
        'int/list element, step 0, unequal list lengths), empty zipped lists; string form slice_dim (as dim=slice(start,stop,stride)) and the '
        'IOAPI wrapper ioapi_base.sliceDimensions (4-d/2-d float32 variables over TSTEP,LAY,ROW,COL plus TFLAG rows as a (TSTEP,DATE-TIME) variable '
        'and getTimes(); files with 5..8 steps and TSTEP index lists of >= 3 entries that are irregular / unsorted / repeating / negative; non-empty '
        'selections incl. zipped ROW/COL; IOAPI attributes and the VAR axis are metadata, not compared). Every case is evaluated in Coq (model impl_slice_file and spec_slice_file, Corr/C02.v) AND by an independent numpy '
        'take/slice oracle in Python. '
        'Non-trivial = the call succeeded and at least one variable changed shape or cells.')
TRUSTED = ['numpy single-axis indexing, basic scalar/slice indexing, ma.expand_dims/ma.concatenate, broadcasting assignment and C-order reshape are '
           'MODELLED (Model/Slice.v take_axis/seq_take/concat_rec/assign), tied to numpy 2.5 only by the correspondence',
           'CPython slice.indices is modelled (Base/ArrFlat.v slice_indices), tied by the correspondence',
           'the independent Python oracle uses numpy.take per axis / explicit loops']
ASSUMPTIONS = ['files are well formed (variable shapes equal their dimension lengths; a variable named like a dimension is the 1-D '
               'coordinate variable of that dimension)',
               'attributes, unlimited flags, dtype and masked-ness are checked by the Python oracle only (they are copied, not computed)']
TECHNIQUE = 'Coq proof (induction over shapes/selectors, flat C-order arrays) + vm_compute refutation witnesses + differential correspondence'
LEVEL_TEXT = ('Theorems (Props/C02.v, all closed under the global context) about a Gallina model of sliceDimensions AS REPAIRED by '
              'fixes/C02-slice-orthogonal-per-axis.patch, C02-zip-keep-masks.patch, C02-zip-with-ints.patch, C02-zip-empty-lists.patch, over abstract cells (a mask is part of the '
              'cell): selector normalisation stays in range (C02_selectors_in_range, C02_slice_indices_in_range); the orthogonal specification has the '
              'stated size/rank and element-wise meaning (C02_spec_elements, C02_spec_single_cell, C02_spec_shape); unselected variables are identical '
              '(C02_unselected_variable_identical); broadcast-or-reshape assignment keeps cell order when sizes agree (C02_assignment_keeps_cell_order); '
              'FULL STRENGTH: the per-axis selection loop is the orthogonal selection for every rank/shape/selector arrangement (C02_per_axis_loop, '
              'C02_slice_var) and the zipped point loop is the pointwise selection for the first list at any axis, with int selectors, masked or not '
              '(C02_zip_var incl. empty lists, C02_zip_spec_size), and for every well-formed file and every keyword list the whole-file model equals the '
              'whole-file specification (C02_slice_file). No _refuted/_partial theorem remains. Tie H: whole-file model (impl_slice_file) vs library on every generated case incl. errors; the witnesses '
              'of the repaired defects run first from corpus/C02/.')
LEVEL_NOTE = ('Trusted: Coq kernel + vm_compute; harness; numpy/CPython indexing semantics as modelled. IOAPI wrapper (metadata fix-ups) and '
              'multi-dimensional index arrays (newdims with ndim>1) not modelled.')

DIMPOOL = ['t', 'z', 'y', 'x', 'w']


# ----------------------------------------------------------------------------- generation
def _gen_file(rng, ndims=None, maxcells=96):
    nd = ndims or rng.choice([1, 2, 2, 3, 3, 3, 4, 4, 5])
    names = DIMPOOL[:nd] if rng.random() < 0.5 else rng.sample(DIMPOOL, nd)
    while True:
        lens = [rng.choice([1, 2, 2, 3, 3, 4]) for _ in range(nd)]
        tot = 1
        for l in lens:
            tot *= l
        if tot <= maxcells:
            break
    unl = rng.randrange(nd) if rng.random() < 0.4 else -1
    dims = [[n, l, i == unl] for i, (n, l) in enumerate(zip(names, lens))]
    vs = []
    # main variable over all dimensions (file order or shuffled)
    order = list(names)
    if rng.random() < 0.35:
        rng.shuffle(order)
    vs.append(dict(name='A', dims=order))
    for k in range(rng.randint(0, 3)):
        r = rng.randint(0, nd)
        sub = rng.sample(names, r)
        if rng.random() < 0.6:
            sub = [n for n in names if n in sub]
        vs.append(dict(name='BCD'[k], dims=sub))
    for n in names:
        if rng.random() < 0.3:
            vs.append(dict(name=n, dims=[n]))     # coordinate variable
    lend = dict((n, l) for n, l, _ in dims)
    for v in vs:
        size = 1
        for n in v['dims']:
            size *= lend[n]
        v['masked'] = rng.random() < 0.4
        if v['masked']:
            v['mask'] = [1 if rng.random() < 0.25 else 0 for _ in range(size)]
        v['attrs'] = dict(units='u_' + v['name'], long_name=v['name'] + ' var') if rng.random() < 0.8 else {}
        if rng.random() < 0.45:
            v['dtype'] = rng.choice('ifd')
        if v['masked'] and rng.random() < 0.6:
            # unmasked cells that hold the variable's own fill value (incl. 0, -1 and the numpy default fill of the dtype)
            dt = v.get('dtype', 'i')
            v['fill'] = rng.choice([0, -999, -1, 999999] if dt == 'i' else [0, -999, -1, 1e20])
            v['fillkey'] = rng.choice(['fill_value', 'fill_value', 'missing_value', '_FillValue'])
            v['fillcells'] = sorted(rng.sample(range(size), min(size, rng.randint(1, 3))))
    return dims, vs


def _gen_int(rng, n, bad=False):
    if bad:
        return rng.choice([n, n + 1, -n - 1, -n - 3])
    return rng.randrange(-n, n)


def _gen_slice(rng, n):
    def bound():
        r = rng.random()
        if r < 0.3:
            return None
        if r < 0.8:
            return rng.randint(-n - 1, n + 1)
        return rng.choice([-n - 5, n + 5, 0, -1, n, -n])
    step = rng.choice([None, None, 1, 1, 2, 3, -1, -1, -2, -3, 5, -5])
    return [bound(), bound(), step]


def _gen_list(rng, n, k=None, bad=False):
    k = rng.choice([1, 2, 2, 3, 3, 4, 5]) if k is None else k
    l = [rng.randrange(-n, n) for _ in range(k)]
    if bad and l:
        l[rng.randrange(len(l))] = rng.choice([n, -n - 1, n + 2])
    return l


def _sel(rng, kind, n, k=None):
    if kind == 'i':
        return {'i': _gen_int(rng, n)}
    if kind == 's':
        return {'s': _gen_slice(rng, n)}
    return {'l': _gen_list(rng, n, k)}


def gen(rng, n, tier):
    out = []
    for _ in range(n):
        r = rng.random()
        if r < 0.05 and tier != 'search':
            out.append(_gen_strform(rng))
            continue
        if r < 0.12 and tier != 'search':
            out.append(_gen_ioapi(rng))
            continue
        dims, vs = _gen_file(rng, ndims=(rng.choice([3, 4, 5, 5]) if tier == 'search' and rng.random() < 0.6 else None))
        names = [d[0] for d in dims]
        lend = dict((d[0], d[1]) for d in dims)
        r = rng.random()
        if tier == 'search':
            r = rng.choice([0.3, 0.5, 0.62, 0.7, 0.8, 0.95])
        kws = []
        if r < 0.12:
            # malformed
            how = rng.choice(['unknown-dim', 'int-range', 'list-range', 'step0', 'unequal-lists', 'empty-lists'])
            sub = rng.sample(names, rng.randint(1, len(names)))
            for dn in sub:
                kws.append([dn, _sel(rng, rng.choice('iisssl') if how not in ('unequal-lists', 'empty-lists') else rng.choice('is'), lend[dn])])
            j = rng.randrange(len(kws))
            dn = kws[j][0]
            if how == 'unknown-dim':
                kws.insert(rng.randint(0, len(kws)), ['q', _sel(rng, rng.choice('isl'), 3)])
            elif how == 'int-range':
                kws[j][1] = {'i': _gen_int(rng, lend[dn], bad=True)}
            elif how == 'list-range':
                kws[j][1] = {'l': _gen_list(rng, lend[dn], bad=True)}
            elif how == 'step0':
                kws[j][1] = {'s': [rng.choice([None, 0, 1]), rng.choice([None, 2]), 0]}
            elif how in ('unequal-lists', 'empty-lists'):
                if len(names) < 2:
                    how = 'step0'
                    kws[j][1] = {'s': [None, None, 0]}
                else:
                    a, b = rng.sample(names, 2)
                    kws = [kw for kw in kws if kw[0] not in (a, b)]
                    if how == 'unequal-lists':
                        ka = rng.randint(1, 3)
                        kb = ka + rng.randint(1, 2)
                    else:
                        ka = kb = 0
                    kws.append([a, {'l': _gen_list(rng, lend[a], ka)}])
                    kws.append([b, {'l': _gen_list(rng, lend[b], kb)}])
                    rng.shuffle(kws)
            kind = ('zip-' if how == 'empty-lists' else 'malformed-') + how
        elif r < 0.40:
            sub = rng.sample(names, rng.randint(0, len(names)))
            for dn in sub:
                kws.append([dn, _sel(rng, rng.choice('iss'), lend[dn])])
            kind = 'basic'
        elif r < 0.60:
            sub = rng.sample(names, rng.randint(1, len(names)))
            for dn in sub:
                kws.append([dn, _sel(rng, rng.choice('iss'), lend[dn])])
            j = rng.randrange(len(kws))
            kws[j][1] = {'l': _gen_list(rng, lend[kws[j][0]])}
            kind = 'onelist' + ('+int' if any('i' in kw[1] for kw in kws) else '')
        elif r < 0.68 and len(names) >= 3:
            # targeted: int and list with an unselected or sliced axis between them on the main variable
            order = vs[0]['dims']
            i, j = sorted(rng.sample(range(len(order)), 2))
            if j == i + 1:
                if j + 1 < len(order):
                    j += 1
                else:
                    i -= 1
            a, b = order[i], order[j]
            if rng.random() < 0.5:
                a, b = b, a
            kws = [[a, {'i': _gen_int(rng, lend[a])}], [b, {'l': _gen_list(rng, lend[b])}]]
            for dn in names:
                if dn not in (a, b) and rng.random() < 0.3:
                    kws.append([dn, _sel(rng, 's', lend[dn])])
            rng.shuffle(kws)
            kind = 'onelist+int-split'
        else:
            if len(names) < 2:
                kws = [[names[0], _sel(rng, 'l', lend[names[0]])]]
                kind = 'onelist'
            else:
                nl = rng.choice([2, 2, 2, 3]) if len(names) >= 3 else 2
                ls = rng.sample(names, nl)
                k = rng.choice([1, 2, 2, 3, 3, 4])
                for dn in ls:
                    kws.append([dn, {'l': _gen_list(rng, lend[dn], k)}])
                pint = 0.15 if r < 0.85 else 0.7
                for dn in names:
                    if dn not in ls and rng.random() < 0.6:
                        kws.append([dn, _sel(rng, 'i' if rng.random() < pint else 's', lend[dn])])
                rng.shuffle(kws)
                kind = 'zip%d' % nl + ('+int' if any('i' in kw[1] for kw in kws) else '')
        out.append(dict(kind=kind, dims=dims, vars=vs, kws=kws))
    return out


def _nonempty_sel(rng, kind, n, k=None):
    while True:
        sl = _sel(rng, kind, n, k)
        if 's' not in sl or len(range(n)[slice(*sl['s'])]) > 0:
            return sl


def _gen_ioapi(rng):
    """cmaqfiles ioapi_base.sliceDimensions (wrapper around the core method): 4-d (TSTEP,LAY,ROW,COL) and 2-d (ROW,COL)
    float32 variables; non-empty selections only (the wrapper's metadata updates index the first selected element)"""
    names = ['TSTEP', 'LAY', 'ROW', 'COL']
    long_t = rng.random() < 0.5
    while True:
        lens = [rng.choice([1, 2, 2, 3, 3, 4]) for _ in names]
        if long_t:      # enough steps for irregular / unsorted / repeating index lists
            lens[0] = rng.randint(5, 8)
            lens[1:] = [rng.choice([1, 1, 2, 2, 3]) for _ in names[1:]]
        if lens[0] * lens[1] * lens[2] * lens[3] <= 72:
            break
    tattrs = dict(SDATE=rng.choice([2020365, 2019001, 2021364, 2000059]), STIME=rng.choice([0, 210000, 233000, 120000]),
                  TSTEP=rng.choice([10000, 13000, 3000, 240000, 60000]))
    dims = [[n, l, False] for n, l in zip(names, lens)]
    lend = dict(zip(names, lens))
    vs = [dict(name='O3', dims=list(names), masked=False)]
    if rng.random() < 0.5:
        vs.append(dict(name='NO2', dims=list(names), masked=False))
    if rng.random() < 0.4:
        vs.append(dict(name='HT', dims=['ROW', 'COL'], masked=False))
    r = rng.random()
    kws = []
    if long_t and r < 0.7:
        # TSTEP by an index list with >= 3 entries: irregular spacing, unsorted, repeats
        nt = lend['TSTEP']
        k = rng.randint(3, 5)
        how = rng.choice(['irregular', 'unsorted', 'repeats', 'random'])
        if how == 'irregular':
            k = min(k, nt - 1)      # k == nt would force the regular list 0..nt-1
            while True:
                tl = sorted(rng.sample(range(nt), k))
                if len(set(b - a for a, b in zip(tl, tl[1:]))) > 1:
                    break
        elif how == 'unsorted':
            tl = rng.sample(range(nt), min(k, nt))
            if tl == sorted(tl):
                tl.reverse()
                tl[0], tl[-1] = tl[-1], tl[0]
                tl.insert(1, tl.pop())
        elif how == 'repeats':
            tl = [rng.randrange(nt) for _ in range(k - 1)]
            tl.insert(rng.randrange(k - 1), tl[0])
        else:
            tl = [rng.randrange(-nt, nt) for _ in range(k)]
        kws.append(['TSTEP', {'l': tl}])
        zipped = rng.random() < 0.25
        for dn in names[1:]:
            if zipped and dn == 'ROW':
                kws.append([dn, {'l': _gen_list(rng, lend[dn], len(tl))}])
            elif rng.random() < 0.4:
                kws.append([dn, _nonempty_sel(rng, rng.choice('iss'), lend[dn])])
        rng.shuffle(kws)
        sub = 'tsteplist-' + how + ('-zip' if zipped else '')
    elif r < 0.35:
        for dn in rng.sample(names, rng.randint(1, 4)):
            kws.append([dn, _nonempty_sel(rng, rng.choice('iss'), lend[dn])])
        sub = 'basic'
    elif r < 0.65:
        sub = rng.sample(names, rng.randint(1, 4))
        j = rng.randrange(len(sub))
        for i, dn in enumerate(sub):
            kws.append([dn, _nonempty_sel(rng, 'l' if i == j else rng.choice('iss'), lend[dn])])
        sub = 'onelist'
    else:
        pair = ['ROW', 'COL'] if rng.random() < 0.6 else rng.sample(names, 2)
        k = rng.choice([1, 2, 3, 4])
        for dn in pair:
            kws.append([dn, {'l': _gen_list(rng, lend[dn], k)}])
        for dn in names:
            if dn not in pair and rng.random() < 0.5:
                kws.append([dn, _nonempty_sel(rng, rng.choice('iss'), lend[dn])])
        rng.shuffle(kws)
        sub = 'zip'
    return dict(kind='ioapi-' + sub, dims=dims, vars=vs, kws=kws, tattrs=tattrs)


def _gen_strform(rng):
    dims, vs = _gen_file(rng)
    for v in vs:
        v['masked'] = False
        for key in ('mask', 'fill', 'fillkey', 'fillcells'):
            v.pop(key, None)
    dn, n, _ = rng.choice(dims)
    form = rng.choice([1, 1, 2, 2, 3, 3])
    a = rng.randint(-n, n - 1)
    if form == 1:
        # 'dim,i' selects element i (negative: from the end)
        s = '%s,%d' % (dn, a)
        sl = [a, (a + 1) or None, None]
        args = [a]
    else:
        b = rng.choice([None, rng.randint(-n - 1, n + 1)])
        a2 = rng.choice([None, rng.randint(-n - 1, n + 1)])
        if form == 2:
            s = '%s,%s,%s' % (dn, a2, b)
            sl = [a2, b, None]
            args = [a2, b]
        else:
            c = rng.choice([None, 1, 2, -1, -2, 3])
            s = '%s,%s,%s,%s' % (dn, a2, b, c)
            sl = [a2, b, c]
            args = [a2, b, c]
    return dict(kind='strform', dims=dims, vars=vs, slicedef=s, dim=dn, sl=sl, args=args)


# ----------------------------------------------------------------------------- implementation side
def _cellvals(vi, size):
    return [vi * 1000 + k for k in range(size)]


NPDT = {'i': 'int32', 'f': 'float32', 'd': 'float64'}


def _fillval(v):
    """the variable's own fill value as the exact integer the stored number denotes (None if the case names none)"""
    if v.get('fill') is None:
        return None
    import numpy as np
    return int(np.array(v['fill'], dtype=NPDT[v.get('dtype', 'i')]))


def _apply_fill(v, vals, mask=None):
    """some UNMASKED cells hold the variable's own fill value (a valid value that happens to equal it)"""
    fv = _fillval(v)
    if fv is None:
        return list(vals)
    vals = list(vals)
    for k in v.get('fillcells', []):
        if k < len(vals) and not (mask and mask[k]):
            vals[k] = fv
    return vals


def _create(f, v, shape, vals, mask):
    """create variable v in file f: dtype, masked with its own fill_value / missing_value / _FillValue, cells, mask"""
    import numpy as np
    dt = v.get('dtype', 'i')
    vals = np.array(vals, dtype=NPDT[dt]).reshape(shape)
    if v.get('masked'):
        fill = v.get('fill', -999)
        var = f.createVariable(v['name'], dt, tuple(v['dims']), **{v.get('fillkey', 'fill_value'): fill})
        var[...] = vals      # stored values stay under the mask (distinct, so a lost mask shows which cell it was)
        m = np.array(mask, dtype=bool).reshape(shape)
        if m.any():
            var[m] = np.ma.masked
    else:
        var = f.createVariable(v['name'], dt, tuple(v['dims']))
        var[...] = vals
    for k, a in v.get('attrs', {}).items():
        setattr(var, k, a)
    return var


def _exp_attrs(v):
    at = dict(v.get('attrs', {}))
    # '_FillValue' starts with an underscore: PseudoNetCDF does not list it among a variable's ncattrs
    if v.get('masked') and v.get('fillkey', 'fill_value') == 'missing_value':
        at[v['fillkey']] = v.get('fill', -999)
    return sorted((k, str(a)) for k, a in at.items())


def _build(case):
    import numpy as np
    from PseudoNetCDF import PseudoNetCDFFile
    f = PseudoNetCDFFile()
    lend = {}
    for n, l, u in case['dims']:
        d = f.createDimension(n, l)
        d.setunlimited(bool(u))
        lend[n] = l
    for vi, v in enumerate(case['vars']):
        shape = tuple(lend[n] for n in v['dims'])
        size = int(np.prod(shape)) if shape else 1
        mask = v['mask'] if v.get('masked') else None
        _create(f, v, shape, _apply_fill(v, _cellvals(vi, size), mask), mask)
    f.title = 'case file'
    f.NVAL = 7
    return f


def _pysel(s):
    if 'i' in s:
        return int(s['i'])
    if 's' in s:
        return slice(*s['s'])
    return list(s['l'])


def _observe(o):
    import numpy as np
    dims = [[k, len(d), bool(d.isunlimited())] for k, d in o.dimensions.items()]
    vs = []
    for k, v in o.variables.items():
        arr = np.ma.masked_array(v[...]) if isinstance(v, np.ma.MaskedArray) else np.asarray(v[...])
        if isinstance(arr, np.ma.MaskedArray):
            flat = [None if m else int(x) for x, m in zip(arr.filled(0).ravel().tolist(),
                                                          np.ma.getmaskarray(arr).ravel().tolist())]
        else:
            flat = [int(x) for x in arr.ravel().tolist()]
        attrs = sorted((a, str(getattr(v, a))) for a in v.ncattrs() if a != 'fill_value')
        vs.append(dict(name=k, dims=list(v.dimensions), shape=[int(s) for s in arr.shape], data=flat,
                       masked=isinstance(v, np.ma.MaskedArray), attrs=attrs, dtype=str(arr.dtype)))
    g = sorted((a, str(getattr(o, a))) for a in o.ncattrs())
    return dict(dims=dims, vars=vs, gattrs=g)


def _impl_ioapi(case):
    import numpy as np
    from PseudoNetCDF.cmaqfiles import ioapi_base
    lend = dict((d[0], d[1]) for d in case['dims'])
    arrs = {}
    for vi, v in enumerate(case['vars']):
        shape = tuple(lend[n] for n in v['dims'])
        arrs[v['name']] = np.array(_cellvals(vi, int(np.prod(shape))), dtype='f').reshape(shape)
    nl = lend['LAY']
    fa = dict(VGLVLS=np.linspace(1, 0, nl + 1, dtype='f'), VGTOP=np.float32(5000), XORIG=0., YORIG=0., XCELL=1000., YCELL=1000.)
    fa.update(case.get('tattrs', {}))
    f = ioapi_base.from_arrays(fileattrs=fa, **arrs)
    tflag_in = [[int(x) for x in row] for row in np.asarray(f.variables['TFLAG'][:, 0, :]).tolist()]
    times_in = [t.strftime('%Y%j %H%M%S') for t in f.getTimes()]
    kw = {}
    for dn, s in case['kws']:
        kw[dn] = _pysel(s)
    o = f.sliceDimensions(**kw)
    obs = _observe(o)
    # TFLAG is a variable like any other along TSTEP: its (date, time) rows are compared as a (TSTEP, DATE-TIME) variable;
    # its VAR axis (all columns equal), the VAR dimension and the IOAPI attributes are metadata (C10, C11)
    tf = np.asarray(o.variables['TFLAG'][...])
    obs['tflag'] = [[int(x) for x in row] for row in tf[:, 0, :].tolist()] if tf.shape[1] > 0 else None
    obs['tflag_cols_same'] = bool((tf == tf[:, :1, :]).all())
    obs['tflag_dims'] = list(o.variables['TFLAG'].dimensions)
    obs['tflag_in'] = tflag_in
    obs['times_in'] = times_in
    obs['times'] = [t.strftime('%Y%j %H%M%S') for t in o.getTimes()]
    obs['vars'] = [v for v in obs['vars'] if v['name'] != 'TFLAG']
    obs['dims'] = [d for d in obs['dims'] if d[0] not in ('VAR', 'DATE-TIME')]
    obs['gattrs'] = []
    obs['cls'] = type(o).__name__
    return obs


def impl(case):
    if case['kind'].startswith('ioapi'):
        return _impl_ioapi(case)
    f = _build(case)
    if case['kind'] == 'strform':
        from PseudoNetCDF.core._functions import slice_dim
        o = slice_dim(f, case['slicedef'], fuzzydim=False)
        return _observe(o)
    kw = {}
    for dn, s in case['kws']:
        kw[dn] = _pysel(s)
    o = f.sliceDimensions(**kw)
    return _observe(o)


# ----------------------------------------------------------------------------- Coq term
def _csel(s):
    if 'i' in s:
        return '(SInt %s)' % C.zc(s['i'])
    if 's' in s:
        return '(SSlice %s %s %s)' % tuple(C.copt(x, C.zc) for x in s['s'])
    return '(SList %s)' % C.zlist(s['l'])


def _ccells(cells):
    return '[' + '; '.join('(0, true)' if x is None else '(%s, false)' % C.zc(x) for x in cells) + ']'


def _ccells_in(case, vi, v):
    # input cells carry the stored value under the mask too (the point loop exposes it)
    cells = _in_cells(case, vi, v)
    vals = list(v['cells']) if 'cells' in v else _apply_fill(v, _cellvals(vi, len(cells)), v.get('mask') if v.get('masked') else None)
    return '[' + '; '.join('(%s, %s)' % (C.zc(x), 'true' if c is None else 'false') for x, c in zip(vals, cells)) + ']'


def _in_cells(case, vi, v):
    if 'cells' in v:
        return list(v['cells'])
    lend = dict((d[0], d[1]) for d in case['dims'])
    size = 1
    for n in v['dims']:
        size *= lend[n]
    vals = _apply_fill(v, _cellvals(vi, size), v.get('mask') if v.get('masked') else None)
    if v.get('masked'):
        return [None if m else x for x, m in zip(vals, v['mask'])]
    return vals


def _strform_as_case(case, obs):
    """slice_dim(f, 'dim,start,stop,stride') as the keyword selection dim=slice(...); only when a variable carries
    the dimension (otherwise slice_dim leaves the dimension table alone)"""
    if not any(case['dim'] in v['dims'] for v in case['vars']):
        return None
    return dict(case, kws=[[case['dim'], {'s': list(case['sl'])}]])


def _ioapi_aug(case, obs, with_tflag=True):
    """TFLAG joins the compared variables: input rows TFLAG[:, 0, :] as a (TSTEP, DATE-TIME) variable of the case, the
    output rows as the observed variable"""
    if not with_tflag:
        return case, obs
    if 'raises' in obs or obs.get('tflag') is None or 'tflag_in' not in obs:
        return case, obs
    nt = len(obs['tflag_in'])
    case2 = dict(case, dims=case['dims'] + [['DATE-TIME', 2, False]],
                 vars=case['vars'] + [dict(name='TFLAG', dims=['TSTEP', 'DATE-TIME'], masked=False,
                                           cells=[x for row in obs['tflag_in'] for x in row])])
    tfd = [d for d in obs['tflag_dims'] if d != 'VAR']
    ov = dict(name='TFLAG', dims=tfd, shape=[len(obs['tflag']), 2], data=[x for row in obs['tflag'] for x in row],
              masked=False, attrs=[], dtype='float32')
    obs2 = dict(obs, vars=obs['vars'] + [ov], dims=[d for d in obs['dims'] if d[0] != 'POINTS'] + [['DATE-TIME', 2, False]] +
                [d for d in obs['dims'] if d[0] == 'POINTS'])
    return case2, obs2


def _ioapi_obs(case, obs):
    """the wrapper deletes ROW and COL when both are replaced by POINTS and no variable keeps them: the dimension
    table is metadata; give the model's view of the table the lengths the variables show"""
    if 'raises' in obs:
        return obs
    have = dict((d[0], d) for d in obs['dims'])
    sel = dict((dn, s) for dn, s in case['kws'])
    dims = []
    for n, l, u in case['dims']:
        if n in have:
            dims.append(have[n])
        elif n in ('ROW', 'COL') and 'l' in sel.get(n, {}):
            dims.append([n, len(sel[n]['l']), u])
        else:
            dims.append([n, 99, u])      # missing and not explained: makes F and S fail
    dims += [d for d in obs['dims'] if d[0] == 'POINTS']
    return dict(obs, dims=dims)


def coq_term(case, obs):
    if case['kind'] == 'strform':
        case = _strform_as_case(case, obs)
        if case is None:
            return None
    if case['kind'].startswith('ioapi'):
        case, obs = _ioapi_aug(case, obs)
        obs = _ioapi_obs(case, obs)
    names = [d[0] for d in case['dims']]
    nd = len(names)
    ids = dict((n, i) for i, n in enumerate(names))
    ids['POINTS'] = nd
    dims = C.natlist([d[1] for d in case['dims']])
    vs = '[' + '; '.join('(%s, %s)' % (C.natlist([ids[n] for n in v['dims']]), _ccells_in(case, vi, v))
                         for vi, v in enumerate(case['vars'])) + ']'
    if case['kind'] == 'strform' and 'args' in case:
        kws = '(kws_of_args %d%%nat [%s])' % (ids[case['dim']], '; '.join(C.copt(x, C.zc) for x in case['args']))
    else:
        kws = '[' + '; '.join('(%d%%nat, %s)' % (ids.get(dn, nd + 7), _csel(s)) for dn, s in case['kws']) + ']'
    if 'raises' in obs:
        o = 'None'
    else:
        onames = [d[0] for d in obs['dims']]
        # dimension names/order must be the input's, optionally followed by POINTS (checked in py_check too)
        if onames[:nd] != names or onames[nd:] not in ([], ['POINTS']):
            o = 'Some ([], [])'      # forces F and S to fail
        else:
            try:
                ovs = '[' + '; '.join('(%s, %s)' % (C.natlist([ids[n] for n in v['dims']]), _ccells(v['data']))
                                      for v in obs['vars']) + ']'
                o = 'Some (%s, %s)' % (C.natlist([d[1] for d in obs['dims']]), ovs)
            except (KeyError, ValueError):
                o = 'Some ([], [])'
    return '(Case %s %s %s (%s))' % (dims, vs, kws, o)


# ----------------------------------------------------------------------------- independent oracle
def _expected(case):
    """orthogonal / zipped selection with numpy.take and explicit loops; returns None if the call must raise,
    else dict(dims=[[name,len,unl]], vars={name: (dims, array-of-objects)})"""
    import numpy as np
    lend = dict((d[0], d[1]) for d in case['dims'])
    names = [d[0] for d in case['dims']]
    idx = {}
    lists = []
    for dn, s in case['kws']:
        if dn not in lend:
            return None
        n = lend[dn]
        if 'i' in s:
            i = s['i']
            if not -n <= i < n:
                return None
            idx[dn] = ('i', [i % n])
        elif 's' in s:
            a, b, c = s['s']
            if c == 0:
                return None
            idx[dn] = ('s', list(range(n))[slice(a, b, c)])
        else:
            l = s['l']
            if any(not -n <= i < n for i in l):
                return None
            idx[dn] = ('l', [i % n for i in l])
            lists.append(dn)
    zipped = len(lists) > 1
    if zipped and len(set(len(idx[dn][1]) for dn in lists)) != 1:
        return None
    P = len(idx[lists[0]][1]) if zipped else None
    dims = []
    for n, l, u in case['dims']:
        dims.append([n, len(idx[n][1]) if n in idx else l, u])
    if zipped:
        dims.append(['POINTS', P, False])
    vs = {}
    for vi, v in enumerate(case['vars']):
        shape = tuple(lend[n] for n in v['dims'])
        cells = np.empty(len(_in_cells(case, vi, v)), dtype=object)
        cells[:] = _in_cells(case, vi, v)
        a = cells.reshape(shape)
        vl = [n for n in v['dims'] if n in lists]
        if zipped and len(vl) > 1:
            first = v['dims'].index(vl[0])
            odims = [n for n in v['dims'] if n not in vl]
            odims.insert(first, 'POINTS')
            # orthogonal on the non-list axes, then gather points
            b = a
            for ax, n in enumerate(v['dims']):
                if n in idx and n not in vl:
                    b = np.take(b, idx[n][1], axis=ax)
            pts = []
            for ii in range(P):
                c = b
                for ax in reversed(range(len(v['dims']))):
                    if v['dims'][ax] in vl:
                        c = np.take(c, idx[v['dims'][ax]][1][ii], axis=ax)   # drops the axis
                pts.append(c)
            nfirst = len([n for n in v['dims'][:first] if n not in vl])
            r = np.stack(pts, axis=nfirst) if pts else np.empty([0], dtype=object)
            if not pts:
                oshape = [len(idx[n][1]) if n in idx else lend[n] for n in v['dims'] if n not in vl]
                oshape.insert(nfirst, 0)
                r = np.empty(oshape, dtype=object)
            vs[v['name']] = (odims, r)
        else:
            b = a
            for ax, n in enumerate(v['dims']):
                if n in idx:
                    b = np.take(b, idx[n][1], axis=ax)
            vs[v['name']] = (list(v['dims']), b)
    return dict(dims=dims, vars=vs)


def _region_py(case):
    return 0


def py_check(case, obs):
    import numpy as np
    if case['kind'] == 'strform':
        return _check_strform(case, obs)
    if case['kind'].startswith('ioapi'):
        return _check_ioapi(case, obs)
    exp = _expected(case)
    region = _region_py(case)
    if exp is None:
        ok = 'raises' in obs
        return dict(s_ok=ok, region=region, why='' if ok else 'malformed selection did not raise')
    if 'raises' in obs:
        return dict(s_ok=False, region=region, why='in-domain selection raised %s: %s' % (obs['raises'], obs.get('msg', '')[:80]))
    why = []
    if obs['dims'] != exp['dims']:
        why.append('dimensions %s != expected %s' % (obs['dims'], exp['dims']))
    inv = dict((v['name'], v) for v in case['vars'])
    if [v['name'] for v in obs['vars']] != [v['name'] for v in case['vars']]:
        why.append('variable set/order changed')
    lend = dict((d[0], d[1]) for d in obs['dims'])
    for ov in obs['vars']:
        if ov['name'] not in exp['vars']:
            continue
        edims, earr = exp['vars'][ov['name']]
        if ov['dims'] != edims:
            why.append('%s dims %s != %s' % (ov['name'], ov['dims'], edims))
            continue
        if list(earr.shape) != ov['shape'] or ov['shape'] != [lend.get(n) for n in edims]:
            why.append('%s shape %s != %s' % (ov['name'], ov['shape'], list(earr.shape)))
            continue
        if earr.ravel().tolist() != ov['data']:
            why.append('%s cells differ: got %s expected %s' % (ov['name'], ov['data'][:12], earr.ravel().tolist()[:12]))
        iv = inv[ov['name']]
        if bool(iv.get('masked')) != ov['masked']:
            why.append('%s masked-ness changed' % ov['name'])
        if _exp_attrs(iv) != ov['attrs']:
            why.append('%s attributes %s' % (ov['name'], ov['attrs']))
        if ov['dtype'] != NPDT[iv.get('dtype', 'i')]:
            why.append('%s dtype %s' % (ov['name'], ov['dtype']))
    if obs['gattrs'] != [('NVAL', '7'), ('title', 'case file')] and obs['gattrs'] != [['NVAL', '7'], ['title', 'case file']]:
        why.append('global attributes %s' % obs['gattrs'])
    return dict(s_ok=not why, region=region, why='; '.join(why)[:600])


def _check_ioapi(case, obs):
    """data part of the IOAPI wrapper: every data variable is the orthogonal / zipped selection (float32 cells hold
    exact integers); dimension lengths agree wherever the dimension still exists"""
    if 'raises' in obs:
        return dict(s_ok=False, region=0, why='IOAPI sliceDimensions raised %s: %s' % (obs.get('raises'), obs.get('msg', '')[:100]))
    why = []
    if obs.get('tflag') is None:
        why.append('TFLAG has no VAR column')
    if not obs.get('tflag_cols_same', False):
        why.append('TFLAG columns differ between variables')
    case, obs = _ioapi_aug(case, obs)
    exp = _expected(case)
    if exp is None:
        return dict(s_ok=False, region=0, why='generator produced a malformed IOAPI case')
    if 'TFLAG' in exp['vars']:
        # getTimes() of the result = the selected instants of the input
        import datetime
        rows = exp['vars']['TFLAG'][1].reshape(-1, 2).tolist()
        etimes = ['%07d %06d' % (r[0], r[1]) for r in rows]
        etimes = [datetime.datetime.strptime(t, '%Y%j %H%M%S').strftime('%Y%j %H%M%S') for t in etimes]
        if obs['times'] != etimes:
            why.append('getTimes() %s != selected input instants %s' % (obs['times'][:6], etimes[:6]))
    have = dict((d[0], d[1]) for d in obs['dims'])
    for n, l, u in exp['dims']:
        if n in have and have[n] != l:
            why.append('dimension %s length %s != %s' % (n, have[n], l))
        if n not in have and any(n in ov['dims'] for ov in obs['vars']):
            why.append('dimension %s missing but used' % n)
    if [v['name'] for v in obs['vars']] != [v['name'] for v in case['vars']]:
        why.append('data variables %s' % [v['name'] for v in obs['vars']])
    for ov in obs['vars']:
        if ov['name'] not in exp['vars']:
            continue
        edims, earr = exp['vars'][ov['name']]
        if ov['dims'] != edims or ov['shape'] != list(earr.shape):
            why.append('%s dims/shape %s %s != %s %s' % (ov['name'], ov['dims'], ov['shape'], edims, list(earr.shape)))
        elif ov['data'] != earr.ravel().tolist():
            why.append('%s cells differ: got %s expected %s' % (ov['name'], ov['data'][:12], earr.ravel().tolist()[:12]))
        if ov['dtype'] != 'float32' or ov['masked']:
            why.append('%s dtype/masked %s %s' % (ov['name'], ov['dtype'], ov['masked']))
    if 'TFLAG' not in [ov['name'] for ov in obs['vars']]:
        why.append('TFLAG not compared')
    if obs.get('cls') != 'ioapi_base':
        why.append('result class %s' % obs.get('cls'))
    return dict(s_ok=not why, region=0, why='; '.join(why)[:600])


def _check_strform(case, obs):
    import numpy as np
    if 'raises' in obs:
        return dict(s_ok=False, region=0, why='slice_dim raised %s' % obs['raises'])
    lend = dict((d[0], d[1]) for d in case['dims'])
    sl = slice(*case['sl'])
    keep = list(range(lend[case['dim']]))[sl]
    why = []
    for vi, v in enumerate(case['vars']):
        ov = [o for o in obs['vars'] if o['name'] == v['name']]
        if not ov:
            why.append('variable %s lost' % v['name'])
            continue
        ov = ov[0]
        shape = tuple(lend[n] for n in v['dims'])
        a = np.array(_in_cells(case, vi, v), dtype=object).reshape(shape)
        if case['dim'] in v['dims']:
            a = np.take(a, keep, axis=v['dims'].index(case['dim']))
        if ov['dims'] != v['dims'] or ov['shape'] != list(a.shape) or ov['data'] != a.ravel().tolist():
            why.append('%s: got %s %s expected %s' % (v['name'], ov['shape'], ov['data'][:10], a.ravel().tolist()[:10]))
    used = any(case['dim'] in v['dims'] for v in case['vars'])
    for n, l, u in obs['dims']:
        e = len(keep) if (n == case['dim'] and used) else lend.get(n)
        if l != e:
            why.append('dimension %s length %s != %s' % (n, l, e))
    return dict(s_ok=not why, region=0, why='; '.join(why)[:600])


def nontrivial(case, obs):
    if 'raises' in obs:
        return False
    lend = dict((d[0], d[1]) for d in case['dims'])
    for vi, v in enumerate(case['vars']):
        ov = [o for o in obs['vars'] if o['name'] == v['name']]
        if ov and ov[0]['data'] != _in_cells(case, vi, v):
            return True
    return False


def shrink(case):
    if case['kind'] == 'strform' or case['kind'].startswith('ioapi'):
        return
    vs = case['vars']
    if len(vs) > 1:
        for j in range(len(vs)):
            yield dict(case, vars=vs[:j] + vs[j + 1:])
    kws = case['kws']
    for j in range(len(kws)):
        yield dict(case, kws=kws[:j] + kws[j + 1:])
    for j, (dn, s) in enumerate(kws):
        if 's' in s and s['s'] != [None, None, None]:
            yield dict(case, kws=kws[:j] + [[dn, {'s': [None, None, None]}]] + kws[j + 1:])
        if 'l' in s and len(s['l']) > 1 and sum(1 for _, t in kws if 'l' in t) == 1:
            yield dict(case, kws=kws[:j] + [[dn, {'l': s['l'][:-1]}]] + kws[j + 1:])
    for v in vs:
        if v.get('masked'):
            yield dict(case, vars=[dict(w, masked=False) if w is v else w for w in vs])
    # drop a dimension nobody selects and no variable uses
    used = set(n for v in vs for n in v['dims']) | set(dn for dn, _ in kws)
    for j, d in enumerate(case['dims']):
        if d[0] not in used:
            yield dict(case, dims=case['dims'][:j] + case['dims'][j + 1:])


# ----------------------------------------------------------------------------- tie T: slice_dim argument bookkeeping
def translate():
    """regenerate coq/Gen/SliceDimSrc.v from core/_functions.py slice_dim (fail-closed): the stop derived for the
    one-number form 'dim,i', the None padding and the cut to 4 entries, and the slice built from the three names"""
    import ast, os
    from translate import py2coq as P
    res = []
    path = os.path.join(C.SRC, 'PseudoNetCDF', 'core', '_functions.py')
    defs = {}

    def anchor(name, fn):
        try:
            defs[name] = fn()
            res.append(dict(anchor='slice_dim:' + name, ok=True, detail=defs[name][:200]))
        except Exception as e:  # noqa
            res.append(dict(anchor='slice_dim:' + name, ok=False, detail='%s: %s' % (type(e).__name__, str(e)[:300])))

    try:
        tree = ast.parse(open(path).read())
        fns = [n for n in tree.body if isinstance(n, ast.FunctionDef) and n.name == 'slice_dim']
        if len(fns) != 1:
            raise P.Untranslatable('slice_dim not found exactly once')
        body = fns[0].body
    except Exception as e:  # noqa
        return [dict(anchor='slice_dim', ok=False, detail=str(e)[:300])]

    def is_name(n, x):
        return isinstance(n, ast.Name) and n.id == x

    def single_stop():
        ifs = [n for n in body if isinstance(n, ast.If) and isinstance(n.test, ast.Compare) and
               isinstance(n.test.left, ast.Call) and is_name(n.test.left.func, 'len') and
               is_name(n.test.left.args[0], 'slicedef') and isinstance(n.test.ops[0], ast.Eq) and
               isinstance(n.test.comparators[0], ast.Constant) and n.test.comparators[0].value == 2]
        if len(ifs) != 1 or len(ifs[0].body) != 1 or ifs[0].orelse:
            raise P.Untranslatable('expected exactly one `if len(slicedef) == 2:` with one statement')
        st = ifs[0].body[0]
        if not (isinstance(st, ast.Expr) and isinstance(st.value, ast.Call) and isinstance(st.value.func, ast.Attribute) and
                st.value.func.attr == 'append' and is_name(st.value.func.value, 'slicedef') and len(st.value.args) == 1):
            raise P.Untranslatable('expected slicedef.append(<expr>)')
        arg = st.value.args[0]

        class Sub(ast.NodeTransformer):
            def visit_Subscript(self, node):
                idx = node.slice
                if is_name(node.value, 'slicedef') and isinstance(idx, ast.UnaryOp) and isinstance(idx.op, ast.USub) and \
                        isinstance(idx.operand, ast.Constant) and idx.operand.value == 1:
                    return ast.Name(id='last', ctx=ast.Load())
                raise P.Untranslatable('subscript other than slicedef[-1]')
        ornone = False
        if isinstance(arg, ast.BoolOp) and isinstance(arg.op, ast.Or) and len(arg.values) == 2 and \
                isinstance(arg.values[1], ast.Constant) and arg.values[1].value is None:
            ornone = True
            arg = arg.values[0]
        term = P.expr(Sub().visit(arg), P.Ctx())
        if set(__import__('re').findall(r'\bv_\w+', term)) - {'v_last'}:
            raise P.Untranslatable('free variables in ' + term)
        if ornone:       # Python `x or None`: an integer is falsy iff it is 0
            return 'Definition single_stop (v_last : Z) : option Z :=\n  if (%s =? 0) then None else Some (%s).\n' % (term, term)
        return 'Definition single_stop (v_last : Z) : option Z := Some (%s).\n' % term

    def pad():
        for n in body:
            if isinstance(n, ast.Assign) and len(n.targets) == 1 and is_name(n.targets[0], 'slicedef') and \
                    isinstance(n.value, ast.Subscript) and isinstance(n.value.slice, ast.Slice):
                v, sl = n.value.value, n.value.slice
                if sl.lower is None and sl.step is None and isinstance(sl.upper, ast.Constant) and isinstance(sl.upper.value, int) and \
                        isinstance(v, ast.BinOp) and isinstance(v.op, ast.Add) and is_name(v.left, 'slicedef') and \
                        isinstance(v.right, ast.List) and len(v.right.elts) == 1 and \
                        isinstance(v.right.elts[0], ast.Constant) and v.right.elts[0].value is None:
                    return 'Definition pad_len : nat := %d%%nat.\n' % sl.upper.value
        raise P.Untranslatable('expected slicedef = (slicedef + [None, ])[:N]')

    def unpack():
        ok1 = any(isinstance(n, ast.Assign) and isinstance(n.targets[0], ast.Tuple) and
                  [getattr(e, 'id', None) for e in n.targets[0].elts] == ['dimkey', 'dmin', 'dmax', 'dstride'] and
                  is_name(n.value, 'slicedef') for n in body)
        ok2 = False
        for n in ast.walk(fns[0]):
            if isinstance(n, ast.Subscript) and isinstance(n.slice, ast.Slice) and is_name(n.slice.lower, 'dmin') and \
                    is_name(n.slice.upper, 'dmax') and is_name(n.slice.step, 'dstride'):
                ok2 = True
        if not (ok1 and ok2):
            raise P.Untranslatable('expected `dimkey, dmin, dmax, dstride = slicedef` and a subscript [dmin:dmax:dstride]')
        return ('(* the padded argument list is unpacked as (dimkey, dmin, dmax, dstride) and used as [dmin:dmax:dstride] *)\n'
                'Definition sel_of_padded (l : list (option Z)) : option sel :=\n'
                '  match l with [a; b; c] => Some (SSlice a b c) | _ => None end.\n')

    anchor('single_stop', single_stop)
    anchor('pad', pad)
    anchor('unpack', unpack)
    if all(r['ok'] for r in res):
        text = ('(* GENERATED by harness/props/c02.py translate() from core/_functions.py slice_dim — do not edit *)\n'
                'From PNC Require Import Base.Util Base.ArrFlat.\nLocal Open Scope Z_scope.\n\n' +
                defs['single_stop'] + defs['pad'] + defs['unpack'] +
                '\n(* numbers after the dimension name -> selector (None = the call raises) *)\n'
                'Definition sel_of_args (args : list (option Z)) : option sel :=\n'
                '  match args with\n'
                '  | [] => None\n'
                '  | [None] => None\n'
                '  | [Some a] => sel_of_padded (firstn (pad_len - 1) ([Some a; single_stop a] ++ [None]))\n'
                '  | _ => sel_of_padded (firstn (pad_len - 1) (args ++ [None]))\n'
                '  end.\n')
        P.write_if_changed(os.path.join(C.COQ, 'Gen', 'SliceDimSrc.v'), text)
    return res
