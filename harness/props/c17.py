"""C17 — interpolation weights are linear-exact; conservative sigma regridding conserves column mass."""
import math, os
from fractions import Fraction
from harness import common as C

ID = 'C17'
N = {'quick': 2500, 'thorough': 40000}
SEARCH_N = {'quick': 3000, 'thorough': 20000}
CASE_TIMEOUT = 30.0
RULE = ('"w" cases: strictly monotonic source coordinate stored as int32 / int64 / float32 / float64 (whole numbers for the integer '
        'types, <= 14 significant bits for float32, also closely spaced levels just below a power of two) with float64 targets that the '
        'source dtype cannot represent (fractional, > 24 bits); 1..7 levels, ascending or descending; exact stream: power-of-two spacings times '
        '2^ue so that scipy/numpy binary64 arithmetic is exact and 1..6 target points at source points, between them, at the ends and '
        'outside (extrapolate True/False); observed: the getinterpweights matrix as exact fractions and interpDimension of a 1-D and a 2-D '
        'variable along the named dimension (either axis). "nd" cases: interpDimension with a 2-D / 3-D coordinate variable (layouts (z,k), '
        '(k,z), (i,z,k)): every column has its own source and target levels, neighbouring columns often share the source levels but differ in '
        'the targets (and vice versa), some columns have target == source; per column the interpolated coordinate, a linear profile and an '
        'arbitrary profile are compared exactly with the model and judged for linear exactness / identity. "s" cases: descending sigma edges (1..6 layers, power-of-two thicknesses) against '
        'target edges that coincide, interleave, share top and bottom, cover a sub-range or stick out; observed: sigma2coeff as exact fractions '
        'and ioapi_base.interpSigma(conserve / linear) column integrals. Both evaluated in Coq against Model/Interp.v. "wf"/"sf" float streams: '
        'arbitrary spacings, decided by the rational oracle with tolerance 1e-12 (weights) / 2e-6 (float32 file data). Non-trivial = some '
        'weight or coefficient strictly between 0 and 1.')
TRUSTED = ['scipy interp1d(kind="linear", fill_value="extrapolate") modelled as the hat function of the segment chosen by searchsorted/clip; '
           'it sorts a descending coordinate first',
           'numpy.interp modelled as in C16 (clamping outside, exact linear formula inside)',
           'binary64 arithmetic exact on the exact streams (power-of-two spacings; checked by the exact comparison itself)']
ASSUMPTIONS = ['weights/coefficients with non-dyadic spacings are only covered by the tolerance oracle (float streams)',
               'interpSigma is observed through float32 file variables; its conservation is checked to 2e-6 relative, the exact statement is '
               'about the coefficient matrix']


def _mono_pow2(rng, n, lo=0, hi=5):
    xs = [rng.randint(-40, 40) * 2]
    for _ in range(n - 1):
        xs.append(xs[-1] + 2 ** rng.randint(lo, hi))
    return xs


def _targets(rng, xs, k):
    lo, hi = min(xs), max(xs)
    pts = set(xs)
    for a, b in zip(sorted(xs), sorted(xs)[1:]):
        pts.update([(a + b) // 2, a + 1, b - 1])
    pts.update([lo - 1, hi + 1, lo - 7, hi + 12, lo - (hi - lo) - 1])
    pts = sorted(pts)
    r = rng.random()
    if r < 0.2:
        return list(xs)                      # target == source
    if r < 0.55:
        inr = [p for p in pts if lo <= p <= hi]
        return [rng.choice(inr) for _ in range(k)]
    return [rng.choice(pts) for _ in range(k)]


SDTYPES = ['f8', 'f8', 'i4', 'i8', 'f4', 'f4']


def _dtype_scale(rng, sd):
    """(ue, multiplier for the SOURCE values): integer sources must be whole numbers while targets stay fractional;
    float32 sources get few significant bits while float64 targets between them need more than 24"""
    if sd in ('i4', 'i8'):
        k = rng.randint(1, 6)
        return -k, 2 ** k
    if sd == 'f4' and rng.random() < 0.7:
        k = rng.randint(14, 20)
        return rng.randint(-34, -20), 2 ** k
    if sd == 'f8' and rng.random() < 0.2:
        k = rng.randint(14, 20)
        return rng.randint(-34, -20), 2 ** k
    return rng.randint(-12, 6), 1


def gen(rng, n, tier):
    out = []
    while len(out) < n:
        r = rng.random()
        if r < 0.22:
            out.append(_gen_nd(rng))
            continue
        r = rng.random()
        if r < 0.45:
            nl = rng.choice([1] + [2, 3, 4, 5, 6, 7] * 4) if tier != 'search' else rng.randint(2, 7)
            sd = rng.choice(SDTYPES)
            ue, mult = _dtype_scale(rng, sd)
            xs = _mono_pow2(rng, nl)
            if mult > 1 and sd in ('f4', 'f8') and rng.random() < 0.5:
                # closely spaced levels just below a power of two (sigma 1, .9999, .9998, ...)
                xs = [8192]
                for _ in range(nl - 1):
                    xs.append(xs[-1] - 2 ** rng.randint(0, 2))
                xs = xs[::-1]
            xs = [x * mult for x in xs]
            if rng.random() < 0.3:
                xs = xs[::-1]
            nxs = _targets(rng, xs, rng.randint(1, 6))
            if mult > 1 and len(xs) > 1:
                lo, hi = min(xs), max(xs)
                nxs = [v if rng.random() < 0.4 else rng.randint(lo, hi) | 1 for v in nxs]    # odd = not a multiple of mult
            out.append(dict(kind='w-%s-%d-%s' % ('desc' if len(xs) > 1 and xs[0] > xs[-1] else 'asc', nl, sd), ue=ue, xs=xs, nxs=nxs,
                            sdtype=sd, extrap=rng.random() < 0.3, data=[rng.randint(-64, 64) for _ in xs], axis=rng.choice([0, 1])))
        elif r < 0.55 and tier != 'search':
            nl = rng.randint(2, 8)
            xs = [rng.uniform(-100, 100)]
            for _ in range(nl - 1):
                xs.append(xs[-1] + rng.choice([0.1, 0.3, 1.7, 12.5, 1e-3]) * rng.uniform(0.5, 2))
            if rng.random() < 0.3:
                xs = xs[::-1]
            lo, hi = min(xs), max(xs)
            nxs = [rng.choice(xs + [rng.uniform(lo, hi), rng.uniform(lo, hi), lo - 1.5, hi + 0.25]) for _ in range(rng.randint(1, 6))]
            if rng.random() < 0.2:
                nxs = list(xs)
            out.append(dict(kind='wf', fl=True, xs_hex=[x.hex() for x in xs], nxs_hex=[x.hex() for x in nxs], extrap=rng.random() < 0.3))
        elif r < 0.92:
            nl = rng.choice([1] + [2, 3, 4, 5, 6] * 4)
            th = [2 ** rng.randint(0, 4) for _ in range(nl)]
            bot = rng.randint(0, 3)
            fr = [bot + sum(th)]
            for t in th:
                fr.append(fr[-1] - t)
            top, bottom = fr[0], fr[-1]
            style = rng.choice(['same', 'subset', 'interleave', 'interleave', 'subrange', 'outside'])
            if style == 'same':
                to = list(fr)
            elif style == 'subset':
                to = [fr[0]] + [v for v in fr[1:-1] if rng.random() < 0.5] + [fr[-1]]
            elif style == 'interleave':
                inner = sorted({rng.randint(bottom + 1, top - 1) for _ in range(rng.randint(0, 5))} if top - bottom > 1 else set(), reverse=True)
                to = [top] + inner + [bottom]
            elif style == 'subrange':
                pts = sorted({rng.randint(bottom, top) for _ in range(rng.randint(2, 5))}, reverse=True)
                to = pts if len(pts) >= 2 else [top, bottom]
            else:
                pts = sorted({rng.randint(bottom - 3, top + 3) for _ in range(rng.randint(2, 5))}, reverse=True)
                to = pts if len(pts) >= 2 else [top + 1, bottom]
            # sigma unit: source values must stay float32-exact; unit 2^ue
            ue = rng.randint(-10, -5)
            if rng.random() < 0.35 and style in ('interleave', 'subrange', 'same', 'subset'):
                # closely spaced float32 levels near the top (1, .9999, ...) with float64 targets between them that float32
                # cannot represent
                k = rng.randint(14, 17)
                off = 2 ** 13 - fr[0]
                fr = [(v + off) * 2 ** k for v in fr]
                top, bottom = fr[0], fr[-1]
                if style in ('interleave', 'subrange') and top - bottom > 2:
                    inner = sorted({rng.randint(bottom + 1, top - 1) | 1 for _ in range(rng.randint(1, 5))}, reverse=True)
                    to = [top] + [v for v in inner if bottom < v < top] + [bottom]
                else:
                    to = [(v + off) * 2 ** k for v in to]
                ue = -13 - k
                style += '-fine'
            out.append(dict(kind='s-' + style, ue=ue, fr=fr, to=to,
                            data=[rng.randint(0, 64) for _ in range(nl)], const=rng.randint(1, 9)))
        else:
            nl = rng.randint(1, 8)
            fr = sorted({round(rng.uniform(0, 1), 3) for _ in range(nl + 1)} | {0.0, 1.0}, reverse=True)
            inner = sorted({round(rng.uniform(0, 1), 3) for _ in range(rng.randint(0, 6))} - {0.0, 1.0}, reverse=True)
            to = [1.0] + inner + [0.0]
            out.append(dict(kind='sf', fl=True, fr_hex=[float(v).hex() for v in fr], to_hex=[float(v).hex() for v in to],
                            data=[rng.randint(0, 64) for _ in range(len(fr) - 1)], const=rng.randint(1, 9)))
    return out


def _gen_nd(rng):
    """interpDimension with an N-D coordinate: one source column and one target column per remaining index.
    Neighbouring columns often share the source levels but have different targets (and vice versa)."""
    layout = rng.choice(['zk', 'kz', 'izk'])
    n = rng.randint(2, 5)
    m = n if rng.random() < 0.3 else rng.randint(1, 4)
    ni = rng.randint(1, 2) if layout == 'izk' else 1
    nk = rng.randint(2, 4) if layout != 'izk' else rng.randint(2, 3)
    cols = []
    sd = rng.choice(SDTYPES)
    ue, mult = _dtype_scale(rng, sd)
    if mult == 1:
        ue = rng.randint(-10, 4)
    xs = [x * mult for x in _mono_pow2(rng, n, 0, 4)]
    for c in range(ni * nk):
        r = rng.random()
        if c > 0 and r < 0.65:
            pass                                  # same source levels as the previous column
        elif r < 0.85:
            xs = [x * mult for x in _mono_pow2(rng, n, 0, 4)]
        else:
            xs = [x * mult for x in _mono_pow2(rng, n, 0, 4)[::-1]]
        lo, hi = min(xs), max(xs)
        if m == n and rng.random() < 0.35:
            nxs = list(xs)                        # target == source in this column
        elif rng.random() < 0.75:
            nxs = sorted(rng.randint(lo, hi) for _ in range(m))
        else:
            nxs = sorted(rng.randint(lo - 5, hi + 5) for _ in range(m))
        cols.append(dict(xs=list(xs), nxs=nxs, arb=[rng.randint(-64, 64) for _ in range(n)]))
    return dict(kind='nd-%s-%s' % (layout, sd), ue=ue, layout=layout, ni=ni, nk=nk, cols=cols, sdtype=sd,
                extrap=rng.random() < 0.3, lin=[rng.randint(-5, 5), rng.randint(-20, 20)])


# ----------------------------------------------------------------------------- implementation side
def _nd_arrays(case, key, length):
    import numpy as np
    ni, nk, lay = case['ni'], case['nk'], case['layout']
    a = np.zeros((ni, length, nk))
    for c, col in enumerate(case['cols']):
        a[c // nk, :, c % nk] = col[key]
    if lay == 'zk':
        return a[0]
    if lay == 'kz':
        return a[0].T
    return a


def _nd_columns(case, arr):
    """columns of a result array in the order the library processes them"""
    import numpy as np
    lay, nk = case['layout'], case['nk']
    arr = np.asarray(arr, dtype='d')
    if lay == 'zk':
        arr = arr[None]
    elif lay == 'kz':
        arr = arr.T[None]
    return [arr[c // nk, :, c % nk] for c in range(len(case['cols']))]


def _interp_nd(case):
    import numpy as np
    from PseudoNetCDF import PseudoNetCDFFile
    ue = case['ue']
    dims = {'zk': ('z', 'k'), 'kz': ('k', 'z'), 'izk': ('i', 'z', 'k')}[case['layout']]
    n, m = len(case['cols'][0]['xs']), len(case['cols'][0]['nxs'])
    a, b = case['lin']
    for c in case['cols']:
        c['lin'] = [a * x + b for x in c['xs']]
    f, g = PseudoNetCDFFile(), PseudoNetCDFFile()
    for fl, ln in ((f, n), (g, m)):
        fl.createDimension('z', ln)
        fl.createDimension('k', case['nk'])
        if case['layout'] == 'izk':
            fl.createDimension('i', case['ni'])
    src = np.ldexp(_nd_arrays(case, 'xs', n), ue)
    sd = case.get('sdtype', 'f8')
    if not (src.astype(sd).astype('d') == src).all():
        raise AssertionError('source coordinate not representable in ' + sd)
    for name, key in (('zc', 'xs'), ('lin', 'lin'), ('arb', 'arb')):
        v = f.createVariable(name, sd if name == 'zc' else 'd', dims)
        v[:] = np.ldexp(_nd_arrays(case, key, n), ue) if name != 'arb' else _nd_arrays(case, key, n)
    o = f.createVariable('other', 'd', ('k',))
    o[:] = np.arange(case['nk']) + 0.5
    tv = g.createVariable('zc', 'd', dims)
    tv[:] = np.ldexp(_nd_arrays(case, 'nxs', m), ue)
    before = src.copy()
    outf = f.interpDimension('z', tv, coordkey='zc', extrapolate=case['extrap'])
    res = dict(other_ok=bool((np.asarray(outf.variables['other'][:]) == np.arange(case['nk']) + 0.5).all()),
               src_ok=bool((np.asarray(f.variables['zc'][:]) == before).all()), cols=[])
    per = {name: _nd_columns(case, outf.variables[name][:]) for name in ('zc', 'lin', 'arb')}
    for c in range(len(case['cols'])):
        d = {}
        for name in ('zc', 'lin', 'arb'):
            vals = per[name][c]
            if not np.isfinite(vals).all():
                d[name] = None
            else:
                # zc and lin carry the unit 2^ue: report in the unit
                sc = -ue if name != 'arb' else 0
                d[name] = [[Fraction(float(np.ldexp(v, sc))).numerator, Fraction(float(np.ldexp(v, sc))).denominator] for v in vals]
        res['cols'].append(d)
    return res


def _frac_rows(a):
    return [[[Fraction(float(v)).numerator, Fraction(float(v)).denominator] for v in row] for row in a]


def _interp_dimension(xs, nxs, data, axis, extrap, sdtype='f8'):
    import numpy as np
    from PseudoNetCDF import PseudoNetCDFFile
    f = PseudoNetCDFFile()
    n = len(xs)
    f.createDimension('z', n)
    f.createDimension('k', 2)
    z = f.createVariable('z', sdtype, ('z',))
    z[:] = xs
    v = f.createVariable('v', 'd', ('z',))
    v[:] = data
    dims = ('z', 'k') if axis == 0 else ('k', 'z')
    m = f.createVariable('m', 'd', dims)
    d2 = np.outer(np.asarray(data, dtype='d'), [1.0, 2.0])
    m[:] = d2 if axis == 0 else d2.T
    o = f.interpDimension('z', np.asarray(nxs, dtype='d'), extrapolate=extrap)
    ov = np.asarray(o.variables['v'][:], dtype='d')
    om = np.asarray(o.variables['m'][:], dtype='d')
    if axis == 1:
        om = om.T
    oz = np.asarray(o.variables['z'][:], dtype='d')
    return ov, om, oz


def _interp_sigma(fr, to, data, const):
    """ioapi_base in memory with one variable (TSTEP, LAY, ROW, COL) = data and one = const"""
    import numpy as np
    from PseudoNetCDF.cmaqfiles import ioapi_base
    nl = len(fr) - 1
    f = ioapi_base()
    for k, l in [('TSTEP', 1), ('LAY', nl), ('ROW', 1), ('COL', 2), ('VAR', 2), ('DATE-TIME', 2)]:
        f.createDimension(k, l)
    for name, vals in [('A', np.outer(np.asarray(data, dtype='f'), [1, 2])), ('B', np.full((nl, 2), const, dtype='f'))]:
        v = f.createVariable(name, 'f', ('TSTEP', 'LAY', 'ROW', 'COL'))
        v.units = 'ppm'
        v.long_name = name.ljust(16)
        v.var_desc = name.ljust(80)
        v[:] = vals.reshape(1, nl, 1, 2)
    f.VGLVLS = np.asarray(fr, dtype='f')
    f.VGTOP = np.float32(5000)
    f.NLAYS = nl
    f.NVARS = 2
    setattr(f, 'VAR-LIST', 'A'.ljust(16) + 'B'.ljust(16))
    f.SDATE, f.STIME, f.TSTEP, f.NCOLS, f.NROWS = 2020001, 0, 10000, 2, 1
    res = {}
    for it in ('conserve', 'linear'):
        o = f.interpSigma(np.asarray(to, dtype='d'), interptype=it)
        res[it] = dict(A=[float(x).hex() for x in np.asarray(o.variables['A'][:], dtype='d')[0, :, 0, 0]],
                       B=[float(x).hex() for x in np.asarray(o.variables['B'][:], dtype='d')[0, :, 0, 0]],
                       nlays=int(o.NLAYS))
    return res


def impl(case):
    import numpy as np
    from PseudoNetCDF.coordutil import getinterpweights, sigma2coeff
    with np.errstate(all='ignore'):
        if case['kind'].startswith('nd'):
            return _interp_nd(case)
        if case['kind'].startswith('w'):
            if case.get('fl'):
                xs = np.array([float.fromhex(h) for h in case['xs_hex']])
                nxs = np.array([float.fromhex(h) for h in case['nxs_hex']])
                w = getinterpweights(xs, nxs, extrapolate=case['extrap'])
                return dict(W=[[float(v).hex() for v in col] for col in w.T])
            sd = case.get('sdtype', 'f8')
            xs64 = np.ldexp(np.array(case['xs'], dtype='d'), case['ue'])
            xs = xs64.astype(sd)
            if not (xs.astype('d') == xs64).all():
                raise AssertionError('source coordinate not representable in ' + sd)
            nxs = np.ldexp(np.array(case['nxs'], dtype='d'), case['ue'])
            w = getinterpweights(xs, nxs, extrapolate=case['extrap'])
            obs = {}
            if not np.isfinite(w).all():
                obs['W'] = None
                obs['nonfinite'] = True
            else:
                obs['W'] = _frac_rows(w.T)
            ov, om, oz = _interp_dimension(xs, nxs, case['data'], case['axis'], case['extrap'], sd)
            if np.isfinite(ov).all():
                obs['out'] = [[Fraction(float(v)).numerator, Fraction(float(v)).denominator] for v in ov]
                obs['m_ok'] = bool((om[:, 0] == ov).all() and (om[:, 1] == 2 * ov).all())
                obs['z'] = [float(v).hex() for v in oz]
            else:
                obs['out'] = None
            return obs
        if case.get('fl'):
            fr = [float.fromhex(h) for h in case['fr_hex']]
            to = [float.fromhex(h) for h in case['to_hex']]
            c = sigma2coeff(np.array(fr), np.array(to))
            # float32 edges for the file
            return dict(C=[[float(v).hex() for v in row] for row in c], sig=_interp_sigma(fr, to, case['data'], case['const']))
        fr = np.ldexp(np.array(case['fr'], dtype='d'), case['ue'])
        to = np.ldexp(np.array(case['to'], dtype='d'), case['ue'])
        c = sigma2coeff(fr, to)
        return dict(C=_frac_rows(c), sig=_interp_sigma(fr, to, case['data'], case['const']))


# ----------------------------------------------------------------------------- Coq side
def _fr(p):
    return '(%s, %s)' % (C.zc(p[0]), C.zc(p[1]))


def _frl(l):
    return '[' + '; '.join(_fr(p) for p in l) + ']'


def coq_term(case, obs):
    if case.get('fl') or 'raises' in obs:
        return None
    if case['kind'].startswith('nd'):
        a, b = case['lin']
        cols = []
        for col, oc in zip(case['cols'], obs['cols']):
            vs = []
            for name, tag, data in (('zc', '(Some (1, 0))', col['xs']),
                                    ('lin', '(Some (%s, %s))' % (C.zc(a), C.zc(b)), [a * x + b for x in col['xs']]),
                                    ('arb', 'None', col['arb'])):
                if name == 'zc' and case.get('sdtype') == 'f4':
                    continue      # stored back into a float32 variable: rounded to 24 bits, not an interpolation matter
                out = _frl(oc[name]) if oc[name] is not None else '[]'
                vs.append('(%s, %s, %s)' % (tag, C.zlist(data), out))
            cols.append('(%s, %s, [%s])' % (C.zlist(col['xs']), C.zlist(col['nxs']), '; '.join(vs)))
        return '(KN %s [%s])' % (C.cbool(case['extrap']), '; '.join(cols))
    if case['kind'].startswith('w'):
        if obs['W'] is None:
            w = 'None'
            out = '[]'
        else:
            w = '(Some [' + '; '.join(_frl(col) for col in obs['W']) + '])'
            out = _frl(obs['out']) if obs['out'] is not None else '[]'
        return '(KW %s %s %s %s %s %s)' % (C.cbool(case['extrap']), C.zlist(case['xs']), C.zlist(case['nxs']), C.zlist(case['data']), w, out)
    return '(KS %s %s [%s])' % (C.zlist(case['fr']), C.zlist(case['to']), '; '.join(_frl(r) for r in obs['C']))


# ----------------------------------------------------------------------------- independent oracle
def _hat_oracle(xs, x):
    """exact weights of piecewise-linear interpolation / linear extrapolation at x (xs any strict monotone order)"""
    if len(xs) == 1:
        return [Fraction(1)]          # one level: partition of unity leaves no other choice
    order = sorted(range(len(xs)), key=lambda i: xs[i])
    sx = [xs[i] for i in order]
    k = 1
    while k < len(sx) - 1 and sx[k] < x:
        k += 1
    lo, hi = k - 1, k
    t = (x - sx[lo]) / (sx[hi] - sx[lo])
    w = [Fraction(0)] * len(xs)
    w[order[lo]] = 1 - t
    w[order[hi]] = t
    return w


def _fx(h):
    v = float.fromhex(h)
    return Fraction(v) if math.isfinite(v) else None


def _sigma_check(case, obs, fr, to, tol):
    why = []
    sig = obs['sig']
    if not all(fr[-1] <= v <= fr[0] for v in to):
        return why          # target sticks out of the source column: outside the stated domain
    for it in ('conserve', 'linear'):
        if any(_fx(h) is None for h in sig[it]['A'] + sig[it]['B']):
            if it == 'linear' and len(fr) == 2:
                why.append('single-level:linear interpSigma gives NaN')
            else:
                why.append('%s: non-finite result' % it)
    if why:
        return why
    # interpSigma('linear'): layer midpoints to layer midpoints with the hat-function weights (clipped outside the range)
    zs = [(a + b) / 2 for a, b in zip(fr, fr[1:])]
    nzs = [(a + b) / 2 for a, b in zip(to, to[1:])]
    if len(zs) >= 2:
        amax = max([abs(d) for d in case['data']] + [1])
        for x, h in zip(nzs, sig['linear']['A']):
            w = _hat_oracle(zs, x)
            w = [max(Fraction(0), v) for v in w]
            t = sum(w)
            exp = sum(v / t * d for v, d in zip(w, case['data']))
            if abs(Fraction(float.fromhex(h)) - exp) > tol * amax:
                why.append('linear: value at sigma %s is %s, linear interpolation gives %s' % (float(x), float.fromhex(h), float(exp)))
    if not (fr[0] == to[0] and fr[-1] == to[-1]):
        return why
    dpi = [a - b for a, b in zip(fr, fr[1:])]
    dpo = [a - b for a, b in zip(to, to[1:])]
    sig = obs['sig']
    a_in = sum(Fraction(d) * t for d, t in zip(case['data'], dpi))
    a_out = sum(Fraction(float.fromhex(h)) * t for h, t in zip(sig['conserve']['A'], dpo))
    scale = max(abs(a_in), Fraction(1, 1000))
    if abs(a_in - a_out) > tol * scale:
        why.append('conserve: column integral %s -> %s' % (float(a_in), float(a_out)))
    for it in ('conserve', 'linear'):
        if any(abs(Fraction(float.fromhex(h)) - case['const']) > tol * case['const'] for h in sig[it]['B']):
            why.append('%s: constant field not constant: %s' % (it, [float.fromhex(h) for h in sig[it]['B']]))
        if sig[it]['nlays'] != len(to) - 1:
            why.append('NLAYS not updated')
    return why


def py_check(case, obs):
    if 'raises' in obs:
        if case['kind'] == 's-outside' and not all(case['fr'][-1] <= v <= case['fr'][0] for v in case['to']):
            return dict(s_ok=True, region=0, why='')       # target sticks out of the source column: outside the stated domain
        return dict(s_ok=False, region=0, why='raised ' + str(obs.get('raises')) + ': ' + str(obs.get('msg')))
    if case['kind'].startswith('nd'):
        # independent per-column oracle: the output must be the hat-function interpolation of that column's OWN
        # source/target pair
        why = []
        a, b = case['lin']
        for ci, (col, oc) in enumerate(zip(case['cols'], obs['cols'])):
            xs = [Fraction(v) for v in col['xs']]
            lo, hi = min(xs), max(xs)
            for name, data in (('zc', col['xs']), ('lin', [a * x + b for x in col['xs']]), ('arb', col['arb'])):
                if name == 'zc' and case.get('sdtype') == 'f4':
                    continue
                if oc[name] is None:
                    why.append('column %d %s: non-finite' % (ci, name))
                    continue
                for x, (p, q) in zip(col['nxs'], oc[name]):
                    w = _hat_oracle(xs, Fraction(x))
                    if not case['extrap']:
                        w = [max(Fraction(0), v) for v in w]
                        t = sum(w)
                        w = [v / t for v in w]
                    exp = sum(wi * di for wi, di in zip(w, data))
                    if Fraction(p, q) != exp:
                        why.append('column %d %s at %s: got %s, expected %s' % (ci, name, x, float(Fraction(p, q)), float(exp)))
        res = dict(s_ok=not why, region=0, why='; '.join(why[:3]))
        if not (obs.get('other_ok') and obs.get('src_ok')):
            res['f_ok'] = False
            res['why'] += '; a variable without the coordinate dimensions, or the source coordinate, was changed'
        return res
    if case['kind'].startswith('w'):
        if case.get('fl'):
            xs = [Fraction(float.fromhex(h)) for h in case['xs_hex']]
            nxs = [Fraction(float.fromhex(h)) for h in case['nxs_hex']]
            why = []
            tol = Fraction(1, 10 ** 11)
            for x, col in zip(nxs, obs['W']):
                w = [Fraction(float.fromhex(h)) for h in col]
                exp = _hat_oracle(xs, x)
                if not case['extrap']:
                    exp = [max(Fraction(0), v) for v in exp]
                    s = sum(exp)
                    exp = [v / s for v in exp]
                    if any(v < 0 for v in w):
                        why.append('negative weight')
                if abs(sum(w) - 1) > tol:
                    why.append('weights sum %s' % float(sum(w)))
                if any(abs(a - b) > tol for a, b in zip(w, exp)):
                    why.append('weights differ from the hat function at x=%s' % float(x))
            return dict(s_ok=not why, region=0, why='; '.join(why[:3]))
        res = dict(s_ok=True, region=1 if len(case['xs']) < 2 else 0, why='')
        why = []
        if obs.get('out') is not None and not obs.get('m_ok', True):
            res['f_ok'] = False
            why.append('2-D variable not interpolated like the 1-D one')
        if obs['W'] is not None:
            xs = [Fraction(v) for v in case['xs']]
            lo, hi = min(xs), max(xs)
            for x, col in zip(case['nxs'], obs['W']):
                w = [Fraction(p, q) for p, q in col]
                exp = _hat_oracle(xs, Fraction(x))
                if not case['extrap']:
                    exp = [max(Fraction(0), v) for v in exp]
                    s = sum(exp)
                    exp = [v / s for v in exp]
                if w != exp:
                    res['s_ok'] = False
                    why.append('weights differ from the hat function at x=%s' % x)
            # the coordinate variable itself is interpolated: inside the range it must become the target
            if obs.get('z') is not None:
                for x, hz in zip(case['nxs'], obs['z']):
                    if lo <= x <= hi and Fraction(float.fromhex(hz)) != Fraction(x) * Fraction(2) ** case['ue']:
                        res['s_ok'] = False
                        why.append('coordinate not reproduced at %s' % x)
        res['why'] = '; '.join(why[:3])
        return res
    # sigma
    if case.get('fl'):
        fr = [Fraction(float.fromhex(h)) for h in case['fr_hex']]
        to = [Fraction(float.fromhex(h)) for h in case['to_hex']]
        why = []
        tol = Fraction(1, 10 ** 11)
        c = [[Fraction(float.fromhex(h)) for h in row] for row in obs['C']]
        for lay in range(len(fr) - 1):
            for li in range(len(to) - 1):
                ov = max(Fraction(0), min(fr[lay], to[li]) - max(fr[lay + 1], to[li + 1])) / (fr[lay] - fr[lay + 1])
                if abs(c[lay][li] - ov) > tol:
                    why.append('coeff[%d][%d]=%s, overlap fraction %s' % (lay, li, float(c[lay][li]), float(ov)))
        # file edges are float32: compare against the float32 values
        import struct
        f32 = lambda v: Fraction(struct.unpack('f', struct.pack('f', float(v)))[0])   # noqa
        why += _sigma_check(case, obs, [f32(v) for v in fr], to, Fraction(1, 10 ** 5))
        region = 1 if (why and all(w.startswith('single-level') for w in why)) else 0
        return dict(s_ok=not why, region=region, why='; '.join(why[:3]))
    u = Fraction(2) ** case['ue']
    fr = [Fraction(v) * u for v in case['fr']]
    to = [Fraction(v) * u for v in case['to']]
    why = _sigma_check(case, obs, fr, to, Fraction(2, 10 ** 6))
    region = 1 if (why and all(w.startswith('single-level') for w in why)) else 0
    return dict(s_ok=not why, region=region, why='; '.join(why[:3]))


def nontrivial(case, obs):
    if 'raises' in obs:
        return False
    if case['kind'].startswith('nd'):
        return any(oc['arb'] is not None and any(q != 1 for p, q in oc['arb']) for oc in obs['cols']) or \
            any(c['nxs'] != c['xs'] for c in case['cols'])
    if case['kind'].startswith('w'):
        if case.get('fl'):
            return any(0 < float.fromhex(h) < 1 for col in obs['W'] for h in col)
        return obs['W'] is not None and any(0 < p < q for col in obs['W'] for p, q in col)
    if case.get('fl'):
        return any(0 < float.fromhex(h) < 1 for row in obs['C'] for h in row)
    return any(0 < p < q for row in obs['C'] for p, q in row)


def shrink(case):
    if case.get('fl'):
        return
    if case['kind'].startswith('nd'):
        if case['layout'] != 'izk' and case['nk'] > 2:
            for k in range(case['nk']):
                yield dict(case, nk=case['nk'] - 1, cols=case['cols'][:k] + case['cols'][k + 1:])
        m = len(case['cols'][0]['nxs'])
        if m > 1:
            for k in range(m):
                yield dict(case, cols=[dict(c, nxs=c['nxs'][:k] + c['nxs'][k + 1:]) for c in case['cols']])
        return
    if case['kind'].startswith('w'):
        if len(case['nxs']) > 1:
            for k in range(len(case['nxs'])):
                yield dict(case, nxs=case['nxs'][:k] + case['nxs'][k + 1:])
        if len(case['xs']) > 2:
            for k in (0, len(case['xs']) - 1):
                yield dict(case, xs=case['xs'][:k] + case['xs'][k + 1:], data=case['data'][:k] + case['data'][k + 1:])
    else:
        if len(case['to']) > 2:
            for k in range(1, len(case['to']) - 1):
                yield dict(case, to=case['to'][:k] + case['to'][k + 1:])


def translate():
    """Tie T for C17: (1) fail-closed AST obligations — the statements of getinterpweights / sigma2coeff / the conserve branch of
    interpSigma / the N-D branch of interpDimension that Model/Interp.v transcribes are exactly what the source says now;
    (2) coq/Gen/InterpSrc.v is regenerated: whether getinterpweights has the single-level guard."""
    import ast
    from translate import py2coq
    out = []

    def ob(anchor, ok, detail=''):
        out.append(dict(anchor=anchor, ok=bool(ok), detail='' if ok else detail))
    un = lambda n: ast.unparse(n).strip()   # noqa

    def body_of(path, name, cls=None):
        tree = ast.parse(open(path).read())
        nodes = tree.body
        if cls:
            nodes = [c for n in tree.body if isinstance(n, ast.ClassDef) and n.name == cls for c in n.body]
        for n in nodes:
            if isinstance(n, ast.FunctionDef) and n.name == name:
                b = n.body
                if b and isinstance(b[0], ast.Expr) and isinstance(getattr(b[0], 'value', None), ast.Constant) and isinstance(b[0].value.value, str):
                    b = b[1:]
                return n, b
        return None, None
    cu = os.path.join(C.SRC, 'PseudoNetCDF', 'coordutil.py')
    flag = False
    try:
        fn, body = body_of(cu, 'getinterpweights')
        stm = [un(b) for b in body]
        guard = "if np.size(xs) == 1:\n    return np.ones((1, np.size(nxs)), dtype='d')"
        core = ['from scipy.interpolate import interp1d',
                'ident = np.identity(xs.size)',
                "weight_func = interp1d(xs, ident, axis=-1, kind='linear', bounds_error=False, fill_value='extrapolate')",
                'weights = weight_func(nxs)',
                'if not extrapolate:\n    weights = np.maximum(0, weights)\n    weights /= weights.sum(0)',
                'return weights']
        flag = (stm == core[:1] + [guard] + core[1:])
        ob('coordutil.getinterpweights: body is interp1d(identity) [+ single-level guard], maximum(0, .), renormalise (impl_weights / hat)',
           stm == core or flag, 'body differs from the modelled statements: %r' % stm)
        ob('coordutil.getinterpweights: single-level guard `if np.size(xs) == 1: return np.ones((1, np.size(nxs)), dtype=\'d\')` present (fix 2b86c82)',
           flag, 'guard missing: a single source level yields NaN weights again')
        ob('coordutil.getinterpweights(xs, nxs, kind, fill_value, extrapolate=False) signature',
           [a.arg for a in fn.args.args] == ['xs', 'nxs', 'kind', 'fill_value', 'extrapolate'] and un(fn.args.defaults[-1]) == 'False', 'signature changed')
        fn, body = body_of(cu, 'sigma2coeff')
        stm = [un(b) for b in body]
        exp = ["edges = np.interp(tovglvls[::-1], fromvglvls[::-1], np.arange(fromvglvls.size)[::-1])[::-1].repeat(2, 0)[1:-1].reshape(-1, 2).astype('d')",
               "coeff = np.zeros((fromvglvls.size - 1, tovglvls.size - 1), dtype='d')",
               "for li, (b, t) in enumerate(edges):\n    ll = np.floor(b).astype('i')\n    ul = np.ceil(t).astype('i')\n    for lay in range(ll, ul):\n"
               "        bf = max(b - lay, 0)\n        tf = min(t - lay, 1)\n        myf = min(bf, tf)\n        myf = tf - bf\n        coeff[lay, li] = myf",
               'return coeff']
        ob('coordutil.sigma2coeff: interp of the target edges into source-edge indices, floor/ceil layer loop, tf - bf (fidx / cnum / impl_fdp)',
           stm == exp, 'body differs from the modelled statements: %r' % stm)
    except Exception as e:   # noqa
        ob('coordutil.py: parse', False, str(e))
    try:
        io = os.path.join(C.SRC, 'PseudoNetCDF', 'cmaqfiles', '_ioapi.py')
        fn, body = body_of(io, 'interpSigma', cls='ioapi_base')
        allst = [un(n) for n in ast.walk(fn) if isinstance(n, (ast.Assign, ast.Return))]
        for st in ["coeff = sigma2coeff(myvglvls, vglvls)", "dp_in = -np.diff(myvglvls.astype('d'))[:, None]", 'fdp = dp_in * coeff',
                   'ndp = fdp.sum(0)', 'nvals = (data[:, None] * fdp).sum(0) / ndp', 'zs = (myvglvls[:-1] + myvglvls[1:]) / 2.0',
                   'nzs = (vglvls[:-1] + vglvls[1:]) / 2.0',
                   'weights = getinterpweights(zs, nzs, kind=interptype, fill_value=fill_value, extrapolate=extrapolate)',
                   'newdata = (weights * data[:, None]).sum(0)']:
            ob('ioapi_base.interpSigma: `%s` (impl_conserve / apply_col)' % st, st in allst, 'statement not found')
        fl = os.path.join(C.SRC, 'PseudoNetCDF', 'core', '_files.py')
        fn, body = body_of(fl, 'interpDimension', cls='PseudoNetCDFFile')
        allst = [un(n) for n in ast.walk(fn) if isinstance(n, (ast.Assign, ast.Return))]
        for st in ['weights = getinterpweights(olddimvals, newdimvals, **interpkwds)', 'newdata = (weights * data[:, None]).sum(0)',
                   'od = olddimvals[ii + s_[:,] + kk]', 'nd = newdimvals[ii + s_[:,] + kk]', 'weights = getinterpweights(od, nd, **interpkwds)',
                   'interpedv = (weights * vv[ii + s_[:,] + kk][:, None]).sum(0)', 'nvv[ii + s_[...,] + kk] = interpedv']:
            ob('PseudoNetCDFFile.interpDimension: `%s` (apply_col per column)' % st, st in allst, 'statement not found')
    except Exception as e:   # noqa
        ob('interpSigma / interpDimension: parse', False, str(e))
    text = ('(* GENERATED by harness/props/c17.py translate() from %s — do not edit. *)\n'
            '(* true iff getinterpweights starts with the guard `if np.size(xs) == 1: return np.ones((1, np.size(nxs)), dtype=\'d\')` *)\n'
            'Definition single_level_ones : bool := %s.\n' % ('src/PseudoNetCDF/coordutil.py', 'true' if flag else 'false'))
    py2coq.write_if_changed(os.path.join(C.COQ, 'Gen', 'InterpSrc.v'), text)
    return out


LEVEL_TEXT = ('Theorems (Props/C17.v, all closed under the global context) over an exact Gallina model of getinterpweights / sigma2coeff / '
              'the conserve branch of interpSigma, for strictly monotonic sources in BOTH directions, ANY length >= 2 and EVERY target point: '
              'the weights sum to one (C17_weights_partition_of_unity), are non-negative when not extrapolating (C17_weights_nonneg), reproduce '
              'every linear profile exactly inside the range or when extrapolating (C17_weights_linear_exact) and are the identity at source '
              'points (C17_weights_identity); for ALL descending sigma grids the floor/ceil loop of sigma2coeff equals the layer-overlap '
              'lengths (C17_sigma2coeff_is_overlap); for grids sharing top and bottom the rows sum to the source thickness and the normaliser '
              'is the target thickness (C17_overlap_marginals), hence the thickness-weighted column integral is conserved for every field '
              '(C17_column_mass_conserved) and a constant field stays constant (C17_constant_preserved; C17_column_mass_algebra is the '
              'matrix identity used). A single source level gets weight one (C17_single_level_repaired). Tie H: library weight '
              'and coefficient matrices as exact fractions vs the model, interpDimension along either axis of 1-D/2-D variables and with N-D '
              'per-column coordinates, ioapi_base.interpSigma column integrals. Tie T: translate() compares the bodies of getinterpweights and '
              'sigma2coeff and the modelled statements of interpSigma / interpDimension with the source AST and regenerates Gen/InterpSrc.v '
              '(single-level guard present or not; C17_model_follows_source, C17_single_level_repaired).')
LEVEL_NOTE = ('Trusted: Coq kernel + vm_compute; the correspondence harness; scipy interp1d / numpy.interp abstractions (interp1d sorts a '
              'descending source = the reversal in the model); binary64 exact on power-of-two spacings. Not covered by theorems: the float32 '
              'division nvals = num / ndp in the file (checked to 2e-6), interpSigma vgtop rescaling, bpch/gcnc interpSigma variants, '
              'core/_functions.interpvars.')
TECHNIQUE = 'Coq proof (induction over the coordinate list / matrix rows, lia/ring) + differential correspondence on exact fractions'
