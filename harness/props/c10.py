"""C10 — IOAPI metadata stays coherent under every operation.
Random IOAPI files (gridded / boundary, from arrays or written to disk and read back) + random operation
sequences on the real library; after every step the redundant metadata encodings are read from the real
object and compared with Model/Ioapi.v (F) and checked for coherence (S); audit_meta(fail='ignore')
structural keys are a secondary oracle."""
import os, json
from harness import common as C

ID = 'C10'
N = {'quick': 900, 'thorough': 12000}
SEARCH_N = {'quick': 1500, 'thorough': 10000}
CASE_TIMEOUT = 40.0
SHARD = 150

NAMES = ['O3', 'NO', 'CO', 'N', 'M', 'OZONE', 'NO2', 'Q']
NID = {n: i for i, n in enumerate(NAMES)}
DK = {'TSTEP': 'DT', 'LAY': 'DL', 'ROW': 'DR', 'COL': 'DC'}
FK = {'mean': 'FMean', 'min': 'FMin', 'max': 'FMax', 'sum': 'FSum', 'half': 'FHalf'}

RULE = ('IOAPI file with 1-4 time steps (hourly or 2-hourly, inside one day), 1-4 layers, 1-3 rows/columns or a PERIM axis, 1-3 listed '
        'variables, built by ioapi_base.from_arrays (gridded or boundary), from GRIDDESC text (griddesc reader, gridded or boundary), or written to netCDF and re-opened with the ioapi reader; then 1-4 '
        'operations out of copy, subsetVariables (incl. empty and unknown selections), renameVariable (onto a fresh or an EXISTING name), deleting a variable + updatemeta(), sliceDimensions (one or two of '
        'TSTEP/LAY/ROW/COL per call; int incl. negative, slice incl. negative steps, unsorted index list), applyAlongDimensions (mean/min/max/sum or x[::2] on TSTEP/LAY/ROW/COL), eval, mask, stack on TSTEP, interpSigma; '
        'the ten metadata encodings are read after every step. Non-trivial = some successful step changed them.')
TRUSTED = ['the observation (NVARS, VAR-LIST chunks, VAR/TSTEP/LAY/ROW/COL lengths, TFLAG.shape[1] and TFLAG[:,0,:], NLAYS NROWS NCOLS, len(VGLVLS), SDATE STIME TSTEP) '
           'is read from the real object by harness/props/c10.py',
           'TFLAG re-creation is modelled inside one day only (no calendar arithmetic; C11/C12)',
           'audit_meta structural keys are used as a secondary oracle only']
ASSUMPTIONS = ['only variables with the standard dimensions are modelled',
               'of the multi-list (POINTS) selections only the zipped TSTEP+one-other-dimension form is modelled here (C01 drives the others); after a selection that leaves a non-positive TSTEP attribute the sequence stops (TFLAG re-creation is modelled for positive steps only)',
               'eval/stack directly on a netCDF4-backed ioapi object raise TypeError (as for C01) and are not generated as first step of a disk-read file']
TECHNIQUE = 'Coq proof (invariant by induction over operation sequences) + vm_compute refutation witnesses + differential correspondence on random operation sequences'
LEVEL_TEXT = ('Theorems (Props/C10.v, closed under the global context) over a structure-level Gallina model of the IOAPI wrappers (code as repaired by '
              '05b5c90 and 5e14045): from any coherent file every step of the FULL operation set of the property - copy, subsetVariables (non-empty), '
              'renameVariable, sliceDimensions (any selectors, one call over several dimensions), applyAlongDimensions (LAY/ROW/COL any function; x[::2] on '
              'TSTEP), eval, mask, stack, interpSigma - that completes yields a coherent file again, for sequences of any length '
              '(C10_step_coherent_partial, C10_run_coherent_partial, C10_updatemeta_restores); coherence implies the structural keys of the library\'s own '
              'audit_meta (C10_audit_implied); reducers along TSTEP and an empty subset are refuted with vm_compute witnesses that replay on the library '
              '(C10_apply_tstep_refuted, C10_subset_empty_refuted) = known findings. Tie H: all encodings after every step; audit_meta as secondary oracle.')
LEVEL_NOTE = 'Trusted: Coq kernel + vm_compute; the correspondence harness; TFLAG re-creation modelled within one day only.'


def nid(s):
    return NID[s]


def build(init, workdir=None):
    import numpy as np
    from PseudoNetCDF.cmaqfiles import ioapi_base
    nt, nl = init['nt'], init['nl']
    if init['how'] == 'griddesc':
        # an IOAPI file built from GRIDDESC text (cmaqfiles/_griddesc.py), gridded or boundary
        from PseudoNetCDF.cmaqfiles._griddesc import griddesc
        txt = ("' '\n'LCC'\n  2        33.000        45.000       -97.000       -97.000        40.000\n' '\n'TESTG'\n"
               "'LCC'    792000.000  -1080000.000     12000.000     12000.000 %d  %d   1\n' '\n" % (init['nc'], init['nr']))
        return griddesc(txt, GDNAM='TESTG', withcf=False, FTYPE=(1 if init['grid'] else 2), nsteps=nt,
                        var_kwds={k: dict(units='ppm') for k in init['vars']}, VGLVLS=np.linspace(1, 0, nl + 1),
                        SDATE=init['sdate'], STIME=init['stime'], TSTEP=init['tstep'])
    if init['grid']:
        shape = (nt, nl, init['nr'], init['nc'])
    else:
        shape = (nt, nl, init['nperim'])
    n = 1
    for s in shape:
        n *= s
    arrs = {k: (np.arange(n, dtype='f').reshape(shape) + i) for i, k in enumerate(init['vars'])}
    fa = dict(SDATE=init['sdate'], STIME=init['stime'], TSTEP=init['tstep'], VGLVLS=np.linspace(1, 0, nl + 1), VGTOP=5000.,
              XORIG=0., YORIG=0., XCELL=1000., YCELL=1000., NTHIK=1)
    if not init['grid']:
        fa.update(FTYPE=2, NROWS=3, NCOLS=4)
    f = ioapi_base.from_arrays(fileattrs=fa, **arrs)
    if init['how'] == 'disk':
        import PseudoNetCDF as pnc
        path = os.path.join(workdir, 'c10.nc')
        if os.path.exists(path):
            os.remove(path)
        o = f.save(path, format='NETCDF3_CLASSIC', verbose=0)
        o.close()
        return pnc.pncopen(path, format='ioapi')
    return f


def observe(f):
    import numpy as np
    dims = {k: (int(len(d)), bool(d.isunlimited())) for k, d in f.dimensions.items()}
    std = [('TSTEP', 'LAY', 'ROW', 'COL'), ('TSTEP', 'LAY', 'PERIM')]
    dvars, odd = [], []
    for k, v in f.variables.items():
        if k == 'TFLAG':
            continue
        if tuple(v.dimensions) in std and k in NID:
            dvars.append(nid(k))
        else:
            odd.append(k)
    tf = None
    if 'TFLAG' in f.variables:
        tv = f.variables['TFLAG']
        shp = [int(s) for s in tv.shape]
        rows = [[int(x) for x in r] for r in np.asarray(tv[:, 0, :]).tolist()] if (len(shp) == 3 and shp[1] > 0) else []
        tf = [shp[1] if len(shp) == 3 else -1, rows, list(tv.dimensions)]
    vls = getattr(f, 'VAR-LIST', '')
    if len(vls) % 16 == 0:
        vl = [vls[i * 16:(i + 1) * 16].strip() for i in range(len(vls) // 16)]
    else:
        vl = vls.split()
    try:
        passing, audit, va = f.audit_meta(fail='ignore')
        fails = sorted(k for k, v in audit.items() if not v and not k.startswith('type_') and k != 'SUMMARY')
    except Exception as e:
        fails = ['audit-raises:' + type(e).__name__]

    def ia(k):
        return int(getattr(f, k)) if hasattr(f, k) else -1
    return dict(nt=dims.get('TSTEP', (0, False))[0], nl=dims.get('LAY', (0, False))[0],
                nr=dims['ROW'][0] if 'ROW' in dims else None, nc=dims['COL'][0] if 'COL' in dims else None,
                vardim=dims['VAR'][0] if 'VAR' in dims else -1, ts_unl=dims.get('TSTEP', (0, False))[1],
                dvars=dvars, odd=odd, tflag=tf, nvars=ia('NVARS'), varlist=vl,
                a_nl=ia('NLAYS'), a_nr=ia('NROWS'), a_nc=ia('NCOLS'), nvgl=int(np.asarray(f.VGLVLS).size) if hasattr(f, 'VGLVLS') else -1,
                sdate=ia('SDATE'), stime=ia('STIME'), tstep=ia('TSTEP'), audit=fails, cls=type(f).__name__)


def mksel(sel):
    if sel[0] == 'int':
        return int(sel[1])
    if sel[0] == 'slice':
        return slice(sel[1], sel[2], sel[3])
    return list(sel[1])


def resolve(sel, n):
    """the selected positions, in selection order; None if the selector is out of range"""
    try:
        if sel[0] == 'int':
            return [list(range(n))[sel[1]]]
        if sel[0] == 'slice':
            return list(range(n))[slice(sel[1], sel[2], sel[3])]
        return [list(range(n))[i] for i in sel[1]]
    except IndexError:
        return None


def dimlen(st, d):
    return {'TSTEP': st['nt'], 'LAY': st['nl'], 'ROW': st['nr'], 'COL': st['nc']}[d]


def derive(f, spec):
    if spec[0] == 'self':
        return f
    return f.sliceDimensions(TSTEP=slice(0, spec[1]))


def prepare(f, op):
    import numpy as np
    k = op['op']
    if k == 'copy':
        return (lambda: f.copy()), None
    if k == 'subset':
        return (lambda: f.subsetVariables(list(op['keys']))), None
    if k == 'rename':
        return (lambda: f.renameVariable(op['old'], op['new'])), None
    if k == 'slice':
        return (lambda: f.sliceDimensions(**{d: mksel(sel) for d, sel in op['sels']})), None
    if k == 'apply':
        fn = (lambda x: x[::2]) if op['fn'] == 'half' else op['fn']
        return (lambda: f.applyAlongDimensions(**{op['d']: fn})), None
    if k == 'eval':
        return (lambda: f.eval('%s = %s * 2' % (op['new'], op['src']), copyall=op['copyall'])), None
    if k == 'mask':
        return (lambda: f.mask(greater=3.)), None
    if k == 'stack':
        other = derive(f, op['other'])
        oo = observe(other)
        return (lambda: f.stack(other, 'TSTEP')), oo
    if k == 'interp':
        return (lambda: f.interpSigma(np.linspace(1, 0, op['m'] + 1))), None
    if k == 'delete':
        def _delete():
            g = f.copy()
            del g.variables[op['key']]
            g.updatemeta()
            return g
        return _delete, None
    raise ValueError(k)


def impl(case):
    import tempfile, shutil, warnings
    import numpy as np
    warnings.simplefilter('ignore')
    work = None
    try:
        if case['init']['how'] == 'disk':
            work = tempfile.mkdtemp(dir=os.path.join(C.VERIF, '.work'))
        with np.errstate(all='ignore'):
            f = build(case['init'], work)
            states = [observe(f)]
            others = []
            raised = None
            for op in case['ops']:
                try:
                    thunk, oo = prepare(f, op)
                except Exception as e:
                    raised = 'operand:' + type(e).__name__
                    break
                others.append(oo)
                try:
                    g = thunk()
                    st = observe(g)
                except Exception as e:
                    raised = type(e).__name__
                    break
                states.append(st)
                f = g
        return dict(states=states, others=others, raised=raised)
    finally:
        if work:
            shutil.rmtree(work, ignore_errors=True)


# ----------------------------------------------------------------------------- Coq terms
def cz(z):
    return '(%d)%%Z' % int(z)


def cnames(l):
    return '[' + '; '.join('%d' % x for x in l) + ']'


def con(x):
    return 'None' if x is None else '(Some %d)' % x


def crows(rows):
    return '[' + '; '.join('(%s, %s)' % (cz(a), cz(b)) for a, b in rows) + ']'


def modelable(st):
    # variables without the standard dimensions (e.g. on POINTS after a zipped selection) are not part of the modelled state;
    # they are only tolerated when they use names the model knows
    if any(v not in NID for v in st['odd']) or any(v not in NID for v in st['varlist']):
        return False
    # -1 = attribute missing; the TSTEP attribute itself may be negative (reversed selections) but never -1 (whole hours)
    if min(st['vardim'], st['nvars'], st['a_nl'], st['a_nr'], st['a_nc'], st['nvgl'], st['sdate'], st['stime']) < 0 or st['tstep'] == -1:
        return False
    if st['tflag'] is not None and (st['tflag'][0] < 0 or st['tflag'][2] != ['TSTEP', 'VAR', 'DATE-TIME']):
        return False
    return True


def cio(st):
    tf = 'None' if st['tflag'] is None else '(Some (%d, %s))' % (st['tflag'][0], crows(st['tflag'][1]))
    return '(IO %d %d %s %s %d %s %s %s %d %s %d %d %d %d %s %s %s)' % (
        st['nt'], st['nl'], con(st['nr']), con(st['nc']), st['vardim'], C.cbool(st['ts_unl']), cnames(st['dvars']), tf,
        st['nvars'], cnames(nid(v) for v in st['varlist']), st['a_nl'], st['a_nr'], st['a_nc'], st['nvgl'],
        cz(st['sdate']), cz(st['stime']), cz(st['tstep']))


def cop(op, oo, st):
    k = op['op']
    if k == 'copy':
        return 'ICopy'
    if k == 'subset':
        return '(ISubset %s)' % cnames(nid(x) for x in op['keys'])
    if k == 'rename':
        return '(IRename %d %d)' % (nid(op['old']), nid(op['new']))
    if k == 'slice':
        parts = []
        for d, sel in op['sels']:
            n = dimlen(st, d) or 0
            idx = resolve(sel, n)
            if idx is None:
                idx = [n]                      # out of range: the model raises as well
            parts.append('(%s, %s, %s)' % (DK[d], C.cbool(sel[0] == 'list'), cnames(idx)))
        return '(ISlice [%s])' % '; '.join(parts)
    if k == 'apply':
        return '(IApply %s %s)' % (DK[op['d']], FK[op['fn']])
    if k == 'eval':
        return '(IEval %d %d %s)' % (nid(op['new']), nid(op['src']), C.cbool(op['copyall']))
    if k == 'mask':
        return 'IMask'
    if k == 'stack':
        return '(IStack %d %s)' % (oo['nt'], crows(oo['tflag'][1] if oo['tflag'] else []))
    if k == 'interp':
        return '(IInterp %d)' % op['m']
    if k == 'delete':
        return '(IDelete %d)' % nid(op['key'])
    raise ValueError(k)


def coq_term(case, obs):
    if 'raises' in obs:
        return None
    if not all(modelable(s) for s in obs['states']):
        return None
    n_ok = len(obs['states']) - 1
    real_raise = obs['raised'] is not None and not obs['raised'].startswith('operand:')
    ops = case['ops'][:n_ok + (1 if real_raise else 0)]
    terms = [cop(op, obs['others'][i], obs['states'][i]) for i, op in enumerate(ops)]
    outs = ['(Ok %s)' % cio(s) for s in obs['states'][1:]] + (['Raise'] if real_raise else [])
    return '(Case %s [%s] [%s])%%nat' % (cio(obs['states'][0]), '; '.join(terms), '; '.join(outs))


# ----------------------------------------------------------------------------- independent oracle
def coherent(st):
    why = []
    if st['nvars'] != len(st['varlist']):
        why.append('NVARS=%d but VAR-LIST has %d entries' % (st['nvars'], len(st['varlist'])))
    if st['vardim'] != st['nvars']:
        why.append('VAR dimension %d != NVARS %d' % (st['vardim'], st['nvars']))
    if st['tflag'] is None:
        why.append('no TFLAG')
    else:
        if st['tflag'][0] != st['nvars']:
            why.append('TFLAG.shape[1]=%d != NVARS %d' % (st['tflag'][0], st['nvars']))
        if not st['tflag'][1] or st['tflag'][1][0] != [st['sdate'], st['stime']]:
            why.append('first TFLAG %s != SDATE/STIME %s' % (st['tflag'][1][:1], [st['sdate'], st['stime']]))
    dv = {NAMES[i] for i in st['dvars']}
    miss = [v for v in st['varlist'] if v not in dv]
    if miss:
        why.append('listed variables missing or without the standard dimensions: %s' % miss)
    if st['a_nl'] != st['nl']:
        why.append('NLAYS %d != LAY %d' % (st['a_nl'], st['nl']))
    if st['nr'] is not None and st['a_nr'] != st['nr']:
        why.append('NROWS %d != ROW %d' % (st['a_nr'], st['nr']))
    if st['nc'] is not None and st['a_nc'] != st['nc']:
        why.append('NCOLS %d != COL %d' % (st['a_nc'], st['nc']))
    if st['nvgl'] != st['nl'] + 1:
        why.append('VGLVLS has %d entries for %d layers' % (st['nvgl'], st['nl']))
    if not st['ts_unl']:
        why.append('TSTEP not unlimited')
    return why


def py_check(case, obs):
    if 'raises' in obs:
        return dict(s_ok=False, why='harness failure: %s %s' % (obs.get('raises'), obs.get('msg')))
    why = []
    for i, st in enumerate(obs['states']):
        w = coherent(st)
        # secondary oracle: the library's own audit (structural keys); boundary files make audit_meta raise KeyError('ROW') (noted)
        aud = [a for a in st['audit'] if not a.startswith('audit-raises')]
        if aud and not w:
            w = ['audit_meta fails %s although the ten equalities hold' % aud]
        if w:
            why.append('after step %d (%s): %s' % (i, case['ops'][i - 1]['op'] if i else case['init']['how'], '; '.join(w)))
            break
    return dict(s_ok=not why, why='; '.join(why))


def nontrivial(case, obs):
    if 'raises' in obs:
        return False
    sts = obs['states']
    return any(json.dumps(sts[i], sort_keys=True) != json.dumps(sts[i - 1], sort_keys=True) for i in range(1, len(sts)))


def shrink(case):
    ops = case['ops']
    for i in range(len(ops) - 1, -1, -1):
        yield dict(case, ops=ops[:i] + ops[i + 1:])
    init = case['init']
    if len(init['vars']) > 1:
        yield dict(case, init=dict(init, vars=init['vars'][:-1]))
    if init['how'] != 'arrays':
        yield dict(case, init=dict(init, how='arrays'))
    for key in ('nt', 'nl'):
        if init[key] > 1:
            yield dict(case, init=dict(init, **{key: init[key] - 1}))


# ----------------------------------------------------------------------------- generation
def gen_init(rng):
    grid = rng.random() < 0.75
    how = rng.choice(['arrays', 'arrays', 'disk', 'griddesc'])
    vs = rng.sample(['O3', 'NO', 'CO'], rng.choice([1, 2, 2, 3, 3]))
    return dict(how=how, grid=grid, nt=rng.randint(1, 4), nl=rng.randint(1, 4), nr=rng.randint(1, 3), nc=rng.randint(1, 3),
                nperim=rng.choice([4, 6, 14]), vars=vs, sdate=rng.choice([2000001, 1999365, 2004060]),
                stime=rng.randint(0, 3) * 10000, tstep=rng.choice([10000, 10000, 20000]))


def gen_op(rng, st, first_disk, malformed, search=False):
    dv = [NAMES[i] for i in st['dvars']]
    fresh = [v for v in ['N', 'M', 'OZONE', 'NO2'] if v not in dv and v not in st['varlist']]
    kinds = ['copy', 'subset', 'subset', 'rename', 'slice', 'slice', 'slice', 'apply', 'apply', 'apply', 'eval', 'eval', 'mask', 'stack', 'interp']
    kinds += ['rename_onto', 'delete']                    # steps that reduce the number of listed variables
    if search:
        kinds += ['rename_onto', 'delete', 'rename_onto', 'delete', 'eval', 'rename', 'subset']
    if first_disk:
        kinds = [k for k in kinds if k not in ('eval', 'stack')]
    k = rng.choice(kinds)
    if k == 'rename_onto':
        # rename onto an EXISTING variable (it is overwritten; one VAR-LIST entry disappears)
        if len(dv) < 2:
            return dict(op='copy')
        old, new = rng.sample(dv, 2)
        return dict(op='rename', old=old, new=new)
    if k == 'delete':
        if not dv:
            return dict(op='copy')
        return dict(op='delete', key='Q' if malformed else rng.choice(dv))
    if k == 'copy':
        return dict(op='copy')
    if k == 'subset':
        keys = [v for v in dv if rng.random() < 0.6]
        if malformed:
            keys = keys + ['Q']
        elif rng.random() < 0.08:
            keys = []
        return dict(op='subset', keys=keys)
    if k == 'rename':
        if not dv or not fresh:
            return dict(op='copy')
        return dict(op='rename', old='Q' if malformed else rng.choice(dv), new=rng.choice(fresh))
    dl = {'TSTEP': st['nt'], 'LAY': st['nl']}
    if st['nr'] is not None:
        dl['ROW'] = st['nr']
        dl['COL'] = st['nc']
    if k == 'slice':
        ds = rng.sample(sorted(dl), min(rng.choice([1, 1, 2, 2]), len(dl)))
        if rng.random() < 0.35 and 'TSTEP' not in ds:
            ds[0] = 'TSTEP'
        haslist = False
        sels = []
        for d in ds:
            n = dl[d]
            kind = rng.choice(['int', 'slice', 'slice', 'list'])
            if kind == 'list' and haslist:
                kind = 'slice'                 # other multi-list selections take the POINTS path (C01)
            if kind == 'int':
                sel = ['int', rng.randint(-n, n - 1)]
            elif kind == 'slice':
                sel = ['slice', rng.choice([None, None, rng.randint(-n, n)]), rng.choice([None, None, rng.randint(-n, n)]),
                       rng.choice([None, 1, 2, -1, -1, -2])]
                if not resolve(sel, n):
                    sel = ['slice', None, None, rng.choice([-1, None])]
            else:
                haslist = True
                sel = ['list', rng.sample(range(n), rng.randint(1, n))]      # unsorted, distinct positions
            sels.append([d, sel])
        if rng.random() < 0.12 and len(dl) >= 2 and dl['TSTEP'] >= 1:
            # zipped selection: index lists of one length on TSTEP and on one other dimension (POINTS path; TFLAG keeps its own selection)
            other = rng.choice([d for d in sorted(dl) if d != 'TSTEP'])
            m = rng.randint(1, 3)
            sels = [['TSTEP', ['list', [rng.randrange(dl['TSTEP']) for _ in range(m)]]],
                    [other, ['list', [rng.randrange(dl[other]) for _ in range(m)]]]]
            if rng.random() < 0.4:
                third = [d for d in sorted(dl) if d not in ('TSTEP', other)]
                if third:
                    d3 = rng.choice(third)
                    sels.append([d3, ['slice', None, None, rng.choice([None, -1])]])
        if malformed:
            d = sels[0][0]
            sels[0] = [d, ['int', dl[d]]]
        return dict(op='slice', sels=sels)
    if k == 'apply':
        return dict(op='apply', d=rng.choice(sorted(dl)), fn=rng.choice(['mean', 'min', 'max', 'sum', 'half', 'half']))
    if k == 'eval':
        if not dv or not fresh:
            return dict(op='copy')
        return dict(op='eval', new=rng.choice(fresh), src='Q' if malformed else rng.choice(dv), copyall=rng.random() < 0.5)
    if k == 'mask':
        return dict(op='mask')
    if k == 'stack':
        other = ['self'] if rng.random() < 0.5 else ['head', rng.randint(1, st['nt'])]
        return dict(op='stack', other=other)
    if k == 'interp':
        return dict(op='interp', m=rng.randint(1, 4))
    return dict(op='copy')


def gen(rng, n, tier):
    import tempfile, shutil, warnings
    import numpy as np
    warnings.simplefilter('ignore')
    out = []
    work = tempfile.mkdtemp(dir=os.path.join(C.VERIF, '.work'))
    try:
        for i in range(n):
            init = gen_init(rng)
            malformed = rng.random() < 0.12
            nops = rng.randint(1, 5 if tier == 'search' else 4)
            ops = []
            try:
                with np.errstate(all='ignore'):
                    f = build(init, work)
                    st = observe(f)
                    for j in range(nops):
                        # TFLAG re-creation is modelled inside one day only: stop before a rebuild could roll over
                        if st['stime'] + (2 * st['nt']) * st['tstep'] >= 240000 or st['tstep'] % 10000 or st['nt'] > 8 or st['tstep'] <= 0:
                            break
                        op = gen_op(rng, st, j == 0 and init['how'] == 'disk', malformed and j == nops - 1, search=(tier == 'search'))
                        ops.append(op)
                        try:
                            thunk, _ = prepare(f, op)
                            f = thunk()
                            st = observe(f)
                        except Exception:
                            break
                        if coherent(st) or not modelable(st):
                            break        # incoherent result (known-defect regions): nothing is claimed about later steps
            except Exception:
                pass
            kind = ('malformed:' if malformed else '') + ('boundary:' if not init['grid'] else '') + ('griddesc:' if init['how'] == 'griddesc' else '') + (ops[-1]['op'] if ops else 'none')
            out.append(dict(kind=kind, init=init, ops=ops))
    finally:
        shutil.rmtree(work, ignore_errors=True)
    return out
