"""C05 — isolation: inputs are never modified, results never alias, closing is local.

Two streams of cases, each run in a forked child of the worker (so that the netCDF-C handle table is empty at the
start of every case and nothing leaks between cases):
  'h-*' : an interleaving of open / close / drop+collect / deferred drop / collect over 2..4 small disk files
          (cyclic GC disabled; finalisers run exactly where the harness forces them); after every step every still
          referenced object is read.
  'op-*': one transformation or query on generated input files (in memory or disk-backed); deep snapshots of the
          inputs before / after the call / after writing into every variable of the returned file, and the
          np.shares_memory relation between output and input variables.
"""
import os, sys, json, shutil, tempfile
from harness import common as C

ID = 'C05'
N = {'quick': 700, 'thorough': 15000}
SEARCH_N = {'quick': 1500, 'thorough': 10000}
SHARD = 250
CASE_TIMEOUT = 60.0

RULE = ('40% handle histories: 2..4 disk files (all NETCDF3_CLASSIC or all NETCDF4 per case), 3..12 steps of open / close (also '
        'repeated) / drop+gc.collect / deferred drop / gc.collect, streams random, close-reopen-finalise, at-most-one-close-per-object, '
        'gc-heavy; after every step each referenced object is read (own data / other file\'s data / raises). 60% operation cases: '
        'input file(s) with dims t,z,y,x (+TFLAG or time variable, float or integer, uniform or irregular coordinate, optional bounds '
        'variable, optional masked variable M, second coordinate y, P already in the reordered layout (t,z,x,y), Z without y/x; data variables A, B, P, Z plain / masked with 2-3 masked cells / masked with mask=nomask), in memory or disk-backed, and one of 42 calls (mask() with each keyword incl. where= / mask=+dims= / where as variable / by shape / coords=True; copy, subsetVariables, sliceDimensions x3, '
        'applyAlongDimensions, renameVariable, renameDimension, insertDimension, reorderDimensions, removeSingleton, stack, mask, +, '
        'eval x3, getvarpnc, slice_dim, getTimes x2, date2num, time2idx, val2idx nearest/bounds, repr, dump, save). Non-trivial = a history '
        'with a close of an already closed object, or an operation whose inputs are memory-backed.')
TRUSTED = ['netCDF-C hands out the smallest free slot (observed per object: _grpid/65536 is compared with the model, F)',
           'gc.collect() with the cyclic GC otherwise disabled finalises exactly the unreachable netcdf objects; the order of finalisers inside '
           'one collection does not matter for the handle table (closes of distinct slots commute, closes of one slot are idempotent)',
           'np.shares_memory decides buffer sharing; snapshots compare dtype/shape/bytes/mask of every variable, attribute reprs, dimension lengths']
ASSUMPTIONS = ['spontaneous cyclic-GC timing is not modelled (gc.disable(); finalisation is an explicit event)',
               'impl_effs (Model/Alias.v) is a hand-written catalogue of the effects of each call; it is tied to the code only by F']


# ================================================================================================ generators
def _gen_hist(rng, tier):
    nfiles = rng.randint(2, 4)
    style = rng.choice(['random', 'random', 'reopen-finalise', 'single-close', 'gc-heavy', 'derive-close', 'derive-close'])
    if tier == 'search':
        style = rng.choice(['random', 'reopen-finalise', 'gc-heavy', 'derive-close'])
    steps, nobj, ref, pend, closed, nder = [], 0, [], [], set(), 0
    nsteps = rng.randint(3, 12)
    for _ in range(nsteps):
        choices = ['open']
        if ref:
            choices += ['close', 'drop', 'dropdefer']
            if style == 'reopen-finalise':
                choices += ['close', 'open', 'drop']
            if style == 'gc-heavy':
                choices += ['dropdefer', 'dropdefer']
        if pend:
            choices += ['gc', 'gc'] if style == 'gc-heavy' else ['gc']
        live = [o for o in ref if o not in closed]
        if live and nder < 3:
            choices += ['derive'] * (3 if style == 'derive-close' else 1)
        if style == 'derive-close' and nder and ref:
            choices += ['close', 'drop']            # close / finalise the sources while the derived files are still used
        k = rng.choice(choices)
        if k == 'derive':
            steps.append(['derive', rng.choice(live), rng.choice(DERIVE_OPS)]); nder += 1
            continue
        if len(ref) + len(pend) >= 5 and k == 'open':
            k = rng.choice(['drop', 'close']) if ref else 'gc'
        if k == 'open':
            steps.append(['open', rng.randrange(nfiles)])
            ref.append(nobj); nobj += 1
        elif k == 'close':
            cand = [o for o in ref if o not in closed] if style == 'single-close' else ref
            if not cand:
                continue
            o = rng.choice(cand)
            steps.append(['close', o]); closed.add(o)
        elif k in ('drop', 'dropdefer'):
            cand = [o for o in ref if o not in closed] if style == 'single-close' else ref
            if not cand:
                continue
            o = rng.choice(cand)
            steps.append([k, o]); ref.remove(o)
            if k == 'dropdefer':
                pend.append(o)
            else:
                pend = []
        else:
            steps.append(['gc']); pend = []
    return dict(kind='h-' + style, nfiles=nfiles, fmt=rng.choice(['NETCDF3_CLASSIC', 'NETCDF4']), steps=steps)


DERIVE_OPS = ['copy', 'subset', 'slice', 'mask', 'renvar', 'insdim', 'rendim']   # eval / stack / reorderDimensions raise on netCDF4-backed objects (C01 finding), not used here
OPS_CLEAN = ['copy', 'subset', 'slice-slice', 'slice-int', 'slice-list', 'apply-mean', 'renvar', 'rendim', 'insdim', 'reorder', 'reorder-rot', 'reorder-same',
             'rmsingle', 'stack', 'mask', 'add', 'eval-expr', 'gettimes', 'gettimes-bounds', 'date2num', 'time2idx', 'val2idx-nearest',
             'repr', 'dump', 'save']
# mask() with each keyword; where= / mask= as a boolean array of the shape of A, with dims= naming A's dimensions, carrying a
# .dimensions attribute, or bare (matched by shape)
MASK_OPS = ['mask-greater', 'mask-greater_equal', 'mask-less', 'mask-less_equal', 'mask-values', 'mask-equal', 'mask-invalid',
            'mask-where-dims', 'mask-mask-dims', 'mask-where-var', 'mask-where-shape', 'mask-where-coords']
OPS_CLEAN = OPS_CLEAN + MASK_OPS
OPS_DEFECT = ['eval-name', 'eval-view', 'eval-revview', 'eval-asarray', 'eval-masked-name', 'getvarpnc', 'slice_dim', 'gettimes', 'gettimes-bounds', 'val2idx-bounds', 'val2idx-bounds', 'time2idx-bounds']
DISK_OK = MASK_OPS + ['copy', 'subset', 'slice-slice', 'slice-int', 'apply-mean', 'renvar', 'insdim', 'rmsingle', 'mask', 'gettimes', 'gettimes-bounds',
           'date2num', 'time2idx', 'val2idx-nearest', 'val2idx-bounds', 'repr', 'dump', 'save', 'getvarpnc', 'time2idx-bounds']


def _gen_op(rng, tier):
    backing = 'disk' if rng.random() < 0.3 else 'mem'
    op = rng.choice(OPS_DEFECT if rng.random() < (0.6 if tier == 'search' else 0.4) else OPS_CLEAN)
    if tier == 'search' and rng.random() < 0.3:
        op = rng.choice(MASK_OPS)
    if backing == 'disk' and op not in DISK_OK:
        backing = 'mem'
    spec = dict(t=rng.randint(2, 3), z=rng.randint(1, 2), y=rng.randint(2, 3), x=rng.randint(3, 4),
                xdtype=rng.choice(['d', 'd', 'f', 'i']), xuniform=rng.random() < 0.6, xbounds=rng.random() < 0.3,
                timemode=rng.choice(['time', 'tflag', 'tflag']), m635=rng.random() < 0.4, masked=rng.random() < 0.3,
                vmask=rng.choice(['plain', 'plain', 'cells', 'cells', 'cells', 'nomask']),
                seed=rng.randint(0, 10 ** 6))
    if op in ('time2idx', 'date2num', 'time2idx-bounds'):
        spec['timemode'] = 'time'
    return dict(kind='op-' + op, op=op, backing=backing, spec=spec)


def gen(rng, n, tier):
    return [(_gen_hist(rng, tier) if rng.random() < 0.4 else _gen_op(rng, tier)) for _ in range(n)]


# ================================================================================================ child side
def _fork(fn, case):
    """run fn(case, tmpdir) in a forked child; returns its JSON result"""
    import PseudoNetCDF  # noqa  (imported in the worker once; the import opens no netCDF file)
    tmp = tempfile.mkdtemp(dir=os.path.join(C.VERIF, '.work'), prefix='c05_')
    r, w = os.pipe()
    pid = os.fork()
    if pid == 0:
        code = 0
        try:
            os.close(r)
            import signal
            signal.setitimer(signal.ITIMER_REAL, 0)
            try:
                out = fn(case, tmp)
            except BaseException as e:  # noqa
                out = {'raises': type(e).__name__, 'msg': str(e)[:300]}
            with os.fdopen(w, 'w') as f:
                f.write(json.dumps(out))
        except BaseException:  # noqa
            code = 1
        finally:
            os._exit(code)
    os.close(w)
    try:
        with os.fdopen(r) as f:
            data = f.read()
        os.waitpid(pid, 0)
    except BaseException:
        try:
            os.kill(pid, 9); os.waitpid(pid, 0)
        except Exception:
            pass
        raise
    finally:
        shutil.rmtree(tmp, ignore_errors=True)
    if not data:
        return {'raises': 'ChildDied'}
    return json.loads(data)


def _read(o):
    try:
        v = o.variables['v'][:]
        return int(v[0]) // 10
    except Exception:
        return None


def _derive(o, how):
    """an in-memory file derived from the disk-backed object o (None if the derivation raises)"""
    try:
        if how == 'copy': return o.copy()
        if how == 'subset': return o.subsetVariables(['v'])
        if how == 'slice': return o.sliceDimensions(x=slice(0, 2))
        if how == 'mask': return o.mask(greater=1000)
        if how == 'renvar': return o.renameVariable('v', 'w')
        if how == 'insdim': return o.insertDimension(w=1)
        if how == 'rendim': return o.renameDimension('x', 'xx')
        if how == 'evalall': return o.eval('w = v * 1', copyall=True)
    except Exception:
        return None
    return None


def _use(g, tmp):
    """USE a derived file completely: read every variable, len / unlimited flag of every dimension, every attribute, save it.
    Returns the id of the disk file whose data comes back, None if anything raises."""
    import numpy as np
    if g is None:
        return None
    try:
        fid = None
        for k in g.variables.keys():
            a = np.ma.filled(np.ma.masked_invalid(np.asarray(g.variables[k][...], dtype='d')), -1).ravel()
            if fid is None and a.size:
                fid = int(a[0]) // 10
        for k, d in g.dimensions.items():
            len(d); d.isunlimited()
        for k in g.ncattrs():
            getattr(g, k)
        p = os.path.join(tmp, 'used.nc')
        out = g.save(p, format='NETCDF3_CLASSIC', verbose=0)
        out.close()
        os.remove(p)
        return fid
    except Exception:
        return None


def _hist_child(case, tmp):
    import gc, warnings
    warnings.simplefilter('ignore')
    gc.disable()
    gc.collect()
    import netCDF4
    from PseudoNetCDF.core._files import netcdf
    paths = []
    for i in range(case['nfiles']):
        p = os.path.join(tmp, 'f%d.nc' % i)
        f = netCDF4.Dataset(p, 'w', format=case['fmt'])
        f.createDimension('x', 3)
        v = f.createVariable('v', 'i', ('x',))
        v[:] = [10 * i, 10 * i + 1, 10 * i + 2]
        f.close()
        paths.append(p)
    del f, v
    gc.collect()
    objs, pend, slots, nobj = {}, [], [], 0
    groups, refs, obs, uses, derived = [], [], [], [], []
    for st in case['steps']:
        k = st[0]
        if k == 'open':
            objs[nobj] = netcdf(paths[st[1]])
            slots.append(int(objs[nobj]._grpid) // 65536)
            g = [['open', st[1]]]
            nobj += 1
        elif k == 'close':
            objs[st[1]].close()
            g = [['close', st[1]]]
        elif k == 'derive':
            derived.append(_derive(objs[st[1]], st[2]))
            g = [['derive', st[1]]]
        elif k == 'drop':
            del objs[st[1]]
            gc.collect()
            g = [['close', o] for o in [st[1]] + sorted(pend)]
            pend = []
        elif k == 'dropdefer':
            pend.append(st[1])
            objs.pop(st[1])                  # the last reference goes; the object sits in a reference cycle until the next collection
            g = []
        else:
            gc.collect()
            g = [['close', o] for o in sorted(pend)]
            pend = []
        groups.append(g)
        uses.append([_use(gf, tmp) for gf in derived])
        r = sorted(objs)
        refs.append(r)
        obs.append([_read(objs[o]) for o in r])
    return dict(groups=groups, refs=refs, obs=obs, slots=slots, uses=uses)


def _mkfile(spec, which, backing, tmp):
    import numpy as np
    from PseudoNetCDF import PseudoNetCDFFile
    rs = np.random.RandomState(spec['seed'] + which)
    f = PseudoNetCDFFile()
    nt, nz, ny, nx = spec['t'], spec['z'], spec['y'], spec['x']
    for k, n in (('t', nt), ('z', nz), ('y', ny), ('x', nx)):
        f.createDimension(k, n)
    f.dimensions['t'].setunlimited(True)
    xs = np.array([10, 20, 30, 40][:nx] if spec['xuniform'] else [10, 20, 35, 60][:nx], dtype=spec['xdtype'])
    v = f.createVariable('x', spec['xdtype'], ('x',)); v[:] = xs; v.units = 'm'
    if spec['xbounds']:
        f.createDimension('nv', 2)
        b = f.createVariable('x_bounds', 'd', ('x', 'nv'))
        xd = xs.astype('d')
        b[:, 0] = xd - 5; b[:, 1] = xd + 5
    if spec['timemode'] == 'time':
        tv = f.createVariable('time', 'd', ('t',)); tv[:] = np.arange(nt) + 24 * which
        tv.units = 'hours since 2000-01-01 00:00:00+0000'
    else:
        f.createDimension('VAR', 2); f.createDimension('DATE-TIME', 2)
        tf = f.createVariable('TFLAG', 'i', ('t', 'VAR', 'DATE-TIME'))
        tf[:, :, 0] = 2020001 + which; tf[:, :, 1] = (np.arange(nt) * 10000)[:, None]
        if spec['m635']:
            tf[0, :, 0] = -635
        tf.units = '<YYYYDDD,HHMMSS>'
        f.SDATE = 2020001; f.STIME = 0; f.TSTEP = 10000
    vmask = spec.get('vmask', 'plain')
    for name in ('A', 'B'):
        vals = (rs.permutation(nt * nz * ny * nx).reshape(nt, nz, ny, nx) + (1000 if name == 'B' else 0)).astype('f')
        if vmask == 'plain':
            a = f.createVariable(name, 'f', ('t', 'z', 'y', 'x'))
            a[:] = vals
        else:
            # PseudoNetCDFMaskedVariable; 'cells': a real mask array with 2..3 masked cells, 'nomask': mask is np.ma.nomask
            a = f.createVariable(name, 'f', ('t', 'z', 'y', 'x'), fill_value=-999.)
            if vmask == 'cells':
                mk = np.zeros(vals.shape, dtype=bool)
                mk.flat[rs.choice(vals.size, size=min(3, max(2, vals.size // 6)), replace=False)] = True
                a[:] = np.ma.masked_where(mk, vals)
            else:
                a[:] = vals
        a.units = 'ppb'; a.long_name = name
    # variables most calls have no work to do on: a second 1-D coordinate, a variable already laid out in the order the
    # reorder ops ask for, and a variable without the y / x dimensions (masked like A and B when vmask says so)
    yv = f.createVariable('y', 'd', ('y',)); yv[:] = np.arange(ny) + 0.5; yv.units = 'm'
    for name, dims in (('P', ('t', 'z', 'x', 'y')), ('Z', ('t', 'z'))):
        shp = tuple(dict(t=nt, z=nz, y=ny, x=nx)[d] for d in dims)
        vals = (rs.permutation(int(np.prod(shp))).reshape(shp) + 2000).astype('f')
        if vmask == 'plain':
            a = f.createVariable(name, 'f', dims); a[:] = vals
        else:
            a = f.createVariable(name, 'f', dims, fill_value=-999.)
            if vmask == 'cells':
                mk = np.zeros(shp, dtype=bool); mk.flat[rs.choice(vals.size, size=min(2, vals.size), replace=False)] = True
                a[:] = np.ma.masked_where(mk, vals)
            else:
                a[:] = vals
        a.units = 'ppb'
    if spec['masked']:
        m = f.createVariable('M', 'f', ('t', 'y', 'x'), fill_value=-999.)
        m[:] = np.ma.masked_greater(rs.permutation(nt * ny * nx).reshape(nt, ny, nx).astype('f'), nt * ny * nx - 3)
        m.units = 'k'
    f.title = 'input %d' % which
    f.setCoords(['x', 'y'] + (['time'] if spec['timemode'] == 'time' else ['TFLAG']) + (['x_bounds'] if spec['xbounds'] else []))
    if backing == 'disk':
        from PseudoNetCDF.core._files import netcdf
        p = os.path.join(tmp, 'in%d.nc' % which)
        out = f.save(p, format='NETCDF3_CLASSIC', verbose=0)
        try:
            out.close()
        except Exception:
            pass
        return netcdf(p)
    return f


def _snap(f):
    import numpy as np, hashlib
    s = {'dims': sorted((str(k), int(len(d)), bool(d.isunlimited())) for k, d in f.dimensions.items()),
         'attrs': sorted((str(k), repr(np.asarray(getattr(f, k)).tolist())) for k in f.ncattrs())}
    vs = []
    for k in f.variables.keys():
        v = f.variables[k]
        a = v[...]
        m = np.ma.getmaskarray(a) if isinstance(a, np.ma.MaskedArray) else None
        d = np.ascontiguousarray(np.ma.getdata(a))
        h = hashlib.sha1(d.tobytes()).hexdigest()[:12]
        hm = hashlib.sha1(np.ascontiguousarray(m).tobytes()).hexdigest()[:12] if m is not None else ''
        meta = (str(d.dtype), tuple(d.shape), tuple(v.dimensions), sorted((str(p), repr(np.asarray(getattr(v, p)).tolist())) for p in v.ncattrs()))
        vs.append((str(k), h, hm, repr(meta)))
    s['vars'] = vs
    return s


def _diff(ins, before, after, base):
    """ids of input buffers that differ: variable i of input file j -> base[j] + i; 1000 + j for dims/attrs/var list/metadata"""
    out = []
    for j, (b, a) in enumerate(zip(before, after)):
        if b['dims'] != a['dims'] or b['attrs'] != a['attrs'] or [v[0] for v in b['vars']] != [v[0] for v in a['vars']]:
            out.append(1000 + j)
            continue
        for i, (vb, va) in enumerate(zip(b['vars'], a['vars'])):
            if vb[1] != va[1] or vb[2] != va[2]:
                out.append(base[j] + i)
            elif vb[3] != va[3]:
                out.append(1000 + j)
    return sorted(set(out))


def _op_child(case, tmp):
    import warnings, io, contextlib
    warnings.simplefilter('ignore')
    import numpy as np
    from datetime import datetime, timezone
    from PseudoNetCDF.core._functions import getvarpnc, slice_dim
    spec, op, backing = case['spec'], case['op'], case['backing']
    f = _mkfile(spec, 0, backing, tmp)
    g = _mkfile(spec, 1, backing, tmp) if op in ('stack', 'add') else None
    ins = [f] + ([g] if g is not None else [])
    base, n = [], 0
    for fi in ins:
        base.append(n); n += len(fi.variables)
    keys0 = list(f.variables.keys())
    vid = lambda k: keys0.index(k)
    mem = backing == 'mem'
    # ---- which call of the Coq catalogue (Model/Alias.v `call`) this is, from input-side facts only
    def call_of():
        if op in ('copy',): return 'Copy'
        if op == 'subset': return 'Subset'
        if op.startswith('slice-'): return 'SliceDims'
        if op == 'apply-mean': return 'ApplyAlong'
        if op == 'renvar': return '(RenameVar %d%%nat)' % vid('A')
        if op == 'rendim': return 'RenameDim'
        if op == 'insdim': return 'InsertDim'
        if op.startswith('reorder'): return 'Reorder'
        if op == 'rmsingle': return 'RemoveSingleton'
        if op == 'stack': return 'Stack'
        if op == 'mask' or op.startswith('mask-'): return 'Mask'
        if op == 'add': return 'Binop'
        if op == 'eval-expr': return '(EvalExpr %d%%nat)' % vid('A')
        if op == 'eval-name': return '(EvalName %d%%nat)' % vid('A')
        if op == 'eval-masked-name': return '(EvalName %d%%nat)' % vid('M' if 'M' in f.variables else 'B')
        if op in ('eval-view', 'eval-revview', 'eval-asarray'): return '(EvalView %d%%nat)' % vid('A')
        if op == 'getvarpnc':
            ck = set(f.getCoords()) | set(f.variables['A'].dimensions)
            for k in list(ck):
                if k in f.variables and hasattr(f.variables[k], 'bounds'):
                    ck.add(f.variables[k].bounds.strip())
            return '(Getvarpnc %s)' % C.natlist(sorted(vid(k) for k in ck if k in f.variables))
        if op == 'slice_dim':
            return '(SliceDim %s)' % C.natlist(sorted(vid(k) for k in keys0 if 'x' in f.variables[k].dimensions))
        if op in ('gettimes', 'gettimes-bounds') and 'TFLAG' in f.variables: return '(GetTimesTflag %d%%nat)' % vid('TFLAG')
        if op == 'val2idx-bounds': return '(Val2idxBounds %d%%nat)' % vid('x')
        if op == 'time2idx-bounds': return '(Val2idxBounds %d%%nat)' % vid('time')
        allq = ['gettimes', 'gettimes-bounds', 'date2num', 'time2idx', 'val2idx-nearest', 'repr', 'dump', 'save']
        if op in allq: return '(OtherQuery %d%%nat)' % allq.index(op)
        raise ValueError('no catalogue entry for ' + op)
    # dimension objects of the inputs: id 500 + 20 * file + position
    indims = []
    for j, fi in enumerate(ins):
        for i, (dk, dv) in enumerate(fi.dimensions.items()):
            indims.append((500 + 20 * j + i, j, dk, dv))
    dimstate = lambda: [(int(len(dv)), bool(dv.isunlimited())) for _, _, _, dv in indims]
    desc = ['Call', call_of(), bool(mem), list(range(n)), [d[0] for d in indims]]
    before = [_snap(fi) for fi in ins]
    t0 = datetime(2000, 1, 1, 1, tzinfo=timezone.utc)
    res, raised = None, None
    ins_extra = []          # non-file arguments (the where= array): must come back unchanged as well
    sink = io.StringIO()
    try:
        with contextlib.redirect_stdout(sink):
            if op == 'copy': res = f.copy()
            elif op == 'subset': res = f.subsetVariables(['A'])
            elif op == 'slice-slice': res = f.sliceDimensions(x=slice(0, 2))
            elif op == 'slice-int': res = f.sliceDimensions(t=0)
            elif op == 'slice-list': res = f.sliceDimensions(x=[0, 2])
            elif op == 'apply-mean': res = f.applyAlongDimensions(y='mean')
            elif op == 'renvar': res = f.renameVariable('A', 'C')
            elif op == 'rendim': res = f.renameDimension('y', 'yy')
            elif op == 'insdim': res = f.insertDimension(w=2)
            elif op in ('reorder', 'reorder-rot', 'reorder-same'):
                alld = tuple(f.dimensions.keys())
                if op == 'reorder':          # swap y and x: A, B, M move, P / x / y / Z / time are already in order
                    newd = tuple({'y': 'x', 'x': 'y'}.get(d, d) for d in alld)
                elif op == 'reorder-rot':    # x first
                    newd = ('x',) + tuple(d for d in alld if d != 'x')
                else:                        # the order the file already has: nothing moves at all
                    newd = alld
                res = f.reorderDimensions(alld, newd)
            elif op == 'rmsingle': res = f.removeSingleton()
            elif op == 'stack': res = f.stack(g, 't')
            elif op in ('mask', 'mask-greater'): res = f.mask(greater=5)
            elif op == 'mask-greater_equal': res = f.mask(greater_equal=5)
            elif op == 'mask-less': res = f.mask(less=5)
            elif op == 'mask-less_equal': res = f.mask(less_equal=5)
            elif op == 'mask-values': res = f.mask(values=3)
            elif op == 'mask-equal': res = f.mask(equal=3)
            elif op == 'mask-invalid': res = f.mask(invalid=True)
            elif op.startswith('mask-where') or op == 'mask-mask-dims':
                av = f.variables['A']
                wh = (np.arange(int(np.prod(av.shape))).reshape(av.shape) % 3) == 1
                ins_extra.append(wh)
                if op == 'mask-where-dims': res = f.mask(where=wh, dims=tuple(av.dimensions))
                elif op == 'mask-mask-dims': res = f.mask(mask=wh, dims=tuple(av.dimensions))
                elif op == 'mask-where-shape': res = f.mask(where=wh)
                elif op == 'mask-where-coords': res = f.mask(where=wh, dims=tuple(av.dimensions), coords=True)
                else:
                    from PseudoNetCDF.core._variables import PseudoNetCDFVariable
                    whv = PseudoNetCDFVariable(f, 'wh', 'b', tuple(av.dimensions), values=wh.astype('i1'))
                    res = f.mask(where=whv)
            elif op == 'add': res = f + g
            elif op == 'eval-expr': res = f.eval('C = A * 2')
            elif op == 'eval-name': res = f.eval('C = A')
            elif op == 'eval-view': res = f.eval('C = A[:]')
            elif op == 'eval-revview': res = f.eval('C = A[::-1]')
            elif op == 'eval-asarray': res = f.eval('C = np.asarray(A)')
            elif op == 'eval-masked-name': res = f.eval('C = M' if 'M' in f.variables else 'C = B')
            elif op == 'getvarpnc': res = getvarpnc(f, ['A'])
            elif op == 'slice_dim': res = slice_dim(f, 'x,0,2')
            elif op == 'gettimes': f.getTimes()
            elif op == 'gettimes-bounds': f.getTimes(bounds=True)
            elif op == 'date2num': f.date2num([t0])
            elif op == 'time2idx': f.time2idx([t0])
            elif op == 'time2idx-bounds': f.time2idx([t0], method='bounds')
            elif op == 'val2idx-nearest': f.val2idx('x', [12, 26, 39])
            elif op == 'val2idx-bounds': f.val2idx('x', [12, 26, 39], method='bounds')
            elif op == 'repr': repr(f)
            elif op == 'dump': f.dump(outfile=sink)
            elif op == 'save':
                o = f.save(os.path.join(tmp, 'out.nc'), format='NETCDF3_CLASSIC', verbose=0)
                o.close()
            else: raise ValueError('unknown op ' + op)
    except Exception as e:
        raised = type(e).__name__ + ': ' + str(e)[:120]
    after = [_snap(fi) for fi in ins]
    mutated = _diff(ins, before, after, base)
    for wh in ins_extra:
        if not np.array_equal(wh, (np.arange(wh.size).reshape(wh.shape) % 3) == 1):
            mutated = sorted(set(mutated + [2000]))     # 2000: an array argument was modified
    aliased, later = [], []
    if res is not None and hasattr(res, 'variables'):
        inarr = []
        for j, fi in enumerate(ins):
            for i, k in enumerate(fi.variables.keys()):
                v = fi.variables[k]
                if isinstance(v, np.ndarray):
                    inarr.append((base[j] + i, v))
        outs = [res.variables[k] for k in res.variables.keys()]
        for ov in outs:
            if not isinstance(ov, np.ndarray):
                continue
            for bid, iv in inarr:
                # data buffers and mask buffers are checked separately (a result may own its data but share the mask)
                sh = np.shares_memory(np.ma.getdata(ov), np.ma.getdata(iv))
                mo, mi = np.ma.getmask(ov), np.ma.getmask(iv)
                if mo is not np.ma.nomask and mi is not np.ma.nomask and np.shares_memory(mo, mi):
                    sh = True
                if sh:
                    aliased.append(bid)
        # dimension objects: the result must not hold the input's own objects
        try:
            rdims = list(res.dimensions.items())
        except Exception:
            rdims = []
        for rk, rd in rdims:
            for did, j, dk, dv in indims:
                if rd is dv:
                    aliased.append(did)
        # attribute containers: setting / rebinding attributes on the result and on its variables must stay there
        try:
            res.c05_probe_attr = 1
            for k_ in list(res.ncattrs())[:3]:
                if k_ != 'c05_probe_attr':
                    setattr(res, k_, 'c05-changed')
            for ov in outs:
                if isinstance(ov, np.ndarray):
                    ov.c05_probe_attr = 1
                    for k_ in list(ov.ncattrs())[:2]:
                        if k_ not in ('c05_probe_attr', 'fill_value', '_FillValue', 'missing_value'):
                            setattr(ov, k_, 'c05-changed')
        except Exception:
            pass
        for ov in outs:
            try:
                if ov.dtype.kind in 'fiu':
                    ov[...] = np.ma.getdata(ov[...]) + 7
                    if isinstance(ov, np.ma.MaskedArray):
                        mo = np.ma.getmask(ov)
                        if mo is not np.ma.nomask:
                            mo[...] = ~mo            # write straight into the result's mask buffer
                        ov.mask = True
            except Exception:
                pass
        later = _diff(ins, after, [_snap(fi) for fi in ins], base)
        # write-through on the dimension objects of the result: flip the unlimited flag, change the length
        d0 = dimstate()
        for rk, rd in rdims:
            try:
                if hasattr(rd, 'setunlimited'):
                    rd.setunlimited(not rd.isunlimited())
                if hasattr(rd, '_len'):
                    rd._len = rd._len + 1
            except Exception:
                pass
        d1 = dimstate()
        later = sorted(set(later + [indims[i][0] for i in range(len(indims)) if d0[i] != d1[i]]))
        # ... and on the inputs' dimension objects: the result must not follow
        try:
            rd0 = [(int(len(rd)), bool(rd.isunlimited())) for _, rd in rdims]
            for did, j, dk, dv in indims:
                if hasattr(dv, 'setunlimited') and hasattr(dv, '_len'):
                    dv.setunlimited(not dv.isunlimited()); dv._len = dv._len + 1
            rd1 = [(int(len(rd)), bool(rd.isunlimited())) for _, rd in rdims]
            if rd0 != rd1:
                later = sorted(set(later + [did for did, j, dk, dv in indims if any(rd is dv for _, rd in rdims)] or [3001]))
            for did, j, dk, dv in indims:      # put the inputs back so that the snapshots below compare like with like
                if hasattr(dv, 'setunlimited') and hasattr(dv, '_len'):
                    dv.setunlimited(not dv.isunlimited()); dv._len = dv._len - 1
        except Exception:
            pass
        # ... and vice versa: write into every (memory-backed) input variable, data and mask; the returned file must not change
        try:
            r0 = _snap(res)
            for bid, iv in inarr:
                try:
                    if iv.dtype.kind in 'fiu':
                        iv[...] = np.ma.getdata(iv[...]) + 11
                        mi = np.ma.getmask(iv)
                        if mi is not np.ma.nomask:
                            mi[...] = ~mi
                except Exception:
                    pass
            for fi in ins:
                try:
                    if not hasattr(fi, 'filepath') or mem:
                        fi.c05_probe_in = 1
                        for k_ in list(fi.ncattrs())[:3]:
                            if k_ != 'c05_probe_in':
                                setattr(fi, k_, 'c05-in-changed')
                except Exception:
                    pass
            r1 = _snap(res)
            if r0 != r1:
                hit = []
                for (k, h0, m0, _), (_, h1, m1, _) in zip(r0['vars'], r1['vars']):
                    if h0 != h1 or m0 != m1:
                        ov = res.variables[k]
                        sh = [bid for bid, iv in inarr if isinstance(ov, np.ndarray) and (
                            np.shares_memory(np.ma.getdata(ov), np.ma.getdata(iv)) or
                            (np.ma.getmask(ov) is not np.ma.nomask and np.ma.getmask(iv) is not np.ma.nomask and
                             np.shares_memory(np.ma.getmask(ov), np.ma.getmask(iv))))]
                        hit += sh or [3000]      # 3000: result changed after a write into the inputs, sharing not located
                later = sorted(set(later + hit))
        except Exception:
            pass
    return dict(desc=desc, aliased=sorted(set(aliased)), mutated=mutated, later=later, raised=raised,
                outtype=type(res).__name__ if res is not None else None)


def impl(case):
    if case['kind'].startswith('h-'):
        return _fork(_hist_child, case)
    return _fork(_op_child, case)


# ================================================================================================ Coq terms
def coq_term(case, obs):
    if 'raises' in obs:
        return None
    if case['kind'].startswith('h-'):
        pr = lambda e: ('(P (Open %d%%nat))' % e[1] if e[0] == 'open' else
                        '(P (Close %d%%nat))' % e[1] if e[0] == 'close' else '(Derive %d%%nat)' % e[1])
        on = lambda ll: '[' + '; '.join('[' + '; '.join('None' if x is None else '(Some %d%%nat)' % x for x in o) + ']' for o in ll) + ']'
        gs = '[' + '; '.join('[' + '; '.join(pr(e) for e in g) + ']' for g in obs['groups']) + ']'
        refs = '[' + '; '.join(C.natlist(r) for r in obs['refs']) + ']'
        ob = '[' + '; '.join('[' + '; '.join('None' if x is None else '(Some %d%%nat)' % x for x in o) + ']' for o in obs['obs']) + ']'
        return '(HCase %s %s %s %s %s)' % (gs, refs, ob, C.natlist(obs['slots']), on(obs.get('uses', [[] for _ in obs['groups']])))
    d = obs['desc']
    o = '(Call %s %s %s %s)' % (d[1], C.cbool(d[2]), C.natlist(d[3]), C.natlist(d[4] if len(d) > 4 else []))
    return '(ACase %s %s %s %s)' % (o, C.natlist(obs['aliased']), C.natlist(obs['mutated']), C.natlist(obs['later']))


def py_check(case, obs):
    if 'raises' in obs:
        return dict(s_ok=False, f_ok=False, region=0, why='case runner failed: %s %s' % (obs.get('raises'), obs.get('msg', '')))
    if case['kind'].startswith('h-'):
        # independent restatement of S on the raw steps: a referenced object the program never closed must read its own file
        closed, fileof, n, why, dsrc = set(), {}, 0, [], []
        for k, (st, r, o) in enumerate(zip(case['steps'], obs['refs'], obs['obs'])):
            if st[0] == 'derive':
                dsrc.append(st[1])
            for d, val in enumerate((obs.get('uses') or [[]] * (k + 1))[k]):
                want = fileof.get(dsrc[d])
                if val != want:
                    why.append('step %d (%s): derived file %d (%s of object %d, file %s) %s when used (read all variables, len of all dimensions, save)' % (
                        k, st, d, [s_ for s_ in case['steps'] if s_[0] == 'derive'][d][2], dsrc[d], want,
                        'RAISES' if val is None else 'returns data of file %d' % val))
            if st[0] == 'open':
                fileof[n] = st[1]; n += 1
            elif st[0] == 'close':
                closed.add(st[1])
            for oid, val in zip(r, o):
                if oid not in closed and val != fileof[oid]:
                    why.append('step %d (%s): object %d (file %d, never closed) reads %s' % (k, st, oid, fileof[oid], 'INVALID' if val is None else 'data of file %d' % val))
        return dict(s_ok=not why, region=0, why='; '.join(why[:3]))
    why = []
    if obs['mutated']:
        why.append('input buffers %s changed during %s' % (obs['mutated'], case['op']))
    if obs['aliased']:
        why.append('returned file shares memory with input buffers %s' % obs['aliased'])
    if obs['later']:
        why.append('writing into the returned file changed input buffers %s' % obs['later'])
    return dict(s_ok=not why, region=0, why='; '.join(why))


def nontrivial(case, obs):
    if 'raises' in obs:
        return False
    if case['kind'].startswith('h-'):
        seen = set()
        for g in obs['groups']:
            for e in g:
                if e[0] == 'close':
                    if e[1] in seen:
                        return True
                    seen.add(e[1])
        return False
    return case['backing'] == 'mem' and obs.get('raised') is None


def shrink(case):
    if case['kind'].startswith('h-'):
        st = case['steps']
        for j in range(len(st)):
            cand = st[:j] + st[j + 1:]
            # keep only well-formed histories (object ids are creation indices): renumber is not attempted, just validate
            if _wellformed(cand):
                yield dict(case, steps=cand)
        return
    sp = case['spec']
    for k, v in (('masked', False), ('vmask', 'plain'), ('xbounds', False), ('z', 1), ('t', 2), ('y', 2), ('x', 3)):
        if sp.get(k) != v:
            yield dict(case, spec=dict(sp, **{k: v}))
    if case['backing'] == 'disk':
        yield dict(case, backing='mem')


def _wellformed(steps):
    n, ref = 0, set()
    for s in steps:
        if s[0] == 'open':
            ref.add(n); n += 1
        elif s[0] in ('close', 'derive'):
            if s[1] not in ref:
                return False
        elif s[0] in ('drop', 'dropdefer'):
            if s[1] not in ref:
                return False
            ref.discard(s[1])
    return True


# ================================================================================================ tie T (statement anchors)
ANCHORS = [
    # (file, qualified function, statement that must be present, statements that must be absent, what the model transcribes)
    ('core/_files.py', 'PseudoNetCDFFile.copyVariable', ['myvar = self.createVariable(key, dtype, dimensions, fill_value=fill_value)', 'myvar[:] = vals[:]'], [], 'CopyVariable'),
    ('core/_variables.py', 'PseudoNetCDFVariable.__new__', ['result = np.zeros(shape, typecode)', "result = kwds.pop('values')", 'result = result[...].view(subtype)'], [], 'CreateAssign / CreateValues'),
    ('core/_files.py', 'PseudoNetCDFFile._copywith', ['outf.copyVariable(vv, key=vk, withdata=data)', 'outf.copyDimension(dv, key=dk)', 'setattr(outf, pk, getattr(self, pk))'], ['outf.dimensions[dk] = dv'], 'Copy / RenameDim / CopyDimension'),
    ('core/_files.py', 'PseudoNetCDFFile.copyDimension', ['ndv = self.createDimension(key, dimlen)', 'ndv.setunlimited(unlimited)', 'return ndv'], ['return dim', 'self.dimensions[key] = dim'], 'CopyDimension'),
    ('core/_files.py', 'PseudoNetCDFFile.createDimension', ['dim = self.dimensions[name] = PseudoNetCDFDimension(self, name, length)'], [], 'CopyDimension'),
    ('core/_files.py', 'PseudoNetCDFFile.subsetVariables', ['outf.copyVariable(varo, key=varkey, withdata=True)'], [], 'Subset'),
    ('core/_files.py', 'PseudoNetCDFFile.sliceDimensions', ['newvals = varo[...]', 'newvaro[...] = newvals'], [], 'SliceDims'),
    ('core/_files.py', 'PseudoNetCDFFile.applyAlongDimensions', ['newvals = varo[...]', 'newvaro[...] = newvals'], [], 'ApplyAlong'),
    ('core/_files.py', 'PseudoNetCDFFile.renameVariables', ['outf.copyVariable(self.variables[oldkey], key=newkey)'], [], 'RenameVar'),
    ('core/_files.py', 'PseudoNetCDFFile.renameDimensions', ['outf = self.copy()'], [], 'RenameDim'),
    ('core/_files.py', 'PseudoNetCDFFile.insertDimension', ['var[...] = np.expand_dims(vv[...], axis=bi)', 'outf.copyVariable(vv, key=vk, withdata=True)'], [], 'InsertDim'),
    ('core/_files.py', 'PseudoNetCDFFile.reorderDimensions', ['outf = self.copy(variables=True)', 'newvals = vv[:].copy()', 'outf.variables[vk] = newvals'], ['newvals = vv[:]', 'newvals = vv[...]'], 'Reorder'),
    ('core/_files.py', 'PseudoNetCDFFile.removeSingleton', ['outvals = v[...]', 'ov[...] = outvals[...]'], [], 'RemoveSingleton'),
    ('core/_files.py', 'PseudoNetCDFFile.stack', ['outvar = outf.copyVariable(var, key=varkey, withdata=False)', 'outvar[...] = outvals'], [], 'Stack'),
    ('core/_files.py', 'PseudoNetCDFFile.mask', ['vals = np.ma.masked_where(where, vals)', 'newvar[...] = vals[...]', 'newvar[...] = vv[...]'], [], 'Mask'),
    ('core/_files.py', 'PseudoNetCDFFile.eval', ['val = vardict[key]', 'val = val.copy()', 'outf.variables[key] = val'], [], 'EvalExpr / EvalName / EvalView (guard_copy)'),
    ('core/_files.py', 'PseudoNetCDFFile.getTimes', ["dates = self.variables['TFLAG'][:][:, 0, 0].copy()", 'dates[dates == -635] = 1970001'], ["dates = self.variables['TFLAG'][:][:, 0, 0]"], 'GetTimesTflag'),
    ('core/_files.py', 'PseudoNetCDFFile.val2idx', ["start = dimvals[:1].astype('d')", "end = dimvals[-1:].astype('d')", 'start -= dval[0]', 'end += dval[-1]'], ['start = dimvals[:1]', 'end = dimvals[-1:]'], 'Val2idxBounds'),
    ('core/_files.py', 'netcdf.__del__', ['self.close()'], [], 'Handles: finaliser = Close'),
    ('core/_functions.py', 'getvarpnc', ['vals = var[...]', 'vals = vals.copy()'], [], 'Getvarpnc data variables'),
    ('core/_functions.py', 'slice_dim', ['outf.variables[varkey] = vout.copy()', 'p2p.addVariable(inf, outf, varkey)'], ['outf.variables[varkey] = vout'], 'SliceDim'),
    ('core/_functions.py', 'pncbo', ['tmpfile.copyVariable(in1var, key=k)'], [], 'Binop coordinates'),
]


def translate():
    """Fail-closed statement anchors: every array-creating / storing / in-place statement that Model/Alias.v prog_of transcribes
    (and the guard of netcdf.close that Model/Handles.v impl_step transcribes) is still in the source, and the pre-repair forms are not."""
    import ast
    out, trees = [], {}

    def find(tree, q):
        node = tree
        for part in q.split('.'):
            cand = [n for n in ast.iter_child_nodes(node) if isinstance(n, (ast.FunctionDef, ast.ClassDef)) and n.name == part]
            if not cand:
                return None
            node = cand[0]
        return node
    for rel, q, must, mustnot, what in ANCHORS:
        path = os.path.join(C.SRC, 'PseudoNetCDF', rel)
        try:
            if path not in trees:
                trees[path] = ast.parse(open(path).read())
            fn = find(trees[path], q)
            if fn is None:
                out.append(dict(anchor='%s %s (%s)' % (rel, q, what), ok=False, detail='function not found'))
                continue
            st = [ast.unparse(n) for n in ast.walk(fn) if isinstance(n, ast.stmt)]
            missing = [m for m in must if m not in st]
            present = [m for m in mustnot if m in st]
            out.append(dict(anchor='%s %s (%s)' % (rel, q, what), ok=not missing and not present,
                            detail=('missing: %s; ' % missing if missing else '') + ('pre-repair form present: %s' % present if present else '')))
        except Exception as e:
            out.append(dict(anchor='%s %s' % (rel, q), ok=False, detail=str(e)[:200]))
    # netcdf.close: first statement is the guard, getvarpnc coordinate copy, pncbo values=
    try:
        t = trees[os.path.join(C.SRC, 'PseudoNetCDF', 'core/_files.py')]
        cl = find(t, 'netcdf.close')
        ok = cl is not None and ast.unparse(cl.body[0]) == 'if not self.isopen():\n    return'
        out.append(dict(anchor='core/_files.py netcdf.close: first statement `if not self.isopen(): return` (Handles impl_step Close)', ok=ok, detail='' if ok else 'guard missing'))
        t2 = trees[os.path.join(C.SRC, 'PseudoNetCDF', 'core/_functions.py')]
        txt = ast.unparse(find(t2, 'getvarpnc'))
        ok = 'values=coordvar[...].copy() if copy else coordvar[...]' in txt
        out.append(dict(anchor='core/_functions.py getvarpnc: coordinate variables `values=coordvar[...].copy() if copy else ...`', ok=ok, detail='' if ok else 'changed'))
        txt = ast.unparse(find(t2, 'pncbo'))
        ok = "outval = eval('in1var[...] %s in2var[...]' % op)" in txt and 'values=outval' in txt and 'copy=False' not in txt
        out.append(dict(anchor='core/_functions.py pncbo: values=outval with outval computed by the operator (Binop)', ok=ok, detail='' if ok else 'changed'))
    except Exception as e:
        out.append(dict(anchor='guards', ok=False, detail=str(e)[:200]))
    return out


LEVEL_TEXT = ('Theorems (Props/C05.v, all closed under the global context). Handle table (Model/Handles.v, the code since fix '
              'C05-close-isopen-guard): every object that received no close reads its own file after ANY sequence of opens / closes / finalisers '
              '(C05_close_local, full strength, induction with the ownership invariant C05_slot_ownership), one more close of any object leaves '
              'what every other open object reads untouched (C05_close_is_local_step), a repeated close is a no-op (C05_close_idempotent). Buffer '
              'heap (Model/Alias.v): fresh outputs give isolation under any later writes for any heap and cell type (C05_fresh_outputs_isolated, '
              'C05_isolation_spec; the hypothesis is needed: C05_fresh_hypothesis_needed), and since the fixes C05-eval-result-copy, '
              'C05-getvarpnc-coord-copy, C05-slice_dim-copy, C05-getTimes-copy and the val2idx copies every catalogued transformation and query has '
              'no effect on its inputs (C05_isolation, C05_all_calls_isolated, C05_queries_pure: full strength over the catalogue). Tie H: handle '
              'histories (slot numbers, what every referenced object reads after every step) and the observed mutated / shared (data and mask '
              'buffers) / later-changed buffer sets of 45 calls on plain and masked inputs vs. the model; the witnesses of all repaired defects run '
              'first on every run (corpus/C05).')
LEVEL_NOTE = ('Trusted: Coq kernel + vm_compute; harness; netCDF-C slot allocation (checked per object); np.shares_memory. The effect catalogue '
              'impl_effs is hand-written from the code and tied by F only. Not covered: spontaneous GC timing; updatemeta(attdict) mutating the '
              'caller\'s dict; interpvars / interpDimension / extract; arguments other than files (selectors, arrays) being modified; time2t.')
TECHNIQUE = 'Coq proof (state-machine invariant by induction over histories; heap frame lemmas) + vm_compute refutation witnesses + differential correspondence'
