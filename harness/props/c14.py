"""C14 — truncated binary files are never silently misread: every byte prefix of generated files."""
import os, shutil
from harness import common as C, camxlib as L, gen_camx
from harness.props import c09

ID = 'C14'
N = {'quick': 40, 'thorough': 1200}          # files; each contributes one full-sweep case + 16-22 Coq-evaluated cuts
SEARCH_N = {'quick': 80, 'thorough': 400}
SHARD = 60
CASE_TIMEOUT = 120.0
RULE = ('per generated uamiv file: (a) EVERY byte prefix opened by the library Memmap reader and judged by a Python oracle (exception, or k>=1 '
        'complete steps identical to the full file\'s data and time flags); (b) a subset of cuts (every record marker, +-1 and +-4 bytes around '
        'step boundaries always included, random others) evaluated in Coq against the reader model (F) and the statement (S). Non-trivial = a cut that '
        'the reader accepted, or any Coq-evaluated cut.')
TRUSTED = c09.TRUSTED + ['numpy.memmap refuses offset+itemsize beyond the file and empty maps (modelled as Err)']
ASSUMPTIONS = ['file size < 2^53 so that the float quotient in the partial-time test is exact (C14_partial_time_test is over exact rationals)']
LEVEL_TEXT = ('Theorems (Props/C14.v): for EVERY well-formed UAM-IV file and EVERY cut point the Memmap reader model either raises or the cut is '
              'exactly header + k whole steps and it presents exactly the first k steps (C14_uamiv_every_prefix), the reader\'s result depends only '
              'on the bytes that exist (C14_uamiv_reader_local), the partial-time test on the translated expression is divisibility '
              '(C14_partial_time_test), and at specification level any accepted prefix decodes to a prefix of the records (C14_spec_prefix). '
              'Tie T: block sizes/dtypes from Gen/Camx.v. Tie H: library reader on every byte prefix vs model/statement. '
              'LATERAL BOUNDARY files: C14_lbdy_every_prefix and C14_lbdy_reader_local (same statements for the lateral_boundary reader model); '
              'C14_lbdy_ntimes_is_floor shows that the reader\'s own ntimes test can never fire (floor divisions) - ragged prefixes are rejected by '
              'numpy.memmap\'s whole-number-of-items rule, which the model states explicitly. A subset of cuts of generated boundary files is '
              'evaluated in Coq (constructor L), the full byte sweep stays in Python. '
              'ONE3D FAMILY (one3d / humidity / vertical_diffusivity; Model/One3d.v, Proofs/One3dProofs.v; Memmap reader model with the translated record_items and time_steps expressions, reshapes / first-stamp-change / memmap size rules hand-modelled): C14_one3d_accepts_iff gives the EXACT set of accepted cuts (k >= 2 whole steps, presenting exactly the first k '
              'steps; one whole step, record boundaries inside a step and ragged cuts all raise), C14_one3d_every_prefix, C14_one3d_reader_local, '
              'C14_one3d_single_step_never_opens; a subset of cuts is evaluated in Coq (constructor OD) next to the full Python sweep. '
              'TEMPERATURE and HEIGHT/PRESSURE (Model/TempHp.v, Proofs/TempHpProofs.v; layered record files over the One3d codec; both Memmap readers hand-modelled incl. the for-loop fall-through, the lazy reshapes and the marker check): C14_temperature_every_prefix and C14_temperature_accepts_iff at full strength for the reader as repaired by 9020b2c '
              '(before it the two-record prefix of every file was accepted with fabricated content: former region 14, now a corpus case), '
              'C14_heightpres_every_prefix and C14_heightpres_accepts_iff at full strength, both reader_local; cuts incl. the two-record prefix evaluated in Coq (TD / HD). '
              'WIND (Model/Wind.v, Proofs/WindProofs.v; Memmap reader hand-modelled incl. the RecordFile walk of its __init__, with a three-valued result read / raise / never returns): C14_wind_every_prefix at full strength for the reader as repaired by db74c5b / d3c85b3 (EVERY cut: raises, or presents exactly the '
              'first len / step_bytes complete steps; trailing partial steps are ignored) and C14_wind_never_hangs (the model diverges only on a '
              'corrupt size word <= -8 in the second record). Cuts incl. two inside the first step per file evaluated in Coq (WD).')
LEVEL_NOTE = ('Trusted: Coq kernel+vm_compute, py2coq, harness. Every format has a prefix theorem over its reader model; uamiv, lateral_boundary and the '
              'layered met formats also get the exhaustive Python byte sweep, cloud_rain / landuse / bpch a Coq-evaluated selection of cuts per file.')
TECHNIQUE = 'Coq proof (prefix theorem for the reader model) + exhaustive byte-prefix sweep per generated file'


def translate():
    return gen_camx.translate()


def _boundaries(c):
    ws = L.uamiv_encode(c)
    n = len(ws)
    # record boundaries in words
    bs, i = [], 0
    while i < n:
        m = ws[i] // 4
        i += m + 2
        bs.append(i)
    return n, bs


def _pick_cuts(rng, bs, nwords, hdr_n, per_step, nsteps, count=16):
    return _pick_cuts_at(rng, bs, nwords, [bs[hdr_n - 1 + k * per_step] for k in range(nsteps + 1) if hdr_n - 1 + k * per_step >= 0], count)


def _pick_cuts_at(rng, bs, nwords, step_bounds, count=16):
    """byte cuts evaluated in Coq: ALWAYS every whole-step boundary (end of header, end of each step) and its +-1 / +-4
    byte neighbours; then record markers +-1/+-4 and random offsets up to `count` cuts"""
    must = set()
    for b in step_bounds:
        must.update(4 * b + dlt for dlt in (0, -1, 1, -4, 4))
    must = sorted(x for x in must if 0 <= x < 4 * nwords)
    cuts = set()
    for b in bs:
        for dlt in (0, -1, 1, -4, 4):
            cuts.add(4 * b + dlt)
    for _ in range(6):
        cuts.add(rng.randint(0, 4 * nwords - 1))
    cuts = sorted(x for x in cuts if 0 <= x < 4 * nwords and x not in must)
    rng.shuffle(cuts)
    return must + cuts[:max(2, count - len(must))]


def gen(rng, n, tier):
    out = []
    for i in range(n):
        c = L.gen_uamiv(rng, tier)
        c['steps'] = c['steps'] + ([dict(c['steps'][-1])] if tier == 'search' else [])
        nwords, bs = _boundaries(c)
        out.append(dict(kind='sweep', content=c, cuts='all'))
        for x in _pick_cuts(rng, bs, nwords, 4, 1 + len(c['names']) * c['nz'], len(c['steps'])):
            out.append(dict(kind='cut', content=c, cut=x))
    return out


def impl(case):
    if case.get('cuts') == 'all':
        import numpy as np
        from PseudoNetCDF.camxfiles.Memmaps import uamiv
        c = case['content']
        ws = L.uamiv_encode(c)
        b = L.bytes_of_words(ws)
        full = None
        d = L.workdir()
        res = dict(n=len(b), accepted=[], bad=[])
        try:
            p = os.path.join(d, 'f.uamiv')
            with open(p, 'wb') as f:
                f.write(b)
            full = L.observe_uamiv_file(uamiv(p))
            for cut in range(len(b)):
                with open(p, 'wb') as f:
                    f.write(b[:cut])
                try:
                    o = L.observe_uamiv_file(uamiv(p))
                except Exception:
                    continue
                k = o['dims'].get('TSTEP', 0)
                ok = (1 <= k <= full['dims']['TSTEP'] and o['vars'] == full['vars']
                      and all(o['dims'][x] == full['dims'][x] for x in ('LAY', 'ROW', 'COL', 'VAR'))
                      and all(o['data'][v] == full['data'][v][:k] for v in full['vars'])
                      and o['TFLAG'] == full['TFLAG'][:k] and o['ETFLAG'] == full['ETFLAG'][:k])
                res['accepted'].append([cut, k])
                if not ok:
                    res['bad'].append([cut, k])
        finally:
            shutil.rmtree(d, ignore_errors=True)
        return res
    return c09.run_uamiv(case)


def coq_term(case, obs):
    if case.get('cuts') == 'all':
        return None
    return c09.coq_term(case, obs)


def py_check(case, obs):
    if 'raises' in obs:
        return dict(s_ok=False, why='harness/impl raised ' + str(obs))
    if case.get('cuts') == 'all':
        if obs['bad']:
            return dict(s_ok=False, why='prefix of %d bytes opened with fabricated/shifted content: %s' % (obs['bad'][0][0], obs['bad'][:3]))
        return dict(s_ok=True)
    return dict(s_ok=True)


def nontrivial(case, obs):
    if case.get('cuts') == 'all':
        return len(obs.get('accepted', [])) > 0
    return True


def shrink(case):
    for x in c09.shrink(case):
        if x.get('cut') is None or x.get('cuts') == 'all':
            yield x


# ----------------------------------------------------------------------------- met formats: every prefix (python oracle)
from harness import camxfmt as M, metcheck as MC  # noqa

_gen_u = gen


def _lb_cuts(rng, c, count=16):
    """byte cuts of a lateral-boundary file evaluated in Coq (see _pick_cuts)"""
    recs = M.records(c)
    bs, i = [], 0
    for r in recs:
        i += len(r) + 2
        bs.append(i)
    per_step = 1 + 4 * len(c['names'])
    return _pick_cuts(rng, bs, i, len(recs) - per_step * len(c['steps']), per_step, len(c['steps']), count)


def gen(rng, n, tier):  # noqa: F811
    out = _gen_u(rng, n, tier)
    for i in range(n):
        c = MC.gen_any(rng, tier=tier, min_steps=2)
        out.append(dict(kind='met-sweep-' + c['fmt'], content=c, write=False, sweep=True))
        if c['fmt'] in M.O3_FORMATS + M.TH_FORMATS:
            # layered met formats: a subset of cuts evaluated in Coq (Model/One3d.v, Model/TempHp.v) next to the full sweep;
            # always every whole-step boundary and, for temperature, the two-record prefix (accepted before 9020b2c)
            ri = c['nx'] * c['ny'] + 4
            m = M.recs_per_step(c)
            nrec = m * len(c['steps'])
            bs = [ri * (j + 1) for j in range(nrec)]
            bounds = [ri * m * k for k in range(1, len(c['steps']) + 1)] + ([2 * ri] if c['fmt'] == 'temperature' else [])
            for x in _pick_cuts_at(rng, bs, ri * nrec, bounds, 14):
                out.append(dict(kind='layered-cut', content=c, cut=x))
        if c['fmt'] == 'wind':
            # wind: cuts evaluated in Coq (Model/Wind.v): the end of every step's data (the dummy record missing), whole
            # steps, just past a step's data; two cuts inside the first step (the reader never returned there before db74c5b)
            # and a few cuts after the first step
            hdr = 20 if c.get('lstagger') is not None else 16
            dat = 4 * c['nx'] * c['ny'] + 8
            body = hdr + 2 * c['nz'] * dat
            stepb = body + 12
            total = stepb * len(c['steps'])
            cuts = set()
            for k in range(1, len(c['steps']) + 1):
                cuts.update([k * stepb, k * stepb - 12, k * stepb - 8, k * stepb - 13, (k - 1) * stepb + body + 4])
            cuts.update([hdr + rng.randint(0, 2 * c['nz'] - 1) * dat + rng.choice([4, 8, dat]), rng.choice([12, hdr, hdr - 1, 11])])
            for _ in range(4):
                cuts.add(rng.randint(min(total - 1, body + 4), total - 1))
            for x in sorted(x for x in cuts if 0 <= x < total):
                out.append(dict(kind='wind-cut', content=c, cut=x, guard=1.0))
    # cloud/rain files: cuts evaluated in Coq (Model/CloudRain.v cr_mm_read, incl. the size-based layout guess): the header,
    # every whole-step boundary of the file's own layout AND of the other layout (a 5-field file cut after header + one 3-field
    # step IS a valid 3-field file: region 20), their +-1/+-4 neighbours, random offsets
    for i in range(max(2, n // 8)):
        c = M.gen_cloud_rain(rng, tier)
        while len(c['steps']) < 2:
            c = M.gen_cloud_rain(rng, tier)
        lay = c['nz'] * (c['nx'] * c['ny'] + 2) * 4
        total = 40 + len(c['steps']) * (len(c['names']) * lay + 16)
        must = set([0, 3, 4, 36, 40, 44, 52])
        for nv in (3, 5):
            for k in range(1, len(c['steps']) * 2 + 1):
                must.update(40 + k * (nv * lay + 16) + dlt for dlt in ((0, -1, 1, -4, 4) if k <= 2 else (0,)))
        for _ in range(6):
            must.add(rng.randint(0, total - 1))
        cuts = sorted(x for x in must if 0 <= x < total)
        if len(cuts) > 30:
            keep = set(x for x in cuts if (x - 40) > 0 and ((x - 40) % (3 * lay + 16) == 0 or (x - 40) % (5 * lay + 16) == 0))
            rest = [x for x in cuts if x not in keep]
            rng.shuffle(rest)
            cuts = sorted(keep | set(rest[:max(0, 30 - len(keep))]))
        for x in cuts:
            out.append(dict(kind='cr-cut', content=c, cut=x, guard=2.0))
    # lateral-boundary files: a subset of cuts evaluated in Coq (Model/Lbdy.v); the full Python sweep of every prefix
    # runs on the lateral_boundary share of the met-sweep stream above (and on every third file of this stream)
    for i in range(max(1, n // 6)):
        c = M.gen_lb(rng, tier)
        if tier == 'search' or len(c['steps']) < 2:
            c['steps'] = c['steps'] + [dict(c['steps'][-1])]
        if i % 3 == 0:
            out.append(dict(kind='met-sweep-lateral_boundary', content=c, write=False, sweep=True))
        for x in _lb_cuts(rng, c):
            out.append(dict(kind='lbdy-cut', content=c, cut=x))
    return out


_impl_u = impl


def impl(case):  # noqa: F811
    if MC.is_lb(case):
        return MC.run_lb(case)
    if MC.is_layered(case):
        return MC.run_o3(case)
    if case['kind'].startswith('met-'):
        return MC.run_met(case)
    return _impl_u(case)


_coq_u = coq_term


def coq_term(case, obs):  # noqa: F811
    if MC.is_lb(case):
        return None if 'raises' in obs else MC.lb_term_read(case, obs)
    if MC.is_layered(case):
        return None if 'raises' in obs else MC.layered_term(case, obs)
    if case['kind'].startswith('met-'):
        return None
    return _coq_u(case, obs)


_py_u = py_check


def py_check(case, obs):  # noqa: F811
    if MC.is_lb(case):
        if 'raises' in obs:
            return dict(s_ok=False, why='harness/impl raised ' + str(obs))
        why = MC.lb_py_check(case, obs)
        if (obs.get('full') or {}).get('status') != 'ok':
            why.append('library reader %s on the whole file' % (obs.get('full') or {}).get('status'))
        return dict(s_ok=not why, region=0, why='; '.join(why[:3]))
    if MC.is_layered(case):
        if 'raises' in obs:
            return dict(s_ok=False, why='harness/impl raised ' + str(obs))
        why = MC.layered_py_check(case, obs)
        return dict(s_ok=not why, region=0, why='; '.join(why[:3]))
    if not case['kind'].startswith('met-'):
        return _py_u(case, obs)
    if 'raises' in obs:
        return dict(s_ok=False, why='harness/impl raised ' + str(obs))
    sw = obs['sweep']
    c = case['content']
    why = []
    if sw['bad']:
        why.append('prefix of %d of %d bytes opened with fabricated/shifted content (%s); %d such prefixes' % (
            sw['bad'][0][0], sw['n'], sw['bad'][0][2], len(sw['bad'])))
    if sw['timeouts']:
        why.append('reader did not terminate on %d prefixes (0.5 s limit each; sweep stopped after 3)' % sw['timeouts'])
    region = 0   # (region 14, temperature two-record prefix, retired by 9020b2c; region 15, wind prefix hangs, by db74c5b)
    return dict(s_ok=not why, region=region, why='; '.join(why), timeouts=sw['timeouts'])



_nt_u = nontrivial


def nontrivial(case, obs):  # noqa: F811
    if MC.is_lb(case) or MC.is_layered(case):
        return True
    if case['kind'].startswith('met-'):
        return len(obs.get('sweep', {}).get('accepted', [])) > 0
    return _nt_u(case, obs)


LEVEL_TEXT += (' CLOUD/RAIN (Model/CloudRain.v, Proofs/CloudRainProofs.v): C14_cloudrain_every_prefix - for EVERY well-formed file and EVERY byte prefix the reader '
               'raises, or the prefix is the header plus a whole number of steps of one of the two layouts, and when the layout picked is the file\'s own exactly the '
               'first k steps are presented; C14_cloudrain_whole_step_prefix; the other alternative is real and inherent (C14_cloudrain_prefix_other_layout_refuted, '
               'known finding C14-cloud-rain-prefix-other-layout, region 20: a 5-field file cut after header + one 3-field step IS a valid 3-field file). Cuts evaluated '
               'in Coq (kind cr-cut: header, whole steps of both layouts +-1/+-4, random).')
RULE += (' CLOUD/RAIN: per generated file (3- and 5-field layouts) up to 30 cuts evaluated in Coq: header region, every whole-step boundary of both layouts, +-1/+-4 '
         'bytes, random offsets; region 20 = data size a whole number of steps of the other layout only.')


# ----------------------------------------------------------------------------- land-use files evaluated in Coq (Model/Landuse.v)
from harness import landusecheck as LU  # noqa: E402

_lu_prev = dict(gen=gen, impl=impl, coq_term=coq_term, py_check=py_check, nontrivial=nontrivial, shrink=shrink)


def gen(rng, n, tier):  # noqa: F811
    out = _lu_prev['gen'](rng, n, tier)
    # old-style (fland, optional topo) and new-style (LUCAT11 / LUCAT26 key, optional LAI / TOPO) files; a share with first payload
    # bytes that are no UTF-8 (the reader decodes them to sniff the style: region 16)
    for i in range(max(3, n // 12)):
        c = LU.gen_lu(rng, tier)
        for x in LU.cuts_of(rng, c):
            out.append(dict(kind='lu-cut', content=c, cut=x))
    return out


def impl(case):  # noqa: F811
    return LU.run_lu(case) if LU.is_lu(case) else _lu_prev['impl'](case)


def coq_term(case, obs):  # noqa: F811
    if LU.is_lu(case):
        return None if 'raises' in obs else LU.lu_term(case, obs)
    return _lu_prev['coq_term'](case, obs)


def py_check(case, obs):  # noqa: F811
    if LU.is_lu(case):
        if 'raises' in obs:
            return dict(s_ok=False, why='harness/impl raised ' + str(obs))
        why = LU.lu_py_check(case, obs)
        return dict(s_ok=not why, region=LU.lu_region(case, obs), why='; '.join(why[:3]))
    return _lu_prev['py_check'](case, obs)


def nontrivial(case, obs):  # noqa: F811
    if LU.is_lu(case):
        return obs.get('mm', {}).get('status') == 'ok' or case.get('cut') is not None
    return _lu_prev['nontrivial'](case, obs)


def shrink(case):  # noqa: F811
    return [] if LU.is_lu(case) else _lu_prev['shrink'](case)


LEVEL_TEXT += (' LAND USE (Model/Landuse.v): C14_landuse_every_prefix - the reader accepts a byte prefix only at the end of the land-use record or of an optional '
               'record, and then presents exactly the first records of the content (such a prefix is itself a valid file). Cuts evaluated in Coq (kind lu-cut).')


# ----------------------------------------------------------------------------- GEOS-Chem bpch byte prefixes
# C14 names bpch in its quantifier: cuts of reference-encoded bpch files through bpch1 (harness/bpchprefix.py reuses the C18
# machinery; Coq side Corr/BpchPrefix.v, theorem Proofs/BpchPrefixThm.v prefix_open). Corr/C14.v wraps the CAMx terms in `Old`.
from harness import bpchprefix as BP, gen_bpch as _gen_bpch  # noqa: E402

_bp_prev = dict(gen=gen, impl=impl, coq_term=coq_term, py_check=py_check, nontrivial=nontrivial, shrink=shrink, translate=translate)


def gen(rng, n, tier):  # noqa: F811
    return _bp_prev['gen'](rng, n, tier) + BP.gen(rng, max(2, n // 4), tier)


def impl(case):  # noqa: F811
    return BP.impl(case) if BP.is_bpch(case) else _bp_prev['impl'](case)


def coq_term(case, obs):  # noqa: F811
    if BP.is_bpch(case):
        return BP.coq_term(case, obs)
    t = _bp_prev['coq_term'](case, obs)
    return None if t is None else '(Old %s)' % t


def py_check(case, obs):  # noqa: F811
    return BP.py_check(case, obs) if BP.is_bpch(case) else _bp_prev['py_check'](case, obs)


def nontrivial(case, obs):  # noqa: F811
    return BP.nontrivial(case, obs) if BP.is_bpch(case) else _bp_prev['nontrivial'](case, obs)


def shrink(case):  # noqa: F811
    return [] if BP.is_bpch(case) else _bp_prev['shrink'](case)


def translate():  # noqa: F811
    return _bp_prev['translate']() + _gen_bpch.translate()


RULE += (' BPCH: per generated GEOS-Chem bpch file (1-3 time blocks x 1-3 tracers, per-tracer layer counts, nested offsets, generated tracerinfo/diaginfo) '
         'a set of cuts - every time-block end, every tracer boundary of the first time block, +-1/+-4 bytes and one header (216..232 bytes) around block '
         'ends, the header region, random bytes - opened by bpch1 and evaluated in Coq (constructor BP: F = reader model, S = raises or exactly k whole time '
         'blocks) and by an independent Python oracle; region 18 = cut exactly at a tracer boundary inside the first time block.')
TRUSTED = TRUSTED + ['bpch: the trusted base of C18 (numpy structured dtype over a memmap = fixed-size chunking; character fields and time stamps are moved; '
                     'harness string pools)']
LEVEL_TEXT += (' GEOS-CHEM BPCH (Model/Bpch.v, Proofs/BpchPrefixProofs.v, Proofs/BpchPrefixThm.v; bpch1 header walk, time_type strides and itemcount modelled over the '
               'translated dtype literals of Gen/Bpch.v): C14_bpch_every_prefix at full strength - for every bpch-convention file and every cut the reader raises, or '
               'presents exactly the first k whole time blocks, or (cut exactly at a tracer boundary inside the FIRST time block) one time block with the first j '
               'tracers; the last alternative is real (C14_bpch_first_block_tracer_cut_refuted, known finding C14-bpch-first-block-tracer-cut, region 18: the format '
               'has no tracer count). Cuts evaluated in Coq (constructor BP) and by a Python oracle.')
