"""C15 — format auto-detection depends only on the file, not on history.

A case is a HISTORY of opens over a fixed pool of small files (every self-describing format the pinned
environment can read, each under a telling extension, without extension, and under misleading / unknown
extensions, plus malformed files).  Every history runs in a FRESH Python interpreter (a subprocess spawned
from impl()); every step of the history is at the same time a probe "after the prefix before it".
Observed per step: the reader class getreader() selected (or the exception that escaped it), the class /
dimensions / per-variable data digests of what pncopen() returned, and the registry before and after.

Measured once per ./check run, each in its own fresh interpreter per pool file and cached under
.work/<pid>/c15cache: (A) the accept matrix reader.isMine(path) for every registered reader class, followed by
the explicitly-named opens; (B) the fresh auto-detected open (history of length one).

This file is also the child program:  python -B c15.py child  < json  > json
"""
import os, sys, json, hashlib, subprocess, shutil, fcntl, time

ID = 'C15'
N = {'quick': 120, 'thorough': 3000}
SEARCH_N = {'quick': 150, 'thorough': 1500}
SHARD = 30
CASE_TIMEOUT = 900.0
HERE = os.path.abspath(__file__)
VERIF = os.path.dirname(os.path.dirname(os.path.dirname(HERE)))

RULE = ('histories of 1..7 opens (auto-detected, a few with format= named) over a pool of ~35 files: netCDF3/netCDF4/IOAPI/WRF-like '
        'files written with netCDF4, the shipped uamiv / lateral_boundary / humidity / vertical_diffusivity / ffi1001 / bpch / csv / '
        'point_source / wind samples, each under a telling extension, without extension and under misleading or unknown extensions, plus '
        'empty / 2-byte / ARL-stub files; streams: random, "telling-extension opens then extension-less probes", "same file k times", '
        'named opens interleaved, named opens of copies under novel suffixes (.grd01, .20200101, .dat, .bin) followed by auto-detected probes of the ambiguous one3d-family / netCDF files and of the same paths, suffixes equal to a reader name in another case (RUN1.HUMIDITY, OUT.NC, avrg.Uamiv, ioapi3.IOAPI) opened auto-detected or named before such probes, malformed; the registry (names, classes, order) is compared with the initial one after every step.  Each history runs in a fresh interpreter; every step is compared with the fresh-interpreter '
        'open of the same file and with the model replayed on the measured accept matrix.  Non-trivial = at least one step whose '
        'history contains an earlier telling-extension open whose reader claims (or chokes on) the probed file (the pattern that failed before fix C15-registry-alias).')
TRUSTED = ['accepts(reader, file) = reader.isMine(path) measured once per file in a fresh interpreter (all readers in registry order in one '
           'process): assumed to be a function of (reader class, file) only; F on every history step is what tests this assumption',
           'the selection is observed by wrapping _getreader.getreader from outside (the library function itself runs unchanged, once)',
           'the data presented is compared through sha1 digests of dtype/shape/bytes/mask of every variable and the dimension lengths']
ASSUMPTIONS = ['CPython runs no import-time registration after `import PseudoNetCDF` (the registry snapshot taken right after import is the '
               'initial state of the model)',
               'spontaneous cyclic-GC timing is not modelled; files opened by a history are either all kept referenced or all dropped at once']

T = 'src/PseudoNetCDF/testcase'
SAMPLES = dict(uamiv='camxfiles/uamiv/test.uamiv', point_source='camxfiles/point_source/test.point_source',
               lateral_boundary='camxfiles/lateral_boundary/test.lateral_boundary', humidity='camxfiles/humidity/test.humidity',
               vertical_diffusivity='camxfiles/vertical_diffusivity/test.vertical_diffusivity', wind='camxfiles/wind/test.wind',
               temperature='camxfiles/temperature/test.temperature', height_pressure='camxfiles/height_pressure/test.height_pressure',
               bpch='geoschemfiles/test.bpch', ffi1001='icarttfiles/test.ffi1001', csv='woudcfiles/test_woudc.csv')

# pool: file name -> (content key, ground-truth format name for the "named" open or None, self-describing?)
POOL = [
    ('plain3.nc', 'plain3', 'netcdf', True), ('plain3', 'plain3', 'netcdf', True),
    ('plain3.dat', 'plain3', 'netcdf', True), ('plain3.uamiv', 'plain3', 'netcdf', True),
    ('plain4.nc', 'plain4', 'netcdf', True), ('plain4', 'plain4', 'netcdf', True),
    ('ioapi3.nc', 'ioapi3', 'ioapi', True), ('ioapi3', 'ioapi3', 'ioapi', True), ('ioapi3.ioapi', 'ioapi3', 'ioapi', True),
    ('wrfout_d01', 'wrf3', 'wrf', True), ('wrfout.nc', 'wrf3', 'wrf', True), ('wrfout.wrf', 'wrf3', 'wrf', True),
    ('avrg.uamiv', 'uamiv', 'uamiv', True), ('avrg', 'uamiv', 'uamiv', True), ('avrg.bin', 'uamiv', 'uamiv', True),
    ('avrg.nc', 'uamiv', 'uamiv', True),
    ('bc.lateral_boundary', 'lateral_boundary', 'lateral_boundary', True), ('bc', 'lateral_boundary', 'lateral_boundary', True),
    ('met.humidity', 'humidity', 'humidity', True), ('met_hum', 'humidity', 'humidity', True),
    ('met.vertical_diffusivity', 'vertical_diffusivity', 'vertical_diffusivity', True), ('met_kv', 'vertical_diffusivity', 'vertical_diffusivity', True),
    ('obs.ffi1001', 'ffi1001', 'ffi1001', True), ('obs.ict', 'ffi1001', 'ffi1001', True), ('obs', 'ffi1001', 'ffi1001', True),
    ('ctm.bpch', 'bpch', 'bpch', True), ('ctm', 'bpch', 'bpch', True),
    ('pt.point_source', 'point_source', 'point_source', True), ('pt', 'point_source', 'point_source', True),
    ('sonde.csv', 'csv', 'csv', False),
    ('met.wind', 'wind', None, False),
    ('empty', 'empty', None, False), ('short.nc', 'short', None, False), ('arlstub', 'arlstub', None, False),
    # novel suffixes (no reader is registered under grd01 / 20200101 / dat / bin) on the one-variable CAMx family, and
    # suffix-less temperature / height_pressure samples, which the humidity / vertical_diffusivity / one3d isMine claim too
    ('hum.grd01', 'humidity', 'humidity', True), ('kv.grd01', 'vertical_diffusivity', 'vertical_diffusivity', True),
    ('hum.20200101', 'humidity', 'humidity', True), ('met_kv.dat', 'vertical_diffusivity', 'vertical_diffusivity', True),
    ('temp3d', 'temperature', 'temperature', False), ('zp.bin', 'height_pressure', 'height_pressure', False),
    # suffixes that equal a reader name in another case (not registered names: the lookup is case sensitive)
    ('RUN1.HUMIDITY', 'humidity', 'humidity', True), ('OUT.NC', 'plain3', 'netcdf', True),
    ('avrg.Uamiv', 'uamiv', 'uamiv', True), ('ioapi3.IOAPI', 'ioapi3', 'ioapi', True),
]
POOLD = {p[0]: p for p in POOL}


# ------------------------------------------------------------------------------------------------ pool
def _write_nc(path, kind):
    import numpy as np, netCDF4
    fmt = 'NETCDF4' if kind == 'plain4' else 'NETCDF3_CLASSIC'
    f = netCDF4.Dataset(path, 'w', format=fmt)
    if kind == 'ioapi3':
        for k, n in [('TSTEP', None), ('DATE-TIME', 2), ('LAY', 1), ('VAR', 1), ('ROW', 2), ('COL', 3)]:
            f.createDimension(k, n)
        for k, v in dict(XORIG=0., YORIG=0., XCELL=1000., YCELL=1000., SDATE=2020001, STIME=0, TSTEP=10000, NVARS=1, NCOLS=3,
                         NROWS=2, NLAYS=1, GDTYP=2, P_ALP=33., P_BET=45., P_GAM=-97., XCENT=-97., YCENT=40., FTYPE=1, VGTYP=7,
                         VGTOP=5000., NTHIK=1).items():
            setattr(f, k, v)
        f.VGLVLS = np.array([1., 0.], 'f')
        setattr(f, 'VAR-LIST', 'O3'.ljust(16))
        f.GDNAM = 'G'.ljust(16); f.UPNAM = 'X'.ljust(16); f.FILEDESC = 'd'.ljust(80); f.HISTORY = ''
        t = f.createVariable('TFLAG', 'i', ('TSTEP', 'VAR', 'DATE-TIME'))
        t.units = '<YYYYDDD,HHMMSS>'; t.long_name = 'TFLAG'.ljust(16); t.var_desc = 'TFLAG'.ljust(80)
        v = f.createVariable('O3', 'f', ('TSTEP', 'LAY', 'ROW', 'COL'))
        v.units = 'ppm'.ljust(16); v.long_name = 'O3'.ljust(16); v.var_desc = 'O3'.ljust(80)
        t[0:2, 0, 0] = 2020001; t[0:2, 0, 1] = [0, 10000]
        v[0:2] = np.arange(12, dtype='f').reshape(2, 1, 2, 3)
    elif kind == 'wrf3':
        for k, n in [('Time', None), ('bottom_top', 2), ('west_east', 3), ('north_south', 2)]:
            f.createDimension(k, n)
        v = f.createVariable('T', 'f', ('Time', 'bottom_top', 'north_south', 'west_east'))
        v[0:1] = np.arange(12, dtype='f').reshape(1, 2, 2, 3)
    else:
        f.createDimension('t', None); f.createDimension('x', 4)
        x = f.createVariable('x', 'd', ('x',)); x[:] = [10, 20, 30, 40]
        v = f.createVariable('v', 'f', ('t', 'x')); v[0:2] = np.arange(8, dtype='f').reshape(2, 4); v.units = 'm'
        f.title = 'plain'
    f.close()


def _build_pool(d, repo):
    os.makedirs(d, exist_ok=True)
    content = {}
    for k in ('plain3', 'plain4', 'ioapi3', 'wrf3'):
        p = os.path.join(d, '_c_' + k)
        _write_nc(p, k)
        content[k] = open(p, 'rb').read()
        os.remove(p)
    for k, rel in SAMPLES.items():
        content[k] = open(os.path.join(repo, T, rel), 'rb').read()
    content['empty'] = b''
    content['short'] = b'ab'
    content['arlstub'] = b'2001010000 0 0INDX' + b' ' * 90
    content['aermod'] = b'* AERMOD ( 12345 ): test\n* second line\n'
    for fn, ck, _, _ in POOL:
        with open(os.path.join(d, fn), 'wb') as f:
            f.write(content[ck])


# ------------------------------------------------------------------------------------------------ child
def _clskey(c):
    return getattr(c, '__module__', '?') + '.' + getattr(c, '__name__', '?')


def _present(f):
    import numpy as np
    out = {'cls': _clskey(type(f))}
    try:
        out['dims'] = sorted((str(k), int(len(v))) for k, v in f.dimensions.items())
    except Exception as e:
        out['dims'] = 'raises:' + type(e).__name__
    vs = {}
    try:
        keys = list(f.variables.keys())
    except Exception as e:
        keys = []
        out['vars_raise'] = type(e).__name__
    for k in keys:
        try:
            a = f.variables[k][...]
            m = np.ma.getmaskarray(a) if isinstance(a, np.ma.MaskedArray) else None
            d = np.ascontiguousarray(np.ma.getdata(a) if m is not None else np.asarray(a))
            if m is not None and m.any():
                d = d.copy(); d[m] = 0
            h = hashlib.sha1()
            h.update(str(d.dtype.str).encode()); h.update(str(d.shape).encode()); h.update(d.tobytes())
            if m is not None and m.any():
                h.update(np.ascontiguousarray(m).tobytes())
            vs[str(k)] = h.hexdigest()[:16]
        except Exception as e:
            vs[str(k)] = 'raises:' + type(e).__name__
    out['vars'] = sorted(vs.items())
    return out


def _child(req):
    import warnings
    warnings.simplefilter('ignore')
    import PseudoNetCDF  # noqa
    from PseudoNetCDF import _getreader as g
    snap = lambda: [[str(k), _clskey(v)] for k, v in g._readers]
    out = {'reg0': snap()}
    if req['mode'] == 'matrix':
        path = req['path']
        mat, seen = [], set()
        for k, v in list(g._readers):
            key = _clskey(v)
            if key in seen:
                continue
            seen.add(key)
            if hasattr(v, 'isMine'):
                try:
                    r = 'Y' if v.isMine(path) else 'N'
                except Exception as e:
                    r = 'R:' + type(e).__name__
            else:
                r = 'Y'     # getreader's fallback checker returns True whatever happens
            if r != 'N':
                mat.append([key, r])
        out['matrix'] = mat
        out['reg_after_matrix'] = snap()
        named = {}
        for fmt in req.get('named', []):
            named[fmt] = _open(g, path, fmt)
        out['named'] = named
        out['regN'] = snap()
        return out
    sel = {}
    orig = g.getreader

    def spy(*a, **k):
        try:
            r = orig(*a, **k)
            sel['v'] = ['sel', _clskey(r)]
            return r
        except BaseException as e:
            sel['v'] = ['raise', type(e).__name__]
            raise
    g.getreader = spy
    keep, steps = [], []
    for st in req['steps']:
        sel.clear()
        o = _open(g, st['path'], st.get('fmt'), keep if req.get('keep') else None)
        if st.get('fmt') is None:
            o['sel'] = sel.get('v', ['none', ''])
        o['reglen'] = len(g._readers)
        now = snap()
        if now != out['reg0']:
            o['regdiff'] = [e for e in now if e not in out['reg0']][:4] + [['-removed-', str(e)] for e in out['reg0'] if e not in now][:2] or [['reordered', '']]
        steps.append(o)
    out['steps'] = steps
    out['regN'] = snap()
    return out


def _open(g, path, fmt, keep=None):
    o = {}
    try:
        if fmt is None:
            f = g.pncopen(path)
        else:
            rd = g.getreaderdict()
            o['sel'] = ['sel', _clskey(rd[fmt])] if fmt in rd else ['raise', 'KeyError']
            f = g.pncopen(path, format=fmt)
    except Exception as e:
        o['pres'] = {'raises': type(e).__name__}
        return o
    o['pres'] = _present(f)
    if keep is not None:
        keep.append(f)
    return o


def _spawn(req, cwd):
    env = dict(os.environ)
    env['PYTHONPATH'] = os.path.join(os.environ.get('PNC_REPO', '/repo'), 'src')
    env['PYTHONHASHSEED'] = '0'
    env['PYTHONWARNINGS'] = 'ignore'
    p = subprocess.run([sys.executable, '-B', HERE, 'child'], input=json.dumps(req), cwd=cwd, env=env,
                       stdout=subprocess.PIPE, stderr=subprocess.PIPE, text=True, timeout=300)
    if p.returncode != 0:
        raise RuntimeError('child failed rc=%d: %s' % (p.returncode, p.stderr[-600:]))
    return json.loads(p.stdout.strip().split('\n')[-1])


# ------------------------------------------------------------------------------------------------ cache (per ./check run)
_CACHE = None


def _cache():
    """pool directory + per-file baseline (matrix, named opens, fresh auto open), built once per run under a file lock"""
    global _CACHE
    if _CACHE is not None:
        return _CACHE
    from harness import common as C
    root = os.path.join(C.VERIF, '.work', str(os.getppid() if os.path.isdir(os.path.join(C.VERIF, '.work', str(os.getppid()))) else os.getpid()))
    os.makedirs(root, exist_ok=True)
    cdir = os.path.join(root, 'c15cache')
    os.makedirs(cdir, exist_ok=True)
    lock = open(os.path.join(cdir, '.lock'), 'w')
    fcntl.flock(lock, fcntl.LOCK_EX)
    try:
        done = os.path.join(cdir, 'base.json')
        if not os.path.exists(done):
            pool = os.path.join(cdir, 'pool')
            _build_pool(pool, C.REPO)
            import concurrent.futures as cf

            def one(ent):
                fn, ck, fmt, sd = ent
                a = _spawn(dict(mode='matrix', path=fn, named=[fmt] if fmt else []), pool)
                b = _spawn(dict(mode='history', steps=[dict(path=fn)], keep=True), pool)
                return fn, dict(reg0=a['reg0'], matrix=a['matrix'], named=a['named'], fresh=b['steps'][0],
                                matrix_pure=(a['reg0'] == a['regN']), reg0b=b['reg0'])
            with cf.ThreadPoolExecutor(max_workers=max(1, C.NCPU)) as ex:
                base = dict(ex.map(one, POOL))
            tmp = done + '.tmp'
            json.dump(base, open(tmp, 'w'))
            os.replace(tmp, done)
        base = json.load(open(done))
    finally:
        fcntl.flock(lock, fcntl.LOCK_UN)
        lock.close()
    _CACHE = dict(pool=os.path.join(cdir, 'pool'), base=base)
    return _CACHE


# ------------------------------------------------------------------------------------------------ generator
TELLING = [p[0] for p in POOL if '.' in p[0] and p[0].split('.')[-1] in
           ('nc', 'ncf', 'uamiv', 'ioapi', 'wrf', 'lateral_boundary', 'humidity', 'vertical_diffusivity', 'ffi1001', 'bpch',
            'point_source', 'csv', 'wind')]
NOEXT = [p[0] for p in POOL if '.' not in p[0] or p[0].split('.')[-1] in ('dat', 'bin', 'ict', 'txt')]
MALFORMED = ['empty', 'short.nc', 'arlstub', 'met.wind', 'plain3.uamiv']
ALL = [p[0] for p in POOL]
NOVEL = ['hum.grd01', 'kv.grd01', 'hum.20200101', 'met_kv.dat', 'zp.bin', 'avrg.bin', 'plain3.dat', 'obs.ict', 'met_hum', 'met_kv', 'ioapi3']
AMBIG = ['met_hum', 'met_kv', 'temp3d', 'zp.bin', 'hum.grd01', 'kv.grd01', 'hum.20200101', 'met_kv.dat', 'ioapi3', 'plain3', 'wrfout_d01', 'plain4']
CASEVAR = ['RUN1.HUMIDITY', 'OUT.NC', 'avrg.Uamiv', 'ioapi3.IOAPI']
SIBLING = {'humidity': 'vertical_diffusivity', 'vertical_diffusivity': 'humidity', 'netcdf': 'gcnc', 'ioapi': 'netcdf', 'height_pressure': 'humidity'}


def gen(rng, n, tier):
    out = []
    for i in range(n):
        r = rng.random()
        steps = []
        if tier == 'search':
            r = rng.choice([0.3, 0.3, 0.7, 0.7, 0.55, 0.9])
        if r < 0.25:
            kind = 'random'
            for _ in range(rng.randint(1, 7)):
                steps.append(dict(f=rng.choice(ALL)))
        elif r < 0.5:
            kind = 'ext-then-noext'
            for _ in range(rng.randint(1, 3)):
                steps.append(dict(f=rng.choice(TELLING)))
            for _ in range(rng.randint(1, 4)):
                steps.append(dict(f=rng.choice(NOEXT)))
        elif r < 0.65:
            kind = 'repeat'
            a = rng.choice(ALL)
            k = rng.randint(1, 4)
            b = rng.choice(ALL)
            steps = [dict(f=a)] * k + [dict(f=b)] + [dict(f=a)] * rng.randint(0, 2)
            steps = [dict(s) for s in steps]
        elif r < 0.8 and rng.random() < 0.3:
            # suffixes equal to a reader name in another case / unknown suffixes / exact reader names, auto-detected and named,
            # then probes of the files several readers claim
            kind = 'case-suffix'
            for _ in range(rng.randint(1, 3)):
                f = rng.choice(CASEVAR + CASEVAR + ['plain3.dat', 'hum.grd01', 'met.humidity', 'plain3.nc', 'avrg.uamiv'])
                steps.append(dict(f=f, fmt=POOLD[f][2] if rng.random() < 0.25 else None))
                if rng.random() < 0.4:
                    steps.append(dict(f=rng.choice(AMBIG)))
            for _ in range(rng.randint(1, 3)):
                steps.append(dict(f=rng.choice(AMBIG + CASEVAR)))
        elif r < 0.8 and rng.random() < 0.6:
            # named opens of files under novel suffixes (true format, or a sibling format that reads the same layout),
            # interleaved with auto-detected probes of the ambiguous files and of the very paths opened by name before
            kind = 'named-novel'
            named = []
            for _ in range(rng.randint(1, 3)):
                f = rng.choice(NOVEL)
                fmt = POOLD[f][2]
                if rng.random() < 0.3:
                    fmt = SIBLING.get(fmt, fmt)
                steps.append(dict(f=f, fmt=fmt)); named.append(f)
                if rng.random() < 0.5:
                    steps.append(dict(f=rng.choice(named + AMBIG)))
            for _ in range(rng.randint(1, 3)):
                steps.append(dict(f=rng.choice(named if rng.random() < 0.4 else AMBIG)))
        elif r < 0.8:
            kind = 'named-mix'
            for _ in range(rng.randint(2, 6)):
                f = rng.choice(ALL)
                fmt = None
                if rng.random() < 0.45:
                    fmt = POOLD[f][2] if (POOLD[f][2] and rng.random() < 0.8) else rng.choice(['netcdf', 'nc', 'uamiv', 'ioapi', 'nosuchformat'])
                steps.append(dict(f=f, fmt=fmt))
        else:
            kind = 'malformed'
            for _ in range(rng.randint(1, 6)):
                steps.append(dict(f=rng.choice(MALFORMED if rng.random() < 0.6 else ALL)))
        for s in steps:
            s.setdefault('fmt', None)
        out.append(dict(kind=kind, steps=steps, keep=rng.random() < 0.5))
    return out


# ------------------------------------------------------------------------------------------------ impl
def impl(case):
    c = _cache()
    for s in case['steps']:
        if s['f'] not in POOLD:
            raise ValueError('unknown pool file ' + str(s['f']))
    h = _spawn(dict(mode='history', keep=bool(case.get('keep')),
                    steps=[dict(path=s['f'], fmt=s.get('fmt')) for s in case['steps']]), c['pool'])
    files = sorted(set(s['f'] for s in case['steps']))
    return dict(reg0=h['reg0'], regN=h['regN'], steps=h['steps'], base={f: c['base'][f] for f in files})


# ------------------------------------------------------------------------------------------------ Coq term
def _ids(case, obs):
    names, readers, excs = {}, {}, {}

    def nid(d, k):
        if k not in d:
            d[k] = len(d)
        return d[k]
    for k, r in obs['reg0']:
        nid(names, k); nid(readers, r)
    return names, readers, excs, nid


def _ext(fn):
    return os.path.splitext(fn)[1][1:]


def coq_term(case, obs):
    if 'raises' in obs:
        return None
    names, readers, excs, nid = _ids(case, obs)
    pres = {}

    def pid(p):
        return nid(pres, json.dumps(p, sort_keys=True))

    def res(sel, named=False):
        if named and sel == ['raise', 'KeyError']:
            return 'UnknownFormat'
        if sel[0] == 'sel':
            return '(Selected %d%%nat)' % nid(readers, sel[1])
        if sel[0] == 'raise':
            return '(Raised %d%%nat)' % nid(excs, sel[1])
        return 'NoResult'
    pairs = lambda reg: '[' + '; '.join('(%d%%nat,%d%%nat)' % (nid(names, k), nid(readers, r)) for k, r in reg) + ']'
    files = sorted(obs['base'])
    fid = {f: i for i, f in enumerate(files)}
    acc = []
    for f in files:
        row = []
        for key, r in obs['base'][f]['matrix']:
            row.append('(%d%%nat,%s)' % (nid(readers, key), 'Yes' if r == 'Y' else '(Raise %d%%nat)' % nid(excs, r[2:])))
        acc.append('(%d%%nat,[%s])' % (fid[f], '; '.join(row)))
    steps, obsl, fresh, named = [], [], [], []
    for s, o in zip(case['steps'], obs['steps']):
        b = obs['base'][s['f']]
        fmt = s.get('fmt')
        if fmt is None:
            steps.append('(Auto %d%%nat %d%%nat)' % (nid(names, _ext(s['f'])), fid[s['f']]))
            fr = b['fresh']
            fresh.append('(%s,%d%%nat)' % (res(fr['sel']), pid(fr['pres'])))
        else:
            steps.append('(Named %d%%nat %d%%nat)' % (nid(names, fmt), fid[s['f']]))
            # fresh-interpreter named open of the same file with the same format, when it was measured; else the observation itself
            fr = b['named'].get(fmt)
            if fr is None:
                fresh.append('(%s,%d%%nat)' % (res(o['sel'], True), pid(o['pres'])))
            else:
                fresh.append('(%s,%d%%nat)' % (res(fr['sel'], True), pid(fr['pres'])))
        obsl.append('(%s,%d%%nat,%d%%nat)' % (res(o['sel'], fmt is not None), pid(o['pres']), o['reglen']))
        gt = POOLD[s['f']]
        nm = b['named'].get(gt[2]) if (gt[2] and gt[3] and fmt is None) else None
        if nm is None or 'raises' in nm['pres'] or nm['sel'][0] != 'sel':
            named.append('None')      # not self-describing / named open itself fails in this environment: clause 2 not applicable
        else:
            named.append('(Some %d%%nat)' % pid(_data_only(nm['pres'])))
    # data-only ids of the auto presentations (class name dropped: clause 2 compares dimensions and variable data)
    dat = ['%d%%nat' % pid(_data_only(o['pres'])) for o in obs['steps']]
    fdat = []
    for s, o in zip(case['steps'], obs['steps']):
        b = obs['base'][s['f']]
        fr = b['fresh'] if s.get('fmt') is None else (b['named'].get(s['fmt']) or o)
        fdat.append('%d%%nat' % pid(_data_only(fr['pres'])))
    return '(Case %s [%s] [%s] [%s] %s [%s] [%s] [%s] [%s])' % (
        pairs(obs['reg0']), '; '.join(acc), '; '.join(steps), '; '.join(obsl), pairs(obs['regN']),
        '; '.join(fresh), '; '.join(dat), '; '.join(fdat), '; '.join(named))


def _data_only(p):
    if 'raises' in p:
        return {'raises': p['raises']}
    return {'dims': p.get('dims'), 'vars': p.get('vars')}


# ------------------------------------------------------------------------------------------------ Python-side checks
def py_check(case, obs):
    """independent of the Coq model: (1) every process started from the same registry and measuring the matrix did not
    change it (the premise of the tie); (2) S restated directly on the raw observations: each auto step == fresh open of the same file."""
    if 'raises' in obs:
        return dict(s_ok=False, f_ok=False, region=0, why='history child failed: %s %s' % (obs.get('raises'), obs.get('msg', '')[:200]))
    why, f_ok = [], True
    for f, b in obs['base'].items():
        if b['reg0'] != obs['reg0'] or b['reg0b'] != obs['reg0'] or not b['matrix_pure']:
            f_ok = False
            why.append('initial registry differs between interpreters / matrix measurement not pure (%s)' % f)
    for k, (s, o) in enumerate(zip(case['steps'], obs['steps'])):
        if o.get('regdiff'):
            f_ok = False
            why.append('registry changed by step %d (%s%s): %s' % (k, s['f'], ', format=%s' % s['fmt'] if s.get('fmt') else '', o['regdiff']))
            break
    s_ok = True
    for k, (s, o) in enumerate(zip(case['steps'], obs['steps'])):
        if s.get('fmt') is None:
            fr = obs['base'][s['f']]['fresh']
            if o['sel'] != fr['sel'] or o['pres'] != fr['pres']:
                s_ok = False
                why.append('step %d: %s auto-detected as %s after this history, as %s in a fresh interpreter' % (
                    k, s['f'], (o['sel'], o['pres'].get('cls', o['pres'].get('raises'))),
                    (fr['sel'], fr['pres'].get('cls', fr['pres'].get('raises')))))
    # clause 2: on a readable self-describing file the auto-detected open presents the dimensions / data of the named open
    for k, (s, o) in enumerate(zip(case['steps'], obs['steps'])):
        gt = POOLD[s['f']]
        if s.get('fmt') is None and gt[2] and gt[3]:
            nm = obs['base'][s['f']]['named'].get(gt[2])
            if nm is not None and 'raises' not in nm['pres'] and _data_only(o['pres']) != _data_only(nm['pres']):
                s_ok = False
                why.append("step %d: pncopen('%s') presents %s, pncopen('%s', format='%s') presents class %s with other dimensions/data" % (
                    k, s['f'], o['pres'].get('cls', 'raises ' + str(o['pres'].get('raises'))), s['f'], gt[2], nm['pres'].get('cls')))
    return dict(s_ok=s_ok, f_ok=f_ok, region=0, why='; '.join(why)[:600])


def nontrivial(case, obs):
    if 'raises' in obs:
        return False
    # some earlier telling-extension open preferred a reader that claims / chokes on a later probed file
    pref = set()
    reg = dict()
    for k, r in obs['reg0']:
        reg[k] = r
    for s in case['steps']:
        claim = set(k for k, _ in obs['base'][s['f']]['matrix'])
        if s.get('fmt') is None:
            if pref & claim:
                return True
            e = _ext(s['f'])
            if e in reg:
                pref.add(reg[e])
    return False


def shrink(case):
    st = case['steps']
    if len(st) > 1:
        for j in range(len(st)):
            yield dict(case, steps=st[:j] + st[j + 1:])
    for j, s in enumerate(st):
        if s.get('fmt') is not None:
            yield dict(case, steps=st[:j] + [dict(s, fmt=None)] + st[j + 1:])
    if case.get('keep'):
        yield dict(case, keep=False)


# ------------------------------------------------------------------------------------------------ tie T (structural)
def translate():
    """Fail-closed AST obligations: the statements of _getreader.py that Model/Registry.v transcribes are still there.
    (No Gallina is generated: the model is hand-written; these anchors make an edit of the modelled statements visible
    as a broken obligation even if no generated history happens to distinguish the behaviours.)"""
    import ast
    from harness import common as C
    path = os.path.join(C.SRC, 'PseudoNetCDF', '_getreader.py')
    out = []

    def ob(anchor, ok, detail=''):
        out.append(dict(anchor=anchor, ok=bool(ok), detail=detail))
    try:
        tree = ast.parse(open(path).read())
    except Exception as e:
        ob('_getreader.py:parse', False, str(e))
        return out
    fns = {n.name: n for n in tree.body if isinstance(n, ast.FunctionDef)}
    un = lambda n: ast.unparse(n).strip()
    g = fns.get('getreader')
    if g is None:
        ob('getreader', False, 'function missing')
    else:
        src = [un(n) for n in ast.walk(g) if isinstance(n, (ast.Assign, ast.Expr, ast.For, ast.If, ast.Return))]
        ob('getreader: `_myreaders = list(_readers)` (impl_step: the preference list is a private copy; fix C15-registry-alias)',
           '_myreaders = list(_readers)' in src and '_myreaders = _readers' not in src,
           'assignment not found (reverted to the alias `_myreaders = _readers`? then opens change the global registry)')
        ob('getreader: nothing but registerreader writes the global registry (no `_readers.insert/append/...` in getreader)',
           not any(isinstance(n, ast.Call) and un(n.func).startswith('_readers.') for n in ast.walk(g))
           and not any(isinstance(n, (ast.Assign, ast.AugAssign)) and '_readers' in [un(t) for t in (n.targets if isinstance(n, ast.Assign) else [n.target])]
                       for n in ast.walk(g)), 'getreader mutates _readers')
        ob('getreader: `_myreaders.insert(0, (ext, rdict[ext]))` under `if ext in rdict` (prefer)',
           any(isinstance(n, ast.If) and un(n.test) == 'ext in rdict' and [un(b) for b in n.body] == ['_myreaders.insert(0, (ext, rdict[ext]))']
               for n in ast.walk(g)), 'statement changed')
        ob('getreader: `ext = os.path.splitext(args[0])[1][1:]`', 'ext = os.path.splitext(args[0])[1][1:]' in src, 'statement changed')
        ob('getreader: `rdict = getreaderdict()`', 'rdict = getreaderdict()' in src, 'statement changed')
        loops = [n for n in ast.walk(g) if isinstance(n, ast.For)]
        ok = False
        for lp in loops:
            if un(lp.target) in ('rn, reader', '(rn, reader)') and un(lp.iter) == '_myreaders':
                last = lp.body[-1]
                ok = (isinstance(last, ast.If) and un(last.test) == 'checker(*args, **kwds)' and [un(b) for b in last.body] == ['return reader']
                      and len(lp.orelse) == 1 and isinstance(lp.orelse[0], ast.Raise))
        ob('getreader: `for rn, reader in _myreaders: ... if checker(*args, **kwds): return reader / else: raise` (first_accepting)', ok, 'loop changed')
        ob('getreader: isMine is called unguarded (`checker = reader.isMine`; outcome Raise escapes)', 'checker = reader.isMine' in src, 'statement changed')
    d = fns.get('getreaderdict')
    ob('getreaderdict: `return dict(_readers)` (lookup_last)', d is not None and [un(b) for b in d.body] == ['return dict(_readers)'], 'body changed')
    r = fns.get('registerreader')
    ok = False
    if r is not None:
        for n in ast.walk(r):
            if isinstance(n, ast.If) and un(n.test) == 'name not in [k for k, v in _readers]' and un(n.body[0]) == '_readers.insert(0, (name, reader))':
                ok = True
    ob('registerreader: insert(0, (name, reader)) only for a new name (no registration changes an existing name)', ok, 'body changed')
    o = fns.get('pncopen')
    ok = False
    if o is not None:
        srcs = [un(n) for n in ast.walk(o) if isinstance(n, ast.Assign)]
        ok = ('reader = getreader(*args, format=format, **kwds)' in srcs and 'reader = getreaderdict()[format]' in srcs
              and 'outfile = reader(*args, **kwds)' in srcs)
    ob('pncopen: auto -> getreader, named -> getreaderdict()[format], then reader(*args, **kwds) (Auto / Named steps)', ok, 'body changed')
    MUT = ('insert', 'append', 'extend', 'pop', 'remove', 'sort', 'reverse', 'clear', '__setitem__', '__delitem__', '__iadd__')
    for fname in ('getreader', 'pncopen', 'pncmfopen', 'getreaderdict', 'testreader'):
        fn = fns.get(fname)
        if fn is None:
            ob('%s: present' % fname, False, 'function missing')
            continue
        bad = []
        for n in ast.walk(fn):
            if isinstance(n, ast.Call):
                f_ = un(n.func)
                if f_ in ('registerreader', '_getreader.registerreader') or f_.endswith('.registerreader'):
                    bad.append(un(n)[:80])
                if isinstance(n.func, ast.Attribute) and n.func.attr in MUT and un(n.func.value) in ('_readers', 'globals()["_readers"]', "globals()['_readers']"):
                    bad.append(un(n)[:80])
            tg = []
            if isinstance(n, ast.Assign):
                tg = n.targets
            elif isinstance(n, (ast.AugAssign, ast.AnnAssign)):
                tg = [n.target]
            elif isinstance(n, ast.Delete):
                tg = n.targets
            for t_ in tg:
                for sub in ast.walk(t_):
                    if isinstance(sub, ast.Name) and sub.id == '_readers':
                        bad.append(un(n)[:80])
        ob('%s: contains no registry-mutating call or statement (registerreader / _readers.insert|append|extend|pop|remove|sort|reverse|clear / '
           'assignment to _readers or _readers[...])' % fname, not bad, 'found: %s' % bad[:3])
    out += _gen_registry_src(tree, fns, un, ob)
    return out


def _gen_registry_src(tree, fns, un, ob):
    """Read every decision the model's step depends on off the source and write it as the record Gen/RegistrySrc.v
    src_getreader; Props/C15.v proves `generic_step src_getreader = impl_step` and `generic_register src_getreader =
    impl_register` against it, so an edit of the source changes the term the kernel checks.  Unrecognised forms give a
    sentinel (position 99 / the other boolean) that makes those proofs fail, plus a broken obligation here."""
    import ast
    from harness import common as C
    res = []
    vals = dict(private_copy=None, insert_pos=None, dict_last=None, named_dict=None, reg_pos=None, reg_if_new=None)
    g = fns.get('getreader')
    if g is not None:
        for n in ast.walk(g):
            if isinstance(n, ast.Assign) and un(n.targets[0]) == '_myreaders':
                v = un(n.value)
                if v in ('list(_readers)', '_readers[:]', '_readers.copy()'):
                    vals['private_copy'] = True if vals['private_copy'] in (None, True) else vals['private_copy']
                elif v == '_readers':
                    vals['private_copy'] = False
            if isinstance(n, ast.Call) and un(n.func) == '_myreaders.insert' and len(n.args) == 2 and un(n.args[1]) == '(ext, rdict[ext])':
                if isinstance(n.args[0], ast.Constant) and isinstance(n.args[0].value, int) and n.args[0].value >= 0:
                    vals['insert_pos'] = n.args[0].value
    d = fns.get('getreaderdict')
    if d is not None and [un(b) for b in d.body] == ['return dict(_readers)']:
        vals['dict_last'] = True
    o = fns.get('pncopen')
    if o is not None and 'reader = getreaderdict()[format]' in [un(n) for n in ast.walk(o) if isinstance(n, ast.Assign)]:
        vals['named_dict'] = True
    r = fns.get('registerreader')
    if r is not None:
        ins = [n for n in ast.walk(r) if isinstance(n, ast.Call) and un(n.func) == '_readers.insert' and len(n.args) == 2 and un(n.args[1]) == '(name, reader)']
        if len(ins) == 1 and isinstance(ins[0].args[0], ast.Constant) and isinstance(ins[0].args[0].value, int) and ins[0].args[0].value >= 0:
            vals['reg_pos'] = ins[0].args[0].value
        for n in ast.walk(r):
            if isinstance(n, ast.If) and un(n.test) == 'name not in [k for k, v in _readers]' and ins and ins[0] in list(ast.walk(n.body[0])):
                vals['reg_if_new'] = True
    for k, v in vals.items():
        ob('Gen/RegistrySrc.v: %s read off _getreader.py' % k, v is not None, 'form not recognised: sentinel written, C15_source_is_model will not check')
    b = lambda x, sentinel: 'true' if x is True else ('false' if x is False else sentinel)
    nat = lambda x: '%d' % (99 if x is None else x)
    text = ('(* GENERATED by harness/props/c15.py translate() from %s on every run - do not edit.\n'
            '   private_copy=%r insert_pos=%r dict_last_wins=%r named_uses_dict=%r register_pos=%r register_if_new=%r *)\n'
            'From PNC Require Import Base.Util Model.Registry.\n'
            'Definition src_getreader : getreader_src := GSrc %s %s %s %s %s %s.\n') % (
        'src/PseudoNetCDF/_getreader.py', vals['private_copy'], vals['insert_pos'], vals['dict_last'], vals['named_dict'],
        vals['reg_pos'], vals['reg_if_new'],
        b(vals['private_copy'], 'false'), nat(vals['insert_pos']), b(vals['dict_last'], 'false'), b(vals['named_dict'], 'false'),
        nat(vals['reg_pos']), b(vals['reg_if_new'], 'false'))
    path = os.path.join(C.COQ, 'Gen', 'RegistrySrc.v')
    os.makedirs(os.path.dirname(path), exist_ok=True)
    if not os.path.exists(path) or open(path).read() != text:
        with open(path, 'w') as f:
            f.write(text)
    # class creation: PseudoNetCDFType.__init__ registers the short name, then the long name, for every class but the two bases
    try:
        t2 = ast.parse(open(os.path.join(C.SRC, 'PseudoNetCDF', 'core', '_files.py')).read())
        cls = [n for n in t2.body if isinstance(n, ast.ClassDef) and n.name == 'PseudoNetCDFType'][0]
        init = [n for n in cls.body if isinstance(n, ast.FunctionDef) and n.name == '__init__'][0]
        st = [un(n) for n in ast.walk(init) if isinstance(n, (ast.Assign, ast.If))]
        okc = ('shortl = registerreader(name, cls)' in st and 'longl = registerreader(longname, cls)' in st and
               st.index('shortl = registerreader(name, cls)') < st.index('longl = registerreader(longname, cls)') and
               any(x.startswith('if len(cls.mro()) > 2:') for x in st) and any(x.startswith("if name not in ('PseudoNetCDFFile', 'WrapPnc'):") for x in st))
        ob('core/_files.py PseudoNetCDFType.__init__: registerreader(name, cls) then registerreader(longname, cls) (impl_class_created)', okc, 'changed')
        tail = [un(n) for n in t2.body if isinstance(n, ast.Expr)]
        ob("core/_files.py module level: registerreader('nc', netcdf); registerreader('ncf', netcdf)",
           "registerreader('nc', netcdf)" in tail and "registerreader('ncf', netcdf)" in tail, 'changed')
    except Exception as e:
        ob('core/_files.py PseudoNetCDFType.__init__', False, str(e)[:200])
    return res


# isMine overlaps of the shipped sample formats, measured 2026-10-02 with the accept matrix (suffix-less copies; registry order;
# the isMine-less fallback 'Dataset' omitted).  By C15_auto_is_named_iff the second clause holds for a suffix-less file exactly
# when the reader registered under the format's name is the FIRST of its row.
OVERLAPS = {
    'one3d layout (humidity, vertical_diffusivity, temperature, height_pressure samples)':
        ['vertical_diffusivity', 'humidity', 'one3d'],      # all three inherit one3d.isMine; the layouts are byte-identical, nothing in
                                                            # the file says which: clause 2 fails for humidity (finding C15-auto-not-named)
    'netCDF classic / HDF5 (plain)': ['gcnc', 'netcdf'],    # gcnc inherits netcdf.isMine; same dimensions and data presented
    'IOAPI netCDF': ['gcnc', 'ioapi', 'netcdf'],            # as above: class differs (gcnc), data identical
    'WRF netCDF': ['wrf', 'gcnc', 'netcdf'],
    'bpch': ['bpch', 'bpch2', 'bpch1'],                     # 'bpch' is first and is the named reader
    'uamiv': ['uamiv'], 'lateral_boundary': ['lateral_boundary'], 'ffi1001': ['ffi1001'],
    'no claimant (auto-detection falls through to netCDF4.Dataset and raises)':
        ['point_source', 'wind', 'landuse', 'cloud_rain', 'csv', 'tomsl3', 'ceilometer', 'griddesc', 'profiles', 'net_balance'],
}

LEVEL_TEXT = ('Theorems (Props/C15.v, 19, all closed under the global context) over a state-machine model of the reader registry (Model/Registry.v) '
              'describing the repaired getreader, for every accept relation, registry and history (induction): an open never changes the '
              'registry (C15_getreader_pure, C15_registry_unchanged, C15_registry_length_constant), every open of any history selects what a fresh '
              'process selects (C15_history_independent, C15_probe_after_history), named opens likewise; the loop is specified relationally '
              '(C15_first_accepting_selected / _raised: first non-rejecting reader decides); second clause: exact characterisation '
              '(C15_auto_is_named_iff), telling extension and sole claimant as corollaries (C15_telling_extension_selects_named, '
              'C15_sole_claimant_any_history, C15_auto_equals_named_partial), refuted for files several classes claim '
              '(C15_auto_equals_named_refuted = finding C15-auto-not-named); registration: known names never change meaning, names stay distinct, '
              'dict = list lookup (C15_register_*, C15_distinct_names_dict_is_list). Tie T: Gen/RegistrySrc.v (alias-or-copy, insert position, '
              'dict(_readers), getreaderdict()[format], registerreader guard and position) is re-read from _getreader.py on every run and '
              'C15_source_is_model / C15_source_register_is_model are re-checked against it; 18 further AST anchors incl. PseudoNetCDFType.__init__. '
              'Tie H: every history in a fresh interpreter, every step vs. the model on the measured accept matrix (selected class / escaping '
              'exception, registry length and full registry after every step, distinct names) and vs. a fresh-interpreter open of the same file.')
LEVEL_NOTE = ('Trusted: Coq kernel + vm_compute; the harness; isMine outcome is a function of (reader class, file) (measured once per file in a fresh '
              'interpreter; F on every step tests it); presentations compared by sha1 digests. Not modelled: what a reader class presents for a file '
              '(abstract id), spontaneous GC timing, registration by class creation after import (none exists in the tree; a mutation doing so is '
              'caught by F/S), bpch / point_source / csv cannot be opened by name in the pinned environment so clause 2 is not evaluated for them.')
TECHNIQUE = 'Coq proof (induction over histories; state-machine refinement of the registry) + vm_compute refutation witnesses + differential correspondence in fresh interpreters'

if __name__ == '__main__' and len(sys.argv) > 1 and sys.argv[1] == 'child':
    _req = json.loads(sys.stdin.read())
    _res = _child(_req)
    sys.stdout.write('\n' + json.dumps(_res) + '\n')
