"""C08 — CAMx binary write/read round trip and idempotent rewrite."""
import os, shutil
from harness import common as C, camxlib as L, camxfmt as M, metcheck as MC, gen_camx
from harness.props import c09

ID = 'C08'
N = {'quick': 300, 'thorough': 6000}
SEARCH_N = {'quick': 600, 'thorough': 3000}
SHARD = 60
CASE_TIMEOUT = 60.0
RULE = ('uamiv: an in-memory IOAPI-convention file (fresh arrays, not memmaps; ETFLAG present or removed so that the writer derives the end '
        'times) built from generated content (species 1-3, nx,ny,nz 1-3, 1-3 hourly steps from any date 1970-2069 incl. day/year/leap/century '
        'roll-overs, arbitrary finite binary32 payload, all NAME variants) -> library writer -> library reader -> library writer; compared in Coq '
        'with the spec encoder / reader model (F) and with the content (S: data words, TFLAG/ETFLAG, counts, species order, byte-identical '
        'second write). Met formats (temperature, vertical_diffusivity, humidity, height_pressure, wind): reference-encoded file -> library '
        'reader -> library writer, bytes and re-read view compared; record tiling decided in Coq.')
TRUSTED = c09.TRUSTED
ASSUMPTIONS = c09.ASSUMPTIONS
LEVEL_TEXT = ('Theorems (Props/C08.v): read(write(f)) presents exactly the content for every well-formed uamiv content (C08_read_write, reader model from '
              'translated dtypes/strides), write(read(write f)) = write f (C08_rewrite_idempotent), the reader\'s date/time conversion equals the '
              'specification on whole hours (C08_time_flags), the writer\'s translated two-digit-year expression followed by the reader\'s century rule is '
              'the identity on 1970001..2069366 (C08_date_roundtrip), hours survive /10000 and rescaling (C08_hour_roundtrip). Tie T: Gen/Camx.v. '
              'Tie H: library writer bytes == spec encoder on the model\'s input (incl. the writer\'s own end-date derivation), library reader == reader model. '
              'LATERAL BOUNDARY files (Model/Lbdy.v): C08_lbdy_read_write, C08_lbdy_rewrite_idempotent, C08_lbdy_begin_flags, C08_lbdy_end_flags at full '
              'strength (the reader as repaired by fe376a5); the writers\' own end-date derivation with the day-of-year carry of 4389526 / a9b6e29 is the '
              'specification at every valid date and hour (C08_end_date_is_spec, C08_end_date_reproduces_header; Model/YearEnd.v). Tie H: constructor WL of Corr/C08.v (in-memory '
              'file -> writer (generated edge definitions, derived end dates) -> reader -> writer, every stage against the model). '
              'ONE3D FAMILY (one3d / humidity / vertical_diffusivity; Model/One3d.v, Proofs/One3dProofs.v; Memmap reader model with the translated record_items and time_steps expressions, reshapes / first-stamp-change / memmap size rules hand-modelled): C08_one3d_read_write, C08_one3d_rewrite_idempotent, C08_one3d_time_flags; tie H: constructor OD8 '
              '(ncf2one3d output == o_enc, byte-identical re-write). '
              'TEMPERATURE and HEIGHT/PRESSURE (Model/TempHp.v, Proofs/TempHpProofs.v; layered record files over the One3d codec; both Memmap readers hand-modelled incl. the for-loop fall-through, the lazy reshapes and the marker check): C08_temperature_read_write, C08_temperature_rewrite_idempotent, C08_heightpres_read_write, '
              'C08_heightpres_rewrite_idempotent; tie H: constructors TD8 / HD8 (writer output == spec encoding, byte-identical re-write). '
              'WIND (Model/Wind.v, Proofs/WindProofs.v; Memmap reader hand-modelled incl. the RecordFile walk of its __init__, with a three-valued result read / raise / never returns): C08_wind_read_write, C08_wind_rewrite_idempotent; tie H: constructor WD8.')
LEVEL_NOTE = ('Trusted: Coq kernel+vm_compute, py2coq, harness. Every CAMx format has a hand-modelled Coq reader/writer model tied by the '
              'correspondence (translated anchors where the source is integer bookkeeping); numpy memmap/reshape rules are modelled, not verified. '
              'Known findings: single-step layered met files; 1x1 wind grids; land-use sniffing; cloud/rain size ambiguity.')
TECHNIQUE = 'Coq proof (codec/reader round trip, date arithmetic over translated expressions) + differential correspondence'


def translate():
    return gen_camx.translate()


def gen(rng, n, tier):
    out = []
    for i in range(n):
        if rng.random() < 0.6:
            c = L.gen_uamiv(rng, tier, rollover=0.6 if tier == 'search' else 0.5)
            derive = (c['name'] != 'AIRQUALITY') and rng.random() < 0.4
            out.append(dict(kind='uamiv-' + c['name'] + ('-noetflag' if derive else ''), content=c, derive=derive))
        else:
            c = MC.gen_any(rng, tier=tier)
            out.append(dict(kind='lbdy' if c['fmt'] == 'lateral_boundary' else 'met-' + c['fmt'], content=c, write=True, reread=True))
    # lateral-boundary files evaluated in Coq (Model/Lbdy.v): a dedicated stream on top of gen_any's share
    for i in range(max(1, n // 8)):
        c = M.gen_lb(rng, tier, rollover=0.5 if tier == 'search' else 0.3)
        out.append(dict(kind='lbdy', content=c, write=True, reread=True))
    # one-cell-wide grids (nx or ny = 1) on the writer path: inside lb_wf, evaluated in Coq like the others
    for i in range(max(1, n // 30)):
        c = M.gen_lb_thin(rng, tier)
        out.append(dict(kind='lbdy-thin', content=c, write=True, reread=True))
    # cloud/rain files, 3-field (< 4.3) and 5-field layouts
    # wind files with many steps on tiny grids (the Memmap reader's step count ran ahead of the file before d3c85b3)
    for i in range(max(2, n // 60)):
        c = M.gen_met(rng, fmt='wind', tier=tier, rollover=0.0, min_steps=3)
        c['nx'], c['ny'], c['nz'] = rng.choice([(2, 1, 1), (1, 2, 1), (3, 1, 1), (2, 1, 2)])
        base = c['steps'][0]
        c['steps'] = []
        for t in range(rng.randint(4, 9)):
            d, h = L.yyjjj_add_hours(base['date'], base['hhmm'] // 100, t)
            c['steps'].append(dict(date=d, hhmm=h * 100,
                                   fields={v: [[L.finite_word(rng) for _ in range(c['nx'] * c['ny'])] for _ in range(c['nz'])] for v in ('U', 'V')}))
        out.append(dict(kind='met-wind-long', content=c, write=True, reread=True))
    for i in range(max(2, n // 12)):
        c = M.gen_cloud_rain(rng, tier)
        out.append(dict(kind='met-cloud_rain', content=c, write=True, reread=True))
    return out


def impl(case):
    if MC.is_lb(case):
        return MC.run_lb_w(case)
    if MC.is_layered(case):
        return MC.run_o3(case)
    if case['kind'].startswith('met-'):
        return MC.run_met(case)
    import numpy as np
    from PseudoNetCDF import PseudoNetCDFFile
    from PseudoNetCDF.camxfiles.Memmaps import uamiv
    from PseudoNetCDF.camxfiles.uamiv.Write import ncf2uamiv
    c = case['content']
    ws = L.uamiv_encode(c)
    d = L.workdir()
    obs = {}
    try:
        p0 = os.path.join(d, 'ref.uamiv')
        with open(p0, 'wb') as f:
            f.write(L.bytes_of_words(ws))
        f0 = uamiv(p0)
        g = PseudoNetCDFFile()
        for k, dim in f0.dimensions.items():
            g.createDimension(k, len(dim))
        for k in f0.ncattrs():
            setattr(g, k, getattr(f0, k))
        for k in list(f0.variables.keys()):
            if case.get('derive') and k == 'ETFLAG':
                continue
            v = f0.variables[k]
            nv = g.createVariable(k, v.dtype.char, v.dimensions, values=np.array(v[...]).copy())
            for a in v.ncattrs():
                setattr(nv, a, getattr(v, a))
        g.TSTEP = 10000
        p1 = os.path.join(d, 'w1.uamiv')
        ncf2uamiv(g, p1).close()
        obs['w1'] = L.words_of_bytes(open(p1, 'rb').read())
        try:
            r1 = uamiv(p1)
            o = L.observe_uamiv_file(r1)
            obs['open_ok'] = True
            obs.update(o)
            p2 = os.path.join(d, 'w2.uamiv')
            ncf2uamiv(r1, p2).close()
            obs['w2'] = L.words_of_bytes(open(p2, 'rb').read())
        except Exception as e:
            obs['open_ok'] = False
            obs['open_error'] = '%s: %s' % (type(e).__name__, str(e)[:100])
    finally:
        shutil.rmtree(d, ignore_errors=True)
    return obs


def coq_term(case, obs):
    if 'raises' in obs:
        return None
    c = case['content']
    if MC.is_lb(case):
        w1, mm, w2 = obs.get('w1') or {}, obs.get('mm') or {}, obs.get('w2') or {}
        ok = mm.get('status') == 'ok'
        v, tf, etf = M.coq_lview(c, mm.get('view') if ok else None)
        return '(WL %s %s %s %s %s %s %s %s %s %s %s)' % (
            M.coq_lbdy(c), MC.lb_hours(c), C.cbool(w1.get('status') == 'ok'), C.zlist(w1.get('words') or []),
            C.cbool(ok), v, tf, etf, C.cbool(not MC.lb_py_check(case, obs)), C.cbool(w2.get('status') == 'ok'),
            C.zlist(w2.get('words') or []))
    if MC.is_layered(case):
        return MC.layered_term(case, obs, '8')
    if case['kind'].startswith('met-'):
        wr = obs.get('wr') or {}
        return '(R8 %s %s %s %s)' % (C.zlist(M.encode(c)), C.zll(M.records(c)), C.cbool(wr.get('status') == 'ok'),
                                     C.zlist(wr.get('words') or []))
    v, tf, etf = c09.coq_view(c, obs)
    hours = '[' + '; '.join('(%d, %d)' % (s['bhour'], s['ehour']) for s in c['steps']) + ']'
    return '(W %s %s %s %s %s %s %s %s %s)' % (L.coq_uamiv(c), hours, C.cbool(case.get('derive', False)), C.zlist(obs['w1']),
                                              C.cbool(obs.get('open_ok', False)), v, tf, etf, C.zlist(obs.get('w2', [])))


def py_check(case, obs):
    if 'raises' in obs:
        return dict(s_ok=False, why='in-domain write/read raised: %s %s' % (obs.get('raises'), obs.get('msg', '')[:120]),
                    region=MC.region_of(case['content']) if (case['kind'].startswith('met-') and not MC.is_lb(case)) else 0)
    if MC.is_lb(case):
        why = MC.lb_py_check(case, obs)
        for k, what in (('w1', 'library writer on the in-memory file'), ('mm', 'library reader on the written file'),
                        ('w2', 'library writer on the re-read file')):
            st = (obs.get(k) or {}).get('status')
            if st != 'ok':
                why.append('%s: %s (%s)' % (what, st, (obs.get(k) or {}).get('err')))
                break
        return dict(s_ok=not why, region=0, why='; '.join(why[:3]))
    if not case['kind'].startswith('met-'):
        return dict(s_ok=True)
    c = case['content']
    why = []
    mm = obs['mm']
    if mm['status'] != 'ok':
        why.append('library reader %s on a valid %s file (%s)' % (mm['status'], c['fmt'], mm.get('err')))
    else:
        why += M.view_matches(mm['view'], M.expected_view(c))
        wr = obs.get('wr') or {}
        if wr.get('status') != 'ok':
            why.append('library writer %s (%s)' % (wr.get('status'), wr.get('err')))
        elif wr['words'] != M.encode(c):
            why.append('re-written file differs from the original bytes')
        rr = obs.get('rr') or {}
        if wr.get('status') == 'ok' and rr.get('status') != 'ok':
            why.append('re-reading the written file: %s' % rr.get('status'))
        elif rr.get('status') == 'ok':
            why += M.view_matches(rr['view'], M.expected_view(c))
    return dict(s_ok=not why, region=MC.region_of(c), why='; '.join(why[:3]))


def nontrivial(case, obs):
    if case['kind'].startswith('met-') or MC.is_lb(case):
        return obs.get('mm', {}).get('status') == 'ok'
    return bool(obs.get('open_ok'))


shrink = c09.shrink

LEVEL_TEXT += (' CLOUD/RAIN (Model/CloudRain.v): C08_cloudrain_read_write - reading a file of unambiguous size and writing what was presented (ncf2cloud_rain, hand-modelled '
               'as c_write) reproduces the file word for word and the written file decodes to the content; region 21 = inherently ambiguous sizes '
               '(C09_cloudrain_ambiguous_size_refuted). Cases: constructor CD8.')


# ----------------------------------------------------------------------------- land-use files evaluated in Coq (Model/Landuse.v)
from harness import landusecheck as LU  # noqa: E402

_lu_prev = dict(gen=gen, impl=impl, coq_term=coq_term, py_check=py_check, nontrivial=nontrivial, shrink=shrink)


def gen(rng, n, tier):  # noqa: F811
    out = _lu_prev['gen'](rng, n, tier)
    # old-style (fland, optional topo) and new-style (LUCAT11 / LUCAT26 key, optional LAI / TOPO) files; a share with first payload
    # bytes that are no UTF-8 (the reader decodes them to sniff the style: region 16)
    for i in range(max(3, n // 15)):
        c = LU.gen_lu(rng, tier)
        out.append(dict(kind='lu', content=c, write=True, reread=True))
    return out


def impl(case):  # noqa: F811
    return LU.run_lu(case) if LU.is_lu(case) else _lu_prev['impl'](case)


def coq_term(case, obs):  # noqa: F811
    if LU.is_lu(case):
        return None if 'raises' in obs else LU.lu_term(case, obs, '8')
    return _lu_prev['coq_term'](case, obs)


def py_check(case, obs):  # noqa: F811
    if LU.is_lu(case):
        if 'raises' in obs:
            return dict(s_ok=False, why='harness/impl raised ' + str(obs))
        why = LU.lu_py_check(case, obs, True)
        return dict(s_ok=not why, region=LU.lu_region(case, obs), why='; '.join(why[:3]))
    return _lu_prev['py_check'](case, obs)


def nontrivial(case, obs):  # noqa: F811
    if LU.is_lu(case):
        return obs.get('mm', {}).get('status') == 'ok' or case.get('cut') is not None
    return _lu_prev['nontrivial'](case, obs)


def shrink(case):  # noqa: F811
    return [] if LU.is_lu(case) else _lu_prev['shrink'](case)


LEVEL_TEXT += (' LAND USE (Model/Landuse.v): C08_landuse_read_write - for EVERY well-formed land-use file with decodable first bytes, reading it and writing what was '
               'presented (ncf2landuse, hand-modelled as lu_write) reproduces the file word for word and the written file decodes to the content. Before 58a734f the '
               'optional records of a new-style file were written first (former region 22: corpus/C08/landuse-writer-record-order.json). Cases: constructor LUD8.')
