"""C19 — ICARTT ffi1001: ncf2ffi1001 followed by ffi1001() (header arithmetic, line-number state machine,
names/units/codes/masks/values, auto-detection, second cycle)."""
import os, re, shutil, tempfile
from decimal import Decimal
from fractions import Fraction
from harness import common as C

ID = 'C19'
N = {'quick': 500, 'thorough': 12000}
SEARCH_N = {'quick': 1200, 'thorough': 8000}
SHARD = 63
RULE = ('variables are i4 / i8 / f4 / f8 arrays (independent and dependent, mixed), non-integral and large dependent values next to an integer or float32 independent variable, int64 beyond 2^53; in-memory 1-D files: 1..30 records, 1..5 dependent variables with individually drawn missing codes, the independent variable at a random position of f.variables, doubles of magnitude 1e-300..1e300 (mostly 1e-30..1e30), '
        'negative, zero, integers; int and float missing codes (7-digit and longer); masked cells with fill = code or not; 0..8 header '
        'attributes in random order with values containing colons, leading blanks, empty strings, newlines (adversarial), LLOD/ULOD '
        'flags with or without values; unmasked values near each variable\'s missing code (code*(1 +- k e-6), code +- small offsets, tiny values for code 0, '
        'time stamps near the first dependent code) that print differently from the code; names with slash, units with comma/blank/absent; short and long outputs (< / >= 28 lines); '
        'malformed stream: no dependent variable, no SDATE, independent variable absent, non-time independent values, names with '
        'comma/blank. Every case: text compared line by line with the model writer, reader result, getreader() class, second cycle. '
        'Non-trivial = at least one masked cell or one value whose %.6e rendering differs from the input.')
TRUSTED = ['binary64 <-> decimal: a double parsed from a <=7-digit decimal is identified with that decimal (DBL_DIG = 15 round trip); '
           'checked per case: float("%.6e" % y) == y for every value read back',
           'glibc printf("%.6e") rounds the exact binary value half-even (model fmt6e works on the exact decimal expansion of the double)',
           'numpy.genfromtxt: non-numeric fields -> nan, blank lines skipped, inconsistent column count -> ValueError (modelled)',
           'the numeric value of a missing code is taken from str(code) (exact for ints and shortest-repr floats up to 7-digit rounding ties)',
           'date line (SDATE/WDATE) parsing and datetime range: dates fixed valid, independent values |t| <= 1e9 or >= 1e12',
           'Python str()/eval() of int and float missing codes (the harness passes str(code) to the model; parse_num in the model is compared through F)']
ASSUMPTIONS = ['attribute keys are identifiers not starting with "_" and not variables/dimensions/groups; text is ASCII without "#", quotes or parentheses',
               'newlines occur only in user attribute values (never in names, units or the fixed header fields)',
               'the "(unit)" form of variable description lines and special comment lines with content are not exercised (the writer never emits them)']

NAMES = ['t', 'Start_UTC', 'Time', 'NO', 'O3_ppbv', 'CO', 'Alt', 'T_K', 'HCHO', 'x1', 'P', 'RH', 'NOy', 'SO2', 'u', 'Level']
UNITS = ['s', 'ppbv', 'K', 'm', 'mol m-3', 'hPa', 'ug/m3', '1', '', 'deg C', 'percent', 'pptv']
GOODCODES = [-9999, -999, -99999, -8888, -7777, 9999, -9999999, -9999.0, -999.9, -8888.5, 1e20, -1e30, 1.5e-07, -9999.99]
LONGCODES = [-99999999, -9999.1234, -8888.12345, 99999999, 123456789, -1.00000001e20]
KEYS = ['REVISION', 'PI_CONTACT_INFO', 'PLATFORM', 'LOCATION', 'ASSOCIATED_DATA', 'INSTRUMENT_INFO', 'DATA_INFO', 'UNCERTAINTY',
        'DM_CONTACT_INFO', 'PROJECT_INFO', 'STIPULATIONS_ON_USE', 'OTHER_COMMENTS', 'R0', 'R1', 'note2', 'Level']
WORDS = ['alpha', 'beta', 'see doc', 'N/A', 'x: y', 'a:b:c', '', 'R0', 'none', 'DC8', 'use with care', 'k', 'one two three',
         'lead', 'A, B', 'a,b,c', '1 2', '3.5', '-8888']
HEAD = ['PI_NAME', 'ORGANIZATION_NAME', 'SOURCE_DESCRIPTION', 'MISSION_NAME', 'VOLUME_INFO', 'TIME_INTERVAL']
SDATES = ['2020, 01, 02', '2019, 12, 31', '2001, 06, 15']


def _val(rng):
    r = rng.random()
    if r < 0.12:
        return 0.0
    if r < 0.30:
        return float(rng.randint(-100000, 100000))
    if r < 0.45:
        return float(Decimal(rng.randint(-9999999, 9999999)).scaleb(rng.randint(-12, 6)))
    if r < 0.95:
        return rng.uniform(-10, 10) * 10.0 ** rng.randint(-30, 30)
    if r < 0.99:
        # near a rounding boundary of the 7th digit
        return float(Decimal(rng.randint(1000000, 9999999) * 10 + 5).scaleb(rng.randint(-12, 3))) * rng.choice([1, -1])
    return rng.uniform(-10, 10) * 10.0 ** rng.choice([-300, -200, 200, 300])


def _hx(x):
    return float(x).hex()


def _f4(x):
    import struct
    try:
        return struct.unpack('<f', struct.pack('<f', x))[0]
    except OverflowError:
        return struct.unpack('<f', struct.pack('<f', 1e30 if x > 0 else -1e30))[0]


def _cast(x, dt):
    """the value a cell has once it is stored in an array of dtype dt"""
    if dt == 'f8':
        return float(x)
    if dt == 'f4':
        return _f4(float(x))
    lim = 2 ** 31 - 1 if dt == 'i4' else 2 ** 53
    return float(max(-lim, min(lim, int(round(x)))))


def _cf(c):
    """cell of a case -> float (cells are hex floats, or {'i': n} for int64 values beyond 2^53)"""
    return float(c['i']) if isinstance(c, dict) else float.fromhex(c)


def _cexact(c):
    return Fraction(c['i']) if isinstance(c, dict) else Fraction(float.fromhex(c))


def _code(c):
    return None if c is None else ({'i': c} if isinstance(c, int) else {'f': _hx(c)})


def gen(rng, n, tier):
    out = []
    for i in range(n):
        r = rng.random()
        if tier == 'search':
            kind = rng.choice(['valid-long'] * 4 + ['near-code'] * 4 + ['valid-long-attrs', 'valid-long-attrs', 'lod-both', 'valid-indep', 'valid-short'])
        elif r < 0.28:
            kind = 'valid-long'
        elif r < 0.40:
            kind = 'near-code'
        elif r < 0.50:
            kind = 'valid-long-attrs'
        elif r < 0.56:
            kind = 'lod-both'
        elif r < 0.64:
            kind = 'valid-indep'
        elif r < 0.70:
            kind = 'valid-short'
        elif r < 0.76:
            kind = 'attr-newline'
        elif r < 0.79:
            kind = 'lod-flag-only'
        elif r < 0.84:
            kind = 'token'
        elif r < 0.89:
            kind = 'maskcode'
        elif r < 0.92:
            kind = 'collide'
        else:
            kind = 'mal-' + rng.choice(['no-dep', 'no-sdate', 'indep-absent', 'indep-huge', 'name-comma', 'name-blank',
                                        'no-indep-attr', 'unit-newline', 'indep-masked'])
        ndep = rng.randint(1, 5) if rng.random() < 0.8 else 1
        names = rng.sample(NAMES, ndep + 1)
        # attributes
        nat = rng.randint(0, 8) if kind != 'valid-long' else rng.randint(0, 3)
        keys = rng.sample(KEYS, nat)
        user = []
        for k in keys:
            v = rng.choice(WORDS)
            if rng.random() < 0.15:
                v = ' ' + v
            if rng.random() < 0.1:
                v = v + ' '
            user.append([k, v])
        if kind == 'lod-both' or (kind not in ('lod-flag-only',) and rng.random() < 0.08):
            which = rng.choice(['LLOD', 'ULOD', 'both'])
            for w in (['LLOD', 'ULOD'] if which == 'both' else [which]):
                pair = [[w + '_FLAG', rng.choice(['-8888', '-7777', '-888'])],
                        [w + '_VALUE', rng.choice(['N/A', '0.5', '1, 2', 'N/A; 3'])]]
                rng.shuffle(pair)
                user += pair
        if kind == 'lod-flag-only':
            user.append([rng.choice(['LLOD_FLAG', 'ULOD_FLAG']), '-8888'])
        if kind == 'attr-newline':
            k = rng.choice([kk for kk in KEYS if kk not in keys])
            v = rng.choice(['one\ntwo', 'one\n two', 'a b\nc d e', 'x\n\ny', 'tail\n', 'p, q\nr, s', 'k: v\nm: n', 'a\nb\nc',
                            'u v w\nx', 'x\ny z'])
            user.insert(rng.randint(0, len(user)), [k, v])
        head = [[k, rng.choice(['Doe, J.', 'NASA', 'DC8', 'TEST 2020', '1, 1', '1', 'x: y', ' pad '])] for k in HEAD if rng.random() < 0.5]
        fixed = [['SDATE', rng.choice(SDATES)], ['WDATE', '2021, 03, 04'], ['INDEPENDENT_VARIABLE', names[0]]]
        if kind == 'mal-no-sdate':
            fixed = fixed[1:]
        if kind == 'mal-no-indep-attr':
            fixed = fixed[:2]
        if kind == 'mal-indep-absent':
            fixed[-1][1] = 'nosuchvar'
        attrs = fixed + head + user
        rng.shuffle(attrs)
        # records
        n_hdr = len(user) + ndep + 15
        if kind in ('valid-short',):
            nrec = rng.randint(1, max(1, 27 - n_hdr - 1))
        elif rng.random() < 0.2:
            nrec = max(1, 28 - n_hdr) + rng.randint(0, 4)
        else:
            nrec = rng.randint(1, 9)
        # variables
        vs = []
        t0 = rng.randint(0, 86400)
        dt = rng.choice([1, 10, 60, 0.5, 0.1])
        firstcode = None
        for j, nm in enumerate(names):
            code = rng.choice(GOODCODES)
            if j == 1:
                firstcode = code
            units = rng.choice(UNITS)
            if j == 0:
                cells = [t0 + dt * q for q in range(nrec)]
                if rng.random() < 0.2:
                    cells = [float(rng.randint(-10 ** 9, 10 ** 9)) for _ in range(nrec)]
            else:
                cells = [_val(rng) for _ in range(nrec)]
            pm = rng.choice([0, 0, 0.15, 0.4]) if j > 0 else (0.3 if kind == 'mal-indep-masked' else 0)
            mask = [rng.random() < pm for _ in range(nrec)]
            vs.append(dict(name=nm, units=units, code=code, fill=code, cells=cells, mask=mask))
        # independent variable consistent with what the text can carry (region 0) unless stated otherwise
        if kind != 'valid-indep' and (kind.startswith('valid-long') or kind == 'near-code' or rng.random() < 0.8):
            vs[0]['code'] = vs[0]['fill'] = firstcode
        if kind == 'near-code':
            # unmasked values NEAR the code the reader compares with (own code; first dependent code for the
            # independent variable) that still print differently under %.6e: in the domain, mask must not change
            if rng.random() < 0.3:
                z = rng.choice([0, 0.0])
                vs[1]['code'] = vs[1]['fill'] = z
                vs[0]['code'] = vs[0]['fill'] = z
                firstcode = z
            for j, v in enumerate(vs):
                c = float(firstcode if j == 0 else v['code'])
                if c == 0:
                    v['cells'] = [1.0 + q if x == 0 else x for q, x in enumerate(v['cells'])]
                for _ in range(rng.randint(1, 3)):
                    q = rng.randrange(nrec)
                    for attempt in range(8):
                        sg = rng.choice([1, -1])
                        if c == 0:
                            x = sg * rng.choice([1e-9, 1e-8, 5e-9, 1e-12, 1e-7, 3e-6, 1e-320])
                        elif rng.random() < 0.5:
                            x = c * (1 + sg * rng.randint(1, 20) * 1e-6)
                        else:
                            x = c + sg * rng.choice([0.01, 0.05, 0.1, 0.5, 1.0, 5.0, 10.0]) * rng.choice([1, 1, abs(c) / 9999.0])
                        if float('%.6e' % x) != c and x != c and (j > 0 or abs(x) <= 1e9):
                            v['cells'][q] = x
                            v['mask'][q] = False
                            break
        if kind == 'token':
            w = rng.choice(['slash', 'unit-comma', 'unit-pad', 'unit-none'])
            j = rng.randint(0, ndep)
            if w == 'slash':
                vs[j]['name'] = vs[j]['name'] + '/' + rng.choice(['a', 'NOy', 'x'])
                if j == 0:
                    for a in attrs:
                        if a[0] == 'INDEPENDENT_VARIABLE':
                            a[1] = vs[0]['name']
            elif w == 'unit-comma':
                vs[j]['units'] = rng.choice(['mol,m', 'a, b', ',x', 'K,'])
            elif w == 'unit-pad':
                vs[j]['units'] = rng.choice([' K', 'K ', ' a b '])
            else:
                vs[j]['units'] = None
        if kind == 'maskcode':
            w = rng.choice(['long', 'fill', 'nocode'])
            j = rng.randint(1, ndep)
            if not any(vs[j]['mask']):
                vs[j]['mask'][rng.randrange(nrec)] = True
            if w == 'long':
                vs[j]['code'] = vs[j]['fill'] = rng.choice(LONGCODES)
            elif w == 'fill':
                vs[j]['fill'] = rng.choice([1e20, -999.0, 0.0, 12345.678])
            else:
                vs[j]['code'] = None
                vs[j]['fill'] = rng.choice([1e20, -999.0])
        if kind == 'collide':
            j = rng.randint(1, ndep)
            c = vs[j]['code']
            q = rng.randrange(nrec)
            vs[j]['mask'][q] = False
            vs[j]['cells'][q] = float(c) * (1 + rng.choice([0, 1e-9, -3e-9, 2e-8])) if c != 0 else rng.choice([0.0, 1e-320])
            if float(vs[j]['cells'][q]) == float(c):
                kind = 'collide-exact'
        if kind == 'mal-no-dep':
            vs = vs[:1]
        if kind == 'mal-indep-huge':
            vs[0]['cells'] = [rng.choice([1, -1]) * 10.0 ** rng.randint(12, 20) * (q + 1) for q in range(nrec)]
        if kind == 'mal-name-comma':
            vs[rng.randint(1, len(vs) - 1)]['name'] += ',b'
        if kind == 'mal-name-blank':
            vs[rng.randint(1, len(vs) - 1)]['name'] += ' b'
        if kind == 'mal-unit-newline':
            vs[rng.randint(1, len(vs) - 1)]['units'] = 'a\nb'
        # dtypes: independent and dependent variables are i4 / i8 / f4 / f8 arrays (cells and fills cast accordingly;
        # a variable only gets a dtype in which its missing code is exactly representable)
        if not kind.startswith('mal-'):
            for j, v in enumerate(vs):
                c = v['code']
                cands = ['f8', 'f8', 'f8']
                if c is None or _f4(float(c)) == float(c):
                    cands += ['f4', 'f4']
                if c is None or (float(c).is_integer() and abs(float(c)) < 2 ** 31):
                    cands += ['i4', 'i8']
                v['dt'] = rng.choice(cands)
                v['cells'] = [_cast(x, v['dt']) for x in v['cells']]
            if kind == 'valid-long' and rng.random() < 0.12:
                # int64 beyond 2^53: '%.6e' goes through a double (known finding C19-int64-precision)
                kind = 'int64-big'
                j = rng.randint(1, ndep)
                if vs[j]['code'] is None or (float(vs[j]['code']).is_integer() and abs(float(vs[j]['code'])) < 2 ** 31):
                    vs[j]['dt'] = 'i8'
                    vs[j]['cells'] = [_cast(x, 'i8') for x in vs[j]['cells']]
                    q = rng.randrange(nrec)
                    vs[j]['mask'][q] = False
                    vs[j]['cells'][q] = rng.choice([1234566500000000001, -1234566500000000001, 9007199254740993, 2 ** 62 + 12345,
                                                    1000000500000000001])
        # the independent variable is created at a random position of f.variables (first, middle, last)
        if len(vs) > 1 and rng.random() < 0.45:
            iv0 = vs.pop(0)
            vs.insert(rng.randint(1, len(vs)), iv0)
        for v in vs:
            v['cells'] = [None if m else ({'i': x} if isinstance(x, int) else _hx(x)) for x, m in zip(v['cells'], v['mask'])]
            del v['mask']
            v['code'] = _code(v['code'])
            v['fill'] = _hx(v['fill']) if v['fill'] is not None else _hx(1e20)
        out.append(dict(kind=kind, attrs=attrs, vars=vs))
    return out


# ----------------------------------------------------------------------------- implementation side
ROW_TOK = re.compile(r'^-?\d\.\d{6}e[+-]\d{2,3}$')


def _code_obj(c):
    if c is None:
        return None
    return c['i'] if 'i' in c else float.fromhex(c['f'])


def _dec_of_number(x):
    """exact decimal (m, e) of a Python int/float"""
    d = Decimal(x)
    s, dg, ex = d.as_tuple()
    m = int(''.join(map(str, dg))) if dg else 0
    return [-m if s else m, int(ex) if m else 0] if m else [0, 0]


def _dec_of_literal(txt):
    d = Decimal(txt)
    s, dg, ex = d.as_tuple()
    m = int(''.join(map(str, dg)))
    return [-m if s else m, int(ex)] if m else [0, 0]


def _dec7(tok):
    """canonical 7-digit decimal of a '%.6e' token"""
    mant, ex = tok.lower().split('e')
    neg = mant.startswith('-')
    digits = mant.lstrip('-').replace('.', '')
    m = int(digits)
    if m == 0:
        return [0, 0]
    return [-m if neg else m, int(ex) - 6]


def _plines(text):
    lines = text.split('\n')
    if lines and lines[-1] == '':
        lines = lines[:-1]
    out = []
    for ln in lines:
        toks = ln.split(', ')
        if toks and all(ROW_TOK.match(t) for t in toks):
            out.append({'r': [_dec7(t) for t in toks]})
        else:
            out.append({'t': ln})
    return out


def _build(case):
    import numpy as np
    from PseudoNetCDF.sci_var import PseudoNetCDFFile, PseudoNetCDFMaskedVariable
    f = PseudoNetCDFFile()
    nrec = len(case['vars'][0]['cells']) if case['vars'] else 0
    f.createDimension('POINTS', nrec)
    for k, v in case['attrs']:
        setattr(f, k, v)
    for v in case['vars']:
        dt = v.get('dt', 'f8')
        if dt[0] == 'i':
            data = np.array([0 if c is None else (c['i'] if isinstance(c, dict) else int(float.fromhex(c))) for c in v['cells']], dtype=dt)
            fl = float.fromhex(v['fill'])
            fill = int(fl) if abs(fl) < 2 ** 31 else -999
        else:
            data = np.array([0.0 if c is None else _cf(c) for c in v['cells']], dtype=dt)
            fill = float.fromhex(v['fill'])
            if dt == 'f4':
                fill = _f4(fill)
        mask = np.array([c is None for c in v['cells']], dtype=bool)
        arr = np.ma.MaskedArray(data, mask=mask, fill_value=fill)
        var = f.variables[v['name']] = PseudoNetCDFMaskedVariable(f, v['name'], np.dtype(dt).char, ('POINTS',), values=arr)
        if v['units'] is not None:
            var.units = v['units']
        co = _code_obj(v['code'])
        if co is not None:
            var.missing_value = co
    return f


def _obs_vars(g):
    import numpy as np
    out = []
    inexact = False
    for k, v in g.variables.items():
        a = v[:]
        m = np.ma.getmaskarray(a).ravel().tolist()
        d = np.ma.getdata(a).ravel().astype('d').tolist()
        cells = []
        for x, mk in zip(d, m):
            if mk:
                cells.append('M')
            elif x != x:
                cells.append('N')
            elif x in (float('inf'), float('-inf')):
                cells.append('N')
                inexact = True
            else:
                tok = '%.6e' % x
                if float(tok) != x:
                    inexact = True
                cells.append(_dec7(tok))
        mv = v.missing_value
        mvs = str(mv)
        out.append(dict(name=k, units=str(getattr(v, 'units', None)), code_s=mvs, code=_dec_of_literal(mvs), cells=cells))
    return out, inexact


def impl(case):
    from PseudoNetCDF.icarttfiles.ffi1001 import ffi1001, ncf2ffi1001
    from PseudoNetCDF._getreader import getreader
    work = tempfile.mkdtemp(dir=os.path.join(C.VERIF, '.work'))
    try:
        obs = dict(wrote=None, read=None, detect=2, second='skip', ndep_decl=-1, inexact=False)
        f = _build(case)
        p1 = os.path.join(work, 'a.c19txt')
        try:
            o = ncf2ffi1001(f, p1)
            o.close()
        except Exception as e:
            obs['write_exc'] = type(e).__name__
            return obs
        text = open(p1).read()
        first, _, rest = text.partition('\n')
        m = re.match(r'^(-?\d+), 1001$', first)
        if not m:
            obs['write_exc'] = 'bad-first-line'
            return obs
        pl = _plines(rest)
        obs['wrote'] = dict(n=int(m.group(1)), lines=pl)
        raw = text.split('\n')
        try:
            obs['ndep_decl'] = int(raw[9])
        except Exception:
            pass
        try:
            obs['detect'] = {'ffi1001': 0, 'l100': 1}.get(getreader(p1).__name__, 2)
        except Exception:
            obs['detect'] = 2
        try:
            g = ffi1001(p1)
        except BaseException as e:
            obs['read_exc'] = type(e).__name__ + ': ' + str(e)[:120]
            return obs
        obs['read'], inx = _obs_vars(g)
        obs['n_header_lines'] = int(g.n_header_lines)
        obs['inexact'] = inx
        if any(c == 'N' for v in obs['read'] for c in v['cells']):
            return obs
        p2 = os.path.join(work, 'b.c19txt')
        try:
            o = ncf2ffi1001(g, p2)
            o.close()
            h = ffi1001(p2)
            obs['second'], inx2 = _obs_vars(h)
            obs['inexact'] = inx or inx2
        except BaseException as e:
            obs['second'] = None
            obs['second_exc'] = type(e).__name__ + ': ' + str(e)[:120]
        return obs
    finally:
        shutil.rmtree(work, ignore_errors=True)


# ----------------------------------------------------------------------------- Coq term
def _s(x):
    if all(32 <= ord(ch) < 127 or ch == '\n' for ch in x):
        return '(s2z "%s"%%string)' % x.replace('"', '""')
    return C.zlist([ord(ch) for ch in x])


def _d(me):
    return '(D %s %s)' % (C.zc(me[0]), C.zc(me[1]))


def _dhex(hx):
    x = float.fromhex(hx)
    if x == 0:
        return '(D 0 0)'
    m, e = x.as_integer_ratio()[0], 0
    fr = Fraction(x)
    m, den = fr.numerator, fr.denominator
    if den == 1:
        k = 0
        while m % 2 == 0:
            m //= 2
            k += 1
    else:
        k = -(den.bit_length() - 1)
    return '(dbin %s %s)' % (C.zc(m), C.zc(k))


def _var_term(v):
    co = _code_obj(v['code'])
    return '(Var %s %s %s %s [%s])' % (
        _s(v['name']), C.copt(v['units'], _s), C.copt(None if co is None else str(co), _s), _dhex(v['fill']),
        '; '.join('None' if c is None else '(Some %s)' % _dhex(_hx(_cf(c))) for c in v['cells']))


def _pline_term(p):
    if 't' in p:
        return '(PT %s)' % _s(p['t'])
    return '(PR [%s])' % '; '.join(_d(x) for x in p['r'])


def _cell_term(c):
    return 'CM' if c == 'M' else ('CN' if c == 'N' else '(CV %s)' % _d(c))


def _rvars_term(vs):
    return '[' + '; '.join('(RVar %s %s %s %s [%s])' % (_s(v['name']), _s(v['units']), _s(v['code_s']), _d(v['code']),
                                                       '; '.join(_cell_term(c) for c in v['cells'])) for v in vs) + ']'


def coq_term(case, obs):
    if 'raises' in obs:
        return None
    f = '(File [%s] [%s])' % ('; '.join('(%s, %s)' % (_s(k), _s(str(v))) for k, v in case['attrs']),
                              '; '.join(_var_term(v) for v in case['vars']))
    w = obs['wrote']
    wt = 'None' if w is None else '(Some (%s, [%s]))' % (C.zc(w['n']), '; '.join(_pline_term(p) for p in w['lines']))
    rd = 'None' if obs['read'] is None else '(Some %s)' % _rvars_term(obs['read'])
    if obs['second'] == 'skip':
        sec = 'None'
    elif obs['second'] is None:
        sec = '(Some None)'
    else:
        sec = '(Some (Some %s))' % _rvars_term(obs['second'])
    return '(Case %s %s %s %s %s %s)' % (f, wt, rd, C.zc(obs['detect']), sec, C.zc(obs['ndep_decl']))


# ----------------------------------------------------------------------------- independent oracle
def _frac(me):
    return Fraction(me[0]) * Fraction(10) ** me[1]


def py_check(case, obs):
    """The statement, clause by clause, on the raw observation (independent of the Coq model).
    Only for the structured stream; the malformed stream (kind mal-*) is judged by F alone."""
    if 'raises' in obs:
        return dict(s_ok=False, f_ok=False, why='harness impl raised %s %s' % (obs.get('raises'), obs.get('msg')))
    if obs.get('inexact'):
        return dict(s_ok=True, f_ok=False, why='a value read back is not a 7-digit decimal (trusted-base check failed)')
    if case['kind'].startswith('mal-'):
        return dict(s_ok=True)
    why = []
    why_big = []
    ind = dict(case['attrs']).get('INDEPENDENT_VARIABLE')
    vs = case['vars']
    order = [v for v in vs if v['name'] == ind] + [v for v in vs if v['name'] != ind]
    for a_ in order:
        rc = _code_obj((order[1] if a_ is order[0] and len(order) > 1 else a_)['code'])
        rc = -999 if rc is None else rc
        if any(x is not None and _cf(x) == float(rc) for x in a_['cells']):
            # an unmasked value equal to the code the text carries for it IS a missing value: outside the domain (in_quant)
            return dict(s_ok=True, why='unmasked value equals the missing code: outside the domain')
    if obs['wrote'] is None:
        return dict(s_ok=False, why='writer raised ' + str(obs.get('write_exc')))
    lines = obs['wrote']['lines']
    first_row = next((i for i, p in enumerate(lines) if 'r' in p), len(lines))
    if obs['wrote']['n'] != first_row + 1:
        why.append('declared header lines %d, actual %d' % (obs['wrote']['n'], first_row + 1))
    if obs['ndep_decl'] != len(order) - 1:
        why.append('declared variable count %s, actual %d' % (obs['ndep_decl'], len(order) - 1))
    if obs['detect'] != 0:
        why.append('auto-detection does not select ffi1001')
    if obs['read'] is None:
        why.append('output does not re-open: ' + str(obs.get('read_exc')))
    else:
        rv = obs['read']
        if [v['name'] for v in rv] != [v['name'] for v in order]:
            why.append('names/order %r != %r' % ([v['name'] for v in rv], [v['name'] for v in order]))
        else:
            for a, b in zip(order, rv):
                if a['units'] != b['units']:
                    why.append('units of %s: %r -> %r' % (a['name'], a['units'], b['units']))
                co = _code_obj(a['code'])
                co = -999 if co is None else co          # documented default of the writer
                if float(co) != float(Decimal(b['code_s'])):
                    why.append('missing code of %s: %r -> %s' % (a['name'], co, b['code_s']))
                for q, (x, y) in enumerate(zip(a['cells'], b['cells'])):
                    if (x is None) != (y == 'M'):
                        why.append('mask of %s[%d] changed' % (a['name'], q))
                        break
                    if x is not None:
                        if y == 'N':
                            why.append('nan')
                            break
                        fx, fy = _cexact(x), _frac(y)
                        if fx == 0:
                            ok = fy == 0
                        else:
                            e = 0
                            ax = abs(fx)
                            while Fraction(10) ** (e + 1) <= ax:
                                e += 1
                            while Fraction(10) ** e > ax:
                                e -= 1
                            ok = abs(fx - fy) <= Fraction(10) ** (e - 6) / 2
                        if not ok and isinstance(x, dict):
                            why_big.append('int64 value %d of %s[%d] printed through a double: not equal to 7 digits' % (x['i'], a['name'], q))
                        elif not ok:
                            why.append('value of %s[%d] not equal to 7 digits' % (a['name'], q))
                            break
        if obs['second'] == 'skip' or obs['second'] is None:
            why.append('second cycle failed: ' + str(obs.get('second_exc')))
        else:
            for a, b in zip(rv, obs['second']):
                if (a['name'], a['units'], a['cells']) != (b['name'], b['units'], b['cells']) or _frac(a['code']) != _frac(b['code']):
                    why.append('second cycle changed %s' % a['name'])
            if len(rv) != len(obs['second']):
                why.append('second cycle changed the variable list')
    if not why and why_big:
        return dict(s_ok=False, region=5, why='; '.join(why_big[:2]))
    return dict(s_ok=not why, region=0, why='; '.join(why[:4]))


def nontrivial(case, obs):
    if 'raises' in obs or not obs.get('read'):
        return False
    for v in case['vars']:
        for c in v['cells']:
            if c is None:
                return True
            x = _cf(c)
            if float('%.6e' % x) != x:
                return True
    return False


def shrink(case):
    vs = case['vars']
    ind = dict(case['attrs']).get('INDEPENDENT_VARIABLE')
    for j in range(len(vs)):
        if vs[j]['name'] != ind and len(vs) > 2:
            yield dict(case, vars=vs[:j] + vs[j + 1:])
    for j, (k, v) in enumerate(case['attrs']):
        if k not in ('SDATE', 'WDATE', 'INDEPENDENT_VARIABLE'):
            yield dict(case, attrs=case['attrs'][:j] + case['attrs'][j + 1:])
    n = len(vs[0]['cells']) if vs else 0
    if n > 1:
        for q in range(n):
            yield dict(case, vars=[dict(v, cells=v['cells'][:q] + v['cells'][q + 1:]) for v in vs])


LEVEL_TEXT = ('Theorems (Props/C19.v, all closed under the global context) over a character-level Gallina model of the REPAIRED ncf2ffi1001 / '
              'ffi1001.__init__ / l100.isMine (fixes C19-attr-newline, C19-lod-flag, C19-write-missing-code, C19-indep-meta, C19-l100-isMine): '
              'full strength for all variable/attribute counts: line classification of the reader = writer layout iff the declared count is '
              'attributes + variables + 15 (C19_line_classes_head, C19_line_classes, C19_count_off_by_one); declared = actual header count for ANY '
              'attribute values (C19_header_count_exact, C19_attr_value_one_line); every header line parser inverts its printer (C19_desc_line, '
              'C19_names_line, C19_user_line, C19_codes_line, C19_codes_count); %.6e is a canonical 7-digit decimal within half a unit of the 7th '
              'digit, idempotent (C19_values_seven_digits, C19_values_canonical, C19_print_idempotent); auto-detection selects ffi1001 unless a line '
              'carries the eight L100 column names (C19_autodetect, C19_few_tokens_not_claimed); _partial: per-cell mask/value round trip and second '
              'cycle for codes that are 7-digit decimals (C19_cell_roundtrip_partial, C19_second_cycle_cell_partial); WHOLE FILES: the header state machine for '
              'any number of description / comment lines (C19_header_state_machine) and reader-on-writer-output up to the first data row with names, order, '
              'units, codes (C19_read_write_meta_partial, C19_line9_units, C19_count_lines_one_line); the data stage for any number of rows / columns (C19_data_stage, C19_written_columns) and the '
              'WHOLE round trip header + data: impl_roundtrip f = Some (... expected_vars f) on the boolean side conditions header_ok / data_ok '
              '(C19_roundtrip_whole_partial); tie T: the line classification is the source\'s if/elif chain over the regenerated line-number '
              'expressions and the declared count is the source\'s expression (C19_classify_is_source, C19_header_count_is_source, coq/Gen/IcarttSrc.v); '
              'against the specification: C19_expected_is_spec, C19_roundtrip_whole (write then read = spec_roundtrip f on whole files), C19_spec_fixed_point, '
              'C19_side_conditions_closed_vars, C19_side_conditions_closed_attrs, C19_side_conditions_closed (the side conditions of the file read back follow '
              'from those of f: attribute-list invariant through the header loop), C19_second_cycle_whole (second cycle on whole files, hypotheses on f only); '
              'the whole-file theorems assume only the boolean side conditions on f; evaluated by vm_compute (C19_domain_inhabited, C19_repaired_cases) and compared with the library on every case; '
              '_refuted = remaining known findings: C19_indep_code_refuted, C19_mask_long_code_refuted, C19_value_collision_refuted, '
              'C19_name_slash_refuted, C19_unit_comma_refuted. Tie H: text line by line, reader result, getreader class, second cycle.')
LEVEL_NOTE = ('Trusted: Coq kernel + vm_compute; the harness; binary64 <-> <=15-digit decimal round trip and glibc %.6e rounding (checked per case); '
              'numpy.genfromtxt semantics as modelled; date-line parsing not modelled.')
TECHNIQUE = 'Coq proof (induction over variables / attributes / header lines) + vm_compute refutation witnesses + differential correspondence'


# ----------------------------------------------------------------------------- tie T: header arithmetic from the source
def translate():
    """Regenerates coq/Gen/IcarttSrc.v from /repo's icarttfiles/ffi1001.py: the module constants PI_LINE .. MISSING_LINE, the four
    line-number expressions of ffi1001.__init__ and the header-count expression of ncf2ffi1001 (fail-closed)."""
    import ast, re
    from translate import py2coq as P
    path = os.path.join(C.SRC, 'PseudoNetCDF', 'icarttfiles', 'ffi1001.py')
    out, lines = [], ['(* GENERATED by harness/props/c19.py translate() from icarttfiles/ffi1001.py - do not edit *)',
                      'From Coq Require Import ZArith.', 'Local Open Scope Z_scope.', '']
    try:
        tree = ast.parse(open(path).read())
    except Exception as e:
        return [dict(anchor='ffi1001.py', ok=False, detail=str(e)[:200])]

    def emit(anchor, coqname, node, params):
        try:
            term = P.expr(node, P.Ctx())
            free = sorted(set(re.findall(r'\bv_[A-Za-z_][A-Za-z0-9_]*', term)))
            want = ['v_' + q for q in params]
            if any(fv not in want for fv in free):
                raise P.Untranslatable('free variables %s, expected %s' % (free, want))
            lines.append('Definition %s %s: Z := %s.' % (coqname, ''.join('(v_%s : Z) ' % q for q in params), term))
            out.append(dict(anchor=anchor, ok=True, detail=term))
        except Exception as e:
            lines.append('(* %s: NOT TRANSLATED *)' % coqname)
            out.append(dict(anchor=anchor, ok=False, detail='%s: %s' % (type(e).__name__, str(e)[:200])))

    def single(nodes, what):
        if len(nodes) != 1:
            raise P.Untranslatable('%s: expected exactly one, found %d' % (what, len(nodes)))
        return nodes[0]

    consts = ['PI_LINE', 'ORG_LINE', 'PLAT_LINE', 'MISSION_LINE', 'VOL_LINE', 'DATE_LINE', 'TIME_INT_LINE', 'UNIT_LINE',
              'DATE_VAR_LINE', 'SCALE_LINE', 'MISSING_LINE']
    for cn in consts:
        try:
            node = single([st.value for st in tree.body if isinstance(st, ast.Assign) and len(st.targets) == 1
                           and isinstance(st.targets[0], ast.Name) and st.targets[0].id == cn], cn)
            emit('ffi1001.py:' + cn, cn, node, [])
        except Exception as e:
            out.append(dict(anchor='ffi1001.py:' + cn, ok=False, detail=str(e)[:200]))
    try:
        cls = single([st for st in tree.body if isinstance(st, ast.ClassDef) and st.name == 'ffi1001'], 'class ffi1001')
        init = single([st for st in cls.body if isinstance(st, ast.FunctionDef) and st.name == '__init__'], '__init__')
        for nm, params in [('LAST_VAR_DESC_LINE', ['len_missing']), ('SPECIAL_COMMENT_COUNT_LINE', ['LAST_VAR_DESC_LINE']),
                           ('LAST_SPECIAL_COMMENT_LINE', ['SPECIAL_COMMENT_COUNT_LINE', 'n_special_comments']),
                           ('USER_COMMENT_COUNT_LINE', ['len_missing', 'n_special_comments'])]:
            try:
                node = single([st.value for st in ast.walk(init) if isinstance(st, ast.Assign) and len(st.targets) == 1
                               and isinstance(st.targets[0], ast.Name) and st.targets[0].id == nm], nm)
                emit('ffi1001.__init__:' + nm, nm, node, params)
            except Exception as e:
                out.append(dict(anchor='ffi1001.__init__:' + nm, ok=False, detail=str(e)[:200]))
    except Exception as e:
        out.append(dict(anchor='ffi1001.__init__', ok=False, detail=str(e)[:200]))
    try:
        wr = single([st for st in tree.body if isinstance(st, ast.FunctionDef) and st.name == 'ncf2ffi1001'], 'ncf2ffi1001')
        # print('%d, %d' % (<count>, 1001), file=outfile)
        cands = [n for n in ast.walk(wr) if isinstance(n, ast.BinOp) and isinstance(n.op, ast.Mod) and isinstance(n.left, ast.Constant)
                 and n.left.value == '%d, %d' and isinstance(n.right, ast.Tuple) and len(n.right.elts) == 2]
        node = single(cands, "'%d, %d' % (count, 1001)")
        emit('ncf2ffi1001:header-count', 'header_count_expr', node.right.elts[0], ['len_myattrs', 'len_depvarkeys'])
        emit('ncf2ffi1001:format-number', 'format_number', node.right.elts[1], [])
    except Exception as e:
        out.append(dict(anchor='ncf2ffi1001:header-count', ok=False, detail=str(e)[:200]))
    P.write_if_changed(os.path.join(C.COQ, 'Gen', 'IcarttSrc.v'), '\n'.join(lines) + '\n')
    return out
