"""C01 — every operation yields a structurally well-formed netCDF-like file.
Random files + random operation sequences on the real library; after every step the structure
(dimension table, per-variable dimension names / shape / attributes, file attributes) is compared
with Model/FileStruct.v (F) and checked for well-formedness (S)."""
import os, json
from harness import common as C

ID = 'C01'
N = {'quick': 1500, 'thorough': 20000}
SEARCH_N = {'quick': 1500, 'thorough': 12000}
CASE_TIMEOUT = 30.0
SHARD = 120

# the string table; index = the number used in Coq (first four fixed in Model/FileStruct.v)
NAMES = ['units', 'fill_value', 'expression', 'POINTS',
         't', 'y', 'x', 's', 'z', 'w', 'q',
         'A', 'B', 'C', 'D', 'E', 'N', 'M', 'Q',
         'title', 'history', 'long_name', 'standard_name',
         'phony_dim_0', 'phony_dim_1', 'phony_dim_2', 'phony_dim_3', 'missing_value', '_FillValue']
NID = {n: i for i, n in enumerate(NAMES)}
DIMPOOL = ['t', 'y', 'x', 's', 'z']
VARPOOL = ['A', 'B', 'C', 'D', 'E']

RULE = ('file: 1-4 dimensions (length 1-4, at most one unlimited), 1-5 variables of rank 0-3 over differing dimension subsets '
        '(masked and unmasked, 1-D coordinate variables named like their dimension, scalar variables, length-1 dimensions), built by '
        'createDimension/createVariable, from_ncf, from_ncvs/from_arrays, or written to netCDF and read back; then 1-5 operations '
        '(copy, subsetVariables, renameVariable(s), renameDimension(s), insertDimension, removeSingleton, reorderDimensions, '
        'sliceDimensions incl. several index arrays, applyAlongDimensions, stack, mask, eval, binary operators, interpDimension) '
        'whose arguments are drawn valid for the CURRENT state of the real file (mostly) or malformed (unknown key, index out of range, '
        'unequal index-array lengths, mismatching mask shape); arithmetic operands are derived from the current file (itself, sliced, repeated, subset, '
        'a dimension of length 1 inserted at the front/middle/end = higher rank, singleton dimensions removed = lower rank, dimensions reordered); structure observed after every step. Non-trivial = at least one '
        'successful step that changed the structure. A fifth of the cases are IOAPI-convention files (ioapi_base.from_arrays, 4-D variables plus '
        'optionally a 2-D (ROW,COL) variable) driven through multi-dimension sliceDimensions calls mixing index lists, ints and slices on '
        'TSTEP/LAY/ROW/COL, plus apply/subset/mask/eval/stack/renameVariable/copy; there well-formedness and "TSTEP unlimited" are evaluated '
        'directly on the real objects after every step (Python oracle; the IOAPI wrappers are not in Model/FileStruct.v).')
TRUSTED = ['numpy assignment broadcasting / binary broadcasting / slice-length rules as modelled in Model/FileStruct.v (bc_into, bcast, slice_len): checked only through the correspondence',
           'the structural observation (dimensions, isunlimited, var.dimensions, var.shape, ncattrs+getattr) is taken from the real objects by harness/props/c01.py',
           'operands `other` of stack/arithmetic are observed from the real objects and given to the model as inputs']
ASSUMPTIONS = ['values are not modelled (C02-C06 cover them); only structure',
               'not modelled: inplace=True variants, interpDimension with N-d coordinates, '
               'sliceDimensions newdims other than the default, variables named like a dimension that are not 1-D (sizes differ only there), '
               'numpy apply_along_axis refusing zero-length iteration axes',
               'eval is modelled for three expression shapes: N = a*2, N = a+b, N = a[0]',
               'not generated: eval / reorderDimensions directly on the result of file arithmetic (variables built by pncbo carry numpy.ma _basedict state, '
               'invisible in the structure, that decides whether fill_value stays listed on derived arrays; any copying operation clears it)',
               ]
TECHNIQUE = 'Coq proof (invariant by induction over operation sequences) + vm_compute refutation witnesses + differential correspondence on random operation sequences'
LEVEL_TEXT = ('Theorems (Props/C01.v, closed under the global context) over a structure-level Gallina model of 14 operations, describing /repo as '
              'repaired (renameDimensions, arithmetic, applyAlongDimensions, reorderDimensions): every step of every operation other than eval, with any '
              'arguments, from any well-formed file, raises or returns a well-formed file (C01_step_wf_all_but_eval, full strength); eval is '
              'characterised exactly - well-formed iff the value has the shape of the dimensions it inherits (C01_eval_wf_iff) - and with that side '
              'condition the invariant holds for sequences of any length including all intermediate files (C01_step_wf_partial, C01_run_wf_partial, '
              'C01_trace_wf_partial); without it the statement is refuted by vm_compute witnesses replayed on the library (C01_eval_index_refuted, '
              'C01_eval_broadcast_refuted, C01_run_wf_refuted) = known finding C01-eval-shape; applyAlongDimensions completes on its documented '
              'domain (C01_apply_completes); dimension tables stay dictionaries (C01_keys_nodup_invariant); unlimited flags of surviving dimensions are '
              'kept by all 14 operations (C01_step_unlimited_partial; one side condition, refuted without it: C01_slice_points_refuted). '
              'Tie H: structure after every step, incl. raises; IOAPI-convention files by the Python oracle.')
LEVEL_NOTE = 'Trusted: Coq kernel + vm_compute; the correspondence harness; numpy broadcasting/slicing rules as modelled; values not modelled.'


def nid(s):
    return NID[s]


# ----------------------------------------------------------------------------- driving the library
def build(init, workdir=None):
    import numpy as np
    from PseudoNetCDF import PseudoNetCDFFile
    from PseudoNetCDF.core._variables import PseudoNetCDFVariable
    how = init['how']
    if how == 'ioapi':
        from PseudoNetCDF.cmaqfiles import ioapi_base
        nt, nl, nr, nc = init['nt'], init['nl'], init['nr'], init['nc']
        arrs = {}
        for i, k in enumerate(init['vars']):
            arrs[k] = (np.arange(nt * nl * nr * nc, dtype='f') + i).reshape(nt, nl, nr, nc)
        for i, k in enumerate(init.get('vars2d', [])):
            arrs[k] = (np.arange(nr * nc, dtype='f') + i).reshape(nr, nc)
        fa = dict(SDATE=2000001, STIME=0, TSTEP=10000, VGLVLS=np.linspace(1, 0, nl + 1), VGTOP=5000.,
                  XORIG=0., YORIG=0., XCELL=1000., YCELL=1000., NTHIK=1)
        return ioapi_base.from_arrays(fileattrs=fa, **arrs)

    def fill(v, shape, seed):
        n = 1
        for s in shape:
            n *= s
        vals = (np.arange(n, dtype='f') * 1.5 + seed).reshape(shape)
        return vals

    if how in ('from_ncvs', 'from_arrays'):
        lens = {d[0]: d[1] for d in init['dims']}
        if how == 'from_arrays':
            arrs = {}
            for vi, (vk, vd, masked, atts) in enumerate(init['vars']):
                arrs[vk] = fill(None, [lens[d] for d in vd], vi)
            # from_arrays takes ONE dims tuple for all arrays; the generator gives all variables the same dims
            dims = tuple(init['vars'][0][1]) if init.get('explicit_dims') else None
            f = PseudoNetCDFFile.from_arrays(dims=dims, attrs={'units': 'u'}, **arrs)
        else:
            vs = {}
            for vi, (vk, vd, masked, atts) in enumerate(init['vars']):
                shape = [lens[d] for d in vd]
                kw = {a: 'v' for a in atts if a != 'fill_value'}
                vs[vk] = PseudoNetCDFVariable.from_array(vk, fill(None, shape, vi), tuple(vd), **kw)
            f = PseudoNetCDFFile.from_ncvs(**vs)
        for a in init['gattrs']:
            setattr(f, a, 'g')
        return f
    f = PseudoNetCDFFile()
    for dk, dl, du in init['dims']:
        d = f.createDimension(dk, dl)
        if du:
            d.setunlimited(True)
    for vi, (vk, vd, masked, atts) in enumerate(init['vars']):
        if masked:
            v = f.createVariable(vk, 'f', tuple(vd), fill_value=-999.)
        else:
            v = f.createVariable(vk, 'f', tuple(vd))
        for a in atts:
            if a != 'fill_value':
                setattr(v, a, 'v')
        v[...] = fill(v, v.shape, vi)
    for a in init['gattrs']:
        setattr(f, a, 'g')
    if init['coords']:
        f.setCoords(list(init['coords']))
    if how == 'from_ncf':
        g = PseudoNetCDFFile.from_ncf(f)
        if init['coords']:
            g.setCoords(list(init['coords']))
        return g
    if how == 'reader':
        import PseudoNetCDF as pnc
        path = os.path.join(workdir, 'c01.nc')
        if os.path.exists(path):
            os.remove(path)
        o = f.save(path, format='NETCDF4_CLASSIC', verbose=0)
        o.close()
        return pnc.pncopen(path, format='netcdf')
    return f


def observe_io(f):
    """IOAPI-convention files (py oracle only): names stay strings"""
    dims = [[k, int(len(d)), bool(d.isunlimited())] for k, d in f.dimensions.items()]
    vs = []
    for k, v in f.variables.items():
        vs.append([k, list(v.dimensions), [int(s_) for s_ in v.shape], all(hasattr(v, a) for a in v.ncattrs())])
    return dict(io=True, dims=dims, vars=vs, gattrs_ok=all(hasattr(f, a) for a in f.ncattrs()), cls=type(f).__name__)


def wf_io(st):
    lens = {k: n for k, n, u in st['dims']}
    why = []
    for k, vd, sh, aok in st['vars']:
        if any(d not in lens for d in vd):
            why.append('%s names a missing dimension %s' % (k, [d for d in vd if d not in lens]))
        elif [lens[d] for d in vd] != list(sh):
            why.append('%s dims %s shape %s but dimension lengths %s' % (k, vd, sh, [lens[d] for d in vd]))
        if not aok:
            why.append('%s lists an attribute that is not retrievable' % k)
    if not st['gattrs_ok']:
        why.append('file lists an attribute that is not retrievable')
    return why


def observe(f):
    import numpy as np
    if hasattr(f, 'updatemeta'):
        return observe_io(f)
    dims = [[nid(k), int(len(d)), bool(d.isunlimited())] for k, d in f.dimensions.items()]
    vs = []
    for k, v in f.variables.items():
        pseudo = isinstance(v, np.ndarray)
        atts = []
        for a in v.ncattrs():
            if not pseudo and a.startswith('_'):
                continue
            atts.append([nid(a), bool(hasattr(v, a))])
        if not pseudo and '_FillValue' in v.ncattrs() and 'fill_value' not in v.ncattrs():
            atts.append([nid('fill_value'), True])
        masked = isinstance(v, np.ma.MaskedArray) if pseudo else any(a[0] == 1 for a in atts)
        cellmasked = bool(pseudo and masked and v.ndim == 0 and np.ma.getmaskarray(v).any())
        vs.append([nid(k), [nid(d) for d in v.dimensions], [int(s) for s in v.shape], bool(masked), sorted(atts), cellmasked])
    ga = sorted([nid(a), bool(hasattr(f, a))] for a in f.ncattrs())
    return dict(dims=dims, vars=vs, gattrs=ga, coords=[nid(k) for k in f.getCoords()])


def mksel(s):
    if s[0] == 'int':
        return int(s[1])
    if s[0] == 'slice':
        return slice(s[1], s[2], s[3])
    return list(s[1])


def mkfun(a):
    import numpy as np
    k = a[0]
    if k == 'named':
        return a[1]
    if k == 'half':
        return lambda x: x[::2]
    if k == 'diff':
        return np.diff
    if k == 'cum':
        return np.cumsum
    if k == 'first':
        n = a[1]
        return lambda x: x[:n]
    if k == 'rep':
        return lambda x: np.repeat(x, 2)
    if k == 'scalar':
        return np.mean
    if k == 'dict':
        return dict(func1d=np.diff)
    raise ValueError(k)


def derive(f, spec):
    """operand file of stack / arithmetic, derived from the current file"""
    k = spec[0]
    if k == 'self':
        return f
    if k == 'slice01':
        return f.sliceDimensions(**{spec[1]: slice(0, 1)})
    if k == 'rep':
        import numpy as np
        return f.applyAlongDimensions(**{spec[1]: lambda x: np.repeat(x, 2)})
    if k == 'subset':
        return f.subsetVariables(list(spec[1]))
    if k == 'renamevar':
        return f.renameVariable(spec[1], spec[2])
    if k == 'insert':
        # [insert, name, length, before, after]: a higher-rank operand (numpy prepends/aligns broadcast axes)
        before = spec[3] if len(spec) > 3 else None
        after = spec[4] if len(spec) > 4 else None
        return f.insertDimension(before=before, after=after, **{spec[1]: spec[2]})
    if k == 'reorder':
        return f.reorderDimensions(tuple(spec[1]), tuple(spec[2]))
    if k == 'remove':
        return f.removeSingleton()
    raise ValueError(k)


def apply_op(f, op):
    """returns (new file, [observed operand files])"""
    thunk, oobs = prepare(f, op)
    return thunk(), oobs


def prepare(f, op):
    """derive and observe the operand files (nested operations) first; returns (thunk running the operation, observations)"""
    k = op['op']
    if k == 'stack':
        others = [derive(f, s) for s in op['others']]
        obs = [observe(o) for o in others]
        arg = others if op.get('aslist', True) else others[0]
        return (lambda: f.stack(arg, op['d'])), obs
    if k == 'binop':
        other = derive(f, op['other'])
        obs = [observe(other)]
        sym = op['sym']
        return (lambda: {'+': lambda: f + other, '-': lambda: f - other, '*': lambda: f * other, '/': lambda: f / other}[sym]()), obs
    return (lambda: apply_op1(f, op)[0]), []


def apply_op1(f, op):
    import numpy as np
    k = op['op']
    if k == 'copy':
        return f.copy(), []
    if k == 'subset':
        return f.subsetVariables(list(op['keys'])), []
    if k == 'renamevar':
        prs = op['pairs']
        if len(prs) == 1:
            return f.renameVariable(prs[0][0], prs[0][1]), []
        return f.renameVariables(**{a: b for a, b in prs}), []
    if k == 'renamedim':
        prs = op['pairs']
        if len(prs) == 1:
            return f.renameDimension(prs[0][0], prs[0][1]), []
        return f.renameDimensions(**{a: b for a, b in prs}), []
    if k == 'insert':
        return f.insertDimension(newonly=op['newonly'], multionly=op['multionly'], before=op['before'], after=op['after'],
                                 **{op['dk']: op['dl']}), []
    if k == 'remove':
        return f.removeSingleton(op['dk']), []
    if k == 'reorder':
        return f.reorderDimensions(tuple(op['old']), tuple(op['new'])), []
    if k == 'slice':
        return f.sliceDimensions(**{d: mksel(s) for d, s in op['sels']}), []
    if k == 'apply':
        return f.applyAlongDimensions(**{d: mkfun(a) for d, a in op['funs']}), []
    if k == 'stack':
        others = [derive(f, s) for s in op['others']]
        obs = [observe(o) for o in others]
        arg = others if op.get('aslist', True) else others[0]
        return f.stack(arg, op['d']), obs
    if k == 'mask':
        kw = {}
        if op['how'] == 'greater':
            kw['greater'] = 2.0
        else:
            kw['where'] = np.ones(tuple(op['wshape']), dtype=bool)
            if op['mdims'] is not None:
                kw['dims'] = tuple(op['mdims'])
        if op['withcoords']:
            kw['coords'] = True
        return f.mask(**kw), []
    if k == 'eval':
        e = op['expr']
        if e[0] == 'scale':
            s = '%s = %s * 2' % (op['key'], e[1])
        elif e[0] == 'bin':
            s = '%s = %s + %s' % (op['key'], e[1], e[2])
        else:
            s = '%s = %s[0]' % (op['key'], e[1])
        return f.eval(s, copyall=op['copyall']), []
    if k == 'binop':
        other = derive(f, op['other'])
        obs = [observe(other)]
        sym = op['sym']
        if sym == '+':
            return f + other, obs
        if sym == '-':
            return f - other, obs
        if sym == '*':
            return f * other, obs
        return f / other, obs
    if k == 'interp':
        return f.interpDimension(op['d'], np.asarray(op['vals'], dtype='d')), []
    raise ValueError(k)


def impl(case):
    import tempfile, shutil, warnings
    import numpy as np
    warnings.simplefilter('ignore')
    work = None
    try:
        if case['init']['how'] == 'reader':
            work = tempfile.mkdtemp(dir=os.path.join(C.VERIF, '.work'))
        with np.errstate(all='ignore'):
            f = build(case['init'], work)
            states = [observe(f)]
            others = []
            raised = None
            for op in case['ops']:
                try:
                    thunk, oobs = prepare(f, op)
                except Exception as e:  # a nested operation (deriving the operand) raised: the sequence is cut before this step
                    raised = 'operand:' + type(e).__name__
                    break
                others.append(oobs)
                try:
                    g = thunk()
                    st = observe(g)
                except Exception as e:  # the operation raised: the sequence stops here
                    raised = type(e).__name__
                    break
                states.append(st)
                f = g
        try:
            if hasattr(f, 'close'):
                pass
        except Exception:
            pass
        return dict(states=states, others=others, raised=raised)
    finally:
        if work:
            shutil.rmtree(work, ignore_errors=True)


# ----------------------------------------------------------------------------- Coq terms
def cnat(n):
    return '%d' % int(n)


def cnames(l):
    return '[' + '; '.join(cnat(x) for x in l) + ']'


def cattrs(a):
    return '[' + '; '.join('(%d, %s)' % (k, C.cbool(b)) for k, b in a) + ']'


def cfile(st):
    dims = '[' + '; '.join('(%d, (%d, %s))' % (k, n, C.cbool(u)) for k, n, u in st['dims']) + ']'
    vs = '[' + '; '.join('(%d, Var %s %s %s)' % (k, cnames(vd), cnames(sh), cattrs(at)) for k, vd, sh, m, at, cm in st['vars']) + ']'
    return '(File %s %s %s %s)' % (dims, vs, cattrs(st['gattrs']), cnames(st['coords']))


def cz(z):
    return '(%d)%%Z' % int(z)


def coz(z):
    return 'None' if z is None else '(Some %s)' % cz(z)


def csel(s):
    if s[0] == 'int':
        return '(SInt %s)' % cz(s[1])
    if s[0] == 'slice':
        return '(SSlice %s %s %s)' % (coz(s[1]), coz(s[2]), cz(1 if s[3] is None else s[3]))
    return '(SList [%s])' % '; '.join(cz(i) for i in s[1])


def cfun(a):
    k = a[0]
    return {'named': 'ANamed', 'half': 'AHalf', 'diff': 'ADiff', 'cum': 'ACum', 'rep': 'ARep', 'scalar': 'AScalar',
            'dict': 'ADict'}.get(k) or '(AFirst %d)' % a[1]


def copn(x):
    return 'None' if x is None else '(Some %d)' % nid(x)


def cop(op, oobs):
    k = op['op']
    if k == 'copy':
        return 'OCopy'
    if k == 'subset':
        return '(OSubset %s)' % cnames(nid(x) for x in op['keys'])
    if k in ('renamevar', 'renamedim'):
        return '(%s [%s])' % ('ORenameVar' if k == 'renamevar' else 'ORenameDim',
                               '; '.join('(%d, %d)' % (nid(a), nid(b)) for a, b in op['pairs']))
    if k == 'insert':
        return '(OInsert %d %d %s %s %s %s)' % (nid(op['dk']), op['dl'], C.cbool(op['newonly']), C.cbool(op['multionly']),
                                                copn(op['before']), copn(op['after']))
    if k == 'remove':
        return '(ORemove %s)' % copn(op['dk'])
    if k == 'reorder':
        return '(OReorder %s)' % cnames(nid(x) for x in op['new'])
    if k == 'slice':
        return '(OSlice [%s])' % '; '.join('(%d, %s)' % (nid(d), csel(s)) for d, s in op['sels'])
    if k == 'apply':
        return '(OApply [%s])' % '; '.join('(%d, %s)' % (nid(d), cfun(a)) for d, a in op['funs'])
    if k == 'stack':
        return '(OStack [%s] %d)' % ('; '.join(cfile(o) for o in oobs), nid(op['d']))
    if k == 'mask':
        md = 'None' if op['how'] == 'greater' or op['mdims'] is None else '(Some %s)' % cnames(nid(x) for x in op['mdims'])
        ws = 'None' if op['how'] == 'greater' else '(Some %s)' % cnames(op['wshape'])
        return '(OMask %s %s %s)' % (md, ws, C.cbool(op['withcoords']))
    if k == 'eval':
        e = op['expr']
        ce = {'scale': lambda: '(EScale %d)' % nid(e[1]), 'bin': lambda: '(EBin %d %d)' % (nid(e[1]), nid(e[2])),
              'index': lambda: '(EIndex %d)' % nid(e[1])}[e[0]]()
        return '(OEval %d %s %s)' % (nid(op['key']), ce, C.cbool(op['copyall']))
    if k == 'binop':
        return '(OBinop %s)' % cfile(oobs[0])
    if k == 'interp':
        return '(OInterp %d %d)' % (nid(op['d']), len(op['vals']))
    raise ValueError(k)


def coq_term(case, obs):
    if 'raises' in obs or case['init']['how'] == 'ioapi':
        return None
    n_ok = len(obs['states']) - 1
    real_raise = obs['raised'] is not None and not obs['raised'].startswith('operand:')
    ops = case['ops'][:n_ok + (1 if real_raise else 0)]
    terms = [cop(op, obs['others'][i]) for i, op in enumerate(ops)]
    outs = ['(Ok %s)' % cfile(s) for s in obs['states'][1:]] + (['Raise'] if real_raise else [])
    return '(Case %s [%s] [%s])%%nat' % (cfile(obs['states'][0]), '; '.join(terms), '; '.join(outs))


# ----------------------------------------------------------------------------- independent oracle (S only)
def wf_state(st):
    lens = {k: n for k, n, u in st['dims']}
    why = []
    for k, vd, sh, m, at, cm in st['vars']:
        if any(d not in lens for d in vd):
            why.append('%s names a missing dimension %s' % (NAMES[k], [NAMES[d] for d in vd if d not in lens]))
        elif [lens[d] for d in vd] != list(sh):
            why.append('%s dims %s shape %s but dimension lengths %s' % (NAMES[k], [NAMES[d] for d in vd], sh, [lens[d] for d in vd]))
        if not all(b for _, b in at):
            why.append('%s lists an attribute that is not retrievable' % NAMES[k])
    if not all(b for _, b in st['gattrs']):
        why.append('file lists an attribute that is not retrievable')
    return why


def py_check_io(case, obs):
    """IOAPI-convention files: well-formedness evaluated directly on the real objects after every step; TSTEP stays unlimited"""
    why = []
    region = 0
    for i, st in enumerate(obs['states']):
        w = wf_io(st)
        if st['cls'].startswith('ioapi') and any(k == 'TSTEP' and not u for k, n, u in st['dims']):
            w.append('IOAPI file whose TSTEP dimension is not unlimited')
        if w:
            why.append('after step %d (%s): %s' % (i, json.dumps(case['ops'][i - 1]) if i else 'from_arrays', '; '.join(w)))
            break
    for i in range(1, len(obs['states'])):
        a, b = obs['states'][i - 1], obs['states'][i]
        ub = {k: u for k, n, u in b['dims']}
        for k, n, u in a['dims']:
            if k in ub and ub[k] != u:
                why.append('step %d (%s) changed the unlimited flag of %s' % (i, case['ops'][i - 1]['op'], k))
                region = 0
    return dict(s_ok=not why, why='; '.join(why), region=region)


def py_check(case, obs):
    if 'raises' in obs:
        return dict(s_ok=False, why='harness failure: %s %s' % (obs.get('raises'), obs.get('msg')))
    if case['init']['how'] == 'ioapi':
        return py_check_io(case, obs)
    why = []
    for i, st in enumerate(obs['states']):
        w = wf_state(st)
        if w:
            why.append('after step %d (%s): %s' % (i, case['ops'][i - 1]['op'] if i else case['init']['how'], '; '.join(w)))
            break
    for i in range(1, len(obs['states'])):
        a, b = obs['states'][i - 1], obs['states'][i]
        ub = {k: u for k, n, u in b['dims']}
        ren = {}
        if case['ops'][i - 1]['op'] == 'renamedim':      # the dimension formerly called d is now called ren[d]
            ren = {nid(o): nid(n_) for o, n_ in case['ops'][i - 1]['pairs']}
        for k, n, u in a['dims']:
            k = ren.get(k, k)
            if k in ub and ub[k] != u:
                why.append('step %d (%s) changed the unlimited flag of %s' % (i, case['ops'][i - 1]['op'], NAMES[k]))
    region = 0
    # completion clause (partly): applyAlongDimensions with a documented argument form on existing dimensions must complete
    real_raise = obs['raised'] is not None and not obs['raised'].startswith('operand:')
    n_ok = len(obs['states']) - 1
    if real_raise and n_ok < len(case['ops']) and case['ops'][n_ok]['op'] == 'apply':
        cur = obs['states'][n_ok]
        have = {NAMES[k] for k, n, u in cur['dims']}
        op = case['ops'][n_ok]
        dimids = {k for k, n, u in cur['dims']}
        # a variable named like a dimension is taken as its coordinate by the library: only the 1-D coordinate-variable convention is in domain
        coord_ok = all(vd == [k] for k, vd, sh, m, at, cm in cur['vars'] if k in dimids)
        if all(d in have for d, a in op['funs']) and all(n > 0 for k, n, u in cur['dims']) and not wf_state(cur) and coord_ok:
            why.append('applyAlongDimensions(%s) raised %s' % (op['funs'], obs['raised']))
    return dict(s_ok=not why, why='; '.join(why), region=region)


def nontrivial(case, obs):
    if 'raises' in obs:
        return False
    sts = obs['states']
    return any(json.dumps(sts[i], sort_keys=True) != json.dumps(sts[i - 1], sort_keys=True) for i in range(1, len(sts)))


def shrink(case):
    ops = case['ops']
    for i in range(len(ops) - 1, -1, -1):
        yield dict(case, ops=ops[:i] + ops[i + 1:])
    init = case['init']
    if init['how'] == 'ioapi':
        return
    for i in range(len(init['vars'])):
        vs = init['vars'][:i] + init['vars'][i + 1:]
        if vs:
            yield dict(case, init=dict(init, vars=vs, coords=[c for c in init['coords'] if c in [v[0] for v in vs]]))
    if init['how'] != 'ctor':
        yield dict(case, init=dict(init, how='ctor'))


# ----------------------------------------------------------------------------- generation (guided by the real object's state)
def gen_init(rng, tier):
    how = rng.choice(['ctor', 'ctor', 'ctor', 'from_ncf', 'reader', 'from_ncvs', 'from_arrays'])
    nd = rng.randint(1, 4)
    dnames = rng.sample(DIMPOOL, nd)
    unl = rng.choice(dnames) if rng.random() < 0.6 else None
    dims = [[d, rng.choice([1, 1, 2, 3, 4]), d == unl] for d in dnames]
    vs = []
    nv = rng.randint(1, 5)
    vnames = rng.sample(VARPOOL, nv)
    if how == 'from_arrays':
        explicit = rng.random() < 0.5
        r = rng.randint(1, min(3, nd))
        vd = rng.sample(dnames, r)
        if not explicit:
            # phony dims: all arrays of one rank must agree on the lengths
            dims = [['phony_dim_%d' % i, rng.randint(1, 4), False] for i in range(r)]
            vd = [d[0] for d in dims]
        for vk in vnames[:rng.randint(1, 3)]:
            vs.append([vk, list(vd), False, ['units']])
        return dict(how=how, dims=dims, vars=vs, gattrs=[], coords=[], explicit_dims=explicit)
    for vk in vnames:
        r = rng.choice([0, 1, 2, 2, 3, 3])
        r = min(r, nd)
        vd = rng.sample(dnames, r)
        if rng.random() < 0.5:
            vd = [d for d in dnames if d in vd]      # file order (typical) vs. shuffled
        masked = rng.random() < 0.3
        atts = [a for a in ['units', 'long_name'] if rng.random() < 0.7]
        vs.append([vk, vd, masked, atts])
    for d in dnames:
        if rng.random() < 0.35:
            vs.insert(rng.randint(0, len(vs)), [d, [d], False, ['units']])
    coords = []
    if how not in ('from_ncvs',) and rng.random() < 0.3:
        coords = [rng.choice(vs)[0]]
    if how == 'from_ncvs':
        for v in vs:
            v[2] = False
    gattrs = [a for a in ['title', 'history'] if rng.random() < 0.5]
    return dict(how=how, dims=dims, vars=vs, gattrs=gattrs, coords=coords)


def gen_sel(rng, n, bad=False):
    k = rng.choice(['int', 'slice', 'slice', 'list'])
    if k == 'int':
        if bad:
            return ['int', rng.choice([n, n + 1, -n - 1])]
        return ['int', rng.randint(-n, n - 1)]
    if k == 'slice':
        a = rng.choice([None, None, rng.randint(-n - 1, n + 1)])
        b = rng.choice([None, None, rng.randint(-n - 1, n + 1)])
        st = rng.choice([None, None, 1, 2, -1, -2, 3])
        return ['slice', a, b, st]
    m = rng.randint(1, 3)
    l = [rng.randint(-n, n - 1) for _ in range(m)]
    if bad:
        l[rng.randrange(m)] = rng.choice([n, -n - 1])
    return ['list', l]


def gen_op(rng, st, malformed):
    """st: observed state of the current real file"""
    dims = [(NAMES[k], n) for k, n, u in st['dims']]
    dn = [d for d, _ in dims]
    dl = dict(dims)
    vs = [(NAMES[k], [NAMES[d] for d in vd], sh) for k, vd, sh, m, at, cm in st['vars']]
    vn = [v[0] for v in vs]
    fresh_d = [d for d in DIMPOOL + ['w', 'q'] if d not in dn]
    fresh_v = [v for v in VARPOOL + ['N', 'M'] if v not in vn]
    kinds = ['copy', 'subset', 'renamevar', 'renamedim', 'renamedim', 'insert', 'remove', 'reorder', 'slice', 'slice', 'slice',
             'apply', 'apply', 'stack', 'stack', 'mask', 'eval', 'eval', 'binop', 'binop', 'interp']
    k = rng.choice(kinds)
    bad = malformed and rng.random() < 0.6
    if k == 'copy':
        return dict(op='copy')
    if k == 'subset':
        keys = [v for v in vn if rng.random() < 0.5]
        if bad:
            keys.insert(rng.randint(0, len(keys)), 'Q')
        elif keys and rng.random() < 0.15:
            keys.append(keys[0])
        return dict(op='subset', keys=keys)
    if k == 'renamevar':
        if not vn:
            return dict(op='copy')
        old = 'Q' if bad else rng.choice(vn)
        r = rng.random()
        new = rng.choice(fresh_v) if (r < 0.8 and fresh_v) else rng.choice(vn)
        prs = [[old, new]]
        if rng.random() < 0.2 and len(vn) > 1 and len(fresh_v) > 1:
            o2 = rng.choice([v for v in vn if v != old] or vn)
            n2 = rng.choice([v for v in fresh_v if v != new] or fresh_v)
            if o2 != old:
                prs.append([o2, n2])
        return dict(op='renamevar', pairs=prs)
    if k == 'renamedim':
        if not dn:
            return dict(op='copy')
        old = 'q' if (bad and 'q' not in dn) else rng.choice(dn)
        r = rng.random()
        if r < 0.72 and fresh_d:
            new = rng.choice(fresh_d)
        elif r < 0.86:
            new = rng.choice(dn)            # existing name (possibly itself)
        elif len(dn) > 1:
            o2 = rng.choice([d for d in dn if d != old])
            return dict(op='renamedim', pairs=[[old, o2], [o2, old]])     # swap
        else:
            new = old
        prs = [[old, new]]
        if rng.random() < 0.2 and len(dn) > 1 and len(fresh_d) > 1:
            o2 = rng.choice([d for d in dn if d != old] or dn)
            n2 = rng.choice([d for d in fresh_d if d != new] or fresh_d)
            if o2 != old:
                prs.append([o2, n2])
        return dict(op='renamedim', pairs=prs)
    if k == 'insert':
        dk = rng.choice(fresh_d) if (rng.random() < 0.8 and fresh_d) else rng.choice(dn or ['z'])
        before = after = None
        r = rng.random()
        if r < 0.25 and dn:
            before = rng.choice(dn)
        elif r < 0.5 and dn:
            after = rng.choice(dn)
        elif r < 0.55:
            before = 'q'
        return dict(op='insert', dk=dk, dl=rng.randint(1, 3), newonly=rng.random() < 0.8, multionly=rng.random() < 0.25,
                    before=before, after=after)
    if k == 'remove':
        return dict(op='remove', dk=rng.choice([None, None] + dn + (['q'] if bad else [])))
    if k == 'reorder':
        if rng.random() < 0.6 or not vs:
            new = list(dn)
            rng.shuffle(new)
        else:
            dup = [v for v in vs if len(set(v[1])) < len(v[1])]
            new = list(rng.choice(dup if (dup and rng.random() < 0.7) else vs)[1])    # a variable may carry a dimension twice
            rng.shuffle(new)
            if new and rng.random() < 0.05:
                new.append(rng.choice(new))                                          # repeated name in neworder
        return dict(op='reorder', old=list(dn), new=new)
    if k == 'slice':
        if not dn:
            return dict(op='copy')
        m = rng.choice([1, 1, 2, 2, 3])
        ds = rng.sample(dn, min(m, len(dn)))
        sels = [[d, gen_sel(rng, dl[d], bad and i == 0)] for i, d in enumerate(ds)]
        if rng.random() < 0.3 and len(ds) >= 2:
            # several index arrays (the POINTS path): same length unless malformed
            m2 = rng.randint(1, 3)
            for i, (d, s) in enumerate(sels):
                if i < 2 or rng.random() < 0.5:
                    mm = m2 + (1 if (bad and i == 1) else 0)
                    sels[i] = [d, ['list', [rng.randint(-dl[d], dl[d] - 1) for _ in range(mm)]]]
        if bad and rng.random() < 0.3 and 'q' not in dn:
            sels.append(['q', ['int', 0]])
        return dict(op='slice', sels=sels)
    if k == 'apply':
        if not dn:
            return dict(op='copy')
        ds = rng.sample(dn, min(rng.choice([1, 1, 2]), len(dn)))
        funs = []
        for d in ds:
            a = rng.choice([['named', rng.choice(['mean', 'sum', 'max', 'min'])], ['named', 'mean'], ['half'], ['diff'], ['cum'],
                            ['first', rng.randint(1, 3)], ['rep'], ['scalar']] + ([['dict']] if rng.random() < 0.15 else []))
            if a[0] in ('diff', 'dict') and dl[d] < 2:
                a = ['cum']
            funs.append([d, a])
        if bad and 'q' not in dn:
            funs.append(['q', ['named', 'mean']])
        return dict(op='apply', funs=funs)
    if k == 'stack':
        if not dn:
            return dict(op='copy')
        d = 'q' if (bad and 'q' not in dn) else rng.choice(dn)
        cands = [['self'], ['self']]
        if d in dn:
            cands += [['slice01', d], ['rep', d]]
            others_d = [x for x in dn if x != d]
            if others_d and rng.random() < 0.3:
                cands.append(['slice01', rng.choice(others_d)])
        if vn and rng.random() < 0.4:
            cands.append(['subset', [v for v in vn if rng.random() < 0.6]])
        if vn and fresh_v and rng.random() < 0.2:
            cands.append(['renamevar', rng.choice(vn), rng.choice(fresh_v)])
        others = [rng.choice(cands) for _ in range(rng.choice([1, 1, 2]))]
        return dict(op='stack', d=d, others=others, aslist=(len(others) > 1 or rng.random() < 0.5))
    if k == 'mask':
        r = rng.random()
        if r < 0.4 or not vs:
            return dict(op='mask', how='greater', mdims=None, wshape=None, withcoords=rng.random() < 0.3)
        v = rng.choice(vs)
        ws = list(v[2])
        md = list(v[1]) if rng.random() < 0.5 else None
        if bad and ws:
            ws[rng.randrange(len(ws))] += 1
        return dict(op='mask', how='where', mdims=md, wshape=ws, withcoords=rng.random() < 0.3)
    if k == 'eval':
        if not vn:
            return dict(op='copy')
        # masked 0-d operands and mixed masked/unmasked operands follow numpy.ma priority rules that are not modelled
        mk = {NAMES[k_]: m_ for k_, vd_, sh_, m_, at_, cm_ in st['vars']}
        rk = {NAMES[k_]: len(sh_) for k_, vd_, sh_, m_, at_, cm_ in st['vars']}
        okv = [v for v in vn if not (mk[v] and rk[v] == 0)]
        if not okv:
            return dict(op='copy')
        unm = [v for v in vn if not mk[v]]
        if not unm and not fresh_v:
            return dict(op='copy')
        if not unm:
            unm = fresh_v
        key = rng.choice(fresh_v) if (rng.random() < 0.75 and fresh_v) else rng.choice(unm)   # an existing masked target is the 'first variable' (masked + scalar value raises)
        a = 'Q' if bad else rng.choice(okv)
        r = rng.random()
        if r < 0.45:
            e = ['scale', a]
        elif r < 0.85:
            e = ['bin', a, rng.choice([v for v in okv if a == 'Q' or mk[v] == mk[a]])]
        else:
            e = ['index', a]
            if a != 'Q' and mk[a] and rk[a] <= 1:
                e = ['scale', a]
        return dict(op='eval', key=key, expr=e, copyall=rng.random() < 0.4)
    if k == 'binop':
        cands = [['self'], ['self']]
        if dn:
            d = rng.choice(dn)
            cands += [['slice01', d], ['rep', d]]
        if vn:
            cands.append(['subset', [v for v in vn if rng.random() < 0.6]])
        if fresh_d:
            # right operand of HIGHER rank: a length-1 (sometimes longer) dimension inserted at the front, in the middle or at the end
            pos = rng.choice(['front', 'before', 'after']) if dn else 'front'
            ref = rng.choice(dn) if dn else None
            cands.append(['insert', rng.choice(fresh_d), rng.choice([1, 1, 1, 2]),
                          ref if pos == 'before' else None, ref if pos == 'after' else None])
            cands.append(['insert', rng.choice(fresh_d), 1, None, None])
        if any(n == 1 for n in dl.values()):
            cands.append(['remove'])                  # right operand of LOWER rank (singleton dimensions removed)
        if len(dn) >= 2 and rng.random() < 0.5:
            perm = list(dn)
            rng.shuffle(perm)
            cands.append(['reorder', list(dn), perm])
        return dict(op='binop', other=rng.choice(cands), sym=rng.choice(['+', '-', '*', '/']))
    if k == 'interp':
        cv = [v[0] for v in vs if v[0] in dn and v[1] == [v[0]]]
        if cv and not bad:
            d = rng.choice(cv)
        elif dn:
            d = rng.choice(dn)
        else:
            return dict(op='copy')
        m = rng.randint(1, 4)
        return dict(op='interp', d=d, vals=[0.5 + 1.25 * i for i in range(m)])
    return dict(op='copy')


def gen_io_sel(rng, n, kind):
    if kind == 'int':
        return ['int', rng.randint(-n, n - 1)]
    if kind == 'slice':
        return ['slice', rng.choice([None, 0, rng.randint(-n, n)]), rng.choice([None, n, rng.randint(-n, n)]), rng.choice([None, 1, 2, -1])]
    return ['list', [rng.randint(0, n - 1) for _ in range(rng.randint(1, 3))]]


def gen_io_op(rng, st):
    """IOAPI stream: mostly multi-dimension slice calls mixing list / int / slice selectors"""
    dl = {k: n for k, n, u in st['dims'] if k in ('TSTEP', 'LAY', 'ROW', 'COL')}
    data = [k for k, vd, sh, aok in st['vars'] if k != 'TFLAG']
    k = rng.choice(['slice'] * 6 + ['apply', 'subset', 'copy', 'mask', 'eval', 'stack', 'renamevar'])
    if k == 'slice' and dl:
        ds = rng.sample(sorted(dl), min(rng.choice([1, 2, 2, 3]), len(dl)))
        if 'ROW' in dl and 'COL' in dl and rng.random() < 0.6:
            ds = sorted(set(ds) | {'ROW', 'COL'})
        kinds = [rng.choice(['int', 'slice', 'list']) for _ in ds]
        if len(ds) >= 2 and rng.random() < 0.5:
            kinds[rng.randrange(len(ds))] = 'list'          # one list combined with ints / slices
        m = None
        sels = []
        for d, kd in zip(ds, kinds):
            sel = gen_io_sel(rng, dl[d], kd)
            if kd == 'list':                                # several lists must have one length
                if m is None:
                    m = len(sel[1])
                sel = ['list', [rng.randint(0, dl[d] - 1) for _ in range(m)]]
            sels.append([d, sel])
        return dict(op='slice', sels=sels)
    if k == 'apply' and dl:
        d = rng.choice(sorted(dl))
        return dict(op='apply', funs=[[d, rng.choice([['named', 'mean'], ['half'], ['named', 'max'], ['first', 2]])]])
    if k == 'subset' and data:
        return dict(op='subset', keys=[v for v in data if rng.random() < 0.6] or [data[0]])
    if k == 'mask':
        return dict(op='mask', how='greater', mdims=None, wshape=None, withcoords=False)
    if k == 'eval' and data:
        return dict(op='eval', key='N', expr=['scale', rng.choice(data)], copyall=rng.random() < 0.5)
    if k == 'stack' and 'TSTEP' in dl:
        return dict(op='stack', d='TSTEP', others=[['self']], aslist=False)
    if k == 'renamevar' and data and 'M' not in data:
        return dict(op='renamevar', pairs=[[rng.choice(data), 'M']])
    return dict(op='copy')


def gen_io_case(rng):
    import numpy as np
    vs = rng.sample(['A', 'B', 'C'], rng.randint(1, 2))
    init = dict(how='ioapi', nt=rng.randint(1, 3), nl=rng.randint(1, 3), nr=rng.randint(2, 4), nc=rng.randint(2, 4), vars=vs,
                vars2d=(['D'] if rng.random() < 0.4 else []), dims=[], gattrs=[], coords=[])
    ops = []
    try:
        with np.errstate(all='ignore'):
            f = build(init)
            st = observe(f)
            for j in range(rng.randint(1, 4)):
                op = gen_io_op(rng, st)
                ops.append(op)
                try:
                    f, _ = apply_op(f, op)
                    st = observe(f)
                except Exception:
                    break
                if not st.get('io') or wf_io(st) or any(n_ == 0 for _, n_, _ in st['dims']):
                    break
    except Exception:
        pass
    return dict(kind='ioapi:' + (ops[-1]['op'] if ops else 'none'), init=init, ops=ops)


def gen(rng, n, tier):
    import tempfile, shutil, warnings
    import numpy as np
    warnings.simplefilter('ignore')
    out = []
    work = tempfile.mkdtemp(dir=os.path.join(C.VERIF, '.work'))
    try:
        for i in range(n):
            if rng.random() < 0.2:
                out.append(gen_io_case(rng))
                continue
            init = gen_init(rng, tier)
            malformed = rng.random() < (0.3 if tier == 'search' else 0.2)
            nops = rng.randint(1, 5)
            ops = []
            try:
                with np.errstate(all='ignore'):
                    f = build(init, work)
                    st = observe(f)
                    tainted = False
                    if any(n_ == 0 for _, n_, _ in st['dims']):
                        nops = 0        # an unused unlimited dimension is read back with length 0: zero-length dimensions are not modelled
                    for j in range(nops):
                        op = gen_op(rng, st, malformed and j == nops - 1)
                        if tainted and op['op'] in ('eval', 'reorder'):
                            op = dict(op='copy')      # see ASSUMPTIONS: hidden numpy.ma state after file arithmetic
                        if j == 0 and init['how'] == 'reader' and op['op'] in ('eval', 'stack', 'reorder'):
                            op = dict(op='copy')      # these raise TypeError/AttributeError on netCDF4-backed objects (noted, not modelled)
                        ops.append(op)
                        try:
                            f, _ = apply_op(f, op)
                            st = observe(f)
                        except Exception:
                            break
                        tainted = (op['op'] == 'binop') or (tainted and op['op'] == 'reorder')
                        if wf_state(st):
                            break           # ill-formed result: nothing is claimed about later steps
                        if any(n == 0 for _, n, _ in st['dims']):
                            break           # zero-length dimensions: numpy reducers / apply_along_axis quirks are not modelled
            except Exception:
                pass
            kind = init['how'] + ':' + '+'.join(o['op'] for o in ops) if False else \
                ('malformed:' if malformed else '') + (ops[-1]['op'] if ops else 'none')
            out.append(dict(kind=kind, init=init, ops=ops))
    finally:
        shutil.rmtree(work, ignore_errors=True)
    return out
