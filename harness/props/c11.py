"""C11 — IOAPI subsetting preserves geo- and time-referencing.
Drives ioapi_base.sliceDimensions on files built by ioapi_base.from_arrays and compares XORIG/YORIG/VGLVLS/
SDATE/STIME/TSTEP, the window's getTimes() and its dimension lengths with coq/Model/IoapiGeo.v (F), the
specification (S, in Coq) and an independent Python oracle (range(n)[sel], datetime arithmetic, data cells)."""
import calendar as _cal
from harness import common as C

ID = 'C11'
N = {'quick': 1200, 'thorough': 30000}
SEARCH_N = {'quick': 2500, 'thorough': 15000}
RULE = ('grids TSTEP 1..5 x LAY 1..4 x ROW 1..5 x COL 1..6; XORIG/YORIG/XCELL/YCELL multiples of 1/8 (binary64-exact), VGLVLS '
        'strictly decreasing multiples of 1/1024 (binary32-exact); SDATE/STIME biased to year ends, leap days and late evening so '
        'that time windows cross day and year boundaries; TSTEP from 1 s to 744 h incl. >= 24 h; windows per dimension: absent, '
        'int (python int, np.int32, np.int64 or np.intp scalar; positive or negative, sometimes out of range; ROW and COL '
        'together as a single-cell pick), slice(a, b) with a, b in None or [-n-2, n+2] (touching either edge, '
        'sometimes empty), alone or combined over TSTEP, LAY, ROW, COL. Non-trivial = the window differs from the whole file. '
        'Data cells are distinct integers and are compared with the source hyperslab as well.')
TRUSTED = ['binary64/binary32 arithmetic of the library is exact on the generated dyadic coordinates',
           'which data cells are retained is the subject of C02; here it is only observed (py oracle), not modelled',
           'numpy basic indexing of arange(n) by an int or a unit-stride slice = Model.IoapiGeo.sel_range (slice.indices)']
ASSUMPTIONS = ['list/array selectors, strides other than 1, newdims and PERIM files are outside C11 (quantifier: ints and unit-stride slices)',
               'exceptions are compared as "raised" without distinguishing the type']
CASE_TIMEOUT = 30.0


def _sel(rng, n, malformed):
    q = rng.random()
    if q < 0.35:
        return None
    if q < 0.62:
        ity = rng.choice(['int', 'int', 'i32', 'i64', 'intp'])       # python int or numpy integer scalar
        if rng.random() < malformed:
            return ['i', rng.choice([n, n + 1, -n - 1]), ity]
        return ['i', rng.randint(-n, n - 1), ity]
    a = rng.choice([None, None, rng.randint(-n - 2, n + 2), rng.randint(0, n), 0, 1, -1])
    b = rng.choice([None, None, rng.randint(-n - 2, n + 2), rng.randint(0, n), n, -1, n - 1])
    if rng.random() > malformed:           # mostly non-empty
        r = range(n)[slice(a, b)]
        if len(r) == 0:
            a, b = rng.choice([(None, None), (0, 1), (-1, None), (None, -1) if n > 1 else (None, None), (1, None) if n > 1 else (None, None)])
    return ['s', a, b]


def gen(rng, n, tier):
    import datetime
    out = []
    for _ in range(n):
        nt, nl, nr, nc = rng.randint(1, 5), rng.randint(1, 4), rng.randint(1, 5), rng.randint(1, 6)
        y = rng.choice([rng.randint(1950, 2050), 1999, 2000, 2003, 2004])
        st = rng.random()
        if st < 0.35:
            m, d = rng.choice([(12, 31), (12, 30), (2, 28), (2, 29) if _cal.isleap(y) else (2, 28), (1, 1)])
        else:
            m = rng.randint(1, 12)
            d = rng.randint(1, _cal.monthrange(y, m)[1])
        j = (datetime.date(y, m, d) - datetime.date(y, 1, 1)).days + 1
        hms = rng.choice([0, 220000, 230000, 235959, 120000, 233000, rng.randint(0, 23) * 10000 + rng.randint(0, 59) * 100 + rng.randint(0, 59)])
        tstep = rng.choice([10000, 10000, 10000, 3000, 1500, 30000, 60000, 120000, 1, 100, 235959, 240000, 250000, 480000,
                            7440000, 1000000, 0, rng.randint(0, 23) * 10000 + rng.randint(0, 59) * 100 + rng.randint(0, 59)])
        lv = sorted(rng.sample(range(1, 1024), nl - 1) + [0, 1024], reverse=True) if rng.random() < 0.85 else \
            sorted(rng.sample(range(0, 2000), nl + 1))
        malformed = 0.12 if tier != 'search' else 0.03
        w = dict(TSTEP=_sel(rng, nt, malformed), LAY=_sel(rng, nl, malformed), ROW=_sel(rng, nr, malformed), COL=_sel(rng, nc, malformed))
        if tier == 'search' and w['TSTEP'] is None:
            w['TSTEP'] = _sel(rng, nt, malformed)
        if rng.random() < 0.12:      # a single cell picked by ROW and COL together (as from argmax / ll2ij), both int kinds
            ity = rng.choice(['int', 'i32', 'i64', 'intp'])
            w['ROW'] = ['i', rng.randint(-nr, nr - 1), ity]
            w['COL'] = ['i', rng.randint(-nc, nc - 1), ity if rng.random() < 0.7 else rng.choice(['int', 'i32', 'i64', 'intp'])]

        def kd(x):
            if not x:
                return '-'
            return 'n' if (x[0] == 'i' and len(x) > 2 and x[2] != 'int') else x[0]      # n = numpy integer scalar
        kinds = [k[0] + kd(w[k]) for k in ('TSTEP', 'LAY', 'ROW', 'COL')]
        out.append(dict(kind=''.join(kinds), nt=nt, nl=nl, nr=nr, nc=nc,
                        xorig=rng.randint(-2000000, 2000000), yorig=rng.randint(-2000000, 2000000),
                        xcell=rng.choice([8, 96000, 32000, 1, rng.randint(1, 400000)]),
                        ycell=rng.choice([8, 96000, 32000, 3, rng.randint(1, 400000)]),
                        lv=lv, sdate=y * 1000 + j, stime=hms, tstep=tstep, win=w))
    return out


def _pysel(s):
    if s is None:
        return slice(None)
    if s[0] == 'i':
        ity = s[2] if len(s) > 2 else 'int'
        if ity == 'int':
            return s[1]
        import numpy as np
        return {'i32': np.int32, 'i64': np.int64, 'intp': np.intp}[ity](s[1])
    return slice(s[1], s[2])


def impl(case):
    import numpy as np
    import datetime
    from PseudoNetCDF.cmaqfiles._ioapi import ioapi_base
    nt, nl, nr, nc = case['nt'], case['nl'], case['nr'], case['nc']
    data = np.arange(nt * nl * nr * nc, dtype='f').reshape(nt, nl, nr, nc)
    f = ioapi_base.from_arrays(O3=data, fileattrs=dict(
        SDATE=case['sdate'], STIME=case['stime'], TSTEP=case['tstep'], XORIG=case['xorig'] / 8., YORIG=case['yorig'] / 8.,
        XCELL=case['xcell'] / 8., YCELL=case['ycell'] / 8., VGLVLS=np.array(case['lv'], dtype='f') / np.float32(1024.),
        VGTOP=5000.))
    epoch = datetime.datetime(1970, 1, 1, tzinfo=datetime.timezone.utc)

    def secs(ts):
        out = []
        for t in ts:
            dt = (t - epoch)
            out.append([dt.days * 86400 + dt.seconds, dt.microseconds])
        return out
    src = dict(xorig=float(f.XORIG).hex(), lv=[float(v).hex() for v in f.VGLVLS], sdate=int(f.SDATE), stime=int(f.STIME),
               tstep=int(f.TSTEP), times=secs(f.getTimes()))
    kw = {k: _pysel(v) for k, v in case['win'].items() if v is not None}
    try:
        g = f.sliceDimensions(**kw)
    except BaseException as e:  # noqa
        return dict(src=src, win={'raises': type(e).__name__, 'msg': str(e)[:100]})
    exp = data[tuple(_pysel(case['win'][k]) if case['win'][k] is None or case['win'][k][0] == 's'
                     else slice(case['win'][k][1], case['win'][k][1] + 1 or None) for k in ('TSTEP', 'LAY', 'ROW', 'COL'))]
    got = np.asarray(g.variables['O3'][:])
    win = dict(xorig=float(g.XORIG).hex(), yorig=float(g.YORIG).hex(), lv=[float(v).hex() for v in np.asarray(g.VGLVLS, dtype='d')],
               sdate=int(g.SDATE), stime=int(g.STIME), tstep=int(g.TSTEP), times=secs(g.getTimes()),
               dims=[len(g.dimensions[k]) for k in ('TSTEP', 'LAY', 'ROW', 'COL')],
               nattr=[int(g.NLAYS), int(g.NROWS), int(g.NCOLS)],
               data_ok=bool(got.shape == exp.shape and (got == exp).all()),
               xcell=float(g.XCELL).hex(), ycell=float(g.YCELL).hex())
    return dict(src=src, win=win)


def _scaled(h, k):
    x = float.fromhex(h) * k
    if x != int(x):
        return None
    return int(x)


def _selterm(s):
    if s is None:
        return 'None'
    if s[0] == 'i':
        return '(Some (SInt %s))' % C.zc(s[1])
    return '(Some (SSlice %s %s))' % (C.copt(s[1], C.zc), C.copt(s[2], C.zc))


def coq_term(case, obs):
    if 'raises' in obs:
        return None
    w = case['win']
    g = '(Grid %s %s %s %s %s %s %s %s %s %s %s)' % (
        C.zc(case['xorig']), C.zc(case['yorig']), C.zc(case['xcell']), C.zc(case['ycell']), C.zlist(case['lv']),
        C.zc(case['sdate']), C.zc(case['stime']), C.zc(case['tstep']), C.zc(case['nt']), C.zc(case['nr']), C.zc(case['nc']))
    win = '(Win %s %s %s %s)' % (_selterm(w['TSTEP']), _selterm(w['LAY']), _selterm(w['ROW']), _selterm(w['COL']))
    o = obs['win']
    if 'raises' in o:
        ot, dims = 'None', '[]'
    else:
        x, y = _scaled(o['xorig'], 8), _scaled(o['yorig'], 8)
        lv = [_scaled(h, 1024) for h in o['lv']]
        if x is None or y is None or any(v is None for v in lv) or any(us != 0 for _, us in o['times']):
            return None
        ot = '(Some (Out %s %s %s %s %s %s %s))' % (C.zc(x), C.zc(y), C.zlist(lv), C.zc(o['sdate']), C.zc(o['stime']),
                                                     C.zc(o['tstep']), C.zlist([s for s, _ in o['times']]))
        dims = C.zlist(o['dims'])
    return '(Case %s %s %s %s %s)' % (g, C.zc(case['nl']), win, ot, dims)


def _valid_time(case):
    y, j = divmod(case['sdate'], 1000)
    t, st = case['stime'], case['tstep']
    return (1 <= j <= (366 if _cal.isleap(y) else 365) and 0 <= t and t // 10000 < 24 and t % 10000 // 100 < 60 and t % 100 < 60
            and st >= 0 and st % 10000 // 100 < 60 and st % 100 < 60)


def py_check(case, obs):
    import datetime
    if 'raises' in obs:
        return dict(s_ok=True, f_ok=False, why='harness failure: %s %s' % (obs.get('raises'), obs.get('msg')))
    o = obs['win']
    if 'raises' in o or not _valid_time(case):
        return dict(s_ok=True, why='')
    why = []
    w = case['win']
    idx = {}
    for k, n in (('TSTEP', case['nt']), ('LAY', case['nl']), ('ROW', case['nr']), ('COL', case['nc'])):
        r = list(range(n))
        s = w[k]
        idx[k] = r if s is None else ([r[s[1]]] if s[0] == 'i' else r[slice(s[1], s[2])])
    if float.fromhex(o['xorig']) != case['xorig'] / 8. + idx['COL'][0] * (case['xcell'] / 8.):
        why.append('XORIG %r: cells do not keep their x coordinates' % float.fromhex(o['xorig']))
    if float.fromhex(o['yorig']) != case['yorig'] / 8. + idx['ROW'][0] * (case['ycell'] / 8.):
        why.append('YORIG %r: cells do not keep their y coordinates' % float.fromhex(o['yorig']))
    if float.fromhex(o['xcell']) != case['xcell'] / 8. or float.fromhex(o['ycell']) != case['ycell'] / 8.:
        why.append('cell size changed')
    lv = [v / 1024. for v in case['lv']]
    if [float.fromhex(h) for h in o['lv']] != lv[idx['LAY'][0]: idx['LAY'][-1] + 2]:
        why.append('VGLVLS %s is not the matching sub-range' % [float.fromhex(h) for h in o['lv']])
    src_t = [s for s, _ in obs['src']['times']]
    win_t = [s for s, _ in o['times']]
    if win_t != [src_t[i] for i in idx['TSTEP']]:
        why.append('decoded times of the window are not the sub-range of the source')
    # attribute-derived instants
    y, j = divmod(o['sdate'], 1000)
    t, st = o['stime'], o['tstep']
    try:
        t0 = datetime.datetime(y, 1, 1, tzinfo=datetime.timezone.utc) + datetime.timedelta(
            days=j - 1, hours=t // 10000, minutes=t % 10000 // 100, seconds=t % 100)
        ep = datetime.datetime(1970, 1, 1, tzinfo=datetime.timezone.utc)
        step = st // 10000 * 3600 + st % 10000 // 100 * 60 + st % 100
        att = [int((t0 - ep).total_seconds()) + i * step for i in range(len(idx['TSTEP']))]
    except Exception:
        att = None
    if att != [src_t[i] for i in idx['TSTEP']]:
        why.append('SDATE/STIME/TSTEP = %d/%d/%d do not give the retained steps their source instants' % (o['sdate'], t, st))
    if o['dims'] != [len(idx[k]) for k in ('TSTEP', 'LAY', 'ROW', 'COL')] or o['nattr'] != o['dims'][1:]:
        why.append('dimension lengths / NLAYS NROWS NCOLS do not match the window')
    if not o['data_ok']:
        why.append('data cells are not the source hyperslab')
    return dict(s_ok=not why, why='; '.join(why))


def translate():
    from harness import gen_times
    return gen_times.translate()


def nontrivial(case, obs):
    o = obs.get('win', {})
    return 'raises' not in o and 'dims' in o and o['dims'] != [case['nt'], case['nl'], case['nr'], case['nc']]


def shrink(case):
    for k in ('TSTEP', 'LAY', 'ROW', 'COL'):
        if case['win'][k] is not None:
            w = dict(case['win'])
            w[k] = None
            yield dict(case, win=w)


LEVEL_TEXT = ('Theorems (Props/C11.v, 9, all closed under the global context) over Model/IoapiGeo.v: for every axis length, every int '
              '(positive or negative) and every unit-stride slice, whenever subsetting returns the window lies inside the axis '
              '(C11_window_in_axis, C11_negative_int), every retained cell keeps its edge coordinates for any origin and cell size '
              '(C11_cell_coords_preserved), the level edges are the matching sub-range (C11_vglvls_subrange), the decoded times are the '
              'same sub-range (C11_window_times_subrange); the recomputed SDATE/STIME/TSTEP give every retained step its source instant '
              'across day/year boundaries for every step length incl. >= 24 h (C11_start_step_preserved, full strength on the proved '
              'calendar inverses of Base/Calendar.v; holds for the code repaired by fixes/C11-slice-tstep-ge-24h.patch). '
              'Combined windows are the product of the per-dimension updates (C11_combined_window). '
              'Tie T: the TSTEP expression of sliceDimensions is regenerated from the source on every run (coq/Gen/Times.v slice_tstep) '
              'and proved to be HHHMMSS of the step (C11_gen_slice_tstep, C11_gen_slice_time_uses). '
              'Tie H: ioapi_base.sliceDimensions vs the model on every generated case incl. raised errors.')
LEVEL_NOTE = ('Trusted: Coq kernel + vm_compute; the harness; exactness of binary64/binary32 on the generated dyadic coordinates; '
              'the retained data cells themselves are only observed (C02 models them).')
TECHNIQUE = 'Coq proof (lia over slice.indices normalisation, firstn/skipn, calendar inverses) + differential correspondence'
