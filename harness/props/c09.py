"""C09 — binary files conform to the published layout (independent reference codec, both directions).
uamiv stream evaluated in Coq (Model/Uamiv.v); the other formats through harness/camxfmt.py."""
import os, shutil
from harness import common as C, camxlib as L, gen_camx

ID = 'C09'
N = {'quick': 300, 'thorough': 6000}
SEARCH_N = {'quick': 800, 'thorough': 4000}
SHARD = 60
RULE = ('uamiv files (AVERAGE/EMISSIONS/INSTANT/AIRQUALITY; 1-3 species, nx,ny,nz 1-3, 1-3 hourly steps from any date 1970-2069 '
        'incl. day/year/leap/century roll-overs; payload = arbitrary finite binary32 bit patterns) encoded by the reference encoder '
        '(checked word-for-word against the Coq spec encoder), read by the library Memmap reader, re-written by the library writer and '
        'decoded by the Coq reference decoder. Non-trivial = distinct content. Lateral-boundary files (1-3 species, nx,ny 2-4, nz 1-3, 1-3 hourly '
        'steps, same date logic) take the same path through constructor L; the other met formats are compared at record level (R).')
TRUSTED = ['numpy structured-dtype memmap = fixed-size chunking (modelled by chunks/firstn/skipn)',
           'float32 payload words are moved, never computed on (compared as 32-bit patterns)',
           'py2coq translator semantics table (translate/py2coq.py)']
ASSUMPTIONS = ['time fields: whole hours 0..23 (the property quantifies over hourly steps)']
LEVEL_TEXT = ('Theorems (Props/C09.v): the reference decoder accepts exactly the gap-free tilings of Fortran records with agreeing markers '
              '(unframe_sound) and inverts the reference encoder on every record list (unframe_frame); for every well-formed uamiv content the '
              'record-walking spec decoder recovers it from the spec encoding (uamiv dec_enc) and the library\'s stride-based Memmap reader model — '
              'built from the translated dtype literals and block-size expressions (tie T: coq/Gen/Camx.v regenerated from uamiv/Memmap.py, Write.py) — '
              'presents exactly the encoded content (mm_read_enc). Tie H: reference encoder == Coq enc on every case; library reader == mm_read; '
              'library writer output decoded by the Coq decoder equals the content. '
              'LATERAL BOUNDARY files have the same depth (Model/Lbdy.v, Proofs/LbdyProofs.v): C09_lbdy_dec_enc, '
              'C09_lbdy_reader_presents_content (reader model from the translated lateral_boundary/Memmap.py dtypes, edge-record checks and floor-division '
              'block arithmetic; nested dtypes, numpy.memmap size rules and the projection dictionaries hand-modelled), C09_lbdy_writer_layout_mirrors_reader '
              '(Write.py dtypes and pads against Memmap.py dtypes). Tie H for them: constructor L of Corr/C09.v (reference words == Coq lb_enc, reader model '
              'predicts dims/names/data/TFLAG/ETFLAG, writer model predicts the bytes written, Coq decoder on the writer output). '
              'ONE3D FAMILY (one3d / humidity / vertical_diffusivity; Model/One3d.v, Proofs/One3dProofs.v; Memmap reader model with the translated record_items and time_steps expressions, reshapes / first-stamp-change / memmap size rules hand-modelled): C09_one3d_dec_enc, C09_one3d_reader_presents_content (two or more steps, stamp changes), '
              'C09_one3d_reader_whole_file_exact (on valid files the reader succeeds iff there are >= 2 steps), C09_one3d_unchanged_stamp_raises, '
              'C09_one3d_single_step_refuted (vm_compute witness = finding met-single-step, region 11). Tie H: constructor OD of Corr/C09.v. '
              'TEMPERATURE and HEIGHT/PRESSURE (Model/TempHp.v, Proofs/TempHpProofs.v; layered record files over the One3d codec; both Memmap readers hand-modelled incl. the for-loop fall-through, the lazy reshapes and the marker check): C09_temperature_dec_enc, C09_heightpres_dec_enc, C09_temperature_reader_presents_content, '
              'C09_heightpres_reader_presents_content, C09_temperature_single_step_refuted, C09_heightpres_single_step_refuted (single-step files raise: region 11). '
              'Tie H: constructors TD / HD of Corr/C09.v. '
              'WIND (Model/Wind.v, Proofs/WindProofs.v; Memmap reader hand-modelled incl. the RecordFile walk of its __init__, with a three-valued result read / raise / never returns): C09_wind_dec_enc, C09_wind_reader_presents_content at full strength (two or more cells, any number of steps; reader as repaired by '
              'db74c5b / d3c85b3), C09_wind_1x1_refuted (1x1 grids: region 12). '
              'Tie H: constructor WD.')
LEVEL_NOTE = ('Trusted: Coq kernel+vm_compute, py2coq, the harness. All CAMx formats and bpch have Coq codecs and reader models; the readers are hand models '
              'tied by correspondence (see evidence distribution), dtype literals / pads / block arithmetic are translated from the source.')
TECHNIQUE = 'Coq proof (codec round trip, framing soundness, reader-model refinement) + translation from source + differential correspondence'


def translate():
    return gen_camx.translate()


def gen(rng, n, tier):
    out = []
    for i in range(n):
        c = L.gen_uamiv(rng, tier)
        out.append(dict(kind='uamiv-' + c['name'], content=c, cut=None))
    return out


def run_uamiv(case):
    import numpy as np
    from PseudoNetCDF.camxfiles.Memmaps import uamiv
    from PseudoNetCDF.camxfiles.uamiv.Write import ncf2uamiv
    c = case['content']
    ws = L.uamiv_encode(c)
    b = L.bytes_of_words(ws)
    cut = case.get('cut')
    if cut is not None:
        b = b[:cut]
    d = L.workdir()
    obs = dict(nwords=len(ws), cut=len(b))
    try:
        p = os.path.join(d, 'f.uamiv')
        with open(p, 'wb') as f:
            f.write(b)
        try:
            f = uamiv(p)
            o = L.observe_uamiv_file(f)
            obs['open_ok'] = True
            obs.update(o)
            obs['attrs'] = dict(NAME=str(f.NAME), NOTE=str(f.NOTE), ITZON=int(f.ITZON))
        except Exception as e:
            obs['open_ok'] = False
            obs['open_error'] = type(e).__name__
            return obs
        if cut is None:
            p2 = os.path.join(d, 'g.uamiv')
            try:
                ncf2uamiv(f, p2).close()
                obs['written'] = L.words_of_bytes(open(p2, 'rb').read())
            except Exception as e:
                obs['write_error'] = '%s: %s' % (type(e).__name__, str(e)[:200])
    finally:
        shutil.rmtree(d, ignore_errors=True)
    return obs


def impl(case):
    return run_uamiv(case)


def coq_view(c, obs):
    if not obs.get('open_ok'):
        return '{| v_nspec := 0; v_nx := 0; v_ny := 0; v_nz := 0; v_ntimes := 0; v_names := []; v_dates := []; v_data := [] |}', '[]', '[]'
    dm = obs['dims']
    names = [L.char_words(k, 10) for k in obs['vars']]
    nt = dm['TSTEP']
    # data[t][s][k] -> ny*nx words
    data = []
    for t in range(nt):
        data.append([[[w for row in obs['data'][k][t][z] for w in row] for z in range(dm['LAY'])] for k in obs['vars']])
    # the time header words are not exposed by the reader; the view's dates are checked through TFLAG/ETFLAG.
    # We rebuild them from the content for the steps presented (F still pins them through convert_camx_time).
    u = L.uamiv_struct(c)
    dates = [u['steps'][t][0] for t in range(min(nt, len(u['steps'])))]
    v = ('{| v_nspec := %d; v_nx := %d; v_ny := %d; v_nz := %d; v_ntimes := %d; v_names := %s; v_dates := %s; v_data := %s |}' % (
        dm['VAR'], dm['COL'], dm['ROW'], dm['LAY'], nt, C.zll(names), C.zll(dates),
        '[' + '; '.join('[' + '; '.join(C.zll(s) for s in t) + ']' for t in data) + ']'))
    tf = '[' + '; '.join('(%d, %d)' % (a, b) for a, b in obs.get('TFLAG', [])) + ']'
    etf = '[' + '; '.join('(%d, %d)' % (a, b) for a, b in obs.get('ETFLAG', [])) + ']'
    return v, tf, etf


def coq_term(case, obs):
    if 'raises' in obs:
        return None
    c = case['content']
    ws = L.uamiv_encode(c)
    v, tf, etf = coq_view(c, obs)
    hours = '[' + '; '.join('(%d, %d)' % (s['bhour'], s['ehour']) for s in c['steps']) + ']'
    return '(U (Case %s %s %s %d %s %s %s %s %s))' % (
        L.coq_uamiv(c), hours, C.zlist(ws), obs['cut'], C.cbool(obs.get('open_ok', False)), v, tf, etf,
        C.zlist(obs.get('written', [])))


def py_check(case, obs):
    if 'raises' in obs:
        return dict(s_ok=False, why='harness/impl raised ' + str(obs))
    why = []
    if case.get('cut') is None:
        c = case['content']
        if obs.get('open_ok') and obs['attrs']['NAME'].strip() != c['name'].strip():
            why.append('NAME differs')
        if obs.get('open_ok') and obs['attrs']['ITZON'] != c['itzon']:
            why.append('ITZON differs')
        if 'write_error' in obs:
            why.append('library writer raised ' + obs['write_error'])
    return dict(s_ok=not why, why='; '.join(why))


def nontrivial(case, obs):
    return bool(obs.get('open_ok')) or case.get('cut') is not None

LEVEL_TEXT += (' CLOUD/RAIN (Model/CloudRain.v, Proofs/CloudRainProofs.v; Memmap reader hand-modelled incl. the size-based layout guess for nvars in [5, 3, 5], '
               'the reshape to whole steps and the marker check of every record): C09_cloudrain_dec_enc; C09_cloudrain_reader_presents_content - the reader presents '
               'the content of every well-formed file whose size is unambiguous (every 5-field file; every 3-field file whose data size is not also a whole number of '
               '5-field steps); C09_cloudrain_ambiguous_size_refuted - the inherent ambiguity is real (1x2 cells, one layer, three 3-field steps = two 5-field steps; '
               'known finding cloud-rain-size-ambiguity, region 21, replays on the library: TSTEP=2, VAR=5, no error). Cases: constructor CD (F = encoder, reader model '
               'incl. the guess, TFLAG and re-written bytes whenever the presented time words are time words of the content; S = presented == content).')

def shrink(case):
    c = case['content']
    if len(c['steps']) > 1:
        yield dict(case, content=dict(c, steps=c['steps'][:-1]))
    if len(c['names']) > 1:
        yield dict(case, content=dict(c, names=c['names'][:-1], steps=[dict(s, data=s['data'][:-1]) for s in c['steps']]))


# ----------------------------------------------------------------------------- met formats (record-level cases)
from harness import camxfmt as M, metcheck as MC  # noqa

_gen_uamiv_only = gen


def gen(rng, n, tier):  # noqa: F811
    out = _gen_uamiv_only(rng, (n * 2) // 3, tier)
    for i in range(n - len(out)):
        c = MC.gen_any(rng, tier=tier)
        out.append(dict(kind='lbdy' if c['fmt'] == 'lateral_boundary' else 'met-' + c['fmt'], content=c, write=True))
    # lateral-boundary files evaluated in Coq (Model/Lbdy.v): a dedicated stream on top of gen_any's share
    for i in range(max(1, n // 8)):
        c = M.gen_lb(rng, tier, rollover=0.5 if tier == 'search' else 0.3)
        out.append(dict(kind='lbdy', content=c, write=True))
        if i % 4 == 0:   # one-cell-wide grids (nx or ny = 1): in the model's domain on this path (edge records are copied)
            c = M.gen_lb_thin(rng, tier)
            out.append(dict(kind='lbdy-thin', content=c, write=True))
    # cloud/rain files, 3-field (< 4.3) and 5-field layouts, against the independent reference encoder/decoder
    # wind files with many steps on tiny grids (the Memmap reader's step count ran ahead of the file before d3c85b3)
    for i in range(max(2, n // 60)):
        c = M.gen_met(rng, fmt='wind', tier=tier, rollover=0.0, min_steps=3)
        c['nx'], c['ny'], c['nz'] = rng.choice([(2, 1, 1), (1, 2, 1), (3, 1, 1), (2, 1, 2)])
        base = c['steps'][0]
        c['steps'] = []
        for t in range(rng.randint(4, 9)):
            d, h = L.yyjjj_add_hours(base['date'], base['hhmm'] // 100, t)
            c['steps'].append(dict(date=d, hhmm=h * 100,
                                   fields={v: [[L.finite_word(rng) for _ in range(c['nx'] * c['ny'])] for _ in range(c['nz'])] for v in ('U', 'V')}))
        out.append(dict(kind='met-wind-long', content=c, write=True))
    for i in range(max(2, n // 12)):
        c = M.gen_cloud_rain(rng, tier)
        out.append(dict(kind='met-cloud_rain', content=c, write=True))
    return out


_impl_uamiv = impl


def impl(case):  # noqa: F811
    if MC.is_lb(case):
        return MC.run_lb(case)
    if MC.is_layered(case):
        return MC.run_o3(case)
    if case['kind'].startswith('met-'):
        return MC.run_met(case)
    return _impl_uamiv(case)


_coq_uamiv = coq_term


def coq_term(case, obs):  # noqa: F811
    if MC.is_lb(case):
        return None if 'raises' in obs else MC.lb_term_read(case, obs)
    if MC.is_layered(case):
        return None if 'raises' in obs else MC.layered_term(case, obs)
    if case['kind'].startswith('met-'):
        if 'raises' in obs:
            return None
        c = case['content']
        wr = obs.get('wr') or {}
        return '(R %s %s %s %s)' % (C.zlist(M.encode(c)), C.zll(M.records(c)), C.cbool(wr.get('status') == 'ok'),
                                    C.zlist(wr.get('words') or []))
    return _coq_uamiv(case, obs)


_py_uamiv = py_check


def py_check(case, obs):  # noqa: F811
    if MC.is_lb(case):
        if 'raises' in obs:
            return dict(s_ok=False, why='harness/impl raised ' + str(obs))
        why = MC.lb_py_check(case, obs)
        mm = obs['mm']
        if case.get('cut') is None and mm['status'] != 'ok':
            why.append('library reader %s on a reference-encoded lateral_boundary file (%s)' % (mm['status'], mm.get('err')))
        if case.get('cut') is None and mm['status'] == 'ok' and (obs.get('wr') or {}).get('status') != 'ok':
            why.append('library writer %s (%s)' % ((obs.get('wr') or {}).get('status'), (obs.get('wr') or {}).get('err')))
        return dict(s_ok=not why, region=0, why='; '.join(why[:3]))
    if not case['kind'].startswith('met-'):
        return _py_uamiv(case, obs)
    if 'raises' in obs:
        return dict(s_ok=False, why='harness/impl raised ' + str(obs))
    c = case['content']
    why = []
    mm = obs['mm']
    if mm['status'] != 'ok':
        why.append('library reader %s on a reference-encoded %s file (%s)' % (mm['status'], c['fmt'], mm.get('err')))
    else:
        why += M.view_matches(mm['view'], M.expected_view(c))
        wr = obs.get('wr') or {}
        if wr.get('status') != 'ok':
            why.append('library writer %s (%s)' % (wr.get('status'), wr.get('err')))
    return dict(s_ok=not why, region=MC.region_of(c), why='; '.join(why[:3]))


_nt_uamiv = nontrivial


def nontrivial(case, obs):  # noqa: F811
    if MC.is_lb(case):
        return obs.get('mm', {}).get('status') == 'ok' or case.get('cut') is not None
    if case['kind'].startswith('met-'):
        return obs.get('mm', {}).get('status') == 'ok'
    return _nt_uamiv(case, obs)


_shrink_uamiv = shrink


def shrink(case):  # noqa: F811
    if case['kind'].startswith('met-') or MC.is_lb(case) or MC.is_layered(case):
        c = case['content']
        if len(c['steps']) > 1:
            yield dict(case, content=dict(c, steps=c['steps'][:-1]))
        return
    for x in _shrink_uamiv(case):
        yield x


# ----------------------------------------------------------------------------- land-use files evaluated in Coq (Model/Landuse.v)
from harness import landusecheck as LU  # noqa: E402

_lu_prev = dict(gen=gen, impl=impl, coq_term=coq_term, py_check=py_check, nontrivial=nontrivial, shrink=shrink)


def gen(rng, n, tier):  # noqa: F811
    out = _lu_prev['gen'](rng, n, tier)
    # old-style (fland, optional topo) and new-style (LUCAT11 / LUCAT26 key, optional LAI / TOPO) files; a share with first payload
    # bytes that are no UTF-8 (the reader decodes them to sniff the style: region 16)
    for i in range(max(3, n // 15)):
        c = LU.gen_lu(rng, tier)
        out.append(dict(kind='lu', content=c, write=True))
    return out


def impl(case):  # noqa: F811
    return LU.run_lu(case) if LU.is_lu(case) else _lu_prev['impl'](case)


def coq_term(case, obs):  # noqa: F811
    if LU.is_lu(case):
        return None if 'raises' in obs else LU.lu_term(case, obs)
    return _lu_prev['coq_term'](case, obs)


def py_check(case, obs):  # noqa: F811
    if LU.is_lu(case):
        if 'raises' in obs:
            return dict(s_ok=False, why='harness/impl raised ' + str(obs))
        why = LU.lu_py_check(case, obs)
        return dict(s_ok=not why, region=LU.lu_region(case, obs), why='; '.join(why[:3]))
    return _lu_prev['py_check'](case, obs)


def nontrivial(case, obs):  # noqa: F811
    if LU.is_lu(case):
        return obs.get('mm', {}).get('status') == 'ok' or case.get('cut') is not None
    return _lu_prev['nontrivial'](case, obs)


def shrink(case):  # noqa: F811
    return [] if LU.is_lu(case) else _lu_prev['shrink'](case)


LEVEL_TEXT += (' LAND USE (Model/Landuse.v, Proofs/LanduseProofs.v; Memmap reader hand-modelled: the style sniff on the first 8 payload bytes with their UTF-8 '
               'decodability as an abstract boolean carried in every case, the three admissible file sizes, the structured dtype without marker checks): '
               'C09_landuse_dec_enc; C09_landuse_reader_presents_content (old and new style, decodable first bytes); C09_landuse_undecodable_refuted (the reader '
               'raises on a valid old-style file whose first two values are no UTF-8: finding landuse-sniff-decode, region 16). The writer (record order repaired by '
               '58a734f) is modelled as lu_write; former region 22 is a corpus case. Cases: constructor LUD.')
