"""./check Cxx [--tier quick|thorough] [--seed N] [--replay file]
Pipeline: translate (tie T) -> build Coq cone -> correspondence (tie H: F and S) -> verdict."""
import os, sys, json, time, argparse, importlib, random, collections, traceback

sys.path.insert(0, os.path.dirname(os.path.dirname(os.path.abspath(__file__))))
from harness import common as C  # noqa


def evaluate(mod, cases, work, tag='main'):
    """Run implementation + model on cases. Returns list of result dicts."""
    obs = C.run_impl(mod.__name__.split('.')[-1], cases, tmo=getattr(mod, 'CASE_TIMEOUT', 20.0),
                     workers=getattr(mod, 'WORKERS', None))
    # an exception escaping impl() is re-tried once: only reproducible outcomes are judged
    # (guards against environment flakes such as import races under load)
    redo = [i for i, o in enumerate(obs) if isinstance(o, dict) and 'raises' in o]
    if redo and len(redo) <= max(50, len(cases) // 2):
        again = C.run_impl(mod.__name__.split('.')[-1], [cases[i] for i in redo],
                           tmo=getattr(mod, 'CASE_TIMEOUT', 20.0), workers=getattr(mod, 'WORKERS', None))
        for i, o in zip(redo, again):
            obs[i] = o
    terms, idx = [], []
    pyres = []
    for i, (c, o) in enumerate(zip(cases, obs)):
        # an observation the oracle / term builder cannot digest (unexpected shape of the library's answer) is
        # itself evidence that the behaviour changed: judged as a failed case with the exception as the reason
        try:
            t = mod.coq_term(c, o) if hasattr(mod, 'coq_term') else None
        except Exception as e:
            t = None
            pyres.append(dict(s_ok=False, f_ok=False, why='observation not expressible for the model (%s: %s)' % (type(e).__name__, str(e)[:150])))
            continue
        if t is not None:
            terms.append(t)
            idx.append(i)
        try:
            pyres.append(mod.py_check(c, o) if hasattr(mod, 'py_check') else None)
        except Exception as e:
            pyres.append(dict(s_ok=False, why='python oracle could not judge the observation (%s: %s)' % (type(e).__name__, str(e)[:150])))
    coq_err = None
    cv = {}
    if terms:
        try:
            vs = C.coq_eval(mod.ID + tag, 'Corr.' + mod.ID, terms, work,
                            shard=getattr(mod, 'SHARD', 250))
            cv = dict(zip(idx, vs))
        except Exception as e:  # build of Corr failed or evaluation failed
            coq_err = str(e)
    res = []
    for i, (c, o) in enumerate(zip(cases, obs)):
        f_ok, s_ok, region, why = True, True, 0, []
        in_coq = i in cv
        if in_coq:
            f_ok, s_ok, region = cv[i]
            if not f_ok:
                why.append('model/impl differ (F)')
            if not s_ok:
                why.append('spec violated (S, Coq)')
        p = pyres[i]
        if p is not None:
            if not p.get('s_ok', True):
                s_ok = False
                why.append('spec violated (S, py): ' + str(p.get('why', '')))
            if not p.get('f_ok', True):
                f_ok = False
                why.append('F (py): ' + str(p.get('why', '')))
            if region == 0:
                region = int(p.get('region', 0))
        res.append(dict(case=c, obs=o, f_ok=f_ok, s_ok=s_ok, region=region, why='; '.join(why),
                        in_coq=in_coq))
    return res, coq_err


def shrink(mod, bad, work, pred):
    """Greedy shrinking using mod.shrink(case) candidates; pred(result) says 'still fails'."""
    if not hasattr(mod, 'shrink'):
        return bad
    cur = bad
    for _ in range(40):
        cands = list(mod.shrink(cur['case']))[:60]
        if not cands:
            break
        rs, _ = evaluate(mod, cands, work, tag='shr')
        nxt = None
        for r in rs:
            if pred(r):
                nxt = r
                break
        if nxt is None:
            break
        cur = nxt
    return cur


def main():
    ap = argparse.ArgumentParser()
    ap.add_argument('pid')
    ap.add_argument('--tier', default=os.environ.get('VERIF_TIER', 'quick'))
    ap.add_argument('--seed', type=int, default=int(os.environ.get('VERIF_SEED', '0') or 0))
    ap.add_argument('--replay')
    ap.add_argument('--n', type=int)
    a = ap.parse_args()
    pid = a.pid.upper()
    tier = a.tier if a.tier in ('quick', 'thorough') else 'quick'
    t0 = time.time()
    C.setup_impl_path()
    C.tree_lock()
    mod = importlib.import_module('harness.props.' + pid.lower())
    work = C.mkwork()
    try:
        rc = run(mod, pid, tier, a.seed, a.replay, a.n, work, t0)
    finally:
        C.rmwork(work)
    sys.exit(rc)


def run(mod, pid, tier, seed, replay, n_override, work, t0):
    known, fixed = C.load_known(pid)
    lines = []

    # ---- replay mode
    if replay:
        payload = json.load(open(replay))
        if payload.get('kind') == 'unproved' or 'case' not in payload:
            print('replay names a broken obligation, re-running the quick check')
        else:
            b = C.build(pid)
            rs, err = evaluate(mod, [payload['case']], work, tag='rep')
            r = rs[0]
            if err or not b.ok:
                print('replay could not be evaluated in Coq: ' + (err or b.log)[-800:])
                print('VIOLATION property=%s replay=%s no-failing-input-found' % (pid, replay))
                return 1
            print(json.dumps(dict(f_ok=r['f_ok'], s_ok=r['s_ok'], region=r['region'], why=r['why'], obs=r['obs']),
                             default=str)[:4000])
            if not r['s_ok']:
                print('VIOLATION property=%s replay=%s' % (pid, replay))
                return 1
            return 0

    # ---- 1. translation (tie T)
    tr = []
    if hasattr(mod, 'translate'):
        try:
            tr = mod.translate()
        except Exception as e:
            tr = [dict(anchor='translate', ok=False, detail=traceback.format_exc()[-800:])]
    tr_broken = ['translate:' + t['anchor'] for t in tr if not t['ok']]

    # ---- 2. build
    b = C.build(pid)
    p_broken = list(b.broken) + tr_broken
    n_obl = len(b.theorems) + len(tr)
    n_dis = (len(b.theorems) if (b.ok and not b.bad_axioms and not b.forbidden) else 0) + sum(1 for t in tr if t['ok'])

    # ---- 3/4. cases
    rng = random.Random(seed * 1000003 + 17)
    n = n_override or mod.N[tier]
    corpus = []
    for f in known:
        if 'witness' in f:
            c = dict(f['witness']); c['_finding'] = f['id']
            corpus.append(c)
    cdir = os.path.join(C.VERIF, 'corpus', pid)
    if os.path.isdir(cdir):
        for fn in sorted(os.listdir(cdir)):
            if fn.endswith('.json'):
                c = json.load(open(os.path.join(cdir, fn)))
                c['_corpus'] = fn
                corpus.append(c)
    gen_cases = list(mod.gen(rng, n, tier))
    cases = corpus + gen_cases
    res, coq_err = evaluate(mod, cases, work)
    if coq_err:
        p_broken.append('correspondence-eval')

    f_bad = [r for r in res if not r['f_ok']]
    known_regions = {int(f['region']): f for f in known if 'region' in f}
    s_bad_new, s_bad_known = [], collections.defaultdict(list)
    for r in res:
        if r['s_ok']:
            continue
        if r['region'] and r['region'] in known_regions:
            s_bad_known[r['region']].append(r)
        else:
            s_bad_new.append(r)

    # ---- known findings: witness replay
    for f in known:
        hit = [r for r in res if r['case'].get('_finding') == f['id']]
        still = any(not r['s_ok'] for r in hit) if hit else bool(s_bad_known.get(int(f.get('region', -1))))
        if still:
            lines.append('KNOWN-FINDING: property=%s %s: %s' % (pid, f['id'], f['what']))
        else:
            lines.append('RESOLVED-FINDING: property=%s %s no longer fails on its witness (informational)' % (pid, f['id']))

    violations = 0
    replay_paths = []
    searched = 0
    # ---- verdict rows 2 and 3
    if s_bad_new:
        worst = s_bad_new[0]
        worst = shrink(mod, worst, work, lambda r: (not r['s_ok']) and not (r['region'] and r['region'] in known_regions))
        path = C.write_replay(pid, dict(property=pid, kind='input', seed=seed, tier=tier, case=worst['case'],
                                        observed=worst['obs'], why=worst['why'], region=worst['region'],
                                        n_failing=len(s_bad_new), broken=p_broken))
        lines.append('VIOLATION property=%s replay=%s' % (pid, path))
        violations = len(s_bad_new)
        replay_paths.append(path)
    elif p_broken or f_bad:
        # property no longer shown: search for a failing input with a larger, boundary-biased budget
        sn = getattr(mod, 'SEARCH_N', {}).get(tier, mod.N[tier] * 3)
        rng2 = random.Random(seed * 7919 + 5)
        scases = list(mod.gen(rng2, sn, 'search'))
        searched = len(scases)
        sres, _ = evaluate(mod, scases, work, tag='srch')
        found = [r for r in sres if not r['s_ok'] and not (r['region'] and r['region'] in known_regions)]
        broken_names = list(p_broken)
        if f_bad:
            broken_names.append('correspondence:F (%d of %d cases; first: %s)' % (
                len(f_bad), len(res), json.dumps(f_bad[0]['case'], default=str)[:500]))
        if found:
            worst = shrink(mod, found[0], work, lambda r: not r['s_ok'])
            path = C.write_replay(pid, dict(property=pid, kind='input', seed=seed, tier=tier, case=worst['case'],
                                            observed=worst['obs'], why=worst['why'], broken=broken_names))
            lines.append('VIOLATION property=%s replay=%s' % (pid, path))
        else:
            first_f = None
            if f_bad:
                first_f = shrink(mod, f_bad[0], work, lambda r: not r['f_ok'])
            path = C.write_replay(pid, dict(property=pid, kind='unproved', seed=seed, tier=tier, broken=broken_names,
                                            build_log_tail=b.log[-3000:] if not b.ok else '',
                                            coq_eval_error=(coq_err or '')[-2000:],
                                            translation=[t for t in tr if not t['ok']],
                                            first_unfaithful_case=(first_f or {}).get('case'),
                                            first_unfaithful_obs=(first_f or {}).get('obs'),
                                            searched=searched))
            lines.append('VIOLATION property=%s replay=%s no-failing-input-found' % (pid, path))
        violations = max(1, len(found))
        replay_paths.append(path)

    # ---- evidence
    hist = collections.Counter(r['case'].get('kind', '?') for r in res)
    outcome = collections.Counter(('raises:' + str(r['obs'].get('raises'))) if isinstance(r['obs'], dict) and 'raises' in r['obs'] else 'ok'
                                  for r in res)
    regions = collections.Counter(r['region'] for r in res)
    nontriv = set()
    for r in res:
        try:
            nt = mod.nontrivial(r['case'], r['obs']) if hasattr(mod, 'nontrivial') else True
        except Exception:
            nt = False
        if nt:
            cc = {k: v for k, v in r['case'].items() if not k.startswith('_')}
            nontriv.add(C.case_hash(cc))
    samples = [dict(case={k: v for k, v in r['case'].items()}, observed=r['obs']) for r in res[len(corpus):len(corpus) + 3]]
    samples = json.loads(json.dumps(samples, default=str))
    ev = dict(
        property_id=pid, tier=tier, seed=seed, level='proof',
        coverage=dict(
            obligations=n_obl, discharged=n_dis,
            checker_cmd='cd /verif/coq && make Props/%s.vo Corr/%s.vo (coqc 8.16.1, full .vo; Props re-checked every run)' % (pid, pid),
            trusted_base=list(getattr(mod, 'TRUSTED', [])) + [
                'Coq 8.16.1 kernel incl. vm_compute (no native_compute)',
                'harness/*.py correspondence driver, generators and canonicalisation',
                'axioms: ' + ('none (all Print Assumptions: Closed under the global context)'
                              if all(x == 'closed' for x in b.assumptions) else json.dumps(b.assumptions))],
            theorems=b.theorems, assumptions_reported=b.assumptions,
            refuted=[t for t in b.theorems if t.endswith('_refuted')],
            partial=[t for t in b.theorems if t.endswith('_partial')],
            translation=tr,
            evaluations=len(res) + searched,
            distinct_nontrivial=len(nontriv),
            rule=getattr(mod, 'RULE', ''),
            samples=samples or [dict(note='no generated cases')],
            distribution=dict(kinds=dict(hist), outcomes=dict(outcome), regions={str(k): v for k, v in regions.items()},
                              evaluated_in_coq=sum(1 for r in res if r['in_coq'])),
            faithfulness_disagreements=len(f_bad),
            spec_failures_in_known_regions={str(k): len(v) for k, v in s_bad_known.items()},
            known_findings_replayed=[f['id'] for f in known], fixed=fixed,
            broken=p_broken, build_wall_s=round(b.wall, 1), exhaustive=False),
        assumptions=list(getattr(mod, 'ASSUMPTIONS', [])),
        wall_s=round(time.time() - t0, 2), violations=violations)
    C.write_evidence(pid, ev)
    for l in lines:
        print(l)
    print('%s tier=%s seed=%d obligations=%d/%d cases=%d F-bad=%d S-bad(new)=%d S-bad(known)=%d nontrivial=%d wall=%.1fs' % (
        pid, tier, seed, n_dis, n_obl, len(res), len(f_bad), len(s_bad_new),
        sum(len(v) for v in s_bad_known.values()), len(nontriv), time.time() - t0))
    if not b.ok:
        print(b.log[-1500:])
    return 1 if violations else 0


if __name__ == '__main__':
    main()
