"""Rewrite the generated per-property section of DESIGN.md from Props/*.v, known_findings/*.json and the modules."""
import os, re, json, sys, importlib
V = os.path.dirname(os.path.dirname(os.path.abspath(__file__)))
sys.path.insert(0, V)
out = []
for i in range(1, 21):
    pid = 'C%02d' % i
    src = open(os.path.join(V, 'coq', 'Props', pid + '.v')).read()
    nc = re.sub(r'\(\*.*?\*\)', '', src, flags=re.S)
    thms = re.findall(r'^\s*(?:Theorem|Lemma|Corollary)\s+(\w+)', nc, flags=re.M)
    exs = re.findall(r'^\s*(?:Example|Fact)\s+(\w+)', nc, flags=re.M)
    kf = json.load(open(os.path.join(V, 'known_findings', pid + '.json'))) if os.path.exists(os.path.join(V, 'known_findings', pid + '.json')) else {}
    m = importlib.import_module('harness.props.' + pid.lower())
    tie = 'T+H' if hasattr(m, 'translate') else 'H'
    full = [t for t in thms if not t.endswith('_partial') and not t.endswith('_refuted')]
    part = [t for t in thms if t.endswith('_partial')]
    ref = [t for t in thms if t.endswith('_refuted')]
    sh = lambda l: ', '.join(x.replace(pid + '_', '') for x in l) or '—'
    out.append('### %s (tie %s)\n\n%s\n\n* full strength (%d): %s\n* `_partial` (%d): %s\n* `_refuted` (%d): %s\n* non-vacuity examples: %s\n* known findings (%d): %s\n* repaired by `fix:` commits (%d): %s\n' % (
        pid, tie, m.LEVEL_TEXT, len(full), sh(full), len(part), sh(part), len(ref), sh(ref), sh(exs),
        len(kf.get('findings', [])), '; '.join('%s (region %s)' % (f['id'], f.get('region')) for f in kf.get('findings', [])) or '—',
        len(kf.get('fixed', [])), '; '.join(re.sub(r'^fixed: property=\w+ ', '', x)[:70] for x in kf.get('fixed', [])) or '—'))
p = os.path.join(V, 'DESIGN.md')
s = open(p).read()
a, b = '<!-- PROPS-BEGIN -->', '<!-- PROPS-END -->'
assert a in s and b in s
s = s[:s.index(a) + len(a)] + '\n' + '\n'.join(out) + '\n' + s[s.index(b):]
open(p, 'w').write(s)
print('ok')
