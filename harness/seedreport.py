"""Rewrite section 9 of DESIGN.md (between the SEEDS markers) from seeded/*/meta.json."""
import os, json, glob, re
V = os.path.dirname(os.path.dirname(os.path.abspath(__file__)))
rows = []
for d in sorted(glob.glob(os.path.join(V, 'seeded', '*'))):
    mp = os.path.join(d, 'meta.json')
    if not os.path.exists(mp):
        continue
    m = json.load(open(mp))
    name = os.path.basename(d)
    det = m.get('detection') or {}
    notes = m.get('needs_to_manifest', '')
    first = ''
    for line in notes.split('\n'):
        line = line.strip()
        if line and not line.startswith('#'):
            first = re.sub(r'[*`|]', '', line)[:150]
            break
    if det.get('violation_lines'):
        v = det['violation_lines'][0]
        how = 'VIOLATION with failing input' if 'no-failing-input-found' not in v else 'VIOLATION no-failing-input-found (proof/correspondence broken)'
        why = (det.get('replay_why') or '')[:110].replace('|', '/')
    elif det:
        how, why = 'MISSED', det.get('summary', '')[:80]
    else:
        how, why = 'not run yet', ''
    rows.append('| %s | %s | %s | %s | %s |' % (name, m.get('breaks_property'), first, how, why))
table = ('| seed | property | what it is (first line of the author\'s notes) | result of `./check` on the changed tree | reported reason |\n'
         '|---|---|---|---|---|\n' + '\n'.join(rows))
p = os.path.join(V, 'DESIGN.md')
s = open(p).read()
a, b = '<!-- SEEDS-BEGIN -->', '<!-- SEEDS-END -->'
if a not in s:
    s = s.replace("(filled in by the seeding pass: `/verif/seeded/<id>/{patch.diff, demo.*, meta.json}`; table below)", a + '\n' + b)
s = s[:s.index(a) + len(a)] + '\n' + table + '\n' + s[s.index(b):]
open(p, 'w').write(s)
print(len(rows), 'seeds;', sum(1 for r in rows if 'MISSED' in r), 'missed;', sum(1 for r in rows if 'not run' in r), 'not run')
