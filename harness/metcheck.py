"""Run and judge the meteorological CAMx formats (python-level correspondence; record tiling decided in Coq)."""
import os, shutil, signal
from harness import common as C, camxlib as L, camxfmt as M


def _guard(fn, secs=3.0):
    signal.setitimer(signal.ITIMER_REAL, secs)
    try:
        return ('ok', fn())
    except C.CaseTimeout:
        return ('timeout', None)
    except Exception as e:
        return ('raises', '%s: %s' % (type(e).__name__, str(e)[:80]))
    finally:
        signal.setitimer(signal.ITIMER_REAL, 0)


def run_met(case):
    c = case['content']
    fmt = c['fmt']
    ws = M.encode(c)
    b = L.bytes_of_words(ws)
    d = L.workdir()
    obs = dict(nwords=len(ws))
    try:
        p = os.path.join(d, 'f.bin')
        with open(p, 'wb') as f:
            f.write(b)
        holder = {}

        def mm():
            holder['f'] = M.open_memmap(fmt, p, c)
            return M.observe(holder['f'], fmt)
        st, o = _guard(mm)
        obs['mm'] = dict(status=st, view=o if st == 'ok' else None, err=o if st == 'raises' else None)
        if st == 'ok' and case.get('write', True):
            p2 = os.path.join(d, 'g.bin')

            def wr():
                M.write(fmt, holder['f'], p2)
                return L.words_of_bytes(open(p2, 'rb').read())
            st2, w = _guard(wr)
            obs['wr'] = dict(status=st2, words=w if st2 == 'ok' else None, err=w if st2 == 'raises' else None)
            if st2 == 'ok' and case.get('reread', False):
                def rr():
                    return M.observe(M.open_memmap(fmt, p2, c), fmt)
                st3, o3 = _guard(rr)
                obs['rr'] = dict(status=st3, view=o3 if st3 == 'ok' else None)
        if case.get('read', False):
            def rd():
                return M.observe(M.open_read(fmt, p, c), fmt)
            st4, o4 = _guard(rd, 4.0)
            obs['rd'] = dict(status=st4, view=o4 if st4 == 'ok' else None, err=o4 if st4 == 'raises' else None)
        if case.get('sweep', False):
            acc, bad, tmo = [], [], 0
            e = M.expected_view(c)
            for cut in range(len(b)):
                with open(p, 'wb') as f:
                    f.write(b[:cut])
                if tmo >= 3:
                    break
                st5, o5 = _guard(lambda: M.observe(M.open_memmap(fmt, p, c), fmt), 0.5)
                if st5 == 'timeout':
                    tmo += 1
                if st5 != 'ok':
                    continue
                k = o5['dims'].get('TSTEP', 0)
                why = M.view_matches(o5, e, k) if (isinstance(k, int) and 1 <= k <= len(c['steps'])) else ['TSTEP=%r' % (k,)]
                acc.append([cut, k])
                if why:
                    bad.append([cut, k, why[0][:60]])
            obs['sweep'] = dict(n=len(b), accepted=acc, bad=bad, timeouts=tmo)
    finally:
        shutil.rmtree(d, ignore_errors=True)
    signal.setitimer(signal.ITIMER_REAL, 60.0)
    return obs


def gen_any(rng, tier='quick', rollover=0.3, min_steps=1, lb_share=0.2):
    if min_steps <= 1 and rng.random() < 0.08:
        return M.gen_landuse(rng)
    if rng.random() < lb_share:
        c = M.gen_lb(rng, tier, rollover)
        while len(c['steps']) < min_steps:
            c = M.gen_lb(rng, tier, rollover)
        return c
    return M.gen_met(rng, tier=tier, rollover=rollover, min_steps=min_steps)


def _year_end_23(c):
    for s in c['steps']:
        d = s['bdate']
        yy, jjj = divmod(d, 1000)
        last = 366 if yy % 4 == 0 else 365
        if s['bhour'] == 23 and jjj == last:
            return True
    return False


def region_of(c):
    """known-defect regions of the met readers (see known_findings/C08|C09|C13|C14.json)"""
    if c['fmt'] == 'landuse':
        import struct
        first = c['steps'][0]['fields']['FLAND'][0]
        b = struct.pack('>%dI' % min(2, len(first)), *first[:2])
        if len(first) < 2:
            b += struct.pack('>I', c['steps'][0]['fields']['FLAND'][1][0])
        try:
            b.decode()
            return 0
        except UnicodeDecodeError:
            return 16      # reader decodes the first 8 payload bytes as text to sniff the file style
    if c['fmt'] == 'lateral_boundary':
        return 1 if _year_end_23(c) else 0   # writer derives the end date as YYJJJ + 1 at midnight
    if c['fmt'] == 'wind' and c['nx'] * c['ny'] == 1:
        return 12      # data records as long as the 1-word dummy record: reader cannot delimit the layers
    if len(c['steps']) == 1:
        return 11      # layer count inferred from the first change of time stamp: needs >= 2 steps
    return 0


def squeeze(x):
    """drop length-1 axes of a nested list"""
    if not isinstance(x, list):
        return x
    if len(x) == 1:
        return squeeze(x[0])
    return [squeeze(y) for y in x]
