"""Run and judge the meteorological CAMx formats (python-level correspondence; record tiling decided in Coq)."""
import os, shutil, signal
from harness import common as C, camxlib as L, camxfmt as M


def _guard(fn, secs=3.0):
    signal.setitimer(signal.ITIMER_REAL, secs)
    try:
        return ('ok', fn())
    except C.CaseTimeout:
        return ('timeout', None)
    except Exception as e:
        return ('raises', '%s: %s' % (type(e).__name__, str(e)[:80]))
    finally:
        signal.setitimer(signal.ITIMER_REAL, 0)


def run_met(case):
    c = case['content']
    fmt = c['fmt']
    ws = M.encode(c)
    b = L.bytes_of_words(ws)
    d = L.workdir()
    obs = dict(nwords=len(ws))
    try:
        p = os.path.join(d, 'f.bin')
        with open(p, 'wb') as f:
            f.write(b)
        holder = {}

        def mm():
            holder['f'] = M.open_memmap(fmt, p, c)
            return M.observe(holder['f'], fmt)
        st, o = _guard(mm)
        obs['mm'] = dict(status=st, view=o if st == 'ok' else None, err=o if st == 'raises' else None)
        if st == 'ok' and case.get('write', True):
            p2 = os.path.join(d, 'g.bin')

            def wr():
                M.write(fmt, holder['f'], p2)
                return L.words_of_bytes(open(p2, 'rb').read())
            st2, w = _guard(wr)
            obs['wr'] = dict(status=st2, words=w if st2 == 'ok' else None, err=w if st2 == 'raises' else None)
            if st2 == 'ok' and case.get('reread', False):
                def rr():
                    return M.observe(M.open_memmap(fmt, p2, c), fmt)
                st3, o3 = _guard(rr)
                obs['rr'] = dict(status=st3, view=o3 if st3 == 'ok' else None)
        if case.get('read', False):
            def rd():
                return M.observe(M.open_read(fmt, p, c), fmt)
            st4, o4 = _guard(rd, 4.0)
            obs['rd'] = dict(status=st4, view=o4 if st4 == 'ok' else None, err=o4 if st4 == 'raises' else None)
        if case.get('sweep', False):
            acc, bad, tmo = [], [], 0
            e = M.expected_view(c)
            for cut in range(len(b)):
                with open(p, 'wb') as f:
                    f.write(b[:cut])
                if tmo >= 3:
                    break
                st5, o5 = _guard(lambda: M.observe(M.open_memmap(fmt, p, c), fmt), 0.5)
                if st5 == 'timeout':
                    tmo += 1
                if st5 != 'ok':
                    continue
                k = o5['dims'].get('TSTEP', 0)
                why = M.view_matches(o5, e, k) if (isinstance(k, int) and 1 <= k <= len(c['steps'])) else ['TSTEP=%r' % (k,)]
                acc.append([cut, k])
                if why:
                    bad.append([cut, k, why[0][:60]])
            obs['sweep'] = dict(n=len(b), accepted=acc, bad=bad, timeouts=tmo)
    finally:
        shutil.rmtree(d, ignore_errors=True)
    signal.setitimer(signal.ITIMER_REAL, 60.0)
    return obs


def gen_any(rng, tier='quick', rollover=0.3, min_steps=1, lb_share=0.2):
    if min_steps <= 1 and rng.random() < 0.08:
        return M.gen_landuse(rng)
    if rng.random() < lb_share:
        c = M.gen_lb(rng, tier, rollover)
        while len(c['steps']) < min_steps:
            c = M.gen_lb(rng, tier, rollover)
        return c
    return M.gen_met(rng, tier=tier, rollover=rollover, min_steps=min_steps)


def _year_end_23(c):
    for s in c['steps']:
        d = s['bdate']
        yy, jjj = divmod(d, 1000)
        last = 366 if yy % 4 == 0 else 365
        if s['bhour'] == 23 and jjj == last:
            return True
    return False


def region_of(c):
    """known-defect regions of the met readers (see known_findings/C08|C09|C13|C14.json)"""
    if c['fmt'] == 'landuse':
        import struct
        first = c['steps'][0]['fields']['FLAND'][0]
        b = struct.pack('>%dI' % min(2, len(first)), *first[:2])
        if len(first) < 2:
            b += struct.pack('>I', c['steps'][0]['fields']['FLAND'][1][0])
        try:
            b.decode()
            return 0
        except UnicodeDecodeError:
            return 16      # reader decodes the first 8 payload bytes as text to sniff the file style
    if c['fmt'] == 'lateral_boundary':
        return 0   # (region 1, the writer's end date at a year end, was retired by a9b6e29)
    if c['fmt'] == 'cloud_rain':
        # the layout is guessed from the file size: a 3-field file whose size is also a whole number of 5-field steps is misread
        return 21 if M._cr_ambiguous(c) else 0
    if c['fmt'] == 'wind' and c['nx'] * c['ny'] == 1:
        return 12      # data records as long as the 1-word dummy record: reader cannot delimit the layers
    if len(c['steps']) == 1:
        return 11      # layer count inferred from the first change of time stamp: needs >= 2 steps
    return 0


def squeeze(x):
    """drop length-1 axes of a nested list"""
    if not isinstance(x, list):
        return x
    if len(x) == 1:
        return squeeze(x[0])
    return [squeeze(y) for y in x]


# ----------------------------------------------------------------------------- lateral boundary, evaluated in Coq (Model/Lbdy.v)
def is_lb(case):
    return case.get('content', {}).get('fmt') == 'lateral_boundary' and not case.get('sweep')


def _lb_open(p, c):
    f = M.open_memmap('lateral_boundary', p, c)
    o = M.observe(f, 'lateral_boundary')
    o['attrs'] = dict(NAME=str(f.NAME), NOTE=str(f.NOTE), ITZON=int(f.ITZON))
    return f, o


def run_lb(case):
    """reference-encoded file (optionally cut to case['cut'] bytes) -> library reader -> (whole file) library writer"""
    c = case['content']
    ws = M.encode(c)
    b = L.bytes_of_words(ws)
    cut = case.get('cut')
    d = L.workdir()
    obs = dict(nwords=len(ws), cut=len(b) if cut is None else cut)
    try:
        p = os.path.join(d, 'f.bin')
        holder = {}
        if cut is not None:
            with open(p, 'wb') as f:
                f.write(b)
            st, r = _guard(lambda: _lb_open(p, c)[1])
            obs['full'] = dict(status=st, ETFLAG=(r or {}).get('ETFLAG') if st == 'ok' else None)
        with open(p, 'wb') as f:
            f.write(b if cut is None else b[:cut])

        def mm():
            holder['f'], o = _lb_open(p, c)
            return o
        st, o = _guard(mm)
        obs['mm'] = dict(status=st, view=o if st == 'ok' else None, err=o if st == 'raises' else None)
        if st == 'ok' and cut is None:
            p2 = os.path.join(d, 'g.bin')

            def wr():
                M.write('lateral_boundary', holder['f'], p2)
                return L.words_of_bytes(open(p2, 'rb').read())
            st2, w = _guard(wr)
            obs['wr'] = dict(status=st2, words=w if st2 == 'ok' else None, err=w if st2 == 'raises' else None)
    finally:
        shutil.rmtree(d, ignore_errors=True)
    signal.setitimer(signal.ITIMER_REAL, 60.0)
    return obs


def run_lb_w(case):
    """C08: in-memory file built from the content (fresh arrays, no _boundary_def: the writer generates the edge
    definitions) -> library writer -> library reader -> library writer"""
    import numpy as np
    from PseudoNetCDF import PseudoNetCDFFile
    c = case['content']
    ws = M.encode(c)
    d = L.workdir()
    obs = dict(nwords=len(ws))
    try:
        p0 = os.path.join(d, 'ref.bin')
        with open(p0, 'wb') as f:
            f.write(L.bytes_of_words(ws))

        def build():
            f0 = M.open_memmap('lateral_boundary', p0, c)
            g = PseudoNetCDFFile()
            for k, dim in f0.dimensions.items():
                g.createDimension(k, len(dim))
            for k in f0.ncattrs():
                setattr(g, k, getattr(f0, k))
            for k in list(f0.variables.keys()):
                if k == 'ETFLAG' and case.get('drop_etflag'):
                    continue
                v = f0.variables[k]
                nv = g.createVariable(k, v.dtype.char, v.dimensions, values=np.array(v[...]).copy())
                for a in v.ncattrs():
                    setattr(nv, a, getattr(v, a))
            p1 = os.path.join(d, 'w1.bin')
            M.write('lateral_boundary', g, p1)
            return L.words_of_bytes(open(p1, 'rb').read())
        st, w1 = _guard(build, 6.0)
        obs['w1'] = dict(status=st, words=w1 if st == 'ok' else None, err=w1 if st == 'raises' else None)
        if st == 'ok':
            holder = {}

            def rd():
                holder['f'], o = _lb_open(os.path.join(d, 'w1.bin'), c)
                return o
            st2, o = _guard(rd)
            obs['mm'] = dict(status=st2, view=o if st2 == 'ok' else None, err=o if st2 == 'raises' else None)
            if st2 == 'ok':
                p2 = os.path.join(d, 'w2.bin')

                def wr():
                    M.write('lateral_boundary', holder['f'], p2)
                    return L.words_of_bytes(open(p2, 'rb').read())
                st3, w2 = _guard(wr)
                obs['w2'] = dict(status=st3, words=w2 if st3 == 'ok' else None, err=w2 if st3 == 'raises' else None)
    finally:
        shutil.rmtree(d, ignore_errors=True)
    signal.setitimer(signal.ITIMER_REAL, 60.0)
    return obs


def lb_hours(c):
    return '[' + '; '.join('(%d, %d)' % (s['bhour'], s['ehour']) for s in c['steps']) + ']'


def lb_term_read(case, obs):
    """Coq term `L (LCase ...)` of Corr/C09.v for a run_lb observation"""
    c = case['content']
    mm = obs['mm']
    ok = mm['status'] == 'ok'
    v, tf, etf = M.coq_lview(c, mm['view'] if ok else None)
    full = obs.get('full')
    full_etf = M.coq_pairs((full or {}).get('ETFLAG') or []) if full is not None else etf
    wr = obs.get('wr') or {}
    return '(L (LCase %s %s %s %d %s %s %s %s %s %s %s %s))' % (
        M.coq_lbdy(c), lb_hours(c), C.zlist(M.encode(c)), obs['cut'], C.cbool(ok), v, tf, etf, full_etf,
        C.cbool(not lb_py_check(case, obs)), C.cbool(wr.get('status') == 'ok'), C.zlist(wr.get('words') or []))


def lb_py_check(case, obs, need_write=True):
    """what the Coq term does not carry: variable names/order, NAME/NOTE/ITZON attributes, harness failures"""
    c = case['content']
    why = []
    mm = obs.get('mm') or {}
    if mm.get('status') == 'timeout':
        why.append('library reader did not return')
    if mm.get('status') == 'ok':
        v = mm['view']
        if list(v['data'].keys()) != M.lb_expected_keys(c['names']):
            why.append('variables %s expected %s' % (list(v['data'].keys())[:5], M.lb_expected_keys(c['names'])[:5]))
        if v['dims'].get('VAR') != 4 * len(c['names']):
            why.append('VAR=%s' % v['dims'].get('VAR'))
        # array shapes (TSTEP, ncell, LAY): the Coq term carries the flattened words only
        for k, arr in v['data'].items():
            ncell = c['ny'] if k.split('_')[0] in ('WEST', 'EAST') else c['nx']
            if not (len(arr) == v['dims'].get('TSTEP') and all(len(t) == ncell and all(len(cell) == c['nz'] for cell in t) for t in arr)):
                why.append('shape of %s is not (TSTEP, %d, %d)' % (k, ncell, c['nz']))
                break
        a = v.get('attrs', {})
        if a.get('NAME', '').strip() != c['name'].strip():
            why.append('NAME differs')
        if a.get('NOTE', '').strip() != c['note'].strip():
            why.append('NOTE differs')
        if a.get('ITZON') != c['itzon']:
            why.append('ITZON differs')
    return why



# ----------------------------------------------------------------------------- one3d family, evaluated in Coq (Model/One3d.v)
def is_o3(case):
    return case.get('content', {}).get('fmt') in M.O3_FORMATS and not case.get('sweep')


def run_o3(case):
    """reference-encoded file (optionally cut) -> library Memmap reader (open + read the data) -> (whole file) ncf2one3d"""
    c = case['content']
    fmt = c['fmt']
    ws = M.encode(c)
    b = L.bytes_of_words(ws)
    cut = case.get('cut')
    d = L.workdir()
    obs = dict(nwords=len(ws), cut=len(b) if cut is None else cut)
    try:
        p = os.path.join(d, 'f.bin')
        with open(p, 'wb') as f:
            f.write(b if cut is None else b[:cut])
        holder = {}

        def mm():
            holder['f'] = M.open_memmap(fmt, p, c)
            return M.observe(holder['f'], fmt)
        st, o = _guard(mm, case.get('guard', 3.0))
        obs['mm'] = dict(status=st, view=o if st == 'ok' else None, err=o if st == 'raises' else None)
        if st == 'ok' and cut is None:
            p2 = os.path.join(d, 'g.bin')

            def wr():
                M.write(fmt, holder['f'], p2)
                return L.words_of_bytes(open(p2, 'rb').read())
            st2, w = _guard(wr)
            obs['wr'] = dict(status=st2, words=w if st2 == 'ok' else None, err=w if st2 == 'raises' else None)
            if st2 == 'ok' and case.get('reread'):
                st3, o3 = _guard(lambda: M.observe(M.open_memmap(fmt, p2, c), fmt))
                obs['rr'] = dict(status=st3, view=o3 if st3 == 'ok' else None)
    finally:
        shutil.rmtree(d, ignore_errors=True)
    signal.setitimer(signal.ITIMER_REAL, 60.0)
    return obs


def o3_shape_ok(c, view):
    arr = view['data'].get(M.VARS[c['fmt']][0])
    if arr is None or list(view['data'].keys()) != M.VARS[c['fmt']]:
        return False
    dm = view['dims']
    return (len(arr) == dm.get('TSTEP') and all(len(t) == dm.get('LAY') and all(len(lay) == c['ny'] and all(len(r) == c['nx'] for r in lay)
                                                                                 for lay in t) for t in arr))


def o3_py_check(case, obs):
    """what the Coq term does not carry: variable name, array shape, reader that does not return"""
    c = case['content']
    why = []
    mm = obs.get('mm') or {}
    if mm.get('status') == 'timeout':
        why.append('library reader did not return')
    if mm.get('status') == 'ok' and not o3_shape_ok(c, mm['view']):
        why.append('variable name or array shape is not %s (TSTEP, LAY, %d, %d)' % (M.VARS[c['fmt']], c['ny'], c['nx']))
    return why


def o3_term(case, obs, ctor='OD'):
    """Coq term `OD (OCase ...)` of Corr/C09.v (OD8 for Corr/C08.v) for a run_o3 observation"""
    c = case['content']
    mm = obs['mm']
    ok = mm['status'] == 'ok'
    v, tf = M.coq_oview(c, mm['view'] if ok else None)
    wr = obs.get('wr') or {}
    return '(%s (OCase %s %s %s %d %s %s %s %s %s %s))' % (
        ctor, M.coq_one3d(c), C.zlist([s['hhmm'] for s in c['steps']]), C.zlist(M.encode(c)), obs['cut'], C.cbool(ok), v, tf,
        C.cbool(not o3_py_check(case, obs)), C.cbool(wr.get('status') == 'ok'), C.zlist(wr.get('words') or []))


def run_o3_read(case):
    """C13: reference-encoded file -> Memmap reader and record reader (Read.py); the record reader's header fields,
    step count and the seeks of getArray (date, time, k, byte position) are captured"""
    c = case['content']
    fmt = c['fmt']
    ws = M.encode(c)
    d = L.workdir()
    obs = dict(nwords=len(ws))
    try:
        p = os.path.join(d, 'f.bin')
        with open(p, 'wb') as f:
            f.write(L.bytes_of_words(ws))
        st, o = _guard(lambda: M.observe(M.open_memmap(fmt, p, c), fmt))
        obs['mm'] = dict(status=st, view=o if st == 'ok' else None, err=o if st == 'raises' else None)
        cap = {}

        def rd():
            r = M.open_read(fmt, p, c)
            cap['self'] = dict(start_date=int(r.start_date), start_time=float(r.start_time), time_step=float(r.time_step),
                               nlayers=int(r.nlayers), padded_size=int(r.padded_size), data_start_byte=int(r.data_start_byte),
                               count=int(r.time_step_count))
            seeks, pos = [], []
            orig_new = r.rffile._newrecord

            def newrec(x):
                pos.append(int(x))
                return orig_new(x)
            r.rffile._newrecord = newrec
            orig_seek = r.seek

            def seek(date=None, time=None, k=1, chkvar=True):
                n0 = len(pos)
                res = orig_seek(date, time, k, chkvar)
                if len(pos) > n0 and date is not None and float(time) == int(time) and float(date) == int(date):
                    seeks.append([int(date), int(time), int(k), pos[-1]])
                return res
            r.seek = seek
            cap['seeks'] = seeks
            return M.observe(r, fmt)
        st4, o4 = _guard(rd, 4.0)
        obs['rd'] = dict(status=st4, view=o4 if st4 == 'ok' else None, err=o4 if st4 == 'raises' else None)
        obs['self'] = cap.get('self')
        obs['seeks'] = (cap.get('seeks') or [])[:60] if st4 == 'ok' else []
    finally:
        shutil.rmtree(d, ignore_errors=True)
    signal.setitimer(signal.ITIMER_REAL, 60.0)
    return obs


def o3_term_read(case, obs):
    """Coq term `OC (OCase13 ...)` of Corr/C13.v"""
    c = case['content']
    mm, rd = obs['mm'], obs['rd']
    mv = M.coq_oview(c, mm['view'] if mm['status'] == 'ok' else None)[0]
    rv = M.coq_oview(c, rd['view'] if rd['status'] == 'ok' else None)[0]
    s = obs.get('self')
    ok = bool(s) and float(s['start_time']) == int(s['start_time']) and float(s['time_step']) == int(s['time_step'])
    if ok:
        selft = ('{| o3r_start_date := %s; o3r_start_time := %s; o3r_time_step := %s; o3r_nlayers := %s; o3r_padded_size := %s; '
                 'o3r_data_start_byte := %s |}') % tuple(C.zc(int(s[k])) for k in ('start_date', 'start_time', 'time_step', 'nlayers',
                                                                              'padded_size', 'data_start_byte'))
        count = s['count']
    else:
        selft = ('{| o3r_start_date := 0; o3r_start_time := 0; o3r_time_step := 1; o3r_nlayers := 1; o3r_padded_size := 0; '
                 'o3r_data_start_byte := 0 |}')
        count = 0
    seeks = '[' + '; '.join('(%s, %s, %s, %s)' % tuple(C.zc(v) for v in x) for x in obs.get('seeks', [])) + ']'
    return '(OC (OCase13 %s %s %s %s %s %s %s %s %s %s %s %s))' % (
        M.coq_one3d(c), C.zlist([x['hhmm'] for x in c['steps']]), C.zlist(M.encode(c)), C.cbool(mm['status'] == 'ok'), mv,
        C.cbool(rd['status'] == 'ok'), rv, C.cbool(rd['status'] == 'timeout'), C.cbool(ok), selft, C.zc(count), seeks)


# ----------------------------------------------------------------------------- temperature / height_pressure in Coq (Model/TempHp.v)
def is_th(case):
    return case.get('content', {}).get('fmt') in M.TH_FORMATS and not case.get('sweep')


def is_wind(case):
    return case.get('content', {}).get('fmt') == 'wind' and not case.get('sweep')


def is_cr(case):
    return case.get('content', {}).get('fmt') == 'cloud_rain' and not case.get('sweep')


def is_layered(case):
    """formats whose Memmap reader is modelled in Coq through the generic driver run_o3"""
    return is_o3(case) or is_th(case) or is_wind(case) or is_cr(case)


def cr_term(case, obs, suffix=''):
    c = case['content']
    mm = obs['mm']
    ok = mm['status'] == 'ok'
    v, tf = M.coq_cview(c, mm['view'] if ok else None)
    wr = obs.get('wr') or {}
    tbl = sorted(set((L.f32_word(float(s['hhmm'])), s['hhmm']) for s in c['steps']))
    py_ok = True
    if ok:
        vw = mm['view']
        dm = vw['dims']
        py_ok = all(len(a) == dm.get('TSTEP') and all(len(t) == dm.get('LAY') and all(len(lay) == dm.get('ROW') and all(len(r) == dm.get('COL') for r in lay)
                                                                                 for lay in t) for t in a) for a in vw['data'].values())
        py_ok = py_ok and list(vw['data'].keys()) in (M.CR_FIELDS[3], M.CR_FIELDS[5])
    return '(CD%s (CCase %s %s %s %s %d %s %s %s %s %s %s))' % (
        suffix, M.coq_cloudrain(c), C.zlist([s['hhmm'] for s in c['steps']]), M.coq_pairs(tbl), C.zlist(M.encode(c)), obs['cut'],
        C.cbool(ok), v, tf, C.cbool(py_ok), C.cbool(wr.get('status') == 'ok'), C.zlist(wr.get('words') or []))


def th_shape_ok(c, view):
    dm, d = view['dims'], view['data']
    if list(d.keys()) != M.VARS[c['fmt']]:
        return False

    def ok4(arr):
        return (len(arr) == dm.get('TSTEP') and all(len(t) == dm.get('LAY') and all(len(lay) == c['ny'] and all(len(r) == c['nx'] for r in lay)
                                                                                     for lay in t) for t in arr))
    if c['fmt'] == 'temperature':
        s = d['SURFTEMP']
        return (len(s) == dm.get('TSTEP') and all(len(x) == c['ny'] and all(len(r) == c['nx'] for r in x) for x in s) and ok4(d['AIRTEMP']))
    return ok4(d['HGHT']) and ok4(d['PRES'])


def th_py_check(case, obs):
    c = case['content']
    why = []
    mm = obs.get('mm') or {}
    if mm.get('status') == 'timeout':
        why.append('library reader did not return')
    if mm.get('status') == 'ok' and not th_shape_ok(c, mm['view']):
        why.append('variable names or array shapes are not those of a %s file on a %dx%d grid' % (c['fmt'], c['ny'], c['nx']))
    return why


def th_term(case, obs, suffix=''):
    """Coq term `TD (TCase ...)` / `HD (HCase ...)` of Corr/C09.v (TD8 / HD8 for Corr/C08.v) for a run_o3 observation"""
    c = case['content']
    mm = obs['mm']
    ok = mm['status'] == 'ok'
    v, tf = M.coq_thview(c, mm['view'] if ok else None)
    wr = obs.get('wr') or {}
    t = c['fmt'] == 'temperature'
    tbl = sorted(set((L.f32_word(float(s['hhmm'])), s['hhmm']) for s in c['steps']))
    return '(%s%s (%s %s %s %s %s %d %s %s %s %s %s %s))' % (
        'TD' if t else 'HD', suffix, 'TCase' if t else 'HCase', M.coq_temphp(c), C.zlist([s['hhmm'] for s in c['steps']]),
        M.coq_pairs(tbl), C.zlist(M.encode(c)), obs['cut'], C.cbool(ok), v, tf,
        C.cbool(not th_py_check(case, obs)), C.cbool(wr.get('status') == 'ok'), C.zlist(wr.get('words') or []))


def w_py_check(case, obs):
    c = case['content']
    why = []
    mm = obs.get('mm') or {}
    if mm.get('status') == 'ok':
        v = mm['view']
        dm = v['dims']

        def ok4(arr):
            return (len(arr) == dm.get('TSTEP') and all(len(t) == dm.get('LAY') and all(len(lay) == c['ny'] and all(len(r) == c['nx'] for r in lay)
                                                                                         for lay in t) for t in arr))
        if list(v['data'].keys()) != ['U', 'V'] or not ok4(v['data']['U']) or not ok4(v['data']['V']):
            why.append('variable names or array shapes are not those of a wind file on a %dx%d grid' % (c['ny'], c['nx']))
    return why


def w_term(case, obs, suffix=''):
    """Coq term `WD (WCase ...)` of Corr/C09.v (WD8 for Corr/C08.v); status 0 = read, 1 = raised, 2 = did not return"""
    c = case['content']
    mm = obs['mm']
    ok = mm['status'] == 'ok'
    v, tf = M.coq_wview(c, mm['view'] if ok else None)
    wr = obs.get('wr') or {}
    tbl = sorted(set((L.f32_word(float(s['hhmm'])), s['hhmm']) for s in c['steps']))
    return '(WD%s (WCase %s %s %s %s %d %d %s %s %s %s %s))' % (
        suffix, M.coq_wind(c), C.zlist([s['hhmm'] for s in c['steps']]), M.coq_pairs(tbl), C.zlist(M.encode(c)), obs['cut'],
        {'ok': 0, 'raises': 1, 'timeout': 2}[mm['status']], v, tf,
        C.cbool(not w_py_check(case, obs)), C.cbool(wr.get('status') == 'ok'), C.zlist(wr.get('words') or []))


def layered_term(case, obs, suffix=''):
    if is_cr(case):
        return cr_term(case, obs, suffix)
    if is_o3(case):
        return o3_term(case, obs, 'OD' + suffix)
    if is_wind(case):
        return w_term(case, obs, suffix)
    return th_term(case, obs, suffix)


def layered_py_check(case, obs):
    if is_cr(case):
        return []
    if is_wind(case):
        return w_py_check(case, obs)
    return o3_py_check(case, obs) if is_o3(case) else th_py_check(case, obs)


def run_th_read(case):
    """C13, temperature / height_pressure: Memmap reader and record reader on the same reference-encoded file; the record
    reader's fields and (height_pressure) the seeks of getArray are captured"""
    c = case['content']
    fmt = c['fmt']
    ws = M.encode(c)
    d = L.workdir()
    obs = dict(nwords=len(ws))
    try:
        p = os.path.join(d, 'f.bin')
        with open(p, 'wb') as f:
            f.write(L.bytes_of_words(ws))
        st, o = _guard(lambda: M.observe(M.open_memmap(fmt, p, c), fmt))
        obs['mm'] = dict(status=st, view=o if st == 'ok' else None, err=o if st == 'raises' else None)
        cap = {}

        def rd():
            r = M.open_read(fmt, p, c)
            cap['self'] = {k: (float(getattr(r, k)) if getattr(r, k, None) is not None else None)
                           for k in ('start_date', 'start_time', 'time_step', 'nlayers', 'padded_size', 'area_padded_size',
                                     'data_start_byte', 'time_step_count')}
            if fmt == 'height_pressure':
                seeks, pos = [], []
                orig_new = r.rffile._newrecord

                def newrec(x):
                    pos.append(int(x))
                    return orig_new(x)
                r.rffile._newrecord = newrec
                orig_seek = r.seek

                def seek(date=None, time=None, k=1, hp=0, chkvar=True):
                    n0 = len(pos)
                    res = orig_seek(date, time, k, hp, chkvar)
                    if len(pos) > n0 and date is not None and float(time) == int(time) and float(date) == int(date):
                        seeks.append([int(date), int(time), int(k), int(hp), pos[-1]])
                    return res
                r.seek = seek
                cap['seeks'] = seeks
            return M.observe(r, fmt)
        st4, o4 = _guard(rd, 4.0)
        obs['rd'] = dict(status=st4, view=o4 if st4 == 'ok' else None, err=o4 if st4 == 'raises' else None)
        obs['self'] = cap.get('self')
        obs['seeks'] = (cap.get('seeks') or [])[:80] if st4 == 'ok' else []
    finally:
        shutil.rmtree(d, ignore_errors=True)
    signal.setitimer(signal.ITIMER_REAL, 60.0)
    return obs


def th_term_read(case, obs):
    """Coq term `TC (TCase13 ...)` / `HC (HCase13 ...)` of Corr/C13.v"""
    c = case['content']
    mm, rd = obs['mm'], obs['rd']
    mv = M.coq_thview(c, mm['view'] if mm['status'] == 'ok' else None)[0]
    rv = M.coq_thview(c, rd['view'] if rd['status'] == 'ok' else None)[0]
    s = obs.get('self')
    ok = bool(s) and all(s[k] is None or float(s[k]) == int(s[k]) for k in s)
    head = '%s %s %s %s %s %s %s %s' % (M.coq_temphp(c), C.zlist([x['hhmm'] for x in c['steps']]), C.zlist(M.encode(c)),
                                     C.cbool(mm['status'] == 'ok'), mv, C.cbool(rd['status'] == 'ok'), rv,
                                     C.cbool(rd['status'] == 'timeout'))
    z = lambda k: C.zc(int(s[k])) if ok else '0'  # noqa: E731
    if c['fmt'] == 'temperature':
        selft = ('{| trs_nlayers := %s; trs_time_step := %s; trs_count := %s; trs_area_padded := %s; trs_padded := %s |}'
                 % (z('nlayers'), z('time_step'), z('time_step_count'), z('area_padded_size'), z('padded_size')))
        return '(TC (TCase13 %s %s %s))' % (head, C.cbool(ok), selft)
    selft = ('{| hpr_start_date := %s; hpr_start_time := %s; hpr_time_step := %s; hpr_nlayers := %s; hpr_padded_size := %s; '
             'hpr_data_start_byte := %s |}') % (z('start_date'), z('start_time'), z('time_step') if ok else '1', z('nlayers'),
                                                z('padded_size'), z('data_start_byte'))
    seeks = '[' + '; '.join('(%s, %s, %s, %s, %s)' % tuple(C.zc(v) for v in x) for x in obs.get('seeks', [])) + ']'
    return '(HC (HCase13 %s %s %s %s %s))' % (head, C.cbool(ok), selft, z('time_step_count'), seeks)


def run_w_read(case):
    """C13, wind: Memmap reader and record reader on the same reference-encoded file; the record reader's fields and the
    seeks of getArray (date, time, k, duv, byte position) are captured"""
    c = case['content']
    ws = M.encode(c)
    d = L.workdir()
    obs = dict(nwords=len(ws))
    try:
        p = os.path.join(d, 'f.bin')
        with open(p, 'wb') as f:
            f.write(L.bytes_of_words(ws))
        st, o = _guard(lambda: M.observe(M.open_memmap('wind', p, c), 'wind'))
        obs['mm'] = dict(status=st, view=o if st == 'ok' else None, err=o if st == 'raises' else None)
        cap = {}

        def rd():
            r = M.open_read('wind', p, c)
            cap['self'] = {k: float(getattr(r, k)) for k in ('start_date', 'start_time', 'time_step', 'nlayers', 'data_start_byte',
                                                             'padded_time_hdr_size', 'padded_size')}
            seeks, pos = [], []
            orig_new = r.rffile._newrecord

            def newrec(x):
                pos.append(int(x))
                return orig_new(x)
            r.rffile._newrecord = newrec
            orig_seek = r.seek

            def seek(date=None, time=None, k=1, uv=1):
                n0 = len(pos)
                res = orig_seek(date, time, k, uv)
                if len(pos) > n0 and date is not None and float(time) == int(time) and float(date) == int(date):
                    seeks.append([int(date), int(time), int(k), int(uv), pos[-1]])
                return res
            r.seek = seek
            cap['seeks'] = seeks
            return M.observe(r, 'wind')
        st4, o4 = _guard(rd, 4.0)
        obs['rd'] = dict(status=st4, view=o4 if st4 == 'ok' else None, err=o4 if st4 == 'raises' else None)
        obs['self'] = cap.get('self')
        obs['seeks'] = (cap.get('seeks') or [])[:80] if st4 == 'ok' else []
    finally:
        shutil.rmtree(d, ignore_errors=True)
    signal.setitimer(signal.ITIMER_REAL, 60.0)
    return obs


def w_term_read(case, obs):
    """Coq term `WC (WCase13 ...)` of Corr/C13.v"""
    c = case['content']
    mm, rd = obs['mm'], obs['rd']
    mv = M.coq_wview(c, mm['view'] if mm['status'] == 'ok' else None)[0]
    rv = M.coq_wview(c, rd['view'] if rd['status'] == 'ok' else None)[0]
    s = obs.get('self')
    ok = bool(s) and all(float(s[k]) == int(s[k]) for k in s) and rd['status'] == 'ok'
    z = lambda k: C.zc(int(s[k])) if ok else '0'  # noqa: E731
    selft = ('{| wr_start_date := %s; wr_start_time := %s; wr_time_step := %s; wr_nlayers := %s; wr_data_start_byte := %s; '
             'wr_padded_time_hdr_size := %s; wr_padded_size := %s |}') % (z('start_date'), z('start_time'), z('time_step') if ok else '1',
                                                                           z('nlayers') if ok else '1', z('data_start_byte'),
                                                                           z('padded_time_hdr_size'), z('padded_size'))
    seeks = '[' + '; '.join('(%s, %s, %s, %s, %s)' % tuple(C.zc(v) for v in x) for x in obs.get('seeks', [])) + ']'
    return '(WC (WCase13 %s %s %d %s %s %s %s %s %s %s))' % (
        M.coq_wind(c), C.zlist(M.encode(c)), {'ok': 0, 'raises': 1, 'timeout': 2}[mm['status']], mv,
        C.cbool(rd['status'] == 'ok'), rv, C.cbool(rd['status'] == 'timeout'), C.cbool(ok), selft, seeks)
