"""Regenerate /verif/MANIFEST.json from the per-property modules (harness/props/cXX.py)."""
import os, sys, json, importlib
sys.path.insert(0, os.path.dirname(os.path.dirname(os.path.abspath(__file__))))
VERIF = os.path.dirname(os.path.dirname(os.path.abspath(__file__)))
ids = [json.loads(l)['id'] for l in open(os.path.join(VERIF, 'properties.jsonl'))]
NA = json.load(open(os.path.join(VERIF, 'harness', 'not_applicable.json')))
READY = set(json.load(open(os.path.join(VERIF, 'harness', 'ready.json'))))
checks, na = [], []
for pid in ids:
    p = os.path.join(VERIF, 'harness', 'props', pid.lower() + '.py')
    if pid in NA or not os.path.exists(p) or pid not in READY:
        na.append(dict(property_id=pid, reason=NA.get(pid, 'check not built yet (work in progress); an executable model can express it, see DESIGN.md section 5')))
        continue
    m = importlib.import_module('harness.props.' + pid.lower())
    checks.append(dict(
        property_id=pid,
        quick_cmd='./check %s --tier quick' % pid,
        thorough_cmd='./check %s --tier thorough' % pid,
        evidence_file='/verif/evidence/%s.json' % pid,
        replay_cmd_template='./check %s --replay {path}' % pid,
        engine='rocq-model+correspondence',
        level_claimed=dict(category='proof', text=m.LEVEL_TEXT, design_ref='DESIGN.md section 5, ' + pid),
        level_note=m.LEVEL_NOTE,
        technique=getattr(m, 'TECHNIQUE', 'Coq theorems over a Gallina model + model/implementation correspondence (differential, vm_compute)')))
man = dict(
    version=1,
    setup_cmd='./setup.sh',
    hooks=dict(guard='PSEUDONETCDF_VERIF', enable='env PSEUDONETCDF_VERIF=1 PYTHONPATH=/repo/src (no instrumentation commits: everything is observed from outside)',
               baseline_off_cmd='cd /repo && /venv/bin/python -m pytest -ra -q -p no:cacheprovider --timeout=900 --continue-on-collection-errors',
               source_commits=json.load(open(os.path.join(VERIF, 'harness', 'source_commits.json'))), add_only=True),
    engines=[dict(name='rocq-model', path='/verif/coq', serves_properties=[c['property_id'] for c in checks],
                  kind_free_text='Coq 8.16.1 development: Base/ Model/ Proofs/ Props/ Corr/ (+ Gen/ regenerated from /repo by translate/py2coq.py)'),
             dict(name='py2coq', path='/verif/translate', serves_properties=[c['property_id'] for c in checks if getattr(importlib.import_module('harness.props.' + c['property_id'].lower()), 'translate', None)],
                  kind_free_text='fail-closed Python-ast -> Gallina translator for integer bookkeeping (tie T)'),
             dict(name='correspondence', path='/verif/harness', serves_properties=[c['property_id'] for c in checks],
                  kind_free_text='differential harness: implementation vs model (F) and vs spec (S); cases evaluated by vm_compute inside coqc')],
    checks=checks,
    notes='Entry point ./check Cxx --tier quick|thorough [--seed N] [--replay file]; known findings in /verif/known_findings.json; see DESIGN.md.',
    not_applicable=na)
json.dump(man, open(os.path.join(VERIF, 'MANIFEST.json'), 'w'), indent=1)
# merged, human-readable index of the per-property known-findings files (the checks read the per-property files)
idx = dict(note='GENERATED index of /verif/known_findings/*.json by harness/mkmanifest.py; the checks read the per-property files',
           fix_commits_in_repo=json.load(open(os.path.join(VERIF, 'harness', 'fix_commits.json'))), findings=[], fixed=[])
for pid in ids:
    q = os.path.join(VERIF, 'known_findings', pid + '.json')
    if os.path.exists(q):
        d = json.load(open(q))
        idx['findings'] += [dict(id=f['id'], property=pid, what=f['what']) for f in d.get('findings', [])]
        idx['fixed'] += d.get('fixed', [])
json.dump(idx, open(os.path.join(VERIF, 'known_findings.json'), 'w'), indent=1)
print('checks:', [c['property_id'] for c in checks], 'not_applicable:', [x['property_id'] for x in na])
