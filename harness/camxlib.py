"""Reference (specification-side) encoders for the CAMx binary formats, written from the CAMx User's Guide
record descriptions with struct only (no numpy dtypes, no library code), plus helpers to drive the library.
The byte strings produced here are checked word-for-word against the Coq `enc` of the same content in the
correspondence, so they ARE the reference encoder's output."""
import struct, os, tempfile, shutil
from harness import common as C


def words_of_bytes(b):
    assert len(b) % 4 == 0
    return list(struct.unpack('>%dI' % (len(b) // 4), b))


def bytes_of_words(ws):
    return struct.pack('>%dI' % len(ws), *ws)


def f32_word(x):
    return struct.unpack('>I', struct.pack('>f', x))[0]


def word_f32(w):
    return struct.unpack('>f', struct.pack('>I', w))[0]


def char_words(s, n):
    """n characters, each stored as 4 bytes 'c   ' (CAMx character*4 arrays)"""
    s = s.ljust(n)[:n]
    return [struct.unpack('>I', (ch + '   ').encode('ascii'))[0] for ch in s]


def rec(ws):
    n = 4 * len(ws)
    return [n] + list(ws) + [n]


def finite_word(rng):
    """random finite binary32 bit pattern incl. denormals, -0.0"""
    r = rng.random()
    if r < 0.05:
        return rng.choice([0x00000000, 0x80000000, 0x00000001, 0x807fffff, 0x7f7fffff, 0xff7fffff, 0x3f800000])
    w = rng.getrandbits(32)
    if (w >> 23) & 0xff == 0xff:
        w &= ~(1 << 30)
    return w


# ----------------------------------------------------------------------------- uamiv
def yyjjj_add_hours(date5, hour, nh):
    """(YYJJJ, hour) + nh hours with true calendar roll-over; date5 two-digit year"""
    import datetime
    yy, jjj = divmod(date5, 1000)
    year = 2000 + yy if yy < 70 else 1900 + yy
    t = datetime.datetime(year, 1, 1) + datetime.timedelta(days=jjj - 1, hours=hour + nh)
    return (t.year % 100) * 1000 + t.timetuple().tm_yday, t.hour


def gen_uamiv(rng, tier='quick', rollover=0.5):
    nspec = rng.randint(1, 3)
    nx, ny, nz = rng.randint(1, 3), rng.randint(1, 3), rng.randint(1, 3)
    nsteps = rng.randint(1, 3)
    name = rng.choice(['AVERAGE', 'AVERAGE', 'EMISSIONS', 'INSTANT', 'AIRQUALITY'])
    if name == 'EMISSIONS':
        nz = 1
    if name == 'AIRQUALITY':
        nsteps = 1
    names = []
    pool = ['O3', 'NO', 'NO2', 'CO', 'PAR', 'ISOP', 'FORM', 'ALD2', 'SO2', 'ABCDEFGHIJ', 'X1', 'PM_25']
    while len(names) < nspec:
        s = rng.choice(pool)
        if s not in names:
            names.append(s)
    mode = rng.random()
    if mode >= rollover:
        year = rng.randint(1970, 2069)
        jjj = rng.randint(1, 366 if year % 4 == 0 and year != 2100 else 365)
        hour = rng.randint(0, 23)
    else:  # roll-over biased
        year = rng.choice([1970, 1999, 2000, 2004, 2019, 2020, 2068, 2069, 1999, 1999])
        leap = year % 4 == 0
        jjj = rng.choice([1, 59, 60, 365, 366 if leap else 365, 366 if leap else 365])
        hour = rng.choice([0, 21, 22, 23])
    d0 = (year % 100) * 1000 + jjj
    steps = []
    for t in range(nsteps):
        bd, bh = yyjjj_add_hours(d0, hour, t)
        ed, eh = yyjjj_add_hours(d0, hour, t + (0 if name == 'AIRQUALITY' else 1))
        data = [[[finite_word(rng) for _ in range(nx * ny)] for _ in range(nz)] for _ in range(nspec)]
        steps.append(dict(bdate=bd, bhour=bh, edate=ed, ehour=eh, data=data))
    grid = dict(plon=rng.choice([0.0, -97.0, 10.5]), plat=rng.choice([0.0, 40.0, 90.0]), iutm=rng.choice([0, 15]),
                xorg=rng.choice([-1000.0, 0.0, 12000.0]), yorg=rng.choice([-500.0, 0.0, 4000.0]),
                delx=rng.choice([4000.0, 12000.0, 0.5]), dely=rng.choice([4000.0, 12000.0, 0.5]),
                iproj=rng.choice([0, 1, 2]), istag=rng.choice([0, 1]), tlat1=rng.choice([33.0, 0.0]),
                tlat2=rng.choice([45.0, 0.0]))
    return dict(fmt='uamiv', name=name, note='generated ' + str(rng.randint(0, 999)), itzon=rng.choice([0, 5, 6]),
                names=names, nx=nx, ny=ny, nz=nz, grid=grid, steps=steps)


def uamiv_struct(c):
    """the Coq-side content (all words): dict with the fields of Model.Uamiv.uamiv"""
    g = c['grid']
    s0, sl = c['steps'][0], c['steps'][-1]
    dates = [s0['bdate'], f32_word(float(s0['bhour'])), sl['edate'], f32_word(float(sl['ehour']))]
    gpre = [f32_word(g['plon']), f32_word(g['plat']), g['iutm'], f32_word(g['xorg']), f32_word(g['yorg']),
            f32_word(g['delx']), f32_word(g['dely'])]
    gpost = [g['iproj'], g['istag'], f32_word(g['tlat1']), f32_word(g['tlat2']), f32_word(0.0)]
    return dict(name=char_words(c['name'], 10), note=char_words(c['note'], 60), itzon=c['itzon'], dates=dates,
                gpre=gpre, nx=c['nx'], ny=c['ny'], nz=c.get('nz_header', c['nz']), gpost=gpost,
                spc=[char_words(n, 10) for n in c['names']],
                steps=[([s['bdate'], f32_word(float(s['bhour'])), s['edate'], f32_word(float(s['ehour']))], s['data'])
                       for s in c['steps']])


def uamiv_encode(c):
    """reference encoder: list of words of the whole file"""
    u = uamiv_struct(c)
    ws = []
    ws += rec(u['name'] + u['note'] + [u['itzon'], len(u['spc'])] + u['dates'])
    ws += rec(u['gpre'] + [u['nx'], u['ny'], u['nz']] + u['gpost'])
    ws += rec([1, 1, u['nx'], u['ny']])
    ws += rec([w for s in u['spc'] for w in s])
    for th, data in u['steps']:
        ws += rec(th)
        for nm, lays in zip(u['spc'], data):
            for lay in lays:
                ws += rec([1] + nm + lay)
    return ws


def coq_uamiv(c):
    u = uamiv_struct(c)
    steps = '[' + '; '.join('(%s, [%s])' % (C.zlist(th), '; '.join(C.zll(lays) for lays in data)) for th, data in u['steps']) + ']'
    return ('{| u_name := %s; u_note := %s; u_itzon := %s; u_dates := %s; u_gpre := %s; u_nx := %d; u_ny := %d; u_nz := %d; '
            'u_gpost := %s; u_spc := %s; u_steps := %s |}') % (
        C.zlist(u['name']), C.zlist(u['note']), C.zc(u['itzon']), C.zlist(u['dates']), C.zlist(u['gpre']),
        u['nx'], u['ny'], u['nz'], C.zlist(u['gpost']), C.zll(u['spc']), steps)


# ----------------------------------------------------------------------------- driving the library
def workdir():
    d = os.path.join(C.VERIF, '.work')
    os.makedirs(d, exist_ok=True)
    return tempfile.mkdtemp(dir=d, prefix='camx')


def observe_uamiv_file(f):
    """canonical observation of an opened uamiv-like file (Memmap or Read)"""
    import numpy as np
    out = {}
    out['dims'] = {k: len(v) for k, v in f.dimensions.items() if k in ('TSTEP', 'LAY', 'ROW', 'COL', 'VAR')}
    keys = [k for k in f.variables.keys() if k not in ('TFLAG', 'ETFLAG')]
    out['vars'] = keys
    data = {}
    for k in keys:
        v = np.asarray(f.variables[k][...], dtype='>f4')
        data[k] = v.view('>u4').astype('int64').tolist()
    out['data'] = data
    for tk in ('TFLAG', 'ETFLAG'):
        if tk in f.variables.keys():
            out[tk] = np.asarray(f.variables[tk][:, 0, :]).astype('int64').tolist()
    return out
