"""Tie T for C12 / C11: regenerate coq/Gen/Times.v from the integer date/time bookkeeping in /repo's
core/_files.py (getTimes), cmaqfiles/_ioapi.py (ioapi_base.sliceDimensions) and
conventions/ioapi/_ioapi.py (add_time_variable).

translate/py2coq.py (read-only) supplies the Z expression translator.  Forms it does not know are handled here,
fail-closed (anything unexpected raises Untranslatable = a broken translation obligation):
  * X.astype('i')                      an integer cast of an integer expression is the identity
  * a + (b + c / 60. + d / 3600.) / 24.  float expression with integral constants -> exact Q term (qx)
  * obj.ATTR = <expr>                  assignment to an attribute of a local object, located by attribute name and
                                       by a variable its right-hand side must mention
  * int(s[a:b])                        digit-string slices with constant bounds -> (option Z * option Z) constants
"""
import ast, os, re
from harness import common as C
from translate import py2coq as P

U = P.Untranslatable


def _zdef(coqname, node, params):
    cx = P.Ctx()
    term = P.expr(node, cx)
    free = sorted(set(re.findall(r'\bv_[A-Za-z_][A-Za-z0-9_]*', term)))
    for f in free:
        if f not in ['v_' + p for p in params]:
            raise U('free variable %s in %s not among declared parameters %s' % (f, coqname, params))
    ps = ' '.join('(v_%s : Z)' % p for p in params)
    return 'Definition %s %s : Z := %s.\n' % (coqname, ps, term)


def qx(node):
    """exact rational reading of a float expression whose constants are integral"""
    if isinstance(node, ast.BinOp):
        op = {ast.Add: '+', ast.Sub: '-', ast.Mult: '*', ast.Div: '/'}.get(type(node.op))
        if op is None:
            raise U('Q binop ' + type(node.op).__name__)
        return '(%s %s %s)' % (qx(node.left), op, qx(node.right))
    if isinstance(node, ast.Name):
        return '(inject_Z v_%s)' % node.id
    if isinstance(node, ast.Constant) and isinstance(node.value, (int, float)) and not isinstance(node.value, bool) \
            and node.value == int(node.value):
        return '(inject_Z %s)' % P.cz(int(node.value))
    raise U('Q expression ' + ast.dump(node)[:60])


def _qdef(coqname, node, params):
    term = qx(node)
    free = sorted(set(re.findall(r'\bv_[A-Za-z_][A-Za-z0-9_]*', term)))
    for f in free:
        if f not in ['v_' + p for p in params]:
            raise U('free variable %s in %s not among declared parameters %s' % (f, coqname, params))
    ps = ' '.join('(v_%s : Z)' % p for p in params)
    return 'Definition %s %s : Q := (%s)%%Q.\n' % (coqname, ps, term)


def _one(vals, what):
    if len(vals) != 1:
        raise U('%s: expected exactly one assignment, found %d' % (what, len(vals)))
    return vals[0]


def _strip_astype(node):
    if isinstance(node, ast.Call) and isinstance(node.func, ast.Attribute) and node.func.attr == 'astype' \
            and len(node.args) == 1 and isinstance(node.args[0], ast.Constant) and node.args[0].value in ('i', 'int', 'i4', 'i8'):
        return node.func.value
    raise U('expected <expr>.astype("i")')


def _attr_assign(fn, attr, mentions):
    """RHS of `<name>.<attr> = <expr>` inside fn whose RHS mentions the variable `mentions`"""
    out = []
    for n in ast.walk(fn):
        if isinstance(n, ast.Assign) and len(n.targets) == 1:
            t = n.targets[0]
            if isinstance(t, ast.Attribute) and t.attr == attr and isinstance(t.value, ast.Name):
                names = {x.id for x in ast.walk(n.value) if isinstance(x, ast.Name)}
                if mentions in names:
                    out.append(n.value)
    return _one(out, '%s assignment mentioning %s' % (attr, mentions))


def _const_index(node):
    if node is None:
        return 'None'
    if isinstance(node, ast.UnaryOp) and isinstance(node.op, ast.USub) and isinstance(node.operand, ast.Constant) \
            and isinstance(node.operand.value, int):
        return '(Some (%d))' % (-node.operand.value)
    if isinstance(node, ast.Constant) and isinstance(node.value, int) and not isinstance(node.value, bool):
        return '(Some %d)' % node.value
    raise U('slice bound is not an integer constant')


def _slice_of(node, var):
    """`var[a:b]` or `int(var[a:b])` -> Coq pair of optional bounds"""
    if isinstance(node, ast.Call) and isinstance(node.func, ast.Name) and node.func.id == 'int' and len(node.args) == 1:
        node = node.args[0]
    if not (isinstance(node, ast.Subscript) and isinstance(node.value, ast.Name) and node.value.id == var
            and isinstance(node.slice, ast.Slice) and node.slice.step is None):
        raise U('expected %s[a:b]' % var)
    return '(%s, %s)' % (_const_index(node.slice.lower), _const_index(node.slice.upper))


def _kwcall_arg(fn, func, kw, var):
    """argument `kw=` of the call func(kw=...) inside fn whose argument mentions var"""
    out = []
    for n in ast.walk(fn):
        if isinstance(n, ast.Call) and isinstance(n.func, ast.Name) and n.func.id == func:
            for k in n.keywords:
                if k.arg == kw and any(isinstance(x, ast.Name) and x.id == var for x in ast.walk(k.value)):
                    out.append(k.value)
    return _one(out, '%s(%s=...%s...)' % (func, kw, var))


def _format_pad(fn, target):
    """`target = '%0Nd' % <expr>` -> N"""
    vals = [n.value for n in ast.walk(fn) if isinstance(n, ast.Assign) and len(n.targets) == 1
            and isinstance(n.targets[0], ast.Name) and n.targets[0].id == target]
    v = _one(vals, target)
    if isinstance(v, ast.BinOp) and isinstance(v.op, ast.Mod) and isinstance(v.left, ast.Constant) and isinstance(v.left.value, str):
        m = re.fullmatch(r'%0(\d+)d', v.left.value)
        if m:
            return int(m.group(1))
    raise U('%s is not a zero-padded %%0Nd format' % target)


def _gen():
    files = M = P.Module(os.path.join(C.SRC, 'PseudoNetCDF', 'core', '_files.py'))
    gt = M.find('PseudoNetCDFFile.getTimes')
    out = [P.HEADER % 'core/_files.py getTimes, cmaqfiles/_ioapi.py sliceDimensions, conventions/ioapi/_ioapi.py add_time_variable']
    anchors = []

    def add(name, f):
        try:
            out.append(f())
            anchors.append(dict(anchor=name, ok=True, detail=''))
        except U as e:
            anchors.append(dict(anchor=name, ok=False, detail=str(e)))
        except Exception as e:  # noqa: anything unexpected is a broken obligation too
            anchors.append(dict(anchor=name, ok=False, detail='%s: %s' % (type(e).__name__, e)))

    # ---- getTimes, TFLAG branch
    add('getTimes:yyyys', lambda: _zdef('tf_yyyy', _strip_astype(_one(M.assignments('PseudoNetCDFFile.getTimes', 'yyyys'), 'yyyys')), ['dates']))
    add('getTimes:jjj', lambda: _zdef('tf_jjj', _one(M.assignments('PseudoNetCDFFile.getTimes', 'jjj'), 'jjj'), ['dates']))
    add('getTimes:hours', lambda: _zdef('tf_hours', _one(M.assignments('PseudoNetCDFFile.getTimes', 'hours'), 'hours'), ['times']))
    add('getTimes:minutes', lambda: _zdef('tf_minutes', _one(M.assignments('PseudoNetCDFFile.getTimes', 'minutes'), 'minutes'), ['times']))
    add('getTimes:seconds', lambda: _zdef('tf_seconds', _one(M.assignments('PseudoNetCDFFile.getTimes', 'seconds'), 'seconds'), ['times']))
    # `days` is also the divmod target of the 365/366-day branch: take the assignment that mentions jjj
    def days():
        vals = [v for v in M.assignments('PseudoNetCDFFile.getTimes', 'days')
                if any(isinstance(x, ast.Name) and x.id == 'jjj' for x in ast.walk(v))]
        return _qdef('tf_days', _one(vals, 'days (TFLAG)'), ['jjj', 'hours', 'minutes', 'seconds'])
    add('getTimes:days', days)
    add('getTimes:timedelta(days=day-1)', lambda: _zdef('tf_dayoffset', _kwcall_arg(gt, 'timedelta', 'days', 'day'), ['day']))
    add('getTimes:sh', lambda: _zdef('tb_sh', _one(M.assignments('PseudoNetCDFFile.getTimes', 'sh'), 'sh'), ['tstep']))
    add('getTimes:sm', lambda: _zdef('tb_sm', _one(M.assignments('PseudoNetCDFFile.getTimes', 'sm'), 'sm'), ['tstep']))
    add('getTimes:ss', lambda: _zdef('tb_ss', _one(M.assignments('PseudoNetCDFFile.getTimes', 'ss'), 'ss'), ['tstep']))
    add('getTimes:timedelta(seconds=sh+sm+ss)', lambda: _zdef('tb_seconds', _kwcall_arg(gt, 'timedelta', 'seconds', 'sh'), ['sh', 'sm', 'ss']))
    # ---- getTimes, 365/366-day branch
    add('getTimes:usday', lambda: _zdef('fx_usday', _one(M.assignments('PseudoNetCDFFile.getTimes', 'usday'), 'usday'), []))
    # ---- getTimes, SDATE/STIME/TSTEP branch: digit slices of tstepstr = '%06d' % TSTEP
    def sd():
        pad = _format_pad(gt, 'tstepstr')
        s = _slice_of(_kwcall_arg(gt, 'timedelta', 'seconds', 'tstepstr'), 'tstepstr')
        m = _slice_of(_kwcall_arg(gt, 'timedelta', 'minutes', 'tstepstr'), 'tstepstr')
        h = _slice_of(_kwcall_arg(gt, 'timedelta', 'hours', 'tstepstr'), 'tstepstr')
        return ('Definition sd_pad : Z := %d.\n'
                'Definition sd_slices : (option Z * option Z) * (option Z * option Z) * (option Z * option Z) :=\n'
                '  (%s, %s, %s).   (* hours, minutes, seconds *)\n' % (pad, h, m, s))
    add('getTimes:tstepstr slices', sd)

    # ---- ioapi_base.sliceDimensions: TSTEP attribute of the window
    def st():
        I = P.Module(os.path.join(C.SRC, 'PseudoNetCDF', 'cmaqfiles', '_ioapi.py'))
        fn = I.find('ioapi_base.sliceDimensions')
        return _zdef('slice_tstep', _attr_assign(fn, 'TSTEP', 'dtsec'), ['dtsec'])
    add('ioapi sliceDimensions:TSTEP', st)

    # ---- add_time_variable: step in seconds from '%06d' % TSTEP
    def tv():
        V = P.Module(os.path.join(C.SRC, 'PseudoNetCDF', 'conventions', 'ioapi', '_ioapi.py'))
        fn = V.find('add_time_variable')
        vals = [v for v in V.assignments('add_time_variable', 'tmpseconds')
                if any(isinstance(x, ast.Name) and x.id == 'htmp' for x in ast.walk(v))]
        txt = _zdef('tv_tmpseconds', _one(vals, 'tmpseconds'), ['htmp', 'mtmp', 'stmp'])
        pad = _format_pad(fn, 'tmp')
        sl = [_slice_of(_one(V.assignments('add_time_variable', k), k), 'tmp') for k in ('htmp', 'mtmp', 'stmp')]
        return txt + ('Definition tv_pad : Z := %d.\n'
                      'Definition tv_slices : (option Z * option Z) * (option Z * option Z) * (option Z * option Z) :=\n'
                      '  (%s, %s, %s).   (* hours, minutes, seconds *)\n' % (pad, sl[0], sl[1], sl[2]))
    add('add_time_variable:tmpseconds', tv)
    return ''.join(out), anchors


def translate():
    text, anchors = _gen()
    path = os.path.join(C.COQ, 'Gen', 'Times.v')
    if all(a['ok'] for a in anchors):
        P.write_if_changed(path, text)
    return anchors
