"""Verify a seeded change and run a property check against it.
  seedtool.py verify <mutdir> <PID>      -> checks patch applies, suite results unchanged, demo passes/fails; writes meta.json into /verif/seeded/<name>/
  seedtool.py detect <name> [--n N]      -> applies /verif/seeded/<name>/patch.diff to a scratch worktree and runs ./check PID with PNC_REPO
Scratch worktrees live under /tmp/seedwt_* and are removed afterwards."""
import os, sys, json, subprocess, shutil, re, time

VERIF = os.path.dirname(os.path.dirname(os.path.abspath(__file__)))
PY = '/venv/bin/python'


def sh(cmd, **kw):
    return subprocess.run(cmd, shell=True, stdout=subprocess.PIPE, stderr=subprocess.STDOUT, text=True, **kw)


def failed_set(tree):
    r = sh('cd %s && PYTHONPATH=%s/src timeout 1200 %s -m pytest -q -p no:cacheprovider --timeout=900 src/PseudoNetCDF/test 2>&1' % (tree, tree, PY))
    out = r.stdout
    failed = sorted(set(re.findall(r'^FAILED (\S+)', out, flags=re.M)))
    tail = out.strip().split('\n')[-1]
    sh('rm -f %s/src/PseudoNetCDF/testcase/camxfiles/*/test.*.check' % tree)
    return failed, tail


def worktree(name):
    d = '/tmp/seedwt_' + name
    sh('git -C /repo worktree remove --force %s' % d)
    shutil.rmtree(d, ignore_errors=True)
    r = sh('git -C /repo worktree add --detach %s HEAD' % d)
    assert os.path.isdir(d), r.stdout
    return d


def rm_worktree(d):
    sh('git -C /repo worktree remove --force %s' % d)
    shutil.rmtree(d, ignore_errors=True)


def verify(mutdir, pid):
    name = os.path.basename(mutdir.rstrip('/'))
    base_cache = os.path.join(VERIF, '.work', 'baseline_failed.json')
    os.makedirs(os.path.dirname(base_cache), exist_ok=True)
    head = sh('git -C /repo rev-parse HEAD').stdout.strip()
    wt = worktree(name)
    meta = dict(name=name, property=pid, repo_head=head)
    try:
        if os.path.exists(base_cache) and json.load(open(base_cache)).get('head') == head:
            base = json.load(open(base_cache))
        else:
            f, tail = failed_set(wt)
            base = dict(head=head, failed=f, tail=tail)
            json.dump(base, open(base_cache, 'w'))
        demo = os.path.join(mutdir, 'demo.py')
        r0 = sh('cd %s && PYTHONPATH=%s/src timeout 300 %s -W ignore %s' % (mutdir, wt, PY, demo))
        meta['demo_unchanged_exit'] = r0.returncode
        a = sh('git -C %s apply %s' % (wt, os.path.join(mutdir, 'patch.diff')))
        meta['applies'] = (a.returncode == 0)
        if a.returncode != 0:
            meta['apply_error'] = a.stdout[-500:]
        else:
            f, tail = failed_set(wt)
            meta['suite_tail'] = tail
            meta['suite_same_failed_set'] = (f == base['failed'])
            meta['suite_diff'] = sorted(set(f) ^ set(base['failed']))
            r1 = sh('cd %s && PYTHONPATH=%s/src timeout 300 %s -W ignore %s' % (mutdir, wt, PY, demo))
            meta['demo_mutated_exit'] = r1.returncode
            meta['demo_mutated_tail'] = r1.stdout[-600:]
        meta['confirmed'] = bool(meta.get('applies') and meta.get('suite_same_failed_set') and
                                 meta['demo_unchanged_exit'] == 0 and meta.get('demo_mutated_exit', 0) != 0)
    finally:
        rm_worktree(wt)
    if meta['confirmed']:
        dst = os.path.join(VERIF, 'seeded', name)
        os.makedirs(dst, exist_ok=True)
        for fn in os.listdir(mutdir):
            if os.path.isfile(os.path.join(mutdir, fn)):
                shutil.copy(os.path.join(mutdir, fn), os.path.join(dst, fn))
        notes = ''
        if os.path.exists(os.path.join(mutdir, 'notes.md')):
            notes = open(os.path.join(mutdir, 'notes.md')).read()
        m = dict(breaks_property=pid, needs_to_manifest=notes[:1500],
                 ran=['git worktree add; git apply patch.diff',
                      'pytest src/PseudoNetCDF/test: %s; FAILED set identical to unchanged tree: %s' % (meta.get('suite_tail'), meta.get('suite_same_failed_set')),
                      'demo.py on unchanged tree: exit %s; on changed tree: exit %s' % (meta['demo_unchanged_exit'], meta.get('demo_mutated_exit'))],
                 demo_output_on_changed_tree=meta.get('demo_mutated_tail', ''), repo_head=head, detection={})
        json.dump(m, open(os.path.join(dst, 'meta.json'), 'w'), indent=1)
    print(json.dumps(meta, indent=1))
    return meta


def detect(name, extra):
    dst = os.path.join(VERIF, 'seeded', name)
    meta = json.load(open(os.path.join(dst, 'meta.json')))
    pid = meta['breaks_property']
    wt = worktree(name)
    try:
        a = sh('git -C %s apply %s' % (wt, os.path.join(dst, 'patch.diff')))
        assert a.returncode == 0, a.stdout
        t0 = time.time()
        r = sh('cd %s && PNC_REPO=%s timeout 3000 ./check %s %s' % (VERIF, wt, pid, ' '.join(extra)))
        out = r.stdout
        viol = [l for l in out.split('\n') if l.startswith('VIOLATION')]
        meta['detection'] = dict(check=pid, args=extra, exit=r.returncode, violation_lines=viol,
                                 summary=out.strip().split('\n')[-1][:300], wall_s=round(time.time() - t0, 1))
        if viol:
            m = re.search(r'replay=(\S+)', viol[0])
            if m and os.path.exists(m.group(1)):
                rp = json.load(open(m.group(1)))
                meta['detection']['replay_kind'] = rp.get('kind')
                meta['detection']['replay_why'] = str(rp.get('why', rp.get('broken')))[:400]
    finally:
        rm_worktree(wt)
        # regenerate Gen files from the real repo
        sh('cd %s && PYTHONPATH=/repo/src %s -B harness/translate_all.py' % (VERIF, PY))
    json.dump(meta, open(os.path.join(dst, 'meta.json'), 'w'), indent=1)
    print(name, json.dumps(meta['detection'], indent=1))


if __name__ == '__main__':
    if sys.argv[1] == 'verify':
        verify(sys.argv[2], sys.argv[3])
    else:
        detect(sys.argv[2], sys.argv[3:])
