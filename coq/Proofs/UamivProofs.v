(* Proofs about Model/Uamiv.v: spec codec round trip, the memmap reader model refines the spec
   on whole files and on every byte prefix, date conversion, record-position arithmetic. *)
From PNC Require Import Base.Util Base.Words Proofs.WordsProofs Gen.Camx Model.Uamiv.
From Coq Require Import String QArith Qround ZifyBool.
Import Coq.Lists.List. Import ListNotations.
Local Open Scope Z_scope.

(* ---- translated layout constants (tie T): these equalities are re-checked against the source
        on every run; a changed dtype literal or block expression breaks them ---------------- *)
Lemma layout_memmap :
  dtype_itemsize um_emiss_hdr_fmt = 312 /\ dtype_itemsize um_grid_hdr_fmt = 68 /\
  dtype_itemsize um_cell_hdr_fmt = 24 /\ dtype_itemsize um_spc_fmt = 40 /\
  dtype_itemsize um_time_hdr_fmt = 24 /\ dtype_itemsize um_date_time_fmt = 24 /\
  woff um_emiss_hdr_fmt "nspec" = 72 /\ woff um_grid_hdr_fmt "nx" = 8 /\
  woff um_grid_hdr_fmt "ny" = 9 /\ woff um_grid_hdr_fmt "nz" = 10 /\
  woff um_date_time_fmt "BDATE" = 1 /\ um_date_time_block_size = 6.
Proof. vm_compute. repeat split; reflexivity. Qed.

Lemma layout_writer_mirrors_reader :
  map (fun f => (snd (fst f), snd f)) uw_emiss_hdr_fmt = map (fun f => (snd (fst f), snd f)) um_emiss_hdr_fmt /\
  map (fun f => (snd (fst f), snd f)) uw_grid_hdr_fmt = map (fun f => (snd (fst f), snd f)) um_grid_hdr_fmt /\
  map (fun f => (snd (fst f), snd f)) uw_cell_hdr_fmt = map (fun f => (snd (fst f), snd f)) um_cell_hdr_fmt /\
  map (fun f => (snd (fst f), snd f)) uw_time_hdr_fmt = map (fun f => (snd (fst f), snd f)) um_time_hdr_fmt /\
  uw_spc_fmt = um_spc_fmt /\ uw_time_pad = dtype_itemsize uw_time_hdr_fmt - 8.
Proof. vm_compute. repeat split; reflexivity. Qed.

Lemma lay_layout nx ny :
  woff (um_spc_1_lay_fmt ny nx) "DATA" = 12 /\
  dtype_itemsize (um_spc_1_lay_fmt ny nx) = 4 * um_spc_1_lay_block_size nx ny /\
  uw_buf (nx * ny) = 4 * um_spc_1_lay_block_size nx ny - 8.
Proof.
  unfold woff, um_spc_1_lay_block_size, uw_buf.
  cbv - [Z.mul Z.add Z.div Z.sub].
  split; [reflexivity|]. lia.
Qed.

(* ---- small list facts ---------------------------------------------------------------- *)
Lemma len_is_eq {A} n (l : list A) : len_is n l = true -> Z.of_nat (length l) = n.
Proof. unfold len_is. lia. Qed.

Lemma firstn_app_len {A} n (a b : list A) : length a = n -> firstn n (a ++ b) = a.
Proof. intros <-. apply firstn_app_exact. Qed.
Lemma skipn_app_len {A} n (a b : list A) : length a = n -> skipn n (a ++ b) = b.
Proof. intros <-. apply skipn_app_exact. Qed.

Lemma getw_cons x ws i : 0 < i -> getw (x :: ws) i = getw ws (i - 1).
Proof. intros H. unfold getw. replace (Z.to_nat i) with (S (Z.to_nat (i - 1))) by lia. reflexivity. Qed.
Lemma getw_0 x ws : getw (x :: ws) 0 = x.
Proof. reflexivity. Qed.
Lemma getw_app_r a b i : Z.of_nat (length a) <= i -> getw (a ++ b) i = getw b (i - Z.of_nat (length a)).
Proof.
  intros H. unfold getw. rewrite app_nth2 by lia. f_equal. lia.
Qed.
Lemma getw_app_l a b i : 0 <= i < Z.of_nat (length a) -> getw (a ++ b) i = getw a i.
Proof. intros H. unfold getw. apply app_nth1. lia. Qed.

(* ---- spec codec: of_records (to_records u) = Some u ---------------------------------- *)
Lemma take_lays_ok nm lays rest : length nm = 10%nat ->
  take_lays (length lays) nm (spc_records nm lays ++ rest) = Some (lays, rest).
Proof.
  intros Hn. induction lays as [|l ls IH]; cbn [length take_lays spc_records map app]; [reflexivity|].
  unfold lay_record at 1. rewrite Z.eqb_refl. cbn [andb].
  rewrite firstn_app_len by exact Hn.
  assert (E : zlist_eqb nm nm = true) by (apply list_eqb_eq; [apply Z.eqb_eq|reflexivity]).
  rewrite E. fold (spc_records nm ls). rewrite IH. rewrite skipn_app_len by exact Hn. reflexivity.
Qed.

Lemma take_spcs_ok nz : forall spc (ss : list (list (list word))) rest,
  length spc = length ss ->
  Forall (fun nm => length nm = 10%nat) spc -> Forall (fun lays => length lays = nz) ss ->
  take_spcs nz spc (concat (map (fun p => spc_records (fst p) (snd p)) (combine spc ss)) ++ rest)
  = Some (ss, rest).
Proof.
  induction spc as [|nm spc IH]; intros ss rest Hl Hn Hz.
  - destruct ss; [reflexivity|discriminate].
  - destruct ss as [|lays ss]; [discriminate|].
    inversion Hn as [|? ? Hn1 Hn2]; inversion Hz as [|? ? Hz1 Hz2]; subst.
    cbn [combine map concat fst snd take_spcs]. rewrite <- app_assoc.
    rewrite take_lays_ok by exact Hn1. rewrite IH; [reflexivity|cbn in Hl; lia|exact Hn2|exact Hz2].
Qed.

Lemma take_steps_ok nz spc : Forall (fun nm => length nm = 10%nat) spc ->
  forall (sts : list (list word * list (list (list word)))) fuel,
  Forall (fun st => length spc = length (snd st) /\ Forall (fun lays => length lays = nz) (snd st)) sts ->
  (length sts < fuel)%nat ->
  take_steps fuel nz spc (concat (map (step_records spc) sts)) = Some sts.
Proof.
  intros Hn sts; induction sts as [|st sts IH]; intros fuel Hall Hf.
  - destruct fuel; reflexivity.
  - destruct fuel as [|f]; [inversion Hf|].
    inversion Hall as [|? ? [H1 H2] Hrest]; subst.
    cbn [map concat]. unfold step_records at 1. cbn [app take_steps].
    rewrite take_spcs_ok by assumption.
    rewrite IH; [destruct st; reflexivity|exact Hrest|cbn [length] in Hf; lia].
Qed.

Lemma forallb_Forall {A} (f : A -> bool) (P : A -> Prop) l :
  (forall x, f x = true -> P x) -> forallb f l = true -> Forall P l.
Proof.
  intros H Hf. rewrite forallb_forall in Hf. apply Forall_forall. intros x Hx. apply H, Hf, Hx.
Qed.

Section WF.
Variable u : uamiv.
Hypothesis Hwf : wf u = true.

Lemma wf_parts :
  length (u_name u) = 10%nat /\ length (u_note u) = 60%nat /\ length (u_dates u) = 4%nat /\
  length (u_gpre u) = 7%nat /\ length (u_gpost u) = 5%nat /\ 0 < u_nx u /\ 0 < u_ny u /\ 0 < u_nz u /\
  0 < nspec u /\ Forall (fun nm => length nm = 10%nat) (u_spc u) /\
  Forall (fun st => length (fst st) = 4%nat /\ length (u_spc u) = length (snd st) /\
            Forall (fun lays => length lays = Z.to_nat (u_nz u) /\
                       Forall (fun lay => length lay = Z.to_nat (u_nx u * u_ny u)) lays) (snd st)) (u_steps u).
Proof.
  pose proof Hwf as W. unfold wf in W.
  repeat (apply andb_true_iff in W; destruct W as [W ?]).
  repeat match goal with H : len_is _ _ = true |- _ => apply len_is_eq in H end.
  assert (Hspc : Forall (fun nm => length nm = 10%nat) (u_spc u)).
  { eapply forallb_Forall; [|eassumption]. intros x Hx. apply len_is_eq in Hx. lia. }
  assert (Hst : Forall (fun st => length (fst st) = 4%nat /\ length (u_spc u) = length (snd st) /\
            Forall (fun lays => length lays = Z.to_nat (u_nz u) /\
                       Forall (fun lay => length lay = Z.to_nat (u_nx u * u_ny u)) lays) (snd st)) (u_steps u)).
  { eapply forallb_Forall; [|eassumption]. intros st Hst. unfold wf_step in Hst.
    apply andb_true_iff in Hst as [Hst Hq3]. apply andb_true_iff in Hst as [Hq1 Hq2].
    apply len_is_eq in Hq1. apply len_is_eq in Hq2. unfold nspec in Hq2.
    split; [lia|]. split; [lia|].
    eapply forallb_Forall; [|exact Hq3]. intros lays Hl.
    apply andb_true_iff in Hl as [Hl1 Hl2]. apply len_is_eq in Hl1. split; [lia|].
    eapply forallb_Forall; [|exact Hl2]. intros lay Hlay. apply len_is_eq in Hlay. lia. }
  repeat (split; [lia|]). split; [exact Hspc|exact Hst].
Qed.

Lemma of_to_records : of_records (to_records u) = Some u.
Proof.
  destruct wf_parts as (Hname & Hnote & Hdates & Hgpre & Hgpost & Hnx & Hny & Hnz & Hns & Hspc & Hsteps).
  unfold to_records, header_records. cbn [app]. unfold of_records.
  rewrite (firstn_app_len 10) by exact Hname.
  rewrite (skipn_app_len 10) by exact Hname.
  rewrite (firstn_app_len 60) by exact Hnote.
  assert (E70 : forall d x y z, nth 70 (u_name u ++ u_note u ++ x :: y :: z) d = x).
  { intros. rewrite app_nth2 by lia. rewrite Hname. rewrite app_nth2 by lia. rewrite Hnote. reflexivity. }
  assert (E71 : forall d x y z, nth 71 (u_name u ++ u_note u ++ x :: y :: z) d = y).
  { intros. rewrite app_nth2 by lia. rewrite Hname. rewrite app_nth2 by lia. rewrite Hnote. reflexivity. }
  rewrite E70, E71.
  assert (E72 : forall x y z, skipn 72 (u_name u ++ u_note u ++ x :: y :: z) = z).
  { intros. replace 72%nat with (length (u_name u) + 62)%nat by lia. rewrite skipn_app.
    rewrite skipn_all2 by lia. cbn [app]. replace (length (u_name u) + 62 - length (u_name u))%nat with 62%nat by lia.
    replace 62%nat with (length (u_note u) + 2)%nat by lia. rewrite skipn_app, skipn_all2 by lia. cbn [app].
    replace (length (u_note u) + 2 - length (u_note u))%nat with 2%nat by lia. reflexivity. }
  rewrite E72.
  rewrite (firstn_app_len 7) by exact Hgpre.
  assert (G7 : forall d x y z w, nth 7 (u_gpre u ++ x :: y :: z :: w) d = x)
    by (intros; rewrite app_nth2 by lia; rewrite Hgpre; reflexivity).
  assert (G8 : forall d x y z w, nth 8 (u_gpre u ++ x :: y :: z :: w) d = y)
    by (intros; rewrite app_nth2 by lia; rewrite Hgpre; reflexivity).
  assert (G9 : forall d x y z w, nth 9 (u_gpre u ++ x :: y :: z :: w) d = z)
    by (intros; rewrite app_nth2 by lia; rewrite Hgpre; reflexivity).
  rewrite G7, G8, G9.
  assert (G10 : forall x y z w, skipn 10 (u_gpre u ++ x :: y :: z :: w) = w).
  { intros. replace 10%nat with (length (u_gpre u) + 3)%nat by lia. rewrite skipn_app, skipn_all2 by lia.
    cbn [app]. replace (length (u_gpre u) + 3 - length (u_gpre u))%nat with 3%nat by lia. reflexivity. }
  rewrite G10.
  rewrite chunks_concat; [|lia|exact Hspc].
  assert (E3 : zlist_eqb [1; 1; u_nx u; u_ny u] [1; 1; u_nx u; u_ny u] = true)
    by (apply list_eqb_eq; [apply Z.eqb_eq|reflexivity]).
  match goal with |- (if ?c then _ else _) = _ => replace c with true end.
  2: { symmetry. rewrite E3. rewrite !app_length. cbn [length]. unfold nspec.
       rewrite Hname, Hnote, Hdates, Hgpre, Hgpost. cbn. rewrite Z.eqb_refl. lia. }
  rewrite take_steps_ok.
  - destruct u; reflexivity.
  - exact Hspc.
  - eapply Forall_impl; [|exact Hsteps]. intros st (_ & H1 & H2). split; [exact H1|].
    eapply Forall_impl; [|exact H2]. intros lays [H3 _]. exact H3.
  - assert (Hle : (length (u_steps u) <= length (concat (map (step_records (u_spc u)) (u_steps u))))%nat).
    { generalize (u_steps u). intros l. induction l as [|a l IH]; cbn [map concat length]; [lia|].
      rewrite app_length. unfold step_records at 1. cbn [length]. lia. }
    lia.
Qed.

Lemma dec_enc : dec (enc u) = Some u.
Proof. unfold dec, enc. rewrite unframe_all_frame. apply of_to_records. Qed.

End WF.

(* ======================================================================================
   The memory-mapped reader model on spec-encoded files
   ====================================================================================== *)

Lemma frame_concat_map {A} (f : A -> list (list Z)) l :
  frame (concat (map f l)) = concat (map (fun x => frame (f x)) l).
Proof.
  induction l as [|x l IH]; cbn [map concat]; [reflexivity|]. rewrite frame_app, IH. reflexivity.
Qed.

Definition hdr_list (u : uamiv) : list Z := frame (header_records u).
Definition blk_words (u : uamiv) (st : list Z * list (list (list Z))) : list Z :=
  frame (step_records (u_spc u) st).
Definition data_words (u : uamiv) : list Z := concat (map (blk_words u) (u_steps u)).

Lemma enc_split u : enc u = hdr_list u ++ data_words u.
Proof. unfold enc, to_records. rewrite frame_app, frame_concat_map. reflexivity. Qed.

Lemma ntimes_of_spec size off blk : 0 < blk ->
  ntimes_of size off blk =
  if (size - off) mod (4 * blk) =? 0 then Some ((size - off) / (4 * blk)) else None.
Proof.
  intros Hb. unfold ntimes_of, um_ntimes.
  destruct blk as [|p|p]; try lia.
  set (a := size - off).
  assert (Eq : (inject_Z a / inject_Z 4 / inject_Z (Z.pos p))%Q = (a * 1 * 1 # (1 * 4 * p))%Q) by reflexivity.
  rewrite Eq. unfold Qfloor, Qeq_bool, inject_Z. cbn [Qnum Qden].
  replace (Z.pos (1 * 4 * p)) with (4 * Z.pos p) by lia.
  replace (a * 1 * 1) with a by lia.
  unfold Zeq_bool. destruct (a mod (4 * Z.pos p) =? 0) eqn:Hm.
  - assert (E : a * 1 = a / (4 * Z.pos p) * (4 * Z.pos p)).
    { rewrite Z.mul_1_r. apply Z.eqb_eq in Hm. rewrite (Z.div_mod a (4 * Z.pos p)) at 1 by lia. lia. }
    replace (Z.pos 1) with 1 by reflexivity. rewrite E, Z.compare_refl. reflexivity.
  - assert (E : a * 1 <> a / (4 * Z.pos p) * (4 * Z.pos p)).
    { rewrite Z.mul_1_r. apply Z.eqb_neq in Hm. intro E. apply Hm.
      rewrite E at 1. apply Z.mod_mul. lia. }
    replace (Z.pos 1) with 1 by reflexivity.
    destruct (a * 1 ?= a / (4 * Z.pos p) * (4 * Z.pos p)) eqn:Hc; try reflexivity.
    apply Z.compare_eq in Hc. contradiction.
Qed.

Lemma In_firstn_in {A} (x : A) : forall n l, In x (firstn n l) -> In x l.
Proof.
  induction n as [|n IH]; intros [|y l] H; cbn [firstn] in H; try contradiction.
  destruct H as [->|H]; [left; reflexivity|right; apply IH, H].
Qed.

Lemma map_firstn {A B} (f : A -> B) : forall n l, map f (firstn n l) = firstn n (map f l).
Proof. induction n as [|n IH]; intros [|x l]; cbn [firstn map]; try reflexivity. now rewrite IH. Qed.

Section Reader.
Variable u : uamiv.
Hypothesis Hwf : wf u = true.

Let P := wf_parts u Hwf.

Lemma nspec_pos : 0 < nspec u. Proof. destruct P as (_&_&_&_&_&_&_&_&H&_). exact H. Qed.

Lemma hdr_list_shape : exists h1 h2 h3 h4,
  hdr_list u = h1 ++ h2 ++ h3 ++ h4 /\
  h1 = 304 :: u_name u ++ u_note u ++ u_itzon u :: nspec u :: u_dates u ++ [304] /\
  h2 = 60 :: u_gpre u ++ u_nx u :: u_ny u :: u_nz u :: u_gpost u ++ [60] /\
  h3 = [16; 1; 1; u_nx u; u_ny u; 16] /\
  h4 = 40 * nspec u :: concat (u_spc u) ++ [40 * nspec u] /\
  length h1 = 78%nat /\ length h2 = 17%nat /\ length h3 = 6%nat /\
  Z.of_nat (length h4) = 2 + 10 * nspec u.
Proof.
  destruct P as (Hname & Hnote & Hdates & Hgpre & Hgpost & Hnx & Hny & Hnz & Hns & Hspc & Hsteps).
  assert (Lspc : length (concat (u_spc u)) = (length (u_spc u) * 10)%nat)
    by (apply concat_uniform_length; exact Hspc).
  exists (304 :: u_name u ++ u_note u ++ u_itzon u :: nspec u :: u_dates u ++ [304]),
         (60 :: u_gpre u ++ u_nx u :: u_ny u :: u_nz u :: u_gpost u ++ [60]),
         [16; 1; 1; u_nx u; u_ny u; 16], (40 * nspec u :: concat (u_spc u) ++ [40 * nspec u]).
  split; [|split; [reflexivity|split; [reflexivity|split; [reflexivity|split; [reflexivity|]]]]].
  - unfold hdr_list, header_records, frame. cbn [map concat]. unfold frame1, marker.
    rewrite !app_length. cbn [length]. rewrite Hname, Hnote, Hdates, Hgpre, Hgpost, Lspc.
    rewrite app_nil_r.
    change (4 * Z.of_nat (10 + (60 + (2 + 4)))) with 304.
    change (4 * Z.of_nat (7 + (3 + 5))) with 60.
    change (4 * Z.of_nat 4) with 16.
    replace (4 * Z.of_nat (length (u_spc u) * 10)) with (40 * nspec u) by (unfold nspec; lia).
    repeat (rewrite <- app_assoc; cbn [app]). reflexivity.
  - repeat split; rewrite ?app_length; cbn [length]; rewrite ?app_length; cbn [length];
      rewrite ?app_length; cbn [length]; unfold nspec; lia.
Qed.

Lemma hdr_list_length : Z.of_nat (length (hdr_list u)) = hdr_words u.
Proof.
  destruct hdr_list_shape as (h1&h2&h3&h4&E&_&_&_&_&L1&L2&L3&L4).
  rewrite E, !app_length, L1, L2, L3. unfold hdr_words. lia.
Qed.

(* header fields at the translated offsets *)
Lemma header_reads rest :
  let ws := hdr_list u ++ rest in
  getw ws 72 = nspec u /\ getw ws 86 = u_nx u /\ getw ws 87 = u_ny u /\ getw ws 88 = u_nz u /\
  chunks 10 (firstn (Z.to_nat (nspec u * 10)) (skipn 102 ws)) = Some (u_spc u).
Proof.
  destruct P as (Hname & Hnote & Hdates & Hgpre & Hgpost & Hnx & Hny & Hnz & Hns & Hspc & Hsteps).
  destruct hdr_list_shape as (h1&h2&h3&h4&E&E1&E2&E3&E4&L1&L2&L3&L4).
  cbn zeta. rewrite E, <- !app_assoc.
  assert (R1 : forall X, getw (h1 ++ X) 72 = nspec u).
  { intros X. rewrite getw_app_l by lia. subst h1.
    rewrite getw_cons by lia. rewrite getw_app_r by lia. rewrite Hname.
    rewrite getw_app_r by lia. rewrite Hnote. reflexivity. }
  assert (R2 : forall X k, 0 <= k < 17 -> getw (h1 ++ h2 ++ X) (78 + k) = getw h2 k).
  { intros X k Hk. rewrite getw_app_r by lia. rewrite L1. rewrite getw_app_l by lia. f_equal. lia. }
  assert (G : forall k x y z, 0 <= k < 3 ->
     getw (60 :: u_gpre u ++ x :: y :: z :: u_gpost u ++ [60]) (8 + k) = nth (Z.to_nat k) [x; y; z] 0).
  { intros k x y z Hk. rewrite getw_cons by lia. rewrite getw_app_r by lia. rewrite Hgpre.
    unfold getw. replace (Z.to_nat (8 + k - 1 - Z.of_nat 7)) with (Z.to_nat k) by lia.
    destruct (Z.to_nat k) as [|[|[|n]]] eqn:Ek; try reflexivity. lia. }
  split; [apply R1|]. split.
  { change 86 with (78 + 8). rewrite R2 by lia. rewrite E2. apply (G 0); lia. }
  split.
  { change 87 with (78 + 9). rewrite R2 by lia. rewrite E2. change 9 with (8 + 1). apply (G 1); lia. }
  split.
  { change 88 with (78 + 10). rewrite R2 by lia. rewrite E2. change 10 with (8 + 2). apply (G 2); lia. }
  rewrite !app_assoc. rewrite <- (app_assoc _ h4 rest).
  replace 102%nat with (length ((h1 ++ h2) ++ h3) + 1)%nat by (rewrite !app_length; lia).
  rewrite skipn_app, skipn_all2 by lia. cbn [app].
  replace (length ((h1 ++ h2) ++ h3) + 1 - length ((h1 ++ h2) ++ h3))%nat with 1%nat by lia.
  subst h4. cbn [app skipn].
  assert (Lspc : length (concat (u_spc u)) = (length (u_spc u) * 10)%nat)
    by (apply concat_uniform_length; exact Hspc).
  rewrite <- app_assoc.
  rewrite firstn_app_len by (unfold nspec; lia).
  apply chunks_concat; [lia|exact Hspc].
Qed.

Lemma skip_hdr rest : skipn (Z.to_nat (hdr_words u)) (hdr_list u ++ rest) = rest.
Proof. apply skipn_app_len. pose proof hdr_list_length. lia. Qed.

(* one block of a step *)
Lemma lay_frame_length nm lay : length nm = 10%nat -> length lay = Z.to_nat (u_nx u * u_ny u) ->
  length (frame1 (lay_record nm lay)) = Z.to_nat (13 + u_nx u * u_ny u).
Proof.
  intros Hn Hl. unfold frame1, lay_record. cbn [length]. rewrite !app_length. cbn [length].
  rewrite app_length, Hn, Hl.
  destruct P as (_&_&_&_&_&Hnx&Hny&_). nia.
Qed.

Lemma lay_frame_data nm lay : length nm = 10%nat -> length lay = Z.to_nat (u_nx u * u_ny u) ->
  firstn (Z.to_nat (u_nx u * u_ny u)) (skipn 12 (frame1 (lay_record nm lay))) = lay.
Proof.
  intros Hn Hl. unfold frame1, lay_record. cbn [app]. do 2 rewrite skipn_cons.
  rewrite <- app_assoc. rewrite (skipn_app_len 10) by exact Hn.
  apply firstn_app_len. exact Hl.
Qed.

Lemma group_concat n : forall (ss : list (list (list Z))),
  Forall (fun lays => length lays = n) ss -> group (length ss) n (concat ss) = ss.
Proof.
  induction ss as [|s ss IH]; intros H; cbn [length group concat]; [reflexivity|].
  inversion H as [|? ? H1 H2]; subst.
  rewrite firstn_app_exact, skipn_app_exact, IH by exact H2. reflexivity.
Qed.

Definition st_ok (st : list Z * list (list (list Z))) : Prop :=
  length (fst st) = 4%nat /\ length (u_spc u) = length (snd st) /\
  Forall (fun lays => length lays = Z.to_nat (u_nz u) /\
             Forall (fun lay => length lay = Z.to_nat (u_nx u * u_ny u)) lays) (snd st).

Lemma spc_recs_frames : forall spc (ss : list (list (list Z))),
  length spc = length ss -> Forall (fun nm => length nm = 10%nat) spc ->
  Forall (fun lays => length lays = Z.to_nat (u_nz u) /\
             Forall (fun lay => length lay = Z.to_nat (u_nx u * u_ny u)) lays) ss ->
  let recs := concat (map (fun p => spc_records (fst p) (snd p)) (combine spc ss)) in
  Forall (fun b => length b = Z.to_nat (13 + u_nx u * u_ny u)) (map frame1 recs) /\
  map (fun r => firstn (Z.to_nat (u_nx u * u_ny u)) (skipn 12 r)) (map frame1 recs) = concat ss.
Proof.
  induction spc as [|nm spc IH]; intros ss Hl Hn Hs; cbn zeta.
  - destruct ss; [|discriminate]. cbn. split; [constructor|reflexivity].
  - destruct ss as [|lays ss]; [discriminate|].
    inversion Hn as [|? ? Hn1 Hn2]; inversion Hs as [|? ? [Hz Hlay] Hs2]; subst.
    cbn [combine map concat fst snd]. rewrite !map_app.
    destruct (IH ss) as [IH1 IH2]; [cbn in Hl; lia|exact Hn2|exact Hs2|].
    split.
    + apply Forall_app. split; [|exact IH1].
      unfold spc_records. rewrite map_map. apply Forall_forall. intros b Hb.
      apply in_map_iff in Hb as (lay & <- & Hin).
      apply lay_frame_length; [exact Hn1|]. rewrite Forall_forall in Hlay. apply Hlay, Hin.
    + rewrite IH2. f_equal. unfold spc_records. rewrite !map_map.
      clear - Hlay Hn1 P. induction Hlay as [|lay ls Hl1 _ IH]; cbn [map]; [reflexivity|].
      rewrite lay_frame_data by assumption. f_equal. exact IH.
Qed.

Lemma blk_length st : st_ok st -> Z.of_nat (length (blk_words u st)) = step_words u.
Proof.
  intros (H4 & Hl & Hs).
  destruct P as (_&_&_&_&_&Hnx&Hny&Hnz&Hns&Hspc&_).
  destruct (spc_recs_frames (u_spc u) (snd st) Hl Hspc Hs) as [F1 _]. cbn zeta in F1.
  unfold blk_words, step_records, frame. cbn [map concat]. rewrite app_length.
  unfold frame1 at 1. cbn [length]. rewrite app_length, H4. cbn [length].
  rewrite (concat_uniform_length _ _ F1), map_length.
  assert (Lr : length (concat (map (fun p => spc_records (fst p) (snd p)) (combine (u_spc u) (snd st))))
               = (length (u_spc u) * Z.to_nat (u_nz u))%nat).
  { clear F1. revert Hl Hs. generalize (snd st). generalize (u_spc u).
    induction l as [|nm l IH]; intros [|lays ss] Hl Hs; try discriminate; [reflexivity|].
    inversion Hs as [|? ? [Hz _] Hs2]; subst. cbn [combine map concat fst snd length].
    rewrite app_length. unfold spc_records at 1. rewrite map_length, Hz.
    rewrite IH; [lia|cbn in Hl; lia|exact Hs2]. }
  rewrite Lr. unfold step_words, nspec. nia.
Qed.

Lemma split_block_ok st : st_ok st ->
  split_block (nspec u) (u_nz u) (u_nx u) (u_ny u) (blk_words u st) = Some st.
Proof.
  intros Hst. pose proof Hst as (H4 & Hl & Hs).
  destruct P as (_&_&_&_&_&Hnx&Hny&Hnz&Hns&Hspc&_).
  destruct (spc_recs_frames (u_spc u) (snd st) Hl Hspc Hs) as [F1 F2]. cbn zeta in F1, F2.
  unfold split_block.
  destruct layout_memmap as (_&_&_&_&_&_&_&_&_&_&EB&E6). rewrite E6, EB.
  destruct (lay_layout (u_nx u) (u_ny u)) as (ED&_&_). rewrite ED.
  unfold um_spc_1_lay_block_size.
  unfold blk_words, step_records, frame. cbn [map concat].
  unfold frame1 at 1. unfold marker at 1 2. rewrite H4.
  replace (4 * Z.of_nat 4) with 16 by lia.
  destruct (fst st) as [|a [|b [|c [|d [|e t]]]]] eqn:Ef; try discriminate.
  cbn [app]. change (Z.to_nat 6) with 6%nat. cbn [firstn skipn]. change (Z.to_nat 1) with 1%nat.
  cbn [skipn firstn]. change (Z.to_nat 12) with 12%nat.
  rewrite chunks_concat; [|lia|exact F1].
  rewrite F2. f_equal. destruct st as [th ss]. cbn [fst snd] in *. subst th. f_equal.
  unfold nspec. rewrite Nat2Z.id, Hl. apply group_concat.
  eapply Forall_impl; [|exact Hs]. intros lays [Hz _]. exact Hz.
Qed.

Lemma steps_ok : Forall st_ok (u_steps u).
Proof. destruct P as (_&_&_&_&_&_&_&_&_&_&H). exact H. Qed.

Lemma data_blocks : Forall (fun b => length b = Z.to_nat (step_words u)) (map (blk_words u) (u_steps u)).
Proof.
  apply Forall_forall. intros b Hb. apply in_map_iff in Hb as (st & <- & Hin).
  pose proof steps_ok as H. rewrite Forall_forall in H. pose proof (blk_length st (H st Hin)). lia.
Qed.

Lemma step_words_pos : 0 < step_words u.
Proof. destruct P as (_&_&_&_&_&Hnx&Hny&Hnz&Hns&_). unfold step_words. nia. Qed.

Lemma blk_is_step_words :
  um_data_block_size um_date_time_block_size (nspec u) (u_nz u) (um_spc_1_lay_block_size (u_nx u) (u_ny u))
  = step_words u.
Proof. unfold um_data_block_size, um_date_time_block_size, um_spc_1_lay_block_size, step_words. reflexivity. Qed.

(* the body on a file whose data region is the encoded steps, for a size claiming k blocks *)
Lemma mm_body_k k : (1 <= k <= length (u_steps u))%nat ->
  mm_body (nspec u) (u_nx u) (u_ny u) (u_nz u) (u_spc u) (4 * hdr_words u) (enc u)
          (4 * (hdr_words u + Z.of_nat k * step_words u))
  = Ok (view_of (truncate_steps k u)).
Proof.
  intros Hk. unfold mm_body. rewrite blk_is_step_words.
  pose proof step_words_pos as Hsw.
  rewrite ntimes_of_spec by exact Hsw.
  replace (4 * (hdr_words u + Z.of_nat k * step_words u) - 4 * hdr_words u)
    with (Z.of_nat k * (4 * step_words u)) by lia.
  rewrite Z.mod_mul, Z.div_mul by lia. cbn [Z.eqb].
  replace (Z.of_nat k <=? 0) with false by lia.
  replace (4 * hdr_words u / 4) with (hdr_words u) by (rewrite Z.mul_comm, Z.div_mul; lia).
  rewrite enc_split, skip_hdr. unfold data_words.
  replace (Z.to_nat (Z.of_nat k * step_words u)) with (k * Z.to_nat (step_words u))%nat by nia.
  rewrite (firstn_concat_uniform _ _ _ data_blocks).
  rewrite chunks_concat; [|lia|].
  2:{ apply Forall_forall. intros b Hb. pose proof data_blocks as D. rewrite Forall_forall in D.
      apply D. eapply In_firstn_in. exact Hb. }
  rewrite <- map_firstn, map_map.
  assert (Hall : Forall st_ok (firstn k (u_steps u))).
  { apply Forall_forall. intros st Hin. pose proof steps_ok as H. rewrite Forall_forall in H.
    apply H. eapply In_firstn_in. exact Hin. }
  assert (Emap : map (fun x => split_block (nspec u) (u_nz u) (u_nx u) (u_ny u) (blk_words u x)) (firstn k (u_steps u))
                 = map Some (firstn k (u_steps u))).
  { apply map_ext_in. intros st Hin. apply split_block_ok. rewrite Forall_forall in Hall. apply Hall, Hin. }
  rewrite Emap.
  assert (Ef : forallb (fun p : option (list Z * list (list (list Z))) => match p with Some _ => true | None => false end)
                 (map Some (firstn k (u_steps u))) = true).
  { apply forallb_forall. intros x Hx. apply in_map_iff in Hx as (? & <- & _). reflexivity. }
  rewrite Ef.
  assert (Efm : forall (l : list (list Z * list (list (list Z)))),
            flat_map (fun p => match p with Some x => [x] | None => [] end) (map Some l) = l).
  { induction l as [|x l IH]; cbn [map flat_map app]; [reflexivity|]. now rewrite IH. }
  rewrite Efm. unfold view_of, truncate_steps. cbn [u_steps u_spc u_nx u_ny u_nz].
  f_equal. f_equal; try reflexivity.
  rewrite firstn_length. unfold nspec. cbn [u_spc]. lia.
Qed.

End Reader.

(* ---- the whole reader on encoded files ------------------------------------------------ *)
Section Reader2.
Variable u : uamiv.
Hypothesis Hwf : wf u = true.

(* mm_read on the encoding, for ANY claimed size: header checks collapse to one bound *)
Lemma mm_read_reduce c :
  mm_read (enc u) c =
  if c <? 4 * (hdr_words u - 1) then Err
  else mm_body (nspec u) (u_nx u) (u_ny u) (u_nz u) (u_spc u) (4 * hdr_words u) (enc u) c.
Proof.
  destruct (wf_parts u Hwf) as (Hname & Hnote & Hdates & Hgpre & Hgpost & Hnx & Hny & Hnz & Hns & Hspc & Hsteps).
  unfold mm_read.
  destruct layout_memmap as (E1&E2&E3&E4&_&_&O1&O2&O3&O4&_&_).
  rewrite E1, E2, E3, E4, O1, O2, O3, O4.
  change (312 / 4 + 8) with 86. change (312 / 4 + 9) with 87. change (312 / 4 + 10) with 88.
  change ((312 + 68 + 24 + 4) / 4) with 102. change (Z.to_nat 102) with 102%nat.
  rewrite enc_split.
  destruct (header_reads u Hwf (data_words u)) as (R1&R2&R3&R4&R5). cbn zeta in R1, R2, R3, R4, R5.
  rewrite R1, R2, R3, R4, R5.
  replace (Z.max (u_nz u) 1) with (u_nz u) by lia.
  replace (312 + 68 + 24 + 4 + nspec u * 40 + 4) with (4 * hdr_words u) by (unfold hdr_words; lia).
  unfold hdr_words.
  destruct (c <? 312) eqn:C1; [replace (c <? 4 * (78 + 17 + 6 + (2 + 10 * nspec u) - 1)) with true by lia; reflexivity|].
  destruct (c <? 312 + 68) eqn:C2; [replace (c <? 4 * (78 + 17 + 6 + (2 + 10 * nspec u) - 1)) with true by lia; reflexivity|].
  destruct (c <? 312 + 68 + 24) eqn:C3; [replace (c <? 4 * (78 + 17 + 6 + (2 + 10 * nspec u) - 1)) with true by lia; reflexivity|].
  replace (nspec u <=? 0) with false by lia. cbn [orb].
  replace (c <? 4 * (78 + 17 + 6 + (2 + 10 * nspec u) - 1)) with (c <? 312 + 68 + 24 + 4 + nspec u * 40) by lia.
  destruct (c <? 312 + 68 + 24 + 4 + nspec u * 40); [reflexivity|].
  replace (u_nx u <=? 0) with false by lia. replace (u_ny u <=? 0) with false by lia. reflexivity.
Qed.

Lemma mm_read_k k : (1 <= k <= length (u_steps u))%nat ->
  mm_read (enc u) (4 * (hdr_words u + Z.of_nat k * step_words u)) = Ok (view_of (truncate_steps k u)).
Proof.
  intros Hk. rewrite mm_read_reduce.
  pose proof (step_words_pos u Hwf).
  replace (4 * (hdr_words u + Z.of_nat k * step_words u) <? 4 * (hdr_words u - 1)) with false by nia.
  apply mm_body_k; assumption.
Qed.

Lemma enc_length : Z.of_nat (length (enc u)) = hdr_words u + Z.of_nat (length (u_steps u)) * step_words u.
Proof.
  rewrite enc_split, app_length. pose proof (hdr_list_length u Hwf). unfold data_words.
  rewrite (concat_uniform_length _ _ (data_blocks u Hwf)), map_length.
  pose proof (step_words_pos u Hwf). nia.
Qed.

(* whole file *)
Lemma mm_read_enc : u_steps u <> [] ->
  mm_read (enc u) (4 * Z.of_nat (length (enc u))) = Ok (view_of u).
Proof.
  intros Hne. rewrite enc_length.
  rewrite mm_read_k by (destruct (u_steps u); [congruence|cbn [length]; lia]).
  unfold truncate_steps. rewrite firstn_all. destruct u; reflexivity.
Qed.

(* whenever the reader accepts a size, that size is header + a positive whole number of steps *)
Lemma mm_read_ok_size c v : mm_read (enc u) c = Ok v ->
  exists k, (1 <= k)%nat /\ c = 4 * (hdr_words u + Z.of_nat k * step_words u).
Proof.
  rewrite mm_read_reduce. destruct (c <? 4 * (hdr_words u - 1)) eqn:Hc; [discriminate|].
  unfold mm_body. rewrite blk_is_step_words.
  pose proof (step_words_pos u Hwf) as Hsw.
  rewrite ntimes_of_spec by exact Hsw.
  destruct ((c - 4 * hdr_words u) mod (4 * step_words u) =? 0) eqn:Hm; [|discriminate].
  destruct ((c - 4 * hdr_words u) / (4 * step_words u) <=? 0) eqn:Hn; [discriminate|].
  intros _. exists (Z.to_nat ((c - 4 * hdr_words u) / (4 * step_words u))). split; [lia|].
  rewrite Z2Nat.id by lia.
  assert (E : c - 4 * hdr_words u = 4 * step_words u * ((c - 4 * hdr_words u) / (4 * step_words u)))
    by (apply Z.div_exact; lia).
  lia.
Qed.

End Reader2.

(* ---- locality: the reader only looks at the bytes that exist --------------------------- *)
Lemma getw_firstn ws n i : 0 <= i -> (Z.to_nat i < n)%nat -> getw (firstn n ws) i = getw ws i.
Proof.
  intros Hi Hn. unfold getw. revert ws n Hn. generalize (Z.to_nat i). clear.
  induction n as [|n IH]; intros ws m Hm; destruct m as [|m]; try lia; destruct ws as [|x ws]; try reflexivity.
  cbn [firstn nth]. apply IH. lia.
Qed.

Lemma firstn_skipn_firstn {A} (l : list A) a b n : (a + b <= n)%nat ->
  firstn b (skipn a (firstn n l)) = firstn b (skipn a l).
Proof.
  revert l n b. induction a as [|a IH]; intros l n b H.
  - cbn [skipn]. rewrite firstn_firstn. f_equal. lia.
  - destruct n as [|n]; [lia|]. destruct l as [|x l]; [reflexivity|].
    cbn [firstn skipn]. apply IH. lia.
Qed.

Lemma mm_body_local nspec nx ny nz names off4 ws c :
  0 <= c -> 0 <= off4 -> off4 mod 4 = 0 -> 0 < nx -> 0 < ny -> 0 < nspec -> 0 < nz ->
  mm_body nspec nx ny nz names off4 (firstn (Z.to_nat (c / 4)) ws) c = mm_body nspec nx ny nz names off4 ws c.
Proof.
  intros Hc Ho Hm Hx Hy Hs Hz. unfold mm_body.
  set (blk := um_data_block_size um_date_time_block_size nspec nz (um_spc_1_lay_block_size nx ny)).
  assert (Hb : 0 < blk).
  { unfold blk, um_data_block_size, um_date_time_block_size, um_spc_1_lay_block_size. nia. }
  rewrite ntimes_of_spec by exact Hb.
  destruct ((c - off4) mod (4 * blk) =? 0) eqn:Hd; [|reflexivity].
  destruct ((c - off4) / (4 * blk) <=? 0) eqn:Hn; [reflexivity|].
  set (nt := (c - off4) / (4 * blk)) in *.
  assert (E : c - off4 = 4 * blk * nt) by (apply Z.div_exact; lia).
  rewrite firstn_skipn_firstn; [reflexivity|].
  assert (c / 4 = off4 / 4 + nt * blk).
  { replace c with ((off4 / 4 + nt * blk) * 4).
    - rewrite Z.div_mul; lia.
    - assert (off4 = 4 * (off4 / 4)) by (apply Z.div_exact; lia). lia. }
  assert (0 <= off4 / 4) by (apply Z.div_pos; lia). nia.
Qed.

Lemma mm_read_local ws c : 0 <= c ->
  mm_read (firstn (Z.to_nat (c / 4)) ws) c = mm_read ws c.
Proof.
  intros Hc. unfold mm_read.
  destruct layout_memmap as (E1&E2&E3&E4&_&_&O1&O2&O3&O4&_&_).
  rewrite E1, E2, E3, E4, O1, O2, O3, O4.
  change (312 / 4 + 8) with 86. change (312 / 4 + 9) with 87. change (312 / 4 + 10) with 88.
  change ((312 + 68 + 24 + 4) / 4) with 102. change (Z.to_nat 102) with 102%nat.
  destruct (c <? 312) eqn:C1; [reflexivity|].
  assert (78 <= c / 4) by (apply Z.div_le_lower_bound; lia).
  rewrite (getw_firstn ws _ 72) by lia.
  destruct (c <? 312 + 68) eqn:C2; [reflexivity|].
  assert (95 <= c / 4) by (apply Z.div_le_lower_bound; lia).
  rewrite (getw_firstn ws _ 86), (getw_firstn ws _ 87), (getw_firstn ws _ 88) by lia.
  destruct (c <? 312 + 68 + 24) eqn:C3; [reflexivity|].
  set (nspec := getw ws 72).
  destruct (nspec <=? 0) eqn:Cs; [reflexivity|]. cbn [orb].
  destruct (c <? 312 + 68 + 24 + 4 + nspec * 40) eqn:C4; [reflexivity|].
  assert (102 + nspec * 10 <= c / 4) by (apply Z.div_le_lower_bound; lia).
  rewrite firstn_skipn_firstn by lia.
  destruct ((getw ws 86 <=? 0) || (getw ws 87 <=? 0)) eqn:Cxy; [reflexivity|].
  apply mm_body_local; try lia.
  replace (312 + 68 + 24 + 4 + nspec * 40 + 4) with ((103 + nspec * 10) * 4) by lia.
  apply Z.mod_mul. lia.
Qed.

(* ---- C14 for the uamiv reader model: every byte prefix -------------------------------- *)
Lemma mm_read_prefix u c : wf u = true -> 0 <= c <= 4 * Z.of_nat (length (enc u)) ->
  mm_read (firstn (Z.to_nat (c / 4)) (enc u)) c = Err \/
  exists k, (1 <= k <= length (u_steps u))%nat /\ c = 4 * (hdr_words u + Z.of_nat k * step_words u) /\
            mm_read (firstn (Z.to_nat (c / 4)) (enc u)) c = Ok (view_of (truncate_steps k u)).
Proof.
  intros Hwf Hc. rewrite mm_read_local by lia.
  destruct (mm_read (enc u) c) as [v|] eqn:Hr; [|left; reflexivity].
  right. destruct (mm_read_ok_size u Hwf c v Hr) as (k & Hk & Ec).
  exists k. rewrite enc_length in Hc by exact Hwf.
  pose proof (step_words_pos u Hwf).
  assert (Hk2 : (k <= length (u_steps u))%nat) by nia.
  split; [lia|]. split; [exact Ec|].
  rewrite <- Hr, Ec. apply mm_read_k; [exact Hwf|lia].
Qed.

(* ---- date/time conversion equals the specification on whole hours ------------------- *)
Lemma max_le_all ts b : Forall (fun t => 0 <= t <= b) ts -> 0 <= fold_right Z.max 0 ts <= b \/ ts = [].
Proof.
  induction 1 as [|t ts Ht _ IH]; [right; reflexivity|left]. cbn [fold_right].
  destruct IH as [IH | E]; [|rewrite E]; cbn [fold_right]; lia.
Qed.

Lemma max_pos_if_nonzero ts : Forall (fun t => 0 <= t) ts ->
  forallb (fun t => t =? 0) ts = false -> 1 <= fold_right Z.max 0 ts.
Proof.
  induction 1 as [|t ts Ht _ IH]; cbn [forallb fold_right]; [discriminate|].
  destruct (t =? 0) eqn:E; cbn [andb]; intros H; [specialize (IH H)|]; lia.
Qed.

Lemma map_max k ts : 0 < k -> fold_right Z.max 0 (map (fun t => t * k) ts) = fold_right Z.max 0 ts * k.
Proof.
  intros Hk. induction ts as [|t ts IH]; cbn [map fold_right]; [lia|]. rewrite IH. nia.
Qed.

Lemma forallb_zero_map k ts : 0 < k ->
  forallb (fun t => t =? 0) (map (fun t => t * k) ts) = forallb (fun t => t =? 0) ts.
Proof.
  intros Hk. induction ts as [|t ts IH]; cbn [map forallb]; [reflexivity|]. rewrite IH.
  f_equal. destruct (t =? 0) eqn:E; nia.
Qed.

Lemma scale_times_hours ts : Forall (fun t => 0 <= t <= 23) ts ->
  scale_times 8 ts = map (fun h => h * 10000) ts.
Proof.
  intros H.
  destruct (forallb (fun t => t =? 0) ts) eqn:Hz.
  - cbn [scale_times]. rewrite Hz.
    rewrite forallb_forall in Hz. symmetry. rewrite <- (map_id ts) at 2.
    apply map_ext_in. intros t Ht. specialize (Hz t Ht). lia.
  - assert (Hp : Forall (fun t => 0 <= t) ts) by (eapply Forall_impl; [|exact H]; intros; cbn in *; lia).
    pose proof (max_pos_if_nonzero ts Hp Hz) as H1.
    destruct (max_le_all ts 23 H) as [H2| ->]; [|discriminate].
    cbn [scale_times]. rewrite Hz.
    replace (fold_right Z.max 0 ts <? 10000) with true by lia.
    rewrite forallb_zero_map, Hz by lia. rewrite map_max by lia.
    replace (fold_right Z.max 0 ts * 100 <? 10000) with true by lia.
    rewrite forallb_zero_map, forallb_zero_map, Hz by lia.
    rewrite !map_max by lia.
    replace (fold_right Z.max 0 ts * 100 * 100 <? 10000) with false by lia.
    rewrite map_map. apply map_ext. intros. lia.
Qed.

Lemma convert_is_spec dates hours : Forall (fun t => 0 <= t <= 23) hours ->
  convert_camx_time dates hours = spec_camx_time dates hours.
Proof.
  intros H. unfold convert_camx_time, spec_camx_time. rewrite scale_times_hours by exact H.
  f_equal. apply map_ext. intros d. unfold conv_date, spec_date. destruct (d <? 70000); lia.
Qed.
