(* Lemmas about Base/NdApply.v: index bookkeeping, congruence of apply_axis, and the
   exchange law for keepdims reductions with an associative-commutative operation. *)
From PNC Require Import Base.Util Base.NdApply.
Require Import Permutation.
Set Implicit Arguments.

(* ---- upd ------------------------------------------------------------------------ *)
Lemma length_upd {B} k (v : B) l : length (upd k v l) = length l.
Proof. revert k; induction l as [|x l IH]; intros [|k]; simpl; auto. Qed.

Lemma nth_upd_eq {B} k (v d : B) l : k < length l -> nth k (upd k v l) d = v.
Proof.
  revert k; induction l as [|x l IH]; intros [|k] H; simpl in *; try lia; auto.
  apply IH; lia.
Qed.

Lemma nth_upd_neq {B} j k (v d : B) l : j <> k -> nth j (upd k v l) d = nth j l d.
Proof.
  revert j k; induction l as [|x l IH]; intros [|j] [|k] H; simpl; auto; try lia.
Qed.

Lemma upd_comm {B} j k (x y : B) l : j <> k -> upd j x (upd k y l) = upd k y (upd j x l).
Proof.
  revert j k; induction l as [|a l IH]; intros [|j] [|k] H; simpl; auto; try lia.
  f_equal. apply IH; lia.
Qed.

Lemma upd_upd {B} k (x y : B) l : upd k x (upd k y l) = upd k x l.
Proof. revert k; induction l as [|a l IH]; intros [|k]; simpl; auto. f_equal; auto. Qed.

Lemma upd_nth_id {B} k (d : B) l : upd k (nth k l d) l = l.
Proof. revert k; induction l as [|a l IH]; intros [|k]; simpl; auto. f_equal; auto. Qed.

(* ---- inb ------------------------------------------------------------------------ *)
Lemma inb_length i s : inb i s = true -> length i = length s.
Proof.
  revert s; induction i as [|x i IH]; intros [|n s] H; simpl in *; try discriminate; auto.
  apply andb_true_iff in H as [_ H]. f_equal; auto.
Qed.

Lemma inb_nth i s k : inb i s = true -> k < length s -> nth k i 0 < nth k s 0.
Proof.
  revert s k; induction i as [|x i IH]; intros [|n s] k H Hk; simpl in *; try discriminate; try lia.
  apply andb_true_iff in H as [H1 H2]. apply Nat.ltb_lt in H1.
  destruct k; simpl; auto. apply IH; auto; lia.
Qed.

(* an index of the array after axis k got length m, with component k replaced by any j below
   the old length, is an index of the old array *)
Lemma inb_upd i s k m j :
  inb i (upd k m s) = true -> k < length s -> j < nth k s 0 -> inb (upd k j i) s = true.
Proof.
  revert s k; induction i as [|x i IH]; intros [|n s] k H Hk Hj; simpl in *; try discriminate; try lia.
  - destruct k; discriminate.
  - destruct k; simpl in *.
    + apply andb_true_iff in H as [_ H]. apply andb_true_iff; split; auto. apply Nat.ltb_lt; auto.
    + apply andb_true_iff in H as [H1 H]. apply andb_true_iff; split; auto. apply IH; auto; lia.
Qed.

Lemma indices_inb s : forall i, In i (indices s) -> inb i s = true.
Proof.
  induction s as [|n s IH]; simpl; intros i H.
  - destruct H as [<-|[]]; reflexivity.
  - apply in_flat_map in H as [x [Hx H]]. apply in_map_iff in H as [i' [<- Hi']].
    apply in_seq in Hx. simpl. apply andb_true_iff; split; [apply Nat.ltb_lt; lia | auto].
Qed.

(* ---- feq ------------------------------------------------------------------------ *)
Section Feq.
  Variable A : Type.
  Implicit Types a b c : farr A.

  Lemma feq_refl a : feq a a.
  Proof. split; auto. Qed.

  Lemma feq_sym a b : feq a b -> feq b a.
  Proof. intros [H1 H2]; split; auto. intros i Hi. symmetry; apply H2. rewrite H1; auto. Qed.

  Lemma feq_trans a b c : feq a b -> feq b c -> feq a c.
  Proof.
    intros [H1 H2] [H3 H4]; split; [congruence|].
    intros i Hi. rewrite H2; auto. apply H4. rewrite <- H1; auto.
  Qed.

  (* equal on in-bounds indices => the same row-major list (what numpy shows) *)
  Lemma to_flat_feq a b : feq a b -> to_flat a = to_flat b.
  Proof.
    intros [H1 H2]. unfold to_flat. rewrite <- H1. apply map_ext_in.
    intros i Hi. apply H2. apply indices_inb; auto.
  Qed.

  Lemma lane_length a k i : length (lane a k i) = nth k (sh a) 0.
  Proof. unfold lane. rewrite map_length, seq_length; auto. Qed.

  Lemma lane_feq a b k i m :
    feq a b -> k < rank a -> inb i (upd k m (sh a)) = true -> lane a k i = lane b k i.
  Proof.
    intros [H1 H2] Hk Hi. unfold lane. rewrite <- H1. apply map_ext_in.
    intros j Hj. apply in_seq in Hj. apply H2. apply inb_upd with (m := m); auto. lia.
  Qed.

  (* apply_axis respects feq for length-uniform functions *)
  Lemma apply_axis_feq g d k a b :
    uniform g -> feq a b -> k < rank a -> feq (apply_axis g d k a) (apply_axis g d k b).
  Proof.
    intros U E Hk. pose proof E as [H1 H2]. split; simpl.
    - rewrite <- H1. f_equal. apply U. rewrite !lane_length. congruence.
    - intros i Hi. erewrite lane_feq; eauto.
  Qed.

  Lemma apply_axis_rank g d k a : rank (apply_axis g d k a) = rank a.
  Proof. unfold rank; simpl. apply length_upd. Qed.
End Feq.

(* ---- exchange of two reductions -------------------------------------------------- *)
Section Exchange.
  Variable A : Type.
  Variable op : A -> A -> A.
  Variable e : A.
  Hypothesis op_assoc : forall a b c, op a (op b c) = op (op a b) c.
  Hypothesis op_comm : forall a b, op a b = op b a.
  Hypothesis op_unit : forall a, op e a = a.

  Definition fold_ := fold_right op e.

  Lemma fold_op_distr {X} (f g : X -> A) xs :
    fold_ (map (fun x => op (f x) (g x)) xs) = op (fold_ (map f xs)) (fold_ (map g xs)).
  Proof.
    induction xs as [|x xs IH]; simpl.
    - symmetry; apply op_unit.
    - unfold fold_ in *. rewrite IH.
      rewrite <- !op_assoc. f_equal. rewrite !op_assoc. f_equal. apply op_comm.
  Qed.

  Lemma fold_const_unit {X} (xs : list X) : fold_ (map (fun _ => e) xs) = e.
  Proof. induction xs; simpl; auto. unfold fold_ in *. rewrite IHxs. apply op_unit. Qed.

  Lemma fold_exchange {X Y} (f : X -> Y -> A) xs ys :
    fold_ (map (fun x => fold_ (map (fun y => f x y) ys)) xs)
    = fold_ (map (fun y => fold_ (map (fun x => f x y) xs)) ys).
  Proof.
    induction xs as [|x xs IH]; simpl.
    - symmetry. apply fold_const_unit.
    - unfold fold_ in *. rewrite IH.
      rewrite <- (fold_op_distr (fun y => f x y) (fun y => fold_right op e (map (fun x0 => f x0 y) xs))).
      reflexivity.
  Qed.

  Let R := red op e.

  Lemma red_uniform : uniform R.
  Proof. intros l l' _. reflexivity. Qed.

  (* value of a keepdims reduction at an in-bounds index *)
  Lemma red_at d k (a : farr A) i :
    k < rank a -> inb i (sh (apply_axis R d k a)) = true ->
    at_ (apply_axis R d k a) i = fold_ (lane a k i).
  Proof.
    intros Hk Hi. simpl in *.
    assert (nth k i 0 < 1).
    { pose proof (@inb_nth _ _ k Hi) as H. rewrite length_upd in H. specialize (H Hk).
      rewrite nth_upd_eq in H; auto. }
    replace (nth k i 0) with 0 by lia. reflexivity.
  Qed.

  (* reducing along axis j then k  =  along k then j  (j <> k), for every rank and shape *)
  Theorem red_axes_commute d j k (a : farr A) :
    j <> k -> j < rank a -> k < rank a ->
    feq (apply_axis R d k (apply_axis R d j a)) (apply_axis R d j (apply_axis R d k a)).
  Proof.
    intros N Hj Hk. split.
    - simpl. apply upd_comm; auto.
    - intros i Hi.
      assert (Hi' : inb i (sh (apply_axis R d j (apply_axis R d k a))) = true).
      { simpl in *. rewrite upd_comm; auto. }
      rewrite red_at; auto; [| rewrite apply_axis_rank; auto].
      rewrite red_at; auto; [| rewrite apply_axis_rank; auto].
      unfold lane at 1 2. simpl sh.
      rewrite !nth_upd_neq by auto.
      (* inner values *)
      assert (Hkj : forall y, y < nth k (sh a) 0 ->
                 at_ (apply_axis R d j a) (upd k y i) = fold_ (lane a j (upd k y i))).
      { intros y Hy. simpl.
        rewrite nth_upd_neq by auto.
        assert (nth j i 0 < 1).
        { simpl in Hi. pose proof (@inb_nth _ _ j Hi) as H. rewrite !length_upd in H.
          specialize (H Hj). rewrite nth_upd_neq in H by auto. rewrite nth_upd_eq in H; auto. }
        replace (nth j i 0) with 0 by lia. reflexivity. }
      assert (Hjk : forall x, x < nth j (sh a) 0 ->
                 at_ (apply_axis R d k a) (upd j x i) = fold_ (lane a k (upd j x i))).
      { intros x Hx. simpl.
        rewrite nth_upd_neq by auto.
        assert (nth k i 0 < 1).
        { simpl in Hi'. pose proof (@inb_nth _ _ k Hi') as H. rewrite !length_upd in H.
          specialize (H Hk). rewrite nth_upd_neq in H by auto. rewrite nth_upd_eq in H; auto. }
        replace (nth k i 0) with 0 by lia. reflexivity. }
      transitivity (fold_ (map (fun y => fold_ (lane a j (upd k y i))) (seq 0 (nth k (sh a) 0)))).
      { f_equal. apply map_ext_in. intros y Hy. apply in_seq in Hy. apply Hkj; lia. }
      transitivity (fold_ (map (fun x => fold_ (lane a k (upd j x i))) (seq 0 (nth j (sh a) 0)))).
      2:{ f_equal. apply map_ext_in. intros x Hx. apply in_seq in Hx. symmetry; apply Hjk; lia. }
      unfold lane.
      rewrite (fold_exchange (fun y x => at_ a (upd j x (upd k y i)))).
      f_equal. apply map_ext. intros x. f_equal. apply map_ext. intros y.
      f_equal. apply upd_comm; auto.
  Qed.

  (* hence: any order of a set of distinct axes gives the same array *)
  Theorem red_axes_perm d (ks ks' : list nat) (a : farr A) :
    Permutation ks ks' -> NoDup ks -> (forall k, In k ks -> k < rank a) ->
    feq (apply_axes R d ks a) (apply_axes R d ks' a).
  Proof.
    intros P. revert a. induction P; intros a ND B.
    - apply feq_refl.
    - simpl. inversion ND; subst.
      assert (rk : forall ks a, rank (apply_axes R d ks a) = rank a).
      { clear. induction ks; simpl; auto. intros. rewrite apply_axis_rank; auto. }
      apply apply_axis_feq; [apply red_uniform | apply IHP; auto; intros; apply B; right; auto |].
      rewrite rk. apply B; left; auto.
    - simpl.
      assert (rk : forall ks a, rank (apply_axes R d ks a) = rank a).
      { clear. induction ks; simpl; auto. intros. rewrite apply_axis_rank; auto. }
      inversion ND as [|? ? Hn ND']; subst. inversion ND' as [|? ? Hn' ND'']; subst.
      unfold apply_axes in *.
      apply red_axes_commute.
      + intros E; subst. apply Hn; left; auto.
      + rewrite rk. apply B; right; left; auto.
      + rewrite rk. apply B; left; auto.
    - eapply feq_trans; [apply IHP1; auto|].
      apply IHP2.
      + eapply Permutation_NoDup; eauto.
      + intros k Hk. apply B. eapply Permutation_in; [apply Permutation_sym; eauto | auto].
  Qed.
End Exchange.

(* the masked-aware lift of an associative-commutative operation is an
   associative-commutative operation with unit None *)
Section OLift.
  Variable V : Type.
  Variable f : V -> V -> V.
  Hypothesis f_assoc : forall a b c, f a (f b c) = f (f a b) c.
  Hypothesis f_comm : forall a b, f a b = f b a.

  Lemma olift_assoc a b c : olift f a (olift f b c) = olift f (olift f a b) c.
  Proof. destruct a, b, c; simpl; auto. f_equal; auto. Qed.
  Lemma olift_comm a b : olift f a b = olift f b a.
  Proof. destruct a, b; simpl; auto. f_equal; auto. Qed.
  Lemma olift_unit a : olift f None a = a.
  Proof. reflexivity. Qed.

  Theorem ma_red_axes_perm d ks ks' (a : farr (option V)) :
    Permutation ks ks' -> NoDup ks -> (forall k, In k ks -> k < rank a) ->
    feq (apply_axes (ma_red f) d ks a) (apply_axes (ma_red f) d ks' a).
  Proof. apply red_axes_perm; [apply olift_assoc | apply olift_comm | apply olift_unit]. Qed.

  (* a masked-aware reduction ignores masked cells, and is masked iff all cells are *)
  Lemma ma_fold_skip l : fold_right (olift f) None (None :: l) = fold_right (olift f) None l.
  Proof. reflexivity. Qed.
  Lemma ma_fold_all_masked l :
    fold_right (olift f) None l = None <-> forall c, In c l -> c = None.
  Proof.
    induction l as [|c l IH]; simpl; split; intros H; auto.
    - intros ? [].
    - destruct c; simpl in H.
      + destruct (fold_right (olift f) None l); discriminate.
      + intros c [<-|Hc]; auto. apply IH; auto.
    - rewrite (H c) by (left; auto). simpl. apply IH. intros; apply H; right; auto.
  Qed.
End OLift.
