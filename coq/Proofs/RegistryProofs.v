(* Lemmas for C15 (Model/Registry.v). *)
From PNC Require Import Base.Util Model.Registry.

(* ---- basic facts ------------------------------------------------------------------------- *)
Lemma result_eqb_eq a b : result_eqb a b = true -> a = b.
Proof.
  destruct a, b; simpl; intros H; try discriminate; try reflexivity;
    apply Nat.eqb_eq in H; subst; reflexivity.
Qed.

Lemma result_eqb_refl a : result_eqb a a = true.
Proof. destruct a; simpl; auto using Nat.eqb_refl. Qed.

(* every pair of `pre` carries a name that the registry knows *)
Definition registered (reg pre : registry) : Prop :=
  Forall (fun kr => lookup_last (fst kr) reg <> None) pre.

Lemma lookup_last_app_registered n reg pre :
  registered reg pre -> lookup_last n (pre ++ reg) = lookup_last n reg.
Proof.
  induction 1 as [|[k r] pre Hk Hpre IH]; simpl; auto.
  rewrite IH. destruct (lookup_last n reg) eqn:E; auto.
  destruct (Nat.eqb k n) eqn:Ek; auto.
  apply Nat.eqb_eq in Ek. subst. simpl in Hk. congruence.
Qed.

Lemma lookup_last_In n reg r : lookup_last n reg = Some r -> In (n, r) reg.
Proof.
  induction reg as [|[k r'] t IH]; simpl; try discriminate.
  destruct (lookup_last n t) eqn:E.
  - intros H. injection H as ->. right. auto.
  - destruct (Nat.eqb k n) eqn:Ek; try discriminate.
    intros H. injection H as ->. apply Nat.eqb_eq in Ek. subst. left. reflexivity.
Qed.

Lemma inserted_registered reg h : registered reg (inserted reg h).
Proof.
  induction h as [|[e f|n f] t IH]; simpl; try assumption; try constructor.
  destruct (lookup_last e reg) eqn:E; try assumption.
  constructor; auto. simpl. congruence.
Qed.

Lemma inserted_In reg h kr : In kr (inserted reg h) -> In kr reg.
Proof.
  induction h as [|[e f|n f] t IH]; simpl; try tauto.
  destruct (lookup_last e reg) eqn:E; auto.
  intros [<-|H]; auto using lookup_last_In.
Qed.

Lemma registered_rev reg pre : registered reg pre -> registered reg (rev pre).
Proof. unfold registered. intros H. apply Forall_rev. exact H. Qed.

(* ---- unfolding the run ------------------------------------------------------------------- *)
Lemma impl_final_cons acc reg s t :
  impl_final acc reg (s :: t) = impl_final acc (fst (impl_step acc reg s)) t.
Proof.
  unfold impl_final. simpl. destruct (impl_step acc reg s) as [reg' r]. simpl.
  destruct (impl_run acc reg' t). reflexivity.
Qed.

Lemma impl_results_cons acc reg s t :
  impl_results acc reg (s :: t)
  = snd (impl_step acc reg s) :: impl_results acc (fst (impl_step acc reg s)) t.
Proof.
  unfold impl_results. simpl. destruct (impl_step acc reg s) as [reg' r]. simpl.
  destruct (impl_run acc reg' t). reflexivity.
Qed.

Lemma impl_step_fst_app acc reg pre s :
  registered reg pre ->
  fst (impl_step acc (pre ++ reg) s)
  = match s with
    | Auto e _ => match lookup_last e reg with Some r => (e, r) :: pre | None => pre end
    | Named _ _ => pre
    end ++ reg.
Proof.
  intros Hp. destruct s as [e f|n f]; simpl; auto.
  unfold prefer. rewrite lookup_last_app_registered by assumption.
  destruct (lookup_last e reg); reflexivity.
Qed.

Lemma registered_step reg pre e :
  registered reg pre ->
  registered reg (match lookup_last e reg with Some r => (e, r) :: pre | None => pre end).
Proof.
  intros Hp. destruct (lookup_last e reg) eqn:E; auto.
  constructor; auto. simpl. congruence.
Qed.

(* ---- the registry after a history: exact shape -------------------------------------------- *)
Lemma run_shape_gen acc reg : forall h pre, registered reg pre ->
  impl_final acc (pre ++ reg) h = rev (inserted reg h) ++ pre ++ reg.
Proof.
  induction h as [|s t IH]; intros pre Hp.
  - reflexivity.
  - rewrite impl_final_cons, impl_step_fst_app by assumption.
    destruct s as [e f|n f]; simpl.
    + destruct (lookup_last e reg) eqn:E.
      * rewrite (IH ((e, r) :: pre)).
        -- simpl. rewrite <- app_assoc. reflexivity.
        -- constructor; auto. simpl. congruence.
      * apply IH. assumption.
    + apply IH. assumption.
Qed.

Lemma run_shape acc reg h : impl_final acc reg h = rev (inserted reg h) ++ reg.
Proof. apply (run_shape_gen acc reg h []). constructor. Qed.

Lemma registry_grows acc reg h :
  length (impl_final acc reg h) = length reg + length (inserted reg h).
Proof. rewrite run_shape, app_length, rev_length. lia. Qed.

Lemma registry_set_preserved acc reg h kr : In kr (impl_final acc reg h) <-> In kr reg.
Proof.
  rewrite run_shape, in_app_iff, <- in_rev. split.
  - intros [H|H]; auto. eapply inserted_In; eauto.
  - auto.
Qed.

Lemma named_history_independent acc reg h n :
  lookup_last n (impl_final acc reg h) = lookup_last n reg.
Proof.
  rewrite run_shape. apply lookup_last_app_registered.
  apply registered_rev, inserted_registered.
Qed.

Lemma named_step_history_independent acc reg h n f :
  snd (impl_step acc (impl_final acc reg h) (Named n f)) = snd (impl_step acc reg (Named n f))
  /\ fst (impl_step acc (impl_final acc reg h) (Named n f)) = impl_final acc reg h.
Proof.
  simpl. unfold named_result. rewrite named_history_independent. auto.
Qed.

(* ---- the repaired getreader ---------------------------------------------------------------- *)
Lemma spec_final_id acc reg h : spec_final acc reg h = reg.
Proof.
  unfold spec_final. induction h as [|s t IH]; simpl; auto.
  destruct s; simpl; exact IH.
Qed.

Lemma spec_history_independent acc reg h s :
  spec_final acc reg h = reg
  /\ snd (spec_step acc (spec_final acc reg h) s) = snd (spec_step acc reg s).
Proof. rewrite spec_final_id. auto. Qed.

(* ---- neutral histories ---------------------------------------------------------------------- *)
Lemma first_accepting_pre (a : reader -> outcome) pre l :
  forallb (fun kr => is_no (a (snd kr)) || result_eqb (res_of (a (snd kr)) (snd kr)) (first_accepting a l)) pre = true ->
  first_accepting a (pre ++ l) = first_accepting a l.
Proof.
  induction pre as [|[k r] pre IH]; simpl; auto.
  intros H. apply andb_true_iff in H as [H1 H2].
  destruct (a r) eqn:E; cbn [is_no res_of orb] in H1.
  - apply IH. exact H2.
  - apply result_eqb_eq in H1. auto.
  - apply result_eqb_eq in H1. auto.
Qed.

Lemma step_neutral acc reg pre e f :
  registered reg pre ->
  own_decides acc reg e f || pre_neutral acc f (fresh_result acc reg (Auto e f)) pre = true ->
  snd (impl_step acc (pre ++ reg) (Auto e f)) = fresh_result acc reg (Auto e f).
Proof.
  intros Hp H. unfold fresh_result, own_decides, pre_neutral in *. simpl in *. unfold prefer in *.
  rewrite lookup_last_app_registered by assumption.
  destruct (lookup_last e reg) eqn:E.
  - simpl in *. destruct (acc r f) eqn:A; simpl in *; auto.
    apply (first_accepting_pre (fun r0 => acc r0 f)). exact H.
  - simpl in H. apply (first_accepting_pre (fun r0 => acc r0 f)). exact H.
Qed.

Lemma run_neutral_gen acc reg : forall h pre, registered reg pre ->
  neutral_from acc reg pre h = true ->
  impl_results acc (pre ++ reg) h = spec_results acc reg h.
Proof.
  induction h as [|s t IH]; intros pre Hp Hn.
  - reflexivity.
  - rewrite impl_results_cons, impl_step_fst_app by assumption.
    destruct s as [e f|n f]; simpl in Hn.
    + apply andb_true_iff in Hn as [H1 H2].
      unfold spec_results. simpl map. f_equal.
      * apply step_neutral; assumption.
      * apply IH; auto. apply registered_step. assumption.
    + unfold spec_results. simpl map. f_equal.
      * simpl. unfold fresh_result. simpl. unfold named_result.
        rewrite lookup_last_app_registered by assumption. reflexivity.
      * apply IH; auto.
Qed.

Lemma run_neutral acc reg h :
  neutral acc reg h = true -> impl_results acc reg h = spec_results acc reg h.
Proof. intros H. apply (run_neutral_gen acc reg h []); auto. constructor. Qed.

(* ---- a telling extension always wins --------------------------------------------------------- *)
Lemma telling_extension acc reg h e f r :
  lookup_last e reg = Some r -> acc r f = Yes ->
  snd (impl_step acc (impl_final acc reg h) (Auto e f)) = Selected r
  /\ snd (impl_step acc reg (Named e f)) = Selected r.
Proof.
  intros L A. split.
  - simpl. unfold prefer. rewrite named_history_independent, L. simpl. rewrite A. reflexivity.
  - simpl. unfold named_result. rewrite L. reflexivity.
Qed.

(* ---- a file that only one registered class claims ---------------------------------------------- *)
Lemma first_accepting_sole (a : reader -> outcome) r : forall l,
  (forall kr, In kr l -> is_no (a (snd kr)) = true \/ snd kr = r) ->
  a r = Yes -> (exists k, In (k, r) l) ->
  first_accepting a l = Selected r.
Proof.
  induction l as [|[k r'] l IH]; intros Hall Hr [k0 Hin].
  - destruct Hin.
  - simpl. destruct (Hall (k, r') (or_introl eq_refl)) as [Hno|Heq]; cbn [snd] in *.
    + destruct (a r') eqn:E; try discriminate.
      apply IH; [ | exact Hr | ].
      * intros kr Hk. apply Hall. right. exact Hk.
      * destruct Hin as [Hin|Hin].
        -- injection Hin as _ ->. congruence.
        -- exists k0. exact Hin.
    + subst r'. rewrite Hr. reflexivity.
Qed.

Lemma sole_claimant_any_history acc reg h e f r :
  sole_claimant acc reg r f = true ->
  snd (impl_step acc (impl_final acc reg h) (Auto e f)) = Selected r.
Proof.
  unfold sole_claimant. intros H.
  apply andb_true_iff in H as [H H3]. apply andb_true_iff in H as [H1 H2].
  destruct (acc r f) eqn:A; try discriminate.
  apply existsb_exists in H2 as [[k0 r0] [Hin0 Heq0]]. simpl in Heq0. apply Nat.eqb_eq in Heq0. subst r0.
  rewrite forallb_forall in H3.
  assert (Hreg : forall kr, In kr reg -> is_no (acc (snd kr) f) = true \/ snd kr = r).
  { intros kr Hk. specialize (H3 kr Hk). apply orb_true_iff in H3 as [H3|H3]; auto.
    right. apply Nat.eqb_eq. exact H3. }
  simpl. apply (first_accepting_sole (fun r0 => acc r0 f)); auto.
  - intros kr Hk. apply Hreg. unfold prefer in Hk.
    destruct (lookup_last e (impl_final acc reg h)) eqn:L.
    + destruct Hk as [<-|Hk].
      * apply (registry_set_preserved acc reg h). apply lookup_last_In. exact L.
      * apply (registry_set_preserved acc reg h). exact Hk.
    + apply (registry_set_preserved acc reg h). exact Hk.
  - exists k0. unfold prefer.
    destruct (lookup_last e (impl_final acc reg h)); [right|];
      apply (registry_set_preserved acc reg h); exact Hin0.
Qed.

(* ---- concrete witnesses (a miniature of the real registry) ------------------------------------
   names  : 0 gcnc, 1 ioapi, 2 netcdf, 3 nc, 4 Dataset, 5 uamiv, 6 humidity, 7 vertical_diffusivity, 9 '' (no suffix)
   readers: 0 gcnc, 1 ioapi, 2 netcdf, 3 Dataset (no isMine), 4 uamiv, 5 vertical_diffusivity, 6 humidity
   files  : 0 IOAPI netCDF file, 1 plain netCDF file, 2 uamiv file, 3 humidity file (one3d layout)          *)
Definition w_reg : registry :=
  [(0, 0); (7, 5); (5, 4); (1, 1); (6, 6); (3, 2); (2, 2); (4, 3)].
Definition w_tbl : list (file * list (reader * outcome)) :=
  [ (0, [(0, Yes); (1, Yes); (2, Yes); (3, Yes)]);
    (1, [(0, Yes); (2, Yes); (3, Yes); (4, Raise 0)]);     (* uamiv.isMine raises ValueError on a small netCDF file *)
    (2, [(4, Yes); (3, Yes)]);
    (3, [(5, Yes); (6, Yes); (3, Yes)]) ].
Definition w_acc := acc_of w_tbl.

Lemma history_refuted_w :
  impl_results w_acc w_reg [Auto 3 1; Auto 9 0] = [Selected 2; Selected 2]
  /\ spec_results w_acc w_reg [Auto 3 1; Auto 9 0] = [Selected 2; Selected 0].
Proof. vm_compute. split; reflexivity. Qed.

Lemma history_breaks_open_w :
  impl_results w_acc w_reg [Auto 5 2; Auto 9 1] = [Selected 4; Raised 0]
  /\ spec_results w_acc w_reg [Auto 5 2; Auto 9 1] = [Selected 4; Selected 0].
Proof. vm_compute. split; reflexivity. Qed.

Lemma registry_unchanged_refuted_w :
  length (impl_final w_acc w_reg [Auto 3 1; Auto 3 1; Auto 3 1]) = 11 /\ length w_reg = 8.
Proof. vm_compute. split; reflexivity. Qed.

Lemma auto_equals_named_refuted_w :
  lookup_last 6 w_reg = Some 6 /\ w_acc 6 3 = Yes
  /\ fresh_result w_acc w_reg (Named 6 3) = Selected 6
  /\ fresh_result w_acc w_reg (Auto 9 3) = Selected 5.
Proof. vm_compute. repeat split; reflexivity. Qed.

Lemma history_independent_refuted : exists acc reg h,
  impl_results acc reg h <> spec_results acc reg h.
Proof.
  exists w_acc, w_reg, [Auto 3 1; Auto 9 0].
  destruct history_refuted_w as [-> ->]. discriminate.
Qed.

Lemma history_breaks_open_refuted : exists acc reg h r e,
  nth 1 (spec_results acc reg h) NoResult = Selected r
  /\ nth 1 (impl_results acc reg h) NoResult = Raised e.
Proof.
  exists w_acc, w_reg, [Auto 5 2; Auto 9 1], 0, 0.
  destruct history_breaks_open_w as [-> ->]. split; reflexivity.
Qed.

Lemma registry_unchanged_refuted : exists acc reg h, impl_final acc reg h <> reg.
Proof.
  exists w_acc, w_reg, [Auto 3 1; Auto 3 1; Auto 3 1]. intros E.
  pose proof registry_unchanged_refuted_w as [H1 H2]. rewrite E in H1. rewrite H2 in H1. discriminate.
Qed.

Lemma auto_equals_named_refuted : exists acc reg n r f noext r',
  lookup_last n reg = Some r /\ acc r f = Yes
  /\ fresh_result acc reg (Named n f) = Selected r
  /\ fresh_result acc reg (Auto noext f) = Selected r' /\ r' <> r.
Proof.
  exists w_acc, w_reg, 6, 6, 3, 9, 5.
  destruct auto_equals_named_refuted_w as (A & B & C & D). repeat split; auto; try discriminate.
Qed.
