(* Lemmas for C15 (Model/Registry.v) — the repaired getreader (`_myreaders = list(_readers)`). *)
From PNC Require Import Base.Util Model.Registry Gen.RegistrySrc.

Lemma result_eqb_eq a b : result_eqb a b = true -> a = b.
Proof.
  destruct a, b; simpl; intros H; try discriminate; try reflexivity;
    apply Nat.eqb_eq in H; subst; reflexivity.
Qed.

Lemma result_eqb_refl a : result_eqb a a = true.
Proof. destruct a; simpl; auto using Nat.eqb_refl. Qed.

Lemma lookup_last_In n reg r : lookup_last n reg = Some r -> In (n, r) reg.
Proof.
  induction reg as [|[k r'] t IH]; simpl; try discriminate.
  destruct (lookup_last n t) eqn:E.
  - intros H. injection H as ->. right. auto.
  - destruct (Nat.eqb k n) eqn:Ek; try discriminate.
    intros H. injection H as ->. apply Nat.eqb_eq in Ek. subst. left. reflexivity.
Qed.

(* ---- getreader / pncopen never change the registry ------------------------------------------- *)
Lemma step_pure acc reg s : fst (impl_step acc reg s) = reg.
Proof. destruct s; reflexivity. Qed.

Lemma impl_final_cons acc reg s t :
  impl_final acc reg (s :: t) = impl_final acc (fst (impl_step acc reg s)) t.
Proof.
  unfold impl_final. simpl. destruct (impl_step acc reg s) as [reg' r]. simpl.
  destruct (impl_run acc reg' t). reflexivity.
Qed.

Lemma impl_results_cons acc reg s t :
  impl_results acc reg (s :: t)
  = snd (impl_step acc reg s) :: impl_results acc (fst (impl_step acc reg s)) t.
Proof.
  unfold impl_results. simpl. destruct (impl_step acc reg s) as [reg' r]. simpl.
  destruct (impl_run acc reg' t). reflexivity.
Qed.

Lemma registry_unchanged acc reg h : impl_final acc reg h = reg.
Proof.
  revert reg; induction h as [|s t IH]; intros reg; [reflexivity|].
  rewrite impl_final_cons, step_pure. apply IH.
Qed.

Lemma registry_length_steps acc reg h :
  map snd (snd (impl_run acc reg h)) = map (fun _ => length reg) h.
Proof.
  revert reg; induction h as [|s t IH]; intros reg; [reflexivity|].
  simpl. pose proof (step_pure acc reg s) as P.
  destruct (impl_step acc reg s) as [reg' r]. simpl in P. subst reg'.
  specialize (IH reg). destruct (impl_run acc reg t). simpl in *. f_equal. exact IH.
Qed.

Lemma history_independent acc reg h : impl_results acc reg h = spec_results acc reg h.
Proof.
  revert reg; induction h as [|s t IH]; intros reg; [reflexivity|].
  rewrite impl_results_cons, step_pure. unfold spec_results in *. simpl. f_equal. apply IH.
Qed.

Lemma probe_after_history acc reg h s :
  impl_step acc (impl_final acc reg h) s = impl_step acc reg s.
Proof. rewrite registry_unchanged. reflexivity. Qed.

(* ---- a telling extension always wins --------------------------------------------------------- *)
Lemma telling_extension acc reg h e f r :
  lookup_last e reg = Some r -> acc r f = Yes ->
  snd (impl_step acc (impl_final acc reg h) (Auto e f)) = Selected r
  /\ snd (impl_step acc (impl_final acc reg h) (Named e f)) = Selected r.
Proof.
  intros L A. rewrite registry_unchanged. split; simpl.
  - unfold prefer. rewrite L. simpl. rewrite A. reflexivity.
  - unfold named_result. rewrite L. reflexivity.
Qed.

(* ---- a file that only one registered class claims ---------------------------------------------- *)
Lemma first_accepting_sole (a : reader -> outcome) r : forall l,
  (forall kr, In kr l -> is_no (a (snd kr)) = true \/ snd kr = r) ->
  a r = Yes -> (exists k, In (k, r) l) ->
  first_accepting a l = Selected r.
Proof.
  induction l as [|[k r'] l IH]; intros Hall Hr [k0 Hin].
  - destruct Hin.
  - simpl. destruct (Hall (k, r') (or_introl eq_refl)) as [Hno|Heq]; cbn [snd] in *.
    + destruct (a r') eqn:E; try discriminate.
      apply IH; [ | exact Hr | ].
      * intros kr Hk. apply Hall. right. exact Hk.
      * destruct Hin as [Hin|Hin].
        -- injection Hin as _ ->. congruence.
        -- exists k0. exact Hin.
    + subst r'. rewrite Hr. reflexivity.
Qed.

Lemma sole_claimant_any_history acc reg h e f r :
  sole_claimant acc reg r f = true ->
  snd (impl_step acc (impl_final acc reg h) (Auto e f)) = Selected r.
Proof.
  rewrite registry_unchanged. unfold sole_claimant. intros H.
  apply andb_true_iff in H as [H H3]. apply andb_true_iff in H as [H1 H2].
  destruct (acc r f) eqn:A; try discriminate.
  apply existsb_exists in H2 as [[k0 r0] [Hin0 Heq0]]. simpl in Heq0. apply Nat.eqb_eq in Heq0. subst r0.
  rewrite forallb_forall in H3.
  assert (Hreg : forall kr, In kr reg -> is_no (acc (snd kr) f) = true \/ snd kr = r).
  { intros kr Hk. specialize (H3 kr Hk). apply orb_true_iff in H3 as [H3|H3]; auto.
    right. apply Nat.eqb_eq. exact H3. }
  simpl. apply (first_accepting_sole (fun r0 => acc r0 f)); auto.
  - intros kr Hk. apply Hreg. unfold prefer in Hk.
    destruct (lookup_last e reg) eqn:L; auto.
    destruct Hk as [<-|Hk]; auto. apply lookup_last_In. exact L.
  - exists k0. unfold prefer. destruct (lookup_last e reg); [right|]; exact Hin0.
Qed.

(* clause 2 on the unambiguous files: auto-detected reader = explicitly named reader, after any history *)
Lemma auto_equals_named_sole acc reg h e n f r :
  sole_claimant acc reg r f = true -> lookup_last n reg = Some r ->
  snd (impl_step acc (impl_final acc reg h) (Auto e f))
  = snd (impl_step acc (impl_final acc reg h) (Named n f)).
Proof.
  intros S L. rewrite (sole_claimant_any_history acc reg h e f r S).
  rewrite registry_unchanged. simpl. unfold named_result. rewrite L. reflexivity.
Qed.

(* ---- concrete witness (a miniature of the real registry) ---------------------------------------
   names  : 0 gcnc, 1 ioapi, 2 netcdf, 3 nc, 4 Dataset, 5 uamiv, 6 humidity, 7 vertical_diffusivity, 9 '' (no suffix)
   readers: 0 gcnc, 1 ioapi, 2 netcdf, 3 Dataset (no isMine), 4 uamiv, 5 vertical_diffusivity, 6 humidity
   files  : 0 IOAPI netCDF file, 1 plain netCDF file, 2 uamiv file, 3 humidity file (one3d layout)          *)
Definition w_reg : registry :=
  [(0, 0); (7, 5); (5, 4); (1, 1); (6, 6); (3, 2); (2, 2); (4, 3)].
Definition w_tbl : list (file * list (reader * outcome)) :=
  [ (0, [(0, Yes); (1, Yes); (2, Yes); (3, Yes)]);
    (1, [(0, Yes); (2, Yes); (3, Yes)]);
    (2, [(4, Yes); (3, Yes)]);
    (3, [(5, Yes); (6, Yes); (3, Yes)]) ].
Definition w_acc := acc_of w_tbl.

Lemma auto_equals_named_refuted_w :
  lookup_last 6 w_reg = Some 6 /\ w_acc 6 3 = Yes
  /\ fresh_result w_acc w_reg (Named 6 3) = Selected 6
  /\ fresh_result w_acc w_reg (Auto 9 3) = Selected 5.
Proof. vm_compute. repeat split; reflexivity. Qed.

Lemma auto_equals_named_refuted : exists acc reg n r f noext r',
  lookup_last n reg = Some r /\ acc r f = Yes
  /\ fresh_result acc reg (Named n f) = Selected r
  /\ fresh_result acc reg (Auto noext f) = Selected r' /\ r' <> r.
Proof.
  exists w_acc, w_reg, 6, 6, 3, 9, 5.
  destruct auto_equals_named_refuted_w as (A & B & C & D). repeat split; auto; try discriminate.
Qed.

(* ---- tie T: the step read off the source text is the model's step ------------------------------------------ *)
Lemma source_is_model acc reg s : generic_step src_getreader acc reg s = impl_step acc reg s.
Proof. destruct s as [e f|n f]; reflexivity. Qed.

Lemma source_register_is_model reg n r : generic_register src_getreader reg n r = impl_register reg n r.
Proof. unfold generic_register, impl_register. simpl. destruct (known n reg); reflexivity. Qed.

(* ---- "first reader whose isMine accepts wins": relational specification of the loop ------------------------- *)
Lemma first_accepting_selected (a : reader -> outcome) r : forall l,
  first_accepting a l = Selected r <->
  exists pre k post, l = pre ++ (k, r) :: post /\ (forall kr, In kr pre -> a (snd kr) = No) /\ a r = Yes.
Proof.
  induction l as [|[k0 r0] l IH]; simpl.
  - split; [discriminate|]. intros (pre & k & post & E & _). destruct pre; discriminate.
  - destruct (a r0) eqn:A0.
    + rewrite IH. split.
      * intros (pre & k & post & -> & Hp & Hr). exists ((k0, r0) :: pre), k, post. split; [reflexivity|]. split; auto.
        intros kr [<-|H]; auto.
      * intros (pre & k & post & E & Hp & Hr). destruct pre as [|p pre]; simpl in E.
        -- inversion E; subst. congruence.
        -- inversion E; subst. exists pre, k, post. split; [reflexivity|]. split; auto. intros kr H. apply Hp. right. exact H.
    + split.
      * intros H. injection H as ->. exists [], k0, l. split; [reflexivity|]. split; auto. intros kr [].
      * intros (pre & k & post & E & Hp & Hr). destruct pre as [|p pre]; simpl in E.
        -- inversion E; subst. reflexivity.
        -- inversion E; subst. specialize (Hp (k0, r0) (or_introl eq_refl)). simpl in Hp. congruence.
    + split; [discriminate|].
      intros (pre & k & post & E & Hp & Hr). destruct pre as [|p pre]; simpl in E.
      * inversion E; subst. congruence.
      * inversion E; subst. specialize (Hp (k0, r0) (or_introl eq_refl)). simpl in Hp. congruence.
Qed.

Lemma first_accepting_raised (a : reader -> outcome) e : forall l,
  first_accepting a l = Raised e <->
  exists pre k r post, l = pre ++ (k, r) :: post /\ (forall kr, In kr pre -> a (snd kr) = No) /\ a r = Raise e.
Proof.
  induction l as [|[k0 r0] l IH]; simpl.
  - split; [discriminate|]. intros (pre & k & r & post & E & _). destruct pre; discriminate.
  - destruct (a r0) eqn:A0.
    + rewrite IH. split.
      * intros (pre & k & r & post & -> & Hp & Hr). exists ((k0, r0) :: pre), k, r, post. split; [reflexivity|]. split; auto.
        intros kr [<-|H]; auto.
      * intros (pre & k & r & post & E & Hp & Hr). destruct pre as [|p pre]; simpl in E.
        -- inversion E; subst. congruence.
        -- inversion E; subst. exists pre, k, r, post. split; [reflexivity|]. split; auto. intros kr H. apply Hp. right. exact H.
    + split; [discriminate|].
      intros (pre & k & r & post & E & Hp & Hr). destruct pre as [|p pre]; simpl in E.
      * inversion E; subst. congruence.
      * inversion E; subst. specialize (Hp (k0, r0) (or_introl eq_refl)). simpl in Hp. congruence.
    + split.
      * intros H. injection H as ->. exists [], k0, r0, l. split; [reflexivity|]. split; auto. intros kr [].
      * intros (pre & k & r & post & E & Hp & Hr). destruct pre as [|p pre]; simpl in E.
        -- inversion E; subst. congruence.
        -- inversion E; subst. specialize (Hp (k0, r0) (or_introl eq_refl)). simpl in Hp. congruence.
Qed.

(* second clause, exact: auto-detection selects the named reader iff that reader is the first claimant of the
   preference list *)
Lemma auto_is_named_iff acc reg h e n f r :
  lookup_last n reg = Some r ->
  (snd (impl_step acc (impl_final acc reg h) (Auto e f)) = snd (impl_step acc (impl_final acc reg h) (Named n f))
   <-> exists pre k post, prefer reg e = pre ++ (k, r) :: post
                          /\ (forall kr, In kr pre -> acc (snd kr) f = No) /\ acc r f = Yes).
Proof.
  intros L. rewrite registry_unchanged. simpl. unfold named_result. rewrite L.
  apply (first_accepting_selected (fun r0 => acc r0 f)).
Qed.

(* ---- registration -------------------------------------------------------------------------------------------- *)
Lemma known_lookup_last n reg : known n reg = true <-> lookup_last n reg <> None.
Proof.
  induction reg as [|[k r] t IH]; simpl.
  - split; [discriminate | congruence].
  - destruct (lookup_last n t) eqn:E.
    + split; [discriminate|]. intros _. apply orb_true_iff. right. apply IH. discriminate.
    + destruct (Nat.eqb k n) eqn:Ek; simpl.
      * split; [discriminate | auto].
      * rewrite IH. reflexivity.
Qed.

Lemma register_keeps_lookup reg n r m :
  lookup_last m reg <> None \/ m <> n -> lookup_last m (impl_register reg n r) = lookup_last m reg.
Proof.
  intros H. unfold impl_register. destruct (known n reg) eqn:K; auto. simpl.
  destruct (lookup_last m reg) eqn:E; auto.
  destruct (Nat.eqb n m) eqn:Enm; auto. apply Nat.eqb_eq in Enm. subst m.
  destruct H as [H|H]; congruence.
Qed.

Lemma register_new_name reg n r : known n reg = false -> lookup_last n (impl_register reg n r) = Some r.
Proof.
  intros K. unfold impl_register. rewrite K. simpl.
  destruct (lookup_last n reg) eqn:E.
  - exfalso. assert (known n reg = true) by (apply known_lookup_last; congruence). congruence.
  - rewrite Nat.eqb_refl. reflexivity.
Qed.

Lemma register_nodup reg n r : nodup_names reg = true -> nodup_names (impl_register reg n r) = true.
Proof.
  intros H. unfold impl_register. destruct (known n reg) eqn:K; auto. simpl. rewrite K. exact H.
Qed.

Lemma register_idempotent reg n r r' : impl_register (impl_register reg n r) n r' = impl_register reg n r.
Proof.
  unfold impl_register. destruct (known n reg) eqn:K.
  - rewrite K. reflexivity.
  - simpl. rewrite Nat.eqb_refl. reflexivity.
Qed.

(* with distinct names dict(_readers)[n] is the only pair named n: first and last lookup agree *)
Lemma nodup_lookup_first_last reg n : nodup_names reg = true -> lookup_last n reg = lookup_first n reg.
Proof.
  induction reg as [|[k r] t IH]; simpl; auto. intros H. apply andb_true_iff in H as [H1 H2].
  specialize (IH H2). destruct (Nat.eqb k n) eqn:E.
  - apply Nat.eqb_eq in E. subst k. apply negb_true_iff in H1.
    destruct (lookup_last n t) eqn:F; auto. exfalso.
    assert (K : known n t = true). { apply known_lookup_last. rewrite F. discriminate. }
    congruence.
  - rewrite IH. destruct (lookup_first n t); reflexivity.
Qed.

Lemma class_created_nodup reg s l c : nodup_names reg = true -> nodup_names (impl_class_created reg s l c) = true.
Proof. intros H. unfold impl_class_created. apply register_nodup, register_nodup, H. Qed.
