From PNC Require Import Base.Util Base.Words Gen.Camx Model.CamxMet.
Local Open Scope Z_scope.

(* every pad the met / boundary writers compute (translated from the source) is the Fortran marker of
   the record payload the format prescribes — for all grid sizes *)
Lemma met_pads :
  (forall nr nc t d data, Z.of_nat (length data) = nr * nc -> tw_nelem nr nc = marker (met_rec t d data)) /\
  (forall n t d data, Z.of_nat (length data) = n -> ow_buf n = marker (met_rec t d data)) /\
  (forall n t d data, Z.of_nat (length data) = n -> hw_buf n = marker (met_rec t d data)) /\
  (forall t d l, ww_buf_hdr = marker (wind_hdr_rec t d l)) /\
  (forall n data, Z.of_nat (length data) = n -> ww_buf_data n = marker data) /\
  (forall nb ie cells, Z.of_nat (length cells) = 4 * nb -> lw_buf_edge nb = marker (lb_edge_rec ie nb cells)) /\
  (forall n name ie data, length name = 10%nat -> Z.of_nat (length data) = n ->
                          lw_buf_data n = marker (lb_data_rec name ie data)).
Proof.
  unfold tw_nelem, ow_buf, hw_buf, ww_buf_hdr, ww_buf_data, lw_buf_edge, lw_buf_data, marker,
    met_rec, wind_hdr_rec, lb_edge_rec, lb_data_rec.
  repeat split; intros; cbn [length]; rewrite ?app_length; cbn [length]; lia.
Qed.
