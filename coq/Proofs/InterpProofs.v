(* Lemmas for C17 (interpolation weights, conservative regridding). *)
From PNC Require Import Base.Util Model.Interp.
Local Open Scope Z_scope.

Lemma asc_cons a b l : asc (a :: b :: l) = true <-> a < b /\ asc (b :: l) = true.
Proof.
  unfold asc. cbn [diffs forallb]. rewrite andb_true_iff, Z.ltb_lt.
  split; intros [H1 H2]; split; auto; lia.
Qed.

Lemma sumZ_repeat0 n : sumZ (repeat 0 n) = 0.
Proof. induction n; cbn [repeat sumZ]; lia. Qed.
Lemma dot_repeat0 n l : dot (repeat 0 n) l = 0.
Proof. revert l; induction n; intros [|y l]; cbn [repeat dot]; auto. rewrite IHn. lia. Qed.

Lemma hat_cons3 x x0 x1 x2 t :
  hat x (x0 :: x1 :: x2 :: t) =
  if x <=? x1 then ((x1 - x) :: (x - x0) :: repeat 0 (length (x2 :: t)), x1 - x0)
  else let (w, d) := hat x (x1 :: x2 :: t) in (0 :: w, d).
Proof. reflexivity. Qed.

(* partition of unity, positive denominator, shape, and exactness on f(x) = x, for EVERY x
   (also when extrapolating) *)
Lemma hat_props : forall xs x, asc xs = true -> (2 <= length xs)%nat ->
  sumZ (fst (hat x xs)) = snd (hat x xs) /\ 0 < snd (hat x xs)
  /\ length (fst (hat x xs)) = length xs /\ dot (fst (hat x xs)) xs = snd (hat x xs) * x.
Proof.
  induction xs as [|x0 t IH]; intros x Ha Hl; [simpl in Hl; lia|].
  destruct t as [|x1 t']; [simpl in Hl; lia|].
  apply asc_cons in Ha as [H01 Ha].
  destruct t' as [|x2 t''].
  - cbn [hat fst snd sumZ length dot]. repeat split; try lia; try ring.
  - rewrite hat_cons3. destruct (x <=? x1) eqn:E.
    + cbn [fst snd sumZ dot]. rewrite sumZ_repeat0, dot_repeat0. cbn [length]. rewrite repeat_length.
      repeat split; try lia; try ring.
    + destruct (IH x Ha) as (H1 & H2 & H3 & H4); [cbn [length]; lia|].
      destruct (hat x (x1 :: x2 :: t'')) as [w d]. cbn [fst snd] in *.
      cbn [sumZ length dot] in *. repeat split; try lia.
Qed.

Lemma Forall_repeat0 n : Forall (fun w => 0 <= w) (repeat 0 n).
Proof. induction n; cbn [repeat]; constructor; auto; lia. Qed.

(* inside the source range no weight is negative *)
Lemma hat_nonneg : forall xs x, asc xs = true -> (2 <= length xs)%nat ->
  hd 0 xs <= x <= last xs 0 -> Forall (fun w => 0 <= w) (fst (hat x xs)).
Proof.
  induction xs as [|x0 t IH]; intros x Ha Hl Hx; [simpl in Hl; lia|].
  destruct t as [|x1 t']; [simpl in Hl; lia|].
  apply asc_cons in Ha as [H01 Ha].
  destruct t' as [|x2 t''].
  - cbn [hat fst hd last] in *. repeat constructor; lia.
  - rewrite hat_cons3. destruct (x <=? x1) eqn:E.
    + apply Z.leb_le in E. cbn [fst hd] in *. constructor; [lia|]. constructor; [lia|].
      apply Forall_repeat0.
    + apply Z.leb_gt in E.
      assert (IH' := IH x Ha ltac:(cbn [length]; lia)).
      change (last (x0 :: x1 :: x2 :: t'') 0) with (last (x1 :: x2 :: t'') 0) in Hx.
      specialize (IH' ltac:(cbn [hd]; lia)).
      destruct (hat x (x1 :: x2 :: t'')) as [w d]. cbn [fst] in *. constructor; [lia | exact IH'].
Qed.

Lemma max0_id l : Forall (fun w => 0 <= w) l -> map (Z.max 0) l = l.
Proof. induction 1; cbn [map]; f_equal; auto; lia. Qed.
Lemma sum_max0_ge l : sumZ l <= sumZ (map (Z.max 0) l).
Proof. induction l as [|a l IH]; [cbn; lia|]. cbn [map sumZ]. pose proof (Z.le_max_r 0 a). lia. Qed.
Lemma Forall_max0 l : Forall (fun w => 0 <= w) (map (Z.max 0) l).
Proof. induction l; cbn [map]; constructor; auto; lia. Qed.

Lemma asc_not_desc xs : asc xs = true -> (2 <= length xs)%nat -> desc xs = false.
Proof.
  destruct xs as [|a [|b l]]; cbn [length]; try lia. intros H _.
  apply asc_cons in H as [H _]. unfold desc. cbn [diffs forallb].
  replace (b - a <? 0) with false; [reflexivity|]. symmetry; apply Z.ltb_ge; lia.
Qed.

Lemma impl_weights_asc e xs x : asc xs = true -> (2 <= length xs)%nat ->
  impl_weights e xs x =
  if e then Some (fst (hat x xs), snd (hat x xs))
  else Some (map (Z.max 0) (fst (hat x xs)), sumZ (map (Z.max 0) (fst (hat x xs)))).
Proof.
  intros Ha Hl. unfold impl_weights, impl_weights_gen. rewrite (asc_not_desc _ Ha Hl).
  destruct xs as [|a [|b l]]; cbn [length] in Hl; try lia.
  destruct (hat x (a :: b :: l)) as [w d]. destruct e; reflexivity.
Qed.

Lemma weights_sum_one e xs x w d : asc xs = true -> (2 <= length xs)%nat ->
  impl_weights e xs x = Some (w, d) -> sumZ w = d /\ 0 < d /\ length w = length xs.
Proof.
  intros Ha Hl H. rewrite impl_weights_asc in H by auto.
  destruct (hat_props xs x Ha Hl) as (H1 & H2 & H3 & _).
  destruct e; injection H as <- <-; repeat split; auto.
  - pose proof (sum_max0_ge (fst (hat x xs))). lia.
  - rewrite map_length. auto.
Qed.

Lemma weights_nonneg xs x w d : asc xs = true -> (2 <= length xs)%nat ->
  impl_weights false xs x = Some (w, d) -> Forall (fun n => 0 <= n) w.
Proof.
  intros Ha Hl H. rewrite impl_weights_asc in H by auto. injection H as <- <-. apply Forall_max0.
Qed.

Lemma dot_affine a b : forall w xs, length w = length xs ->
  dot w (map (fun c => a * c + b) xs) = a * dot w xs + b * sumZ w.
Proof.
  induction w as [|n w IH]; intros [|c xs] H; cbn [map dot sumZ length] in *; try lia.
  rewrite IH by lia. ring.
Qed.

(* any linear profile a*x + b is reproduced exactly: always when extrapolating, and for x
   inside the source range when not *)
Lemma weights_linear_exact e xs x w d a b : asc xs = true -> (2 <= length xs)%nat ->
  (e = true \/ hd 0 xs <= x <= last xs 0) ->
  impl_weights e xs x = Some (w, d) ->
  dot w (map (fun c => a * c + b) xs) = d * (a * x + b).
Proof.
  intros Ha Hl Hr H. rewrite impl_weights_asc in H by auto.
  destruct (hat_props xs x Ha Hl) as (H1 & H2 & H3 & H4).
  assert (Hraw : dot (fst (hat x xs)) (map (fun c => a * c + b) xs) = snd (hat x xs) * (a * x + b)).
  { rewrite dot_affine by auto. rewrite H4, H1. ring. }
  destruct e.
  - injection H as <- <-. exact Hraw.
  - destruct Hr as [Hr | Hr]; [discriminate|].
    rewrite (max0_id _ (hat_nonneg xs x Ha Hl Hr)) in H. injection H as <- <-.
    rewrite H1. exact Hraw.
Qed.

(* ---- conservative regridding: algebra of the overlap matrix -------------------------------- *)
Lemma zipadd_map c : forall a b, zipadd (map (Z.mul c) a) (map (Z.mul c) b) = map (Z.mul c) (zipadd a b).
Proof. induction a as [|x a IH]; intros [|y b]; cbn [map zipadd]; auto. rewrite IH. f_equal. ring. Qed.
Lemma map_mul_repeat0 c n : map (Z.mul c) (repeat 0 n) = repeat 0 n.
Proof. induction n; cbn [repeat map]; auto. rewrite IHn. f_equal. ring. Qed.

Lemma colsums_const c n : forall m,
  colsums n (scale_rows (repeat c (length m)) m) = map (Z.mul c) (colsums n m).
Proof.
  induction m as [|r m IH]; cbn [length repeat scale_rows combine map colsums].
  - symmetry. apply map_mul_repeat0.
  - unfold scale_rows in IH. cbn [fst snd]. rewrite IH. apply zipadd_map.
Qed.

Lemma sumZ_zipadd : forall a b, length a = length b -> sumZ (zipadd a b) = sumZ a + sumZ b.
Proof.
  induction a as [|x a IH]; intros [|y b] H; cbn [zipadd sumZ length] in *; try lia.
  rewrite IH by lia. lia.
Qed.
Lemma zipadd_length : forall a b, length a = length b -> length (zipadd a b) = length a.
Proof. induction a as [|x a IH]; intros [|y b] H; cbn [zipadd length] in *; try lia. rewrite IH; lia. Qed.
Lemma colsums_length n : forall m, Forall (fun r => length r = n) m -> length (colsums n m) = n.
Proof.
  induction m as [|r m IH]; intros H; cbn [colsums]; [apply repeat_length|].
  inversion H; subst. rewrite zipadd_length; auto. rewrite IH; auto.
Qed.
Lemma sumZ_scale c l : sumZ (map (Z.mul c) l) = c * sumZ l.
Proof. induction l; cbn [map sumZ]; lia. Qed.

Lemma colsums_total n : forall m v, Forall (fun r => length r = n) m -> length v = length m ->
  sumZ (colsums n (scale_rows v m)) = dot v (map sumZ m).
Proof.
  induction m as [|r m IH]; intros [|c v] Hr Hl; cbn [length] in Hl; try lia.
  - cbn. apply sumZ_repeat0.
  - inversion Hr; subst. unfold scale_rows. cbn [combine map colsums fst snd dot].
    rewrite sumZ_zipadd.
    + rewrite sumZ_scale. f_equal. apply IH; auto.
    + rewrite map_length. symmetry. apply colsums_length.
      clear - H2. unfold scale_rows.
      revert v. induction m as [|r' m IHm]; intros v; destruct v; cbn [combine map]; constructor.
      * inversion H2; subst. cbn [snd]. rewrite map_length. auto.
      * inversion H2; subst. apply IHm; auto.
Qed.

(* ---- identity when the target point is a source point --------------------------------------- *)
Lemma asc_tail a l : asc (a :: l) = true -> asc l = true.
Proof. destruct l; [reflexivity | intros H; apply asc_cons in H; tauto]. Qed.
Lemma asc_lt_tail : forall l a, asc (a :: l) = true -> Forall (fun c => a < c) l.
Proof.
  induction l as [|b l IH]; intros a H; constructor.
  - apply asc_cons in H; tauto.
  - apply asc_cons in H as [H1 H2]. apply IH in H2.
    eapply Forall_impl; [|exact H2]. cbv beta; intros; lia.
Qed.

Lemma hat_knot : forall xs k, asc xs = true -> (2 <= length xs)%nat -> (k < length xs)%nat ->
  fst (hat (nth k xs 0) xs) = unitv k (length xs) (snd (hat (nth k xs 0) xs)).
Proof.
  induction xs as [|x0 t IH]; intros k Ha Hl Hk; [simpl in Hl; lia|].
  destruct t as [|x1 t']; [simpl in Hl; lia|].
  pose proof (asc_lt_tail _ _ Ha) as Hgt.
  apply asc_cons in Ha as [H01 Ha].
  destruct t' as [|x2 t''].
  - destruct k as [|[|k]]; cbn [length] in Hk; try lia; cbn [nth hat fst snd unitv repeat length];
      repeat f_equal; lia.
  - rewrite hat_cons3. destruct k as [|[|k]].
    + cbn [nth]. replace (x0 <=? x1) with true by (symmetry; apply Z.leb_le; lia).
      cbn [fst snd length unitv repeat]. repeat f_equal; lia.
    + cbn [nth]. rewrite Z.leb_refl. cbn [fst snd length unitv repeat]. repeat f_equal; lia.
    + assert (Hx : x1 < nth (S (S k)) (x0 :: x1 :: x2 :: t'') 0).
      { change (nth (S (S k)) (x0 :: x1 :: x2 :: t'') 0) with (nth k (x2 :: t'') 0).
        pose proof (asc_lt_tail _ _ Ha) as F. rewrite Forall_forall in F.
        apply F. apply (nth_In (x2 :: t'') 0). cbn [length] in Hk |- *. lia. }
      replace (nth (S (S k)) (x0 :: x1 :: x2 :: t'') 0 <=? x1) with false
        by (symmetry; apply Z.leb_gt; lia).
      change (nth (S (S k)) (x0 :: x1 :: x2 :: t'') 0) with (nth (S k) (x1 :: x2 :: t'') 0).
      specialize (IH (S k) Ha ltac:(cbn [length]; lia) ltac:(cbn [length] in *; lia)).
      destruct (hat (nth (S k) (x1 :: x2 :: t'') 0) (x1 :: x2 :: t'')) as [w d].
      cbn [fst snd] in *. rewrite IH. reflexivity.
Qed.

Lemma Forall_unitv : forall n k d, 0 <= d -> Forall (fun w => 0 <= w) (unitv k n d).
Proof.
  induction n as [|n IH]; intros k d Hd; [destruct k; constructor|]. cbn [unitv].
  destruct k; constructor; auto; try lia. apply Forall_repeat0.
Qed.
Lemma sumZ_unitv : forall n k d, (k < n)%nat -> sumZ (unitv k n d) = d.
Proof.
  induction n as [|n IH]; intros k d H; [lia|]. destruct k.
  - change (unitv 0 (S n) d) with (d :: repeat 0 n). change (sumZ (d :: repeat 0 n)) with (d + sumZ (repeat 0 n)).
    rewrite sumZ_repeat0. lia.
  - change (unitv (S k) (S n) d) with (0 :: unitv k n d).
    change (sumZ (0 :: unitv k n d)) with (0 + sumZ (unitv k n d)). rewrite IH by lia. lia.
Qed.

Lemma weights_identity e xs k w d : asc xs = true -> (2 <= length xs)%nat -> (k < length xs)%nat ->
  impl_weights e xs (nth k xs 0) = Some (w, d) -> w = unitv k (length xs) d /\ 0 < d.
Proof.
  intros Ha Hl Hk H. rewrite impl_weights_asc in H by auto.
  pose proof (hat_knot xs k Ha Hl Hk) as Hu.
  destruct (hat_props xs (nth k xs 0) Ha Hl) as (H1 & H2 & H3 & _).
  destruct e; injection H as <- <-; [split; auto|].
  rewrite Hu. rewrite max0_id by (apply Forall_unitv; lia).
  rewrite sumZ_unitv by auto. split; auto.
Qed.

(* ==== descending sources: interp1d sorts, i.e. the model reverses ============================ *)
Lemma desc_cons a b l : desc (a :: b :: l) = true <-> b < a /\ desc (b :: l) = true.
Proof.
  unfold desc. cbn [diffs forallb]. rewrite andb_true_iff, Z.ltb_lt.
  split; intros [H1 H2]; split; auto; lia.
Qed.
Lemma last_cons2 (a b : Z) l : last (a :: b :: l) 0 = last (b :: l) 0.
Proof. reflexivity. Qed.
Lemma asc_snoc : forall l a, asc l = true -> (l <> [] -> last l 0 < a) -> asc (l ++ [a]) = true.
Proof.
  induction l as [|b l IH]; intros a Ha Hl; [reflexivity|].
  destruct l as [|c l].
  - cbn [app]. apply asc_cons. split; [apply Hl; congruence | reflexivity].
  - apply asc_cons in Ha as [Hbc Ha]. change ((b :: c :: l) ++ [a]) with (b :: (c :: (l ++ [a]))).
    apply asc_cons. split; [exact Hbc|]. apply (IH a Ha). intros _. rewrite last_cons2 in Hl.
    apply Hl. congruence.
Qed.
Lemma last_rev (l : list Z) : last (rev l) 0 = hd 0 l.
Proof. destruct l as [|a l]; [reflexivity|]. cbn [rev hd]. apply last_last. Qed.
Lemma hd_rev : forall (l : list Z), hd 0 (rev l) = last l 0.
Proof.
  induction l as [|a l IH]; [reflexivity|]. cbn [rev]. destruct l as [|b l]; [reflexivity|].
  rewrite last_cons2, <- IH. destruct (rev (b :: l)) eqn:E; [|reflexivity].
  apply (f_equal (@length Z)) in E. rewrite rev_length in E. discriminate.
Qed.
Lemma desc_rev_asc : forall l, desc l = true -> asc (rev l) = true.
Proof.
  induction l as [|a l IH]; intros H; [reflexivity|]. cbn [rev].
  destruct l as [|b l]; [reflexivity|].
  apply desc_cons in H as [Hba H]. apply asc_snoc; [apply IH; exact H|].
  intros _. rewrite last_rev. cbn [hd]. exact Hba.
Qed.

Lemma asc_hd_le_last l : asc l = true -> hd 0 l <= last l 0.
Proof.
  destruct l as [|a l]; [cbn; lia|]. intros H. destruct l as [|b l]; [cbn; lia|].
  pose proof (asc_lt_tail _ _ H) as F. rewrite Forall_forall in F. cbn [hd]. rewrite last_cons2.
  apply Z.lt_le_incl, F.
  rewrite (app_removelast_last 0 (l := b :: l)) at 2 by congruence.
  apply in_or_app. right. left. reflexivity.
Qed.

Lemma sumZ_app a b : sumZ (a ++ b) = sumZ a + sumZ b.
Proof. induction a; cbn [app sumZ]; lia. Qed.
Lemma sumZ_rev l : sumZ (rev l) = sumZ l.
Proof. induction l; cbn [rev sumZ]; auto. rewrite sumZ_app. cbn [sumZ]. lia. Qed.
Lemma dot_app : forall a b a' b', length a = length b ->
  dot (a ++ a') (b ++ b') = dot a b + dot a' b'.
Proof.
  induction a as [|x a IH]; intros [|y b] a' b' H; cbn [length] in H; try lia; cbn [app dot]; [lia|].
  rewrite IH by lia. lia.
Qed.
Lemma dot_rev : forall a b, length a = length b -> dot (rev a) (rev b) = dot a b.
Proof.
  induction a as [|x a IH]; intros [|y b] H; cbn [length] in H; try lia; [reflexivity|].
  cbn [rev]. rewrite dot_app by (rewrite !rev_length; lia). rewrite IH by lia. cbn [dot]. lia.
Qed.

Lemma rev_repeat0 n : rev (repeat 0 n) = repeat 0 n.
Proof.
  induction n; [reflexivity|]. cbn [repeat rev]. rewrite IHn. symmetry. apply repeat_cons.
Qed.
Lemma unitv_last : forall n d, unitv n (S n) d = repeat 0 n ++ [d].
Proof. induction n; intros d; [reflexivity|]. change (unitv (S n) (S (S n)) d) with (0 :: unitv n (S n) d). rewrite IHn. reflexivity. Qed.
Lemma unitv_snoc : forall n k d, (k < n)%nat -> unitv k n d ++ [0] = unitv k (S n) d.
Proof.
  induction n as [|n IH]; intros k d H; [lia|]. destruct k as [|k].
  - change (unitv 0 (S n) d) with (d :: repeat 0 n). change (unitv 0 (S (S n)) d) with (d :: repeat 0 (S n)).
    cbn [app]. f_equal. symmetry. apply (repeat_cons n 0).
  - change (unitv (S k) (S n) d) with (0 :: unitv k n d).
    change (unitv (S k) (S (S n)) d) with (0 :: unitv k (S n) d). cbn [app]. f_equal. apply IH. lia.
Qed.
Lemma rev_unitv : forall n k d, (k < n)%nat -> rev (unitv k n d) = unitv (n - 1 - k) n d.
Proof.
  induction n as [|n IH]; intros k d H; [lia|]. destruct k as [|k].
  - change (unitv 0 (S n) d) with (d :: repeat 0 n). cbn [rev]. rewrite rev_repeat0.
    replace (S n - 1 - 0)%nat with n by lia. symmetry. apply unitv_last.
  - change (unitv (S k) (S n) d) with (0 :: unitv k n d). cbn [rev]. rewrite IH by lia.
    replace (S n - 1 - S k)%nat with (n - 1 - k)%nat by lia. apply unitv_snoc. lia.
Qed.

Lemma impl_weights_desc e xs x : desc xs = true -> (2 <= length xs)%nat ->
  impl_weights e xs x =
  if e then Some (rev (fst (hat x (rev xs))), snd (hat x (rev xs)))
  else Some (map (Z.max 0) (rev (fst (hat x (rev xs)))),
             sumZ (map (Z.max 0) (rev (fst (hat x (rev xs)))))).
Proof.
  intros Hd Hl. unfold impl_weights, impl_weights_gen. rewrite Hd.
  destruct xs as [|a [|b l]]; cbn [length] in Hl; try lia.
  destruct (hat x (rev (a :: b :: l))) as [w d]. destruct e; reflexivity.
Qed.


Lemma weights_sum_one_both e xs x w d : mono xs -> (2 <= length xs)%nat ->
  impl_weights e xs x = Some (w, d) -> sumZ w = d /\ 0 < d /\ length w = length xs.
Proof.
  intros [Ha | Hd] Hl H; [eapply weights_sum_one; eauto|].
  rewrite impl_weights_desc in H by auto.
  pose proof (desc_rev_asc _ Hd) as Ha.
  destruct (hat_props (rev xs) x Ha ltac:(rewrite rev_length; lia)) as (H1 & H2 & H3 & _).
  rewrite rev_length in H3.
  destruct e; injection H as <- <-; repeat split; auto.
  - rewrite sumZ_rev. auto.
  - rewrite rev_length. auto.
  - pose proof (sum_max0_ge (rev (fst (hat x (rev xs))))). rewrite sumZ_rev in *. lia.
  - rewrite map_length, rev_length. auto.
Qed.

Lemma weights_nonneg_both xs x w d : mono xs -> (2 <= length xs)%nat ->
  impl_weights false xs x = Some (w, d) -> Forall (fun n => 0 <= n) w.
Proof.
  intros [Ha | Hd] Hl H; [eapply weights_nonneg; eauto|].
  rewrite impl_weights_desc in H by auto. injection H as <- <-. apply Forall_max0.
Qed.

Lemma weights_linear_exact_both e xs x w d a b : mono xs -> (2 <= length xs)%nat ->
  (e = true \/ lo_of xs <= x <= hi_of xs) ->
  impl_weights e xs x = Some (w, d) ->
  dot w (map (fun c => a * c + b) xs) = d * (a * x + b).
Proof.
  unfold lo_of, hi_of. intros [Ha | Hd] Hl Hr H.
  - pose proof (asc_hd_le_last _ Ha).
    apply (weights_linear_exact e xs x w d a b Ha Hl); [|exact H].
    destruct Hr as [Hr | Hr]; [left; auto | right; lia].
  - pose proof (desc_rev_asc _ Hd) as Ha. pose proof (asc_hd_le_last _ Ha) as Hle.
    rewrite hd_rev, last_rev in Hle.
    assert (Hl' : (2 <= length (rev xs))%nat) by (rewrite rev_length; lia).
    rewrite impl_weights_desc in H by auto.
    destruct (hat_props (rev xs) x Ha Hl') as (H1 & H2 & H3 & H4).
    assert (Hraw : dot (rev (fst (hat x (rev xs)))) (map (fun c => a * c + b) xs)
                   = snd (hat x (rev xs)) * (a * x + b)).
    { rewrite <- (rev_involutive xs) at 2. rewrite map_rev, dot_rev by (rewrite map_length; auto).
      rewrite dot_affine by auto. rewrite H4, H1. ring. }
    destruct e.
    + injection H as <- <-. exact Hraw.
    + destruct Hr as [Hr | Hr]; [discriminate|].
      assert (Hnn : Forall (fun n => 0 <= n) (fst (hat x (rev xs)))).
      { apply hat_nonneg; auto. rewrite hd_rev, last_rev. lia. }
      rewrite (max0_id _ (Forall_rev Hnn)) in H. injection H as <- <-.
      rewrite sumZ_rev, H1. exact Hraw.
Qed.

Lemma weights_identity_both e xs k w d : mono xs -> (2 <= length xs)%nat -> (k < length xs)%nat ->
  impl_weights e xs (nth k xs 0) = Some (w, d) -> w = unitv k (length xs) d /\ 0 < d.
Proof.
  intros [Ha | Hd] Hl Hk H; [eapply weights_identity; eauto|].
  pose proof (desc_rev_asc _ Hd) as Ha.
  assert (Hl' : (2 <= length (rev xs))%nat) by (rewrite rev_length; lia).
  rewrite impl_weights_desc in H by auto.
  assert (Hx : nth k xs 0 = nth (length xs - 1 - k) (rev xs) 0).
  { rewrite rev_nth by lia. f_equal. lia. }
  rewrite Hx in H.
  pose proof (hat_knot (rev xs) (length xs - 1 - k) Ha Hl' ltac:(rewrite rev_length; lia)) as Hu.
  destruct (hat_props (rev xs) (nth (length xs - 1 - k) (rev xs) 0) Ha Hl') as (H1 & H2 & H3 & _).
  rewrite rev_length in Hu.
  assert (Hrv : rev (fst (hat (nth (length xs - 1 - k) (rev xs) 0) (rev xs)))
                = unitv k (length xs) (snd (hat (nth (length xs - 1 - k) (rev xs) 0) (rev xs)))).
  { rewrite Hu, rev_unitv by lia. f_equal. lia. }
  destruct e; injection H as <- <-; [split; auto|].
  rewrite Hrv. rewrite max0_id by (apply Forall_unitv; lia).
  rewrite sumZ_unitv by auto. split; auto.
Qed.

Lemma single_level_guarded e x0 x a b :
  impl_weights_gen true e [x0] x = Some ([1], 1)
  /\ sumZ [1] = 1 /\ Forall (fun n => 0 <= n) [1] /\ [1] = unitv 0 1 1
  /\ (x = x0 -> dot [1] (map (fun c => a * c + b) [x0]) = 1 * (a * x + b)).
Proof.
  repeat split; try reflexivity.
  - repeat constructor. lia.
  - intros ->. cbn [map dot]. lia.
Qed.
