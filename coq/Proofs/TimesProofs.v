(* Lemmas for C12 (Model/Times.v on Base/Calendar.v). *)
From PNC Require Import Base.Util Base.Calendar Model.Times.
Local Open Scope Z_scope.
Ltac Zify.zify_post_hook ::= Z.to_euclidean_division_equations.

(* ------------------------------------------------------------ datetimes denote their instant *)
Lemma us_of_dt_fields : forall t, us_of_dt (dt_fields t) = Some t.
Proof.
  intros t. unfold dt_fields.
  pose proof (days_of_civil_of_days (t / us_day)) as H.
  destruct (civil_of_days (t / us_day)) as [[y m] d]. destruct H as [H1 H2].
  unfold us_of_dt. rewrite H2. cbn [andb].
  set (r := t mod us_day).
  assert (Hr : 0 <= r < us_day) by (subst r; apply Z.mod_pos_bound; unfold us_day; lia).
  unfold us_day in *.
  assert (V : valid_tod (r / 3600000000) (r mod 3600000000 / 60000000) (r mod 60000000 / 1000000) = true).
  { unfold valid_tod. repeat (apply andb_true_iff; split); rewrite ?Z.leb_le, ?Z.ltb_lt; lia. }
  rewrite V. cbn [andb].
  assert (U : ((0 <=? r mod 1000000) && (r mod 1000000 <? 1000000)) = true).
  { apply andb_true_iff; split; rewrite ?Z.leb_le, ?Z.ltb_lt; lia. }
  rewrite U. f_equal. rewrite H1. unfold us_sec. subst r. lia.
Qed.

Lemma dt_of_us_sound : forall t l, dt_of_us t = Some l -> us_of_dt l = Some t.
Proof.
  intros t l H. unfold dt_of_us in H. destruct (in_range t); [|discriminate].
  injection H as <-. apply us_of_dt_fields.
Qed.

Lemma all_some_map_sound {A B} (f : A -> option B) (g : B -> option A) :
  (forall a b, f a = Some b -> g b = Some a) ->
  forall l out, all_some (map f l) = Some out -> all_some (map g out) = Some l.
Proof.
  intros Hfg. induction l as [|a l IH]; intros out H; simpl in H.
  - injection H as <-. reflexivity.
  - destruct (f a) as [b|] eqn:E; [|discriminate].
    destruct (all_some (map f l)) as [r|] eqn:E2; [|discriminate].
    injection H as <-. simpl. rewrite (Hfg _ _ E), (IH _ eq_refl). reflexivity.
Qed.

(* whenever a list of instants decodes, the decoded datetimes denote exactly those instants *)
Lemma decode_all_sound : forall ts out, decode_all ts = Some out -> all_some (map us_of_dt out) = Some ts.
Proof. intros ts out H. exact (all_some_map_sound dt_of_us us_of_dt dt_of_us_sound ts out H). Qed.

Lemma decode_all_total : forall ts, forallb in_range ts = true -> exists out, decode_all ts = Some out.
Proof.
  induction ts as [|t ts IH]; intros H; simpl in *.
  - eexists; reflexivity.
  - apply andb_true_iff in H as [H1 H2]. destruct (IH H2) as [o Ho].
    unfold decode_all in *. simpl. unfold dt_of_us at 1. rewrite H1, Ho. eexists; reflexivity.
Qed.

(* ------------------------------------------------------------ CF, standard calendars *)
Lemma cf_std_correct : forall u r vals out,
  impl_cf_std u r vals = Some out ->
  exists ts, spec_cf_std_us u r vals = Some ts /\ all_some (map us_of_dt out) = Some ts.
Proof.
  intros u r vals out H. unfold impl_cf_std in H. unfold spec_cf_std_us.
  destruct (impl_parse r) as [p|]; [|discriminate].
  destruct (unit_us64 u) as [k|]; [|discriminate].
  eexists; split; [reflexivity|]. apply decode_all_sound. exact H.
Qed.

(* ------------------------------------------------------------ TFLAG *)
Lemma jan1_lower : forall y, 1 <= y -> jan1 1 <= jan1 y.
Proof. intros y H. unfold jan1, days_before_year. lia. Qed.
Lemma jan1_upper : forall y, y <= 9999 -> jan1 (y + 1) <= jan1 10000.
Proof. intros y H. unfold jan1, days_before_year. lia. Qed.

Lemma valid_flag_parts : forall f, valid_flag f = true ->
  let '(y, j) := yj_of_yyyyjjj (fst f) in
  1 <= y <= 9999 /\ 1 <= j <= year_len y /\ valid_hhmmss (snd f) = true.
Proof.
  intros [d t] V. unfold valid_flag in V. cbn [fst snd] in *.
  destruct (yj_of_yyyyjjj d) as [y j].
  apply andb_true_iff in V as [V V4]. apply andb_true_iff in V as [V V3].
  apply andb_true_iff in V as [V1 V2]. unfold valid_yj in V3.
  apply andb_true_iff in V3 as [V3 V5]. rewrite Z.leb_le in *. tauto.
Qed.

Lemma flag_us_valid : forall f, valid_flag f = true -> impl_flag_us (fst f) (snd f) = Some (spec_flag_us f).
Proof.
  intros [d t] V. pose proof (valid_flag_parts _ V) as P. cbn [fst snd] in *.
  unfold impl_flag_us, spec_flag_us, sec_of_flag. cbn [fst snd].
  unfold yj_of_yyyyjjj in *. destruct P as [[P1 P2] [P3 P4]].
  assert (Hd : (d =? -635) = false) by (apply Z.eqb_neq; lia).
  rewrite Hd.
  assert (Hy : ((1 <=? d / 1000) && (d / 1000 <=? 9999)) = true)
    by (apply andb_true_iff; split; apply Z.leb_le; lia).
  rewrite Hy. f_equal. unfold days_of_yj, sec_of_hhmmss, hhmmss_h, hhmmss_m, hhmmss_s. lia.
Qed.

Lemma flag_in_range : forall f, valid_flag f = true -> in_range (spec_flag_us f) = true.
Proof.
  intros [d t] V. pose proof (valid_flag_parts _ V) as P. cbn [fst snd] in *.
  unfold spec_flag_us, sec_of_flag. cbn [fst snd]. unfold yj_of_yyyyjjj in *.
  destruct P as [[P1 P2] [P3 P4]]. pose proof (valid_hhmmss_sec t P4) as B.
  set (y := d / 1000) in *. set (j := d mod 1000) in *.
  pose proof (jan1_lower y P1). pose proof (jan1_upper y P2). pose proof (jan1_succ y) as JS.
  unfold in_range, days_of_yj, us_day, us_sec. apply andb_true_iff; split; [apply Z.leb_le|apply Z.ltb_lt]; lia.
Qed.

Lemma all_some_map_ext {A B} (f : A -> option B) (g : A -> B) (l : list A) :
  (forall a, In a l -> f a = Some (g a)) -> all_some (map f l) = Some (map g l).
Proof.
  induction l as [|a l IH]; intros H; simpl; [reflexivity|].
  rewrite (H a (or_introl eq_refl)), IH; [reflexivity|]. intros b Hb. apply H. right. exact Hb.
Qed.

Lemma tflag_instants : forall flags, forallb valid_flag flags = true ->
  all_some (map (fun f => impl_flag_us (fst f) (snd f)) flags) = Some (map spec_flag_us flags).
Proof.
  intros flags V. apply all_some_map_ext. intros f Hf.
  apply flag_us_valid. rewrite forallb_forall in V. apply V. exact Hf.
Qed.

Lemma tflag_correct : forall flags tstep, forallb valid_flag flags = true ->
  exists out, impl_tflag flags tstep false = Some out
              /\ all_some (map us_of_dt out) = Some (map spec_flag_us flags).
Proof.
  intros flags tstep V. unfold impl_tflag. rewrite (tflag_instants _ V).
  destruct (decode_all_total (map spec_flag_us flags)) as [out Ho].
  { rewrite forallb_forall in *. intros t Ht. apply in_map_iff in Ht as [f [<- Hf]].
    apply flag_in_range. apply V. exact Hf. }
  exists out. split; [exact Ho|]. apply decode_all_sound. exact Ho.
Qed.

Lemma tflag_bounds_correct : forall flags st out, forallb valid_flag flags = true -> valid_step st = true ->
  impl_tflag flags (Some st) true = Some out ->
  all_some (map us_of_dt out)
  = Some (map spec_flag_us flags ++ [lastZ (map spec_flag_us flags) + sec_of_hhmmss st * us_sec]).
Proof.
  intros flags st out V Vs H. unfold impl_tflag in H. rewrite (tflag_instants _ V) in H.
  destruct (map spec_flag_us flags) as [|t0 ts] eqn:E; [discriminate|].
  destruct ts; apply decode_all_sound in H; rewrite H; reflexivity.
Qed.

(* ------------------------------------------------------------ SDATE / STIME / TSTEP *)
Lemma valid_step_sec : forall t, valid_step t = true -> impl_tstep_sec t = sec_of_hhmmss t.
Proof.
  intros t V. unfold valid_step in V. apply andb_true_iff in V as [V V3]. apply andb_true_iff in V as [V1 V2].
  apply Z.leb_le in V1. unfold impl_tstep_sec. apply Z.leb_le in V1. rewrite V1.
  unfold sec_of_hhmmss, hhmmss_h, hhmmss_m, hhmmss_s. lia.
Qed.

Lemma strptime_valid : forall d t, valid_flag (d, t) = true ->
  impl_strptime_us d t = Some (spec_flag_us (d, t)).
Proof.
  intros d t V. pose proof (valid_flag_parts _ V) as P. pose proof (flag_in_range _ V) as R.
  cbn [fst snd] in *. unfold yj_of_yyyyjjj in P. destruct P as [[P1 P2] [P3 P4]].
  pose proof (year_len_pos (d / 1000)) as YL.
  unfold impl_strptime_us, spec_flag_us, sec_of_flag. cbn [fst snd]. unfold yj_of_yyyyjjj.
  assert (IR : in_range ((jan1 (d / 1000) + d mod 1000 - 1) * us_day) = true).
  { pose proof (jan1_lower _ P1). pose proof (jan1_upper _ P2). pose proof (jan1_succ (d / 1000)).
    unfold in_range, us_day. apply andb_true_iff; split; [apply Z.leb_le|apply Z.ltb_lt]; lia. }
  assert (T9 : (t <=? 999999) = true).
  { unfold valid_hhmmss in P4. apply andb_true_iff in P4 as [Q Q4]. apply andb_true_iff in Q as [Q Q3].
    apply andb_true_iff in Q as [Q1 Q2]. apply Z.leb_le in Q1. apply Z.ltb_lt in Q2, Q3, Q4.
    apply Z.leb_le. unfold hhmmss_h, hhmmss_m, hhmmss_s in *. lia. }
  assert (G : ((1 <=? d) && (d <=? 9999999) && (1 <=? d / 1000) && (1 <=? d mod 1000) && (d mod 1000 <=? 366)
               && (t <=? 999999) && valid_hhmmss t
               && in_range ((jan1 (d / 1000) + d mod 1000 - 1) * us_day)) = true).
  { rewrite P4, IR, T9. rewrite !andb_true_r.
    repeat (apply andb_true_iff; split); apply Z.leb_le; lia. }
  rewrite G. f_equal; try (unfold days_of_yj; lia).
Qed.

Lemma iota_map_shift : forall (f : Z -> Z) n i, map f (iota i n) = map (fun k => f k) (iota i n).
Proof. reflexivity. Qed.

Lemma sdate_correct : forall sdate stime tstep n b, valid_sdate sdate stime tstep = true ->
  impl_sdate sdate stime tstep n b
  = decode_all (spec_sdate_us sdate stime tstep (if b then S n else n)).
Proof.
  intros sdate stime tstep n b V. unfold valid_sdate in V. apply andb_true_iff in V as [V1 V2].
  pose proof (valid_flag_parts _ V1) as P. cbn [fst snd] in P. unfold yj_of_yyyyjjj in P.
  unfold impl_sdate.
  assert (Hs : (sdate <? 1) = false) by (apply Z.ltb_ge; lia).
  rewrite Hs, (strptime_valid _ _ V1), (valid_step_sec _ V2).
  unfold spec_sdate_us, spec_flag_us. cbn [fst snd]. f_equal.
  apply map_ext. intros i. lia.
Qed.

(* ------------------------------------------------------------ updatetflag *)
Lemma flag_of_us_roundtrip : forall s, spec_flag_us (flag_of_sec s) = s * us_sec
  /\ valid_hhmmss (snd (flag_of_sec s)) = true.
Proof.
  intros s. pose proof (sec_of_flag_of_sec s) as H. unfold spec_flag_us.
  destruct (flag_of_sec s) as [d h]. cbn [fst snd]. destruct H as [H1 H2]. rewrite H1. tauto.
Qed.

(* ------------------------------------------------------------ time2idx *)
Lemma rhe_exact : forall i d, 0 < d -> round_half_even (i * d + 0) d = i.
Proof.
  intros i d Hd. unfold round_half_even.
  rewrite Z.add_0_r, Z.div_mul, Z.mod_mul by lia.
  assert (E : (2 * 0 <? d) = true) by (apply Z.ltb_lt; lia). rewrite E. reflexivity.
Qed.

(* np.interp + round at the knots of a strictly ascending coordinate returns the knot index *)
Lemma interp_idx_head : forall x0 x1 t i, x0 < x1 -> interp_idx (x0 :: x1 :: t) i x0 = i.
Proof.
  intros x0 x1 t i H. cbn [interp_idx].
  assert (E : (x0 <? x1) = true) by (apply Z.ltb_lt; lia). rewrite E.
  replace (x0 - x0) with 0 by lia. apply rhe_exact. lia.
Qed.

Fixpoint all_gt (x : Z) (l : list Z) : Prop := match l with [] => True | y :: t => x < y /\ all_gt x t end.

Lemma asc_all_gt : forall l x0 x1, strictly_asc (x0 :: x1 :: l) = true -> all_gt x0 (x1 :: l).
Proof.
  induction l as [|x2 l IH]; intros x0 x1 H; cbn [strictly_asc] in H.
  - apply andb_true_iff in H as [H _]. apply Z.ltb_lt in H. simpl. tauto.
  - apply andb_true_iff in H as [H1 H2]. apply Z.ltb_lt in H1.
    pose proof (IH x1 x2 H2) as G. simpl in *. destruct G as [G1 G2].
    split; [exact H1|]. split; [lia|].
    clear - G2 H1. induction l as [|y l IHl]; simpl in *; [tauto|]. destruct G2. split; [lia|]. apply IHl. tauto.
Qed.

(* the tail of the coordinate, looked up from any earlier start: indices count up *)
Lemma interp_idx_tail : forall t x0 i, strictly_asc (x0 :: t) = true ->
  map (interp_idx (x0 :: t) i) t = iota (i + 1) (length t).
Proof.
  induction t as [|x1 t IH]; intros x0 i H; [reflexivity|].
  cbn [map length iota]. f_equal.
  - (* x1 itself: not < x1, so move on; then it is the head of (x1 :: t) or the last knot *)
    cbn [interp_idx]. rewrite Z.ltb_irrefl.
    destruct t as [|x2 t']; [reflexivity|].
    cbn [strictly_asc] in H. apply andb_true_iff in H as [_ H]. apply andb_true_iff in H as [H _].
    apply Z.ltb_lt in H. apply interp_idx_head. exact H.
  - (* later knots v > x1 >= ... : the first segment is skipped *)
    assert (A : strictly_asc (x1 :: t) = true).
    { cbn [strictly_asc] in H. destruct t; [reflexivity|]. apply andb_true_iff in H as [_ H]. exact H. }
    rewrite <- (IH x1 (i + 1) A).
    apply map_ext_in. intros v Hv.
    cbn [interp_idx].
    assert (G : x1 < v).
    { destruct t as [|x2 t']; [destruct Hv|].
      pose proof (asc_all_gt _ _ _ A) as Q. clear - Q Hv.
      revert Hv. generalize (x2 :: t') as l, Q. induction l as [|y l IHl]; intros Q' Hv; [destruct Hv|].
      simpl in *. destruct Q'. destruct Hv as [<-|Hv]; [lia|]. apply IHl; tauto. }
    assert (E : (v <? x1) = false) by (apply Z.ltb_ge; lia). rewrite E. reflexivity.
Qed.

Lemma time2idx_identity : forall xs, strictly_asc xs = true ->
  impl_time2idx xs xs = Some (iota 0 (length xs)).
Proof.
  intros xs H. unfold impl_time2idx. rewrite H. f_equal.
  destruct xs as [|x0 t]; [reflexivity|].
  cbn [map length iota]. f_equal.
  - unfold nearest_idx. rewrite Z.leb_refl. reflexivity.
  - rewrite <- (interp_idx_tail t x0 0 H). apply map_ext_in. intros v Hv.
    unfold nearest_idx.
    assert (G : x0 < v).
    { destruct t as [|x1 t']; [destruct Hv|].
      pose proof (asc_all_gt _ _ _ H) as Q. clear - Q Hv.
      revert Hv. generalize (x1 :: t') as l, Q. induction l as [|y l IHl]; intros Q' Hv; [destruct Hv|].
      simpl in *. destruct Q'. destruct Hv as [<-|Hv]; [lia|]. apply IHl; tauto. }
    assert (E : (v <=? x0) = false) by (apply Z.leb_gt; lia). rewrite E. reflexivity.
Qed.

(* ------------------------------------------------------------ date2num round trip *)
Lemma unit_us64_pos : forall u k, unit_us64 u = Some k -> 0 < k.
Proof. intros u k H. destruct u; simpl in H; try discriminate; injection H as <-; lia. Qed.

Lemma date2num_roundtrip : forall u r vals out,
  impl_cf_std u r vals = Some out -> impl_date2num u r out = Some vals.
Proof.
  intros u r vals out H. unfold impl_cf_std in H. unfold impl_date2num.
  destruct (impl_parse r) as [p|] eqn:E; [|discriminate].
  destruct (unit_us64 u) as [k|] eqn:K; [|discriminate].
  pose proof (unit_us64_pos _ _ K) as Kp.
  unfold decode_all in H. rewrite map_map in H.
  refine (all_some_map_sound (fun n => dt_of_us (ref_us p + n * k)) _ _ vals out H).
  intros n l Hl. rewrite (dt_of_us_sound _ _ Hl).
  replace (ref_us p + n * k - ref_us p) with (n * k) by lia.
  rewrite Z.mod_mul, Z.div_mul by lia. reflexivity.
Qed.

(* ------------------------------------------------------------ synthesised CF time variable *)
Lemma decode_seconds_eq : forall ts,
  impl_decode_seconds ts = decode_all (map (fun t => t * us_sec) ts).
Proof.
  intros ts. unfold impl_decode_seconds, impl_cf_std.
  change (impl_parse epoch_ref) with (Some (1970, 1, 1, 0, 0, 0, 0)).
  cbn [unit_us64]. f_equal. rewrite map_map. apply map_ext. intros t.
  change (ref_us (1970, 1, 1, 0, 0, 0, 0)) with 0. unfold us_sec. lia.
Qed.

Lemma synth_flags_matches : forall sdate flags tstep,
  forallb valid_flag flags = true -> flags <> [] ->
  exists ts, impl_synth_flags sdate flags = Some ts
             /\ impl_decode_seconds ts = impl_tflag flags tstep false.
Proof.
  intros sdate flags tstep V NE.
  exists (map (fun f => sec_of_flag (fst f) (snd f)) flags). split.
  - unfold impl_synth_flags. destruct flags as [|[d0 t0] fl]; [congruence|].
    assert (V0 : valid_flag (d0, t0) = true) by (simpl in V; apply andb_true_iff in V; tauto).
    pose proof (valid_flag_parts _ V0) as P. cbn [fst snd] in P. unfold yj_of_yyyyjjj in P.
    assert (Hd : (d0 =? 0) = false) by (apply Z.eqb_neq; lia). rewrite Hd.
    apply all_some_map_ext. intros [d t] Hf.
    assert (Vf : valid_flag (d, t) = true) by (rewrite forallb_forall in V; apply V; exact Hf).
    cbn [fst snd]. rewrite (strptime_valid _ _ Vf). unfold spec_flag_us. cbn [fst snd].
    f_equal. unfold us_sec. rewrite Z.div_mul by lia. reflexivity.
  - rewrite decode_seconds_eq. unfold impl_tflag. rewrite (tflag_instants _ V).
    f_equal. rewrite map_map. reflexivity.
Qed.

Lemma tmpseconds_valid : forall t, valid_step t = true -> impl_tmpseconds t = sec_of_hhmmss t.
Proof. intros t V. unfold impl_tmpseconds. apply valid_step_sec. exact V. Qed.

Lemma synth_attrs_matches : forall sdate stime tstep n,
  valid_sdate sdate stime tstep = true -> (1 <= n)%nat ->
  exists ts, impl_synth_attrs sdate stime tstep n = Some ts
             /\ impl_decode_seconds ts = impl_sdate sdate stime tstep n false.
Proof.
  intros sdate stime tstep n V Hn. rewrite (sdate_correct _ _ _ n false V).
  unfold valid_sdate in V. apply andb_true_iff in V as [V1 V2].
  unfold impl_synth_attrs. rewrite (strptime_valid _ _ V1), (tmpseconds_valid _ V2).
  eexists; split; [reflexivity|].
  rewrite decode_seconds_eq. f_equal. rewrite Nat.max_r by lia. rewrite map_map.
  unfold spec_sdate_us, spec_flag_us. cbn [fst snd]. apply map_ext. intros i.
  unfold us_sec. rewrite Z.div_mul by lia. lia.
Qed.

(* ------------------------------------------------------------ 365/366-day calendars (repaired branch) *)
Lemma fixed_us_of_fixed_fields : forall leap t, fixed_us_of_fields leap (fixed_fields leap t) = Some t.
Proof.
  intros leap t. unfold fixed_fields.
  pose proof (days_of_fixed_of_days leap (t / us_day)) as H.
  destruct (fixed_of_days leap (t / us_day)) as [[y m] d]. destruct H as [H1 H2].
  unfold fixed_us_of_fields. rewrite H2. cbn [andb].
  set (r := t mod us_day).
  assert (Hr : 0 <= r < us_day) by (subst r; apply Z.mod_pos_bound; unfold us_day; lia).
  unfold us_day in *.
  assert (V : valid_tod (r / 3600000000) (r mod 3600000000 / 60000000) (r mod 60000000 / 1000000) = true).
  { unfold valid_tod. repeat (apply andb_true_iff; split); rewrite ?Z.leb_le, ?Z.ltb_lt; lia. }
  rewrite V. cbn [andb].
  assert (U : ((0 <=? r mod 1000000) && (r mod 1000000 <? 1000000)) = true).
  { apply andb_true_iff; split; rewrite ?Z.leb_le, ?Z.ltb_lt; lia. }
  rewrite U. f_equal. rewrite H1. unfold us_sec. subst r. lia.
Qed.

Lemma all_some_cons_inv {A} (x : option A) (l : list (option A)) out :
  all_some (x :: l) = Some out -> exists a r, x = Some a /\ all_some l = Some r /\ out = a :: r.
Proof.
  simpl. destruct x as [a|]; [|discriminate]. destruct (all_some l) as [r|]; [|discriminate].
  intros H. injection H as <-. exists a, r. repeat split.
Qed.

(* whenever the repaired branch returns, every row denotes ref + value * unit in the file's calendar
   and is a date that datetime can hold *)
Lemma cf_fixed_correct : forall leap u r vals out,
  impl_cf_fixed leap u r vals = Some out ->
  exists p k, impl_parse r = Some p /\ fx_unit_us64 leap u = Some k
    /\ all_some (map (fixed_us_of_fields leap) out) = Some (map (fun n => fixed_ref_us leap p + n * k) vals)
    /\ forallb row_ok out = true.
Proof.
  intros leap u r vals out H. unfold impl_cf_fixed in H.
  destruct (impl_parse r) as [p|]; [|discriminate].
  destruct (fx_unit_us64 leap u) as [k|]; [|discriminate].
  exists p, k. split; [reflexivity|]. split; [reflexivity|].
  destruct p as [[[[[[y0 m0] d0] hh] mi] ss] tz].
  destruct (valid_md leap m0 d0); [|discriminate].
  revert out H. induction vals as [|n vals IH]; intros out H.
  - injection H as <-. split; reflexivity.
  - cbn [map] in H. apply all_some_cons_inv in H as [a [rest [Ha [Hr ->]]]].
    destruct (row_ok (fixed_fields leap (fixed_ref_us leap (y0, m0, d0, hh, mi, ss, tz) + n * k))) eqn:R;
      [|discriminate Ha].
    injection Ha as <-. destruct (IH rest Hr) as [A B]. split.
    + cbn [map all_some]. rewrite fixed_us_of_fixed_fields, A. reflexivity.
    + change (row_ok (fixed_fields leap (fixed_ref_us leap (y0, m0, d0, hh, mi, ss, tz) + n * k))
              && forallb row_ok rest = true).
      rewrite R, B. reflexivity.
Qed.

(* for the CF units it equals the specification, in both directions *)
Lemma cf_fixed_spec : forall leap u r vals out,
  match u with UYears => False | _ => True end ->
  impl_cf_fixed leap u r vals = Some out -> spec_cf_fixed leap u r vals = Some out.
Proof.
  intros leap u r vals out Hu H. unfold impl_cf_fixed in H. unfold spec_cf_fixed.
  assert (K : fx_unit_us64 leap u = unit_us64 u) by (destruct u; try reflexivity; destruct Hu).
  rewrite K in H.
  destruct (impl_parse r) as [p|]; [|discriminate].
  destruct (unit_us64 u) as [k|]; [|discriminate].
  destruct p as [[[[[[y0 m0] d0] hh] mi] ss] tz].
  destruct (valid_md leap m0 d0); [|discriminate]. f_equal.
  revert out H. induction vals as [|n vals IH]; intros out H.
  - injection H as <-. reflexivity.
  - cbn [map] in H. apply all_some_cons_inv in H as [a [rest [Ha [Hr ->]]]].
    destruct (row_ok (fixed_fields leap (fixed_ref_us leap (y0, m0, d0, hh, mi, ss, tz) + n * k)));
      [|discriminate Ha].
    injection Ha as <-. cbn [map]. f_equal. apply IH. exact Hr.
Qed.

Lemma cf_fixed_total : forall leap u r vals sp,
  spec_cf_fixed leap u r vals = Some sp -> forallb row_ok sp = true ->
  impl_cf_fixed leap u r vals = Some sp.
Proof.
  intros leap u r vals sp Sp Ok. unfold spec_cf_fixed in Sp. unfold impl_cf_fixed.
  destruct (impl_parse r) as [p|]; [|discriminate].
  destruct (unit_us64 u) as [k|] eqn:K; [|discriminate].
  assert (K2 : fx_unit_us64 leap u = Some k) by (destruct u; try discriminate K; exact K).
  rewrite K2.
  destruct p as [[[[[[y0 m0] d0] hh] mi] ss] tz].
  destruct (valid_md leap m0 d0); [|discriminate]. injection Sp as <-.
  set (F := fun n => fixed_fields leap (fixed_ref_us leap (y0, m0, d0, hh, mi, ss, tz) + n * k)) in *.
  change (all_some (map (fun n => if row_ok (F n) then Some (F n) else None) vals) = Some (map F vals)).
  change (forallb row_ok (map F vals) = true) in Ok. clearbody F.
  induction vals as [|n vals IH]; [reflexivity|].
  cbn [map forallb] in Ok. apply andb_true_iff in Ok as [O1 O2].
  cbn [map all_some]. rewrite O1, (IH O2). reflexivity.
Qed.

(* the last edge of the synthesised time_bounds is the last instant plus the step *)
Lemma synth_edges_valid : forall tstep ts, valid_step tstep = true -> ts <> [] ->
  impl_synth_edges tstep ts = ts ++ [lastZ ts + sec_of_hhmmss tstep].
Proof.
  intros tstep ts V NE. unfold impl_synth_edges. rewrite (tmpseconds_valid _ V).
  destruct ts; [congruence|reflexivity].
Qed.

(* ------------------------------------------------------------ extension round: more inverse mappings *)
Lemma date2num_fixed_roundtrip : forall leap u r vals out,
  match u with UYears => False | _ => True end ->
  impl_cf_fixed leap u r vals = Some out -> impl_date2num_fixed leap u r out = Some vals.
Proof.
  intros leap u r vals out Hu H. unfold impl_cf_fixed in H. unfold impl_date2num_fixed.
  assert (K : fx_unit_us64 leap u = unit_us64 u) by (destruct u; try reflexivity; destruct Hu).
  rewrite K in H.
  destruct (impl_parse r) as [p|]; [|discriminate].
  destruct (unit_us64 u) as [k|] eqn:Ku; [|discriminate].
  pose proof (unit_us64_pos _ _ Ku) as Kp.
  destruct p as [[[[[[y0 m0] d0] hh] mi] ss] tz].
  destruct (valid_md leap m0 d0); [|discriminate].
  set (r0 := fixed_ref_us leap (y0, m0, d0, hh, mi, ss, tz)) in *.
  refine (all_some_map_sound
            (fun n => if row_ok (fixed_fields leap (r0 + n * k)) then Some (fixed_fields leap (r0 + n * k)) else None)
            _ _ vals out H).
  intros n l Hl. destruct (row_ok (fixed_fields leap (r0 + n * k))); [|discriminate]. injection Hl as <-.
  rewrite fixed_us_of_fixed_fields.
  replace (r0 + n * k - r0) with (n * k) by lia.
  rewrite Z.mod_mul, Z.div_mul by lia. reflexivity.
Qed.

(* time2idx(getTimes()) = 0..n-1 through date2num, for an ascending time variable *)
Lemma time2idx_of_getTimes : forall u r vals out,
  impl_cf_std u r vals = Some out -> strictly_asc vals = true ->
  exists nums, impl_date2num u r out = Some nums
               /\ impl_time2idx vals nums = Some (iota 0 (length vals)).
Proof.
  intros u r vals out H A. exists vals. split; [exact (date2num_roundtrip _ _ _ _ H)|exact (time2idx_identity _ A)].
Qed.

(* updatetflag followed by getTimes: the rows written for whole-second instants decode to those instants *)
Lemma flag_year_in_range : forall s, in_range (s * us_sec) = true ->
  let '(y, _) := yj_of_days (s / 86400) in 1 <= y <= 9999.
Proof.
  intros s R. unfold in_range, us_day, us_sec in R. apply andb_true_iff in R as [R1 R2].
  apply Z.leb_le in R1. apply Z.ltb_lt in R2.
  pose proof (yj_of_days_spec (s / 86400)) as H. destruct (yj_of_days (s / 86400)) as [y j].
  destruct H as [[H1 H2] _].
  assert (D1 : jan1 1 <= s / 86400) by lia. assert (D2 : s / 86400 < jan1 10000) by lia.
  split.
  - destruct (Z_lt_le_dec y 1) as [L|L]; [|exact L].
    assert (Q : jan1 (y + 1) <= jan1 1).
    { destruct (Z.eq_dec (y + 1) 1) as [->|N]; [lia|]. pose proof (jan1_mono y 0 ltac:(lia)).
      change (jan1 (0 + 1)) with (jan1 1) in *.
      pose proof (jan1_mono y (y + 1) ltac:(lia)).
      assert (jan1 (y + 1) <= jan1 0 \/ True) by tauto.
      pose proof (jan1_mono (y + 1 - 1) 1 ltac:(lia)) as M. replace (y + 1 - 1 + 1) with (y + 1) in M by lia. exact M. }
    lia.
  - destruct (Z_le_gt_dec y 9999) as [L|L]; [exact L|].
    assert (Q : jan1 10000 <= jan1 y).
    { destruct (Z.eq_dec y 10000) as [->|N]; [lia|].
      pose proof (jan1_mono 9999 y ltac:(lia)) as M. exact M. }
    lia.
Qed.

Lemma flag_us_of_flag_of_sec : forall s, in_range (s * us_sec) = true ->
  impl_flag_us (fst (flag_of_sec s)) (snd (flag_of_sec s)) = Some (s * us_sec).
Proof.
  intros s R. pose proof (flag_year_in_range s R) as Y.
  pose proof (sec_of_flag_of_sec s) as F. pose proof (yj_of_days_valid (s / 86400)) as V.
  unfold flag_of_sec in *. destruct (yj_of_days (s / 86400)) as [y j].
  cbn [fst snd] in *. destruct F as [F1 F2].
  assert (VF : valid_flag (yyyyjjj y j, hhmmss_of_sec (s mod 86400)) = true).
  { unfold valid_flag. cbn [fst snd].
    assert (Hj : 0 <= j < 1000).
    { unfold valid_yj in V. apply andb_true_iff in V as [A C]. apply Z.leb_le in A, C.
      pose proof (year_len_pos y). lia. }
    rewrite yj_of_yyyyjjj_of by exact Hj. rewrite V, F2.
    assert (E : ((1 <=? y) && (y <=? 9999)) = true) by (apply andb_true_iff; split; apply Z.leb_le; lia).
    rewrite E. reflexivity. }
  pose proof (flag_us_valid _ VF) as Q. unfold spec_flag_us in Q. cbn [fst snd] in Q. rewrite Q, F1. reflexivity.
Qed.

Lemma updatetflag_then_decode : forall secs tstep,
  forallb (fun s => in_range (s * us_sec)) secs = true ->
  impl_tflag (map flag_of_sec secs) tstep false = decode_all (map (fun s => s * us_sec) secs).
Proof.
  intros secs tstep R. unfold impl_tflag. rewrite map_map.
  rewrite (all_some_map_ext _ (fun s => s * us_sec)); [reflexivity|].
  intros s Hs. apply flag_us_of_flag_of_sec. rewrite forallb_forall in R. apply R. exact Hs.
Qed.


(* approximate bounds (no time_bounds variable): for an evenly spaced series the edges are the midpoints *)
Lemma length_iota : forall n i, length (iota i n) = n.
Proof. induction n as [|n IH]; intros i; simpl; [reflexivity|f_equal; apply IH]. Qed.

Lemma last_map_iota : forall (f : Z -> Z) m i, last (map f (iota i (S m))) 0 = f (i + Z.of_nat m).
Proof.
  induction m as [|m IH]; intros i.
  - simpl. f_equal. lia.
  - change (iota i (S (S m))) with (i :: iota (i + 1) (S m)). cbn [map].
    change (last (f i :: map f (iota (i + 1) (S m))) 0) with
      (match map f (iota (i + 1) (S m)) with [] => f i | _ :: _ => last (map f (iota (i + 1) (S m))) 0 end).
    rewrite IH. cbn [iota map]. f_equal. lia.
Qed.

Lemma bounds_mid_uniform : forall x0 s m,
  let n := S (S m) in
  impl_bounds_vals BMid (map (fun i => x0 + i * s) (iota 0 n))
  = Some (map (fun i => x0 + i * s - s / 2) (iota 0 n) ++ [x0 + (Z.of_nat n - 1) * s + s / 2]).
Proof.
  intros x0 s m n. unfold impl_bounds_vals.
  assert (Hd : hd 0 (map (fun i => x0 + i * s) (iota 0 n)) = x0) by (simpl; lia).
  assert (Hl : lastZ (map (fun i => x0 + i * s) (iota 0 n)) = x0 + (Z.of_nat n - 1) * s).
  { unfold lastZ, n. rewrite last_map_iota. f_equal. f_equal. lia. }
  assert (Hn : Z.of_nat (length (map (fun i => x0 + i * s) (iota 0 n))) = Z.of_nat n)
    by (rewrite map_length, length_iota; reflexivity).
  assert (Dt : (lastZ (map (fun i => x0 + i * s) (iota 0 n)) - hd 0 (map (fun i => x0 + i * s) (iota 0 n)))
               / (Z.of_nat (length (map (fun i => x0 + i * s) (iota 0 n))) - 1) = s).
  { rewrite Hd, Hl, Hn. replace (x0 + (Z.of_nat n - 1) * s - x0) with (s * (Z.of_nat n - 1)) by lia.
    apply Z.div_mul. unfold n. lia. }
  change (iota 0 n) with (0 :: (0 + 1) :: iota (0 + 1 + 1) m) at 1. cbn [map].
  change ((x0 + 0 * s) :: (x0 + (0 + 1) * s) :: map (fun i => x0 + i * s) (iota (0 + 1 + 1) m))
    with (map (fun i => x0 + i * s) (iota 0 n)).
  rewrite Dt, Hl, map_map. reflexivity.
Qed.
