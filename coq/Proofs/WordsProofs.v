From PNC Require Import Base.Util Base.Words.
From Coq Require Import ZifyBool.
Local Open Scope Z_scope.

Lemma marker_props r : 0 <= marker r /\ marker r mod 4 = 0 /\ Z.to_nat (marker r / 4) = length r.
Proof.
  unfold marker. split; [lia|]. split.
  - rewrite Z.mul_comm. apply Z.mod_mul. lia.
  - rewrite Z.mul_comm, Z.div_mul by lia. apply Nat2Z.id.
Qed.

Lemma skipn_app_exact {A} (l1 l2 : list A) : skipn (length l1) (l1 ++ l2) = l2.
Proof. induction l1; simpl; auto. Qed.
Lemma firstn_app_exact {A} (l1 l2 : list A) : firstn (length l1) (l1 ++ l2) = l1.
Proof. induction l1; simpl; [reflexivity|]. now rewrite IHl1. Qed.

Lemma unframe_frame : forall rs fuel, (length rs < fuel)%nat -> unframe fuel (frame rs) = Some rs.
Proof.
  induction rs as [|r rs IH]; intros fuel Hf.
  - destruct fuel; reflexivity.
  - destruct fuel as [|f]; [inversion Hf|].
    unfold frame; cbn [map concat]. fold (frame rs). unfold frame1 at 1.
    cbn [app unframe].
    destruct (marker_props r) as (H0 & H4 & Hn).
    replace ((0 <=? marker r) && (marker r mod 4 =? 0)) with true by lia.
    rewrite Hn. rewrite <- app_assoc. cbn [app].
    match goal with |- context [(?a <? ?b)%nat] => assert (Hlt : (a <? b)%nat = true) end.
    { rewrite app_length. cbn [length]. apply Nat.ltb_lt. lia. }
    rewrite Hlt, skipn_app_exact, Z.eqb_refl, firstn_app_exact.
    rewrite IH by (cbn [length] in Hf; lia). reflexivity.
Qed.

Lemma unframe_all_frame rs : unframe_all (frame rs) = Some rs.
Proof.
  unfold unframe_all. apply unframe_frame.
  assert (H : (length rs <= length (frame rs))%nat).
  { induction rs as [|r rs IH]; cbn [length]; [lia|].
    unfold frame in *; cbn [map concat]. rewrite app_length. unfold frame1 at 1. cbn [length]. lia. }
  lia.
Qed.

(* the decoder accepts only exact tilings: leading/trailing markers agree, are the payload's
   byte count, and the records cover the input with no gap and no rest *)
Lemma unframe_sound : forall fuel ws rs, unframe fuel ws = Some rs -> ws = frame rs.
Proof.
  induction fuel as [|f IH]; intros ws rs H.
  - destruct ws; [injection H as <-; reflexivity|discriminate].
  - destruct ws as [|m t]; [injection H as <-; reflexivity|].
    cbn [unframe] in H.
    destruct ((0 <=? m) && (m mod 4 =? 0)) eqn:Hm; [|discriminate].
    destruct (Z.to_nat (m / 4) <? length t)%nat eqn:Hl; [|discriminate].
    destruct (skipn (Z.to_nat (m / 4)) t) as [|e t'] eqn:Hs; [discriminate|].
    destruct (e =? m) eqn:He; [|discriminate].
    destruct (unframe f t') as [rs'|] eqn:Hu; [|discriminate].
    injection H as <-. apply IH in Hu. subst t'.
    apply Z.eqb_eq in He. subst e.
    unfold frame; cbn [map concat]. fold (frame rs').
    set (n := Z.to_nat (m / 4)) in *.
    assert (Hlen : length (firstn n t) = n).
    { apply firstn_length_le. apply Nat.ltb_lt in Hl. lia. }
    assert (Hmk : marker (firstn n t) = m).
    { unfold marker. rewrite Hlen. unfold n. rewrite Z2Nat.id by (apply Z.div_pos; lia).
      assert (m mod 4 = 0) by lia. rewrite Z.mul_comm. symmetry.
      rewrite (Z.div_mod m 4) at 1 by lia. lia. }
    unfold frame1. rewrite Hmk. cbn [app]. f_equal.
    rewrite <- app_assoc. cbn [app]. rewrite <- Hs. symmetry. apply firstn_skipn.
Qed.

Lemma frame_app a b : frame (a ++ b) = frame a ++ frame b.
Proof. unfold frame. rewrite map_app, concat_app. reflexivity. Qed.

(* if the framing of rs' is a prefix of the framing of rs, then rs' is a prefix of rs *)
Lemma frame_prefix : forall rs' rs tail, frame rs' ++ tail = frame rs -> exists rs'', rs = rs' ++ rs''.
Proof.
  induction rs' as [|r' rs' IH]; intros rs tail H.
  - exists rs. reflexivity.
  - destruct rs as [|r rs].
    + unfold frame in H; cbn [map concat] in H. unfold frame1 in H. cbn [app] in H. discriminate.
    + unfold frame in H; cbn [map concat] in H. fold (frame rs') (frame rs) in H.
      unfold frame1 in H. rewrite <- !app_assoc in H. cbn [app] in H.
      rewrite <- !app_assoc in H. cbn [app] in H.
      pose proof (f_equal (@hd Z 0) H) as Hm. apply (f_equal (@tl Z)) in H. cbn [hd tl] in Hm, H.
      assert (Hl : length r' = length r) by (unfold marker in Hm; lia).
      assert (Hr : r' = r).
      { apply (f_equal (firstn (length r'))) in H. rewrite firstn_app_exact in H.
        rewrite Hl, firstn_app_exact in H. exact H. }
      subst r'. apply app_inv_head in H. injection H as H.
      destruct (IH rs tail H) as [rs'' ->]. exists rs''. reflexivity.
Qed.

(* C14 at the specification level: whatever prefix of a valid file the reference decoder
   accepts, it decodes to a prefix of the file's records — whole records, identical content. *)
Lemma unframe_prefix fuel p tail rs rs' :
  p ++ tail = frame rs -> unframe fuel p = Some rs' -> exists rs'', rs = rs' ++ rs''.
Proof.
  intros Hp Hu. apply unframe_sound in Hu. subst p. eapply frame_prefix; exact Hp.
Qed.

(* ---- chunking ---------------------------------------------------------------------- *)
Lemma chunks_fuel_concat n : (0 < n)%nat -> forall bs fuel,
  Forall (fun b => length b = n) bs -> (length bs < fuel)%nat ->
  chunks_fuel fuel n (concat bs) = Some bs.
Proof.
  intros Hn bs; induction bs as [|b bs IH]; intros fuel Hall Hf.
  - destruct fuel; reflexivity.
  - inversion Hall as [|? ? Hb Hbs]; subst.
    destruct fuel as [|f]; [inversion Hf|].
    cbn [concat]. destruct b as [|x b']; [cbn in Hn; lia|].
    cbn [app chunks_fuel].
    replace (length (x :: b') =? 0)%nat with false by (cbn [length]; symmetry; apply Nat.eqb_neq; lia).
    change (x :: b' ++ concat bs) with ((x :: b') ++ concat bs).
    assert (Hlt : (length ((x :: b') ++ concat bs) <? length (x :: b'))%nat = false).
    { apply Nat.ltb_ge. rewrite app_length. lia. }
    rewrite Hlt, skipn_app_exact, firstn_app_exact.
    rewrite IH; [reflexivity|exact Hbs|cbn [length] in Hf; lia].
Qed.

Lemma chunks_concat n bs : (0 < n)%nat -> Forall (fun b => length b = n) bs ->
  chunks n (concat bs) = Some bs.
Proof.
  intros Hn Hall. unfold chunks. apply chunks_fuel_concat; [exact Hn|exact Hall|].
  assert (H : (length bs <= length (concat bs))%nat).
  { induction Hall as [|b bs' Hb _ IH]; cbn [concat length]; [lia|]. rewrite app_length. lia. }
  lia.
Qed.

Lemma concat_uniform_length n bs : Forall (fun b : list word => length b = n) bs ->
  length (concat bs) = (length bs * n)%nat.
Proof.
  induction 1 as [|b bs Hb _ IH]; cbn [concat length]; [reflexivity|].
  rewrite app_length, IH, Hb. lia.
Qed.

Lemma firstn_concat_uniform n : forall bs k, Forall (fun b : list word => length b = n) bs ->
  firstn (k * n) (concat bs) = concat (firstn k bs).
Proof.
  intros bs; induction bs as [|b bs IH]; intros k Hall.
  - rewrite !firstn_nil. reflexivity.
  - inversion Hall as [|? ? Hb Hbs]; subst. destruct k as [|k]; [reflexivity|].
    cbn [concat firstn]. replace (S k * length b)%nat with (length b + k * length b)%nat by lia.
    rewrite firstn_app_2. f_equal. apply IH. exact Hbs.
Qed.

Lemma skipn_concat_uniform n : forall bs k, Forall (fun b : list word => length b = n) bs ->
  skipn (k * n) (concat bs) = concat (skipn k bs).
Proof.
  intros bs; induction bs as [|b bs IH]; intros k Hall.
  - rewrite !skipn_nil. reflexivity.
  - inversion Hall as [|? ? Hb Hbs]; subst. destruct k as [|k]; [reflexivity|].
    cbn [concat skipn]. replace (S k * length b)%nat with (length b + k * length b)%nat by lia.
    rewrite skipn_app, skipn_all2 by lia. cbn [app].
    replace (length b + k * length b - length b)%nat with (k * length b)%nat by lia.
    apply IH. exact Hbs.
Qed.
