(* Lemmas about the generated slice_dim argument bookkeeping (Gen/SliceDimSrc.v, tie T). *)
From PNC Require Import Base.Util Base.ArrFlat Proofs.ArrFlatProofs Gen.SliceDimSrc.
From Coq Require Import ZifyBool.
Set Default Timeout 30.
Local Open Scope Z_scope.

Lemma slice_indices_unit n a b s :
  slice_start (Z.of_nat n) 1 (Some a) = s -> slice_stop (Z.of_nat n) 1 b = s + 1 -> 0 <= s ->
  slice_indices n (Some a) b None = Some [Z.to_nat s].
Proof.
  intros Hs Ht H0. unfold slice_indices. change (1 =? 0) with false. cbv iota.
  rewrite Hs, Ht. unfold slice_len. change (1 <? 0) with false. cbv iota.
  replace (s <? s + 1) with true by lia.
  replace (s + 1 - s - 1) with 0 by lia. change (0 / 1 + 1) with 1.
  change (Z.to_nat 1) with 1%nat. simpl. do 2 f_equal. lia.
Qed.

(* 'dim,i' selects exactly element i, counted from the end when i is negative *)
Lemma single_index n a :
  - Z.of_nat n <= a < Z.of_nat n ->
  match sel_of_args [Some a] with Some s => resolve n s | None => None end
  = option_map (fun i => RSlice [i]) (norm_index n a).
Proof.
  intros H. unfold sel_of_args, pad_len, sel_of_padded, single_stop. simpl firstn.
  assert (Hn : norm_index n a = Some (Z.to_nat (if a <? 0 then a + Z.of_nat n else a))).
  { unfold norm_index. destruct (a <? 0) eqn:E.
    - replace ((0 <=? a) && (a <? Z.of_nat n)) with false by lia.
      replace (true && (- Z.of_nat n <=? a)) with true by lia. reflexivity.
    - replace ((0 <=? a) && (a <? Z.of_nat n)) with true by lia. reflexivity. }
  rewrite Hn. simpl option_map.
  destruct (a + 1 =? 0) eqn:E1; unfold resolve.
  - assert (a = -1) by lia. subst a. change (-1 <? 0) with true. cbv iota.
    rewrite (slice_indices_unit n (-1) None (Z.of_nat n - 1)); cbn [option_map].
    + do 4 f_equal. lia.
    + unfold slice_start, adjust. change (-1 <? 0) with true. cbv iota.
      replace (-1 + Z.of_nat n <? 0) with false by lia. lia.
    + unfold slice_stop. change (1 <? 0) with false. cbv iota. lia.
    + lia.
  - destruct (a <? 0) eqn:E2.
    + rewrite (slice_indices_unit n a (Some (a + 1)) (a + Z.of_nat n)); cbn [option_map]; [reflexivity| | |lia].
      * unfold slice_start, adjust. rewrite E2. replace (a + Z.of_nat n <? 0) with false by lia. reflexivity.
      * unfold slice_stop, adjust. replace (a + 1 <? 0) with true by lia.
        replace (a + 1 + Z.of_nat n <? 0) with false by lia. lia.
    + rewrite (slice_indices_unit n a (Some (a + 1)) a); cbn [option_map]; [reflexivity| | |lia].
      * unfold slice_start, adjust. rewrite E2. replace (Z.of_nat n <=? a) with false by lia. reflexivity.
      * unfold slice_stop, adjust. replace (a + 1 <? 0) with false by lia.
        destruct (Z.of_nat n <=? a + 1) eqn:E3; change (1 <? 0) with false; cbv iota; lia.
Qed.

(* the longer forms are passed through unchanged; a missing stride is None *)
Lemma args_forms : forall a b c rest,
  sel_of_args [a; b] = Some (SSlice a b None) /\
  sel_of_args (a :: b :: c :: rest) = Some (SSlice a b c) /\
  sel_of_args [] = None.
Proof. intros. repeat split; destruct a; reflexivity. Qed.
