(* Every byte prefix of a bpch-convention file through the bpch1 reader model: the theorem (lemmas in BpchPrefixProofs.v). *)
From PNC Require Import Base.Util Base.Words Gen.Bpch Model.Bpch Proofs.WordsProofs Proofs.BpchProofs Proofs.BpchPrefixProofs.
From Coq Require Import String QArith.
Import Coq.Lists.List. Import ListNotations.
Local Open Scope Z_scope.

(* boolean hypotheses are hidden from lia/zify (which otherwise traverses them: seconds per call) *)
Definition Holds (b : bool) : Prop := b = true.
Definition HoldsF (b : bool) : Prop := b = false.
Ltac hide := repeat match goal with
                    | H : ?x = true |- _ => change (Holds x) in H
                    | H : ?x = false |- _ => change (HoldsF x) in H
                    end.

Theorem prefix_open T D f c : wf T D f = true -> tables_ok T D = true -> 0 <= c <= 4 * lenZ (enc f) ->
  let r := impl_open T D (firstn (Z.to_nat (c / 4)) (enc f)) c in
  r = Err
  \/ (exists k, (1 <= k <= length (f_times f))%nat /\ 136 + 4 * (Z.of_nat k * tb_wordsZ (tb0 f)) <= c
                /\ r = Ok (view_of T D (trunc_times k f)))
  \/ (exists j, (1 <= j < length (tb0 f))%nat /\ c = 136 + 4 * tb_wordsZ (firstn j (tb0 f))
                /\ r = Ok (view_of T D (first_tracers j f))).
Proof.
  intros Hwf Hok Hc. cbv zeta.
  destruct (Z.lt_ge_cases c 356) as [Hlt|Hge]; [left; apply open_short; exact Hlt|].
  destruct (wf_unpack T D f Hwf) as (b0 & rest0 & ts & Et & Hs & Hmeta & Hmodel & Htau & Hid & Hnd & Htd0).
  destruct (shape_lens f Hs) as (L1 & L2 & Hb).
  assert (HbF : forallb (forallb wf_block) (f_times f) = true) by (rewrite <- forallb_concat; exact Hb).
  rewrite (enc_flat f Hs) in *. unfold flat in *.
  assert (Hall : Forall (fun tb => list_eqb meta_eqb tb (b0 :: rest0) = true /\ forallb wf_block tb = true) (f_times f)).
  { rewrite forallb_forall in Hmeta, HbF. apply Forall_forall. intros tb Hin. split; auto. }
  hide.
  assert (Hm : (34 <= Z.to_nat (c / 4))%nat).
  { assert (89 <= c / 4) by (apply Z.div_le_lower_bound; lia). lia. }
  rewrite (firstn_flat _ _ _ _ L1 L2 Hm).
  assert (Hq : (Z.to_nat (c / 4) - 34)%nat = Z.to_nat ((c - 136) / 4)).
  { replace (c - 136) with (c + (-34) * 4) by lia. rewrite Z.div_add by lia. lia. }
  rewrite Hq. clear Hq Hm.
  pose proof (proj1 (Forall_forall _ _) Hall) as HallF.
  assert (Hwf0 : forallb wf_block (b0 :: rest0) = true).
  { apply HallF. rewrite Et. left. reflexivity. }
  pose proof Hwf0 as Hwf0'. simpl in Hwf0'. apply andb_true_iff in Hwf0' as [Hb0 Hr0]. hide.
  assert (Hlen : Forall (fun tb => lenZ (tbw tb) = tszZ (map (entry_of T D) (b0 :: rest0))) (f_times f)).
  { eapply Forall_impl; [|exact Hall]. intros tb [H1 H2]. apply (parse_time_tbw T D _ _ H1 H2). }
  assert (Hts : lenZ (tbw (b0 :: rest0)) = tszZ (map (entry_of T D) (b0 :: rest0))).
  { rewrite Forall_forall in Hlen. apply Hlen. rewrite Et. left. reflexivity. }
  assert (Hbody : bodyw f = tbw (b0 :: rest0) ++ concat (map tbw ts)).
  { unfold bodyw. rewrite Et. reflexivity. }
  assert (Hbl : lenZ (bodyw f) = lenZ (f_times f) * tszZ (map (entry_of T D) (b0 :: rest0))) by (apply body_len; exact Hlen).
  assert (Htb0 : tb0 f = b0 :: rest0) by (unfold tb0; rewrite Et; reflexivity).
  assert (Hfl : lenZ ([40] ++ f_ftype f ++ [40; 80] ++ f_title f ++ [80] ++ bodyw f) = 34 + lenZ (bodyw f)).
  { destruct (flat_header (f_ftype f) (f_title f) (bodyw f) L1 L2) as (_ & _ & _ & _ & _ & _ & _ & F8). exact F8. }
  rewrite Hfl in Hc. clear Hfl.
  pose proof (tbw_first_ge b0 rest0 Hb0) as H57.
  remember (c - 136) as rem0 eqn:Erem.
  assert (Hrem0 : 220 <= rem0 <= 4 * lenZ (bodyw f)) by lia.
  assert (Hq0 : 0 <= rem0 / 4) by (apply Z.div_pos; lia).
  assert (Hlenb : length (firstn (Z.to_nat (rem0 / 4)) (bodyw f)) = Z.to_nat (rem0 / 4)).
  { apply firstn_length_le. assert (rem0 / 4 <= lenZ (bodyw f)) by (apply Z.div_le_upper_bound; lia). unfold lenZ in *. lia. }
  assert (Hrq : rem0 < 4 * (rem0 / 4) + 4).
  { pose proof (Z.mod_pos_bound rem0 4 ltac:(lia)). pose proof (Z.div_mod rem0 4 ltac:(lia)). lia. }
  rewrite Htb0.
  destruct (Z.lt_ge_cases rem0 (4 * lenZ (tbw (b0 :: rest0)))) as [HB|HA].
  - (* the cut lies inside the first time block *)
    rewrite Hbody.
    destruct (walk_inside_first T D b0 rest0 (concat (map tbw ts)) rem0
                (S (length ([40] ++ f_ftype f ++ [40; 80] ++ f_title f ++ [80] ++
                      firstn (Z.to_nat (rem0 / 4)) (tbw (b0 :: rest0) ++ concat (map tbw ts))))) Hok Hb0 Hr0 Hid)
      as [W|(j & Hj & W & Hle)].
    + rewrite (length_flat _ _ _ L1 L2). rewrite <- Hbody, Hlenb. lia.
    + lia.
    + left. apply (open_err_of_walk T D _ _ _ c L1 L2). rewrite <- Erem. exact W.
    + (* walk found j tracers; the file ends at or before the end of the j-th block *)
      assert (Hwj : forallb wf_block (firstn j (b0 :: rest0)) = true) by (apply forallb_firstn; exact Hwf0). hide.
      assert (Htj : lenZ (tbw (firstn j (b0 :: rest0))) = tszZ (map (entry_of T D) (firstn j (b0 :: rest0)))).
      { apply (parse_time_tbw T D _ _ (list_meta_refl _) Hwj). }
      assert (Hpj : 57 <= lenZ (tbw (firstn j (b0 :: rest0)))).
      { destruct j as [|j]; [lia|]. cbn [firstn]. apply tbw_first_ge. exact Hb0. }
      destruct (Z.lt_ge_cases rem0 (4 * lenZ (tbw (firstn j (b0 :: rest0))))) as [Hin|Hex].
      * left. apply (open_err_of_count T D _ _ _ c (map (entry_of T D) (firstn j (b0 :: rest0))) L1 L2); [rewrite <- Erem; exact W|].
        rewrite <- Erem, <- Htj. rewrite Z.div_small by lia. lia.
      * (* exactly at an interior block boundary *)
        assert (Heq : rem0 = 4 * lenZ (tbw (firstn j (b0 :: rest0)))) by lia.
        assert (Hjp : (j < length (b0 :: rest0))%nat).
        { destruct (Nat.eq_dec j (length (b0 :: rest0))) as [->|]; [|lia]. rewrite firstn_all in Heq. lia. }
        right. right. exists j. split; [lia|]. split.
        { rewrite <- (tbw_words _ Hwj). lia. }
        assert (Hbp : firstn (Z.to_nat (rem0 / 4)) (tbw (b0 :: rest0) ++ concat (map tbw ts)) = tbw (firstn j (b0 :: rest0))).
        { rewrite Heq. replace (4 * lenZ (tbw (firstn j (b0 :: rest0))) / 4) with (lenZ (tbw (firstn j (b0 :: rest0))))
            by (rewrite Z.mul_comm, Z.div_mul; lia).
          unfold lenZ. rewrite Nat2Z.id. rewrite (tbw_firstn_skipn j (b0 :: rest0)), <- app_assoc. apply firstn_app_exact. }
        rewrite Hbp in *.
        replace (first_tracers j f) with {| f_ftype := f_ftype f; f_title := f_title f; f_times := [firstn j (b0 :: rest0)] |}
          by (unfold first_tracers; rewrite Htb0; reflexivity).
        apply (open_core T D (f_ftype f) (f_title f) _ c (firstn j (b0 :: rest0)) [firstn j (b0 :: rest0)] L1 L2 Hok Hge).
        -- rewrite <- Erem. exact W.
        -- rewrite <- firstn_map. apply nodup_keys_firstn. exact Hnd.
        -- discriminate.
        -- cbn [hd]. destruct j; [lia|]. discriminate.
        -- constructor; [|constructor]. split; [apply list_meta_refl|exact Hwj].
        -- rewrite <- Erem, <- Htj, Heq. rewrite Z.div_same by (clear - Hpj; lia). reflexivity.
        -- rewrite <- Htj. unfold lenZ at 1. simpl length. rewrite Z.mul_1_l. unfold lenZ. rewrite Nat2Z.id.
           cbn [map concat]. rewrite app_nil_r. apply firstn_all.
  - (* the whole first time block is present *)
    set (tsz := lenZ (tbw (b0 :: rest0))) in *.
    remember (rem0 - 4 * tsz) as r eqn:Er.
    assert (Hr : 0 <= r) by lia.
    assert (Htl : r <= 4 * lenZ (concat (map tbw ts))).
    { rewrite Hbody, lenZ_app in Hrem0. fold tsz in Hrem0. lia. }
    assert (Hr4 : 0 <= r / 4) by (apply Z.div_pos; lia).
    assert (Hbp : firstn (Z.to_nat (rem0 / 4)) (bodyw f)
                  = tbw (b0 :: rest0) ++ firstn (Z.to_nat (r / 4)) (concat (map tbw ts))).
    { rewrite Hbody. replace rem0 with (r + tsz * 4) by lia. rewrite Z.div_add by lia.
      replace (Z.to_nat (r / 4 + tsz)) with (length (tbw (b0 :: rest0)) + Z.to_nat (r / 4))%nat by (unfold tsz, lenZ; lia).
      apply firstn_app_2. }
    assert (Hnext : 220 <= r -> next_hdr_ok b0 (firstn (Z.to_nat (r / 4)) (concat (map tbw ts)))).
    { intros H220. destruct ts as [|t1 ts'].
      - unfold lenZ in Htl. simpl in Htl. lia.
      - assert (H1 : list_eqb meta_eqb t1 (b0 :: rest0) = true /\ forallb wf_block t1 = true).
        { apply HallF. rewrite Et. right. left. reflexivity. }
        destruct H1 as [Hm1 Hw1]. destruct t1 as [|b1 r1]; [discriminate|].
        simpl in Hm1. apply andb_true_iff in Hm1 as [Hmb _]. simpl in Hw1. apply andb_true_iff in Hw1 as [Hwb1 _].
        destruct (meta_eqb_true _ _ Hmb) as (_ & Hc1 & Hi1 & _). hide.
        exists b1. split; [exact Hwb1|]. split; [|split; assumption].
        cbn [map concat]. rewrite tbw_cons.
        apply parse_hdr_firstn; [exact Hwb1|apply firstn_words_ge; exact H220]. }
    assert (Hfuel : Nat.lt (S (length rest0)) (S (length ([40] ++ f_ftype f ++ [40; 80] ++ f_title f ++ [80] ++
                       firstn (Z.to_nat (rem0 / 4)) (bodyw f))))).
    { rewrite (length_flat _ _ _ L1 L2), Hbp, app_length.
      pose proof (tbw_len_ge _ Hwf0) as Hg. unfold lenZ in Hg. cbn [length] in Hg. unfold Nat.lt. clear - Hg. lia. }
    pose proof (walk_then_first T D b0 rest0 _ r _ Hok Hb0 Hr0 Hid Hfuel Hr Hnext) as W. cbv zeta in W.
    fold tsz in W. replace (4 * tsz + r) with rem0 in W by lia. rewrite <- Hbp in W.
    destruct W as [W|W].
    + left. apply (open_err_of_walk T D _ _ _ c L1 L2). rewrite <- Erem. exact W.
    + right. left.
      assert (Hpos : 0 < tsz) by (unfold tsz; lia).
      set (k := rem0 / (4 * tsz)).
      assert (Hk1 : 1 <= k) by (apply Z.div_le_lower_bound; lia).
      assert (Hkn : k <= lenZ (f_times f)).
      { apply Z.div_le_upper_bound; [lia|]. rewrite Hbl, <- Hts in Hrem0. fold tsz in Hrem0. lia. }
      assert (Hkm : 4 * tsz * k <= rem0) by (apply Z.mul_div_le; lia).
      exists (Z.to_nat k). split; [unfold lenZ in Hkn; lia|]. split.
      { rewrite <- (tbw_words _ Hwf0). fold tsz. lia. }
      replace (trunc_times (Z.to_nat k) f)
        with {| f_ftype := f_ftype f; f_title := f_title f; f_times := firstn (Z.to_nat k) (f_times f) |} by reflexivity.
      assert (Hlk : lenZ (firstn (Z.to_nat k) (f_times f)) = k).
      { unfold lenZ in *. rewrite firstn_length_le by lia. lia. }
      apply (open_core T D (f_ftype f) (f_title f) _ c (b0 :: rest0) (firstn (Z.to_nat k) (f_times f)) L1 L2 Hok Hge).
      * rewrite <- Erem. exact W.
      * exact Hnd.
      * rewrite Et. destruct (Z.to_nat k) eqn:E; [lia|]. discriminate.
      * rewrite Et. destruct (Z.to_nat k) eqn:E; [lia|]. discriminate.
      * apply Forall_firstn'. exact Hall.
      * rewrite <- Erem, <- Hts, Hlk. reflexivity.
      * rewrite Hlk, <- Hts. fold tsz.
        rewrite firstn_firstn. replace (Init.Nat.min (Z.to_nat (k * tsz)) (Z.to_nat (rem0 / 4))) with (Z.to_nat (k * tsz)).
        2:{ assert (k * tsz <= rem0 / 4) by (apply Z.div_le_lower_bound; lia). lia. }
        unfold bodyw. rewrite Z2Nat.inj_mul by lia.
        rewrite (firstn_concat_uniform (Z.to_nat tsz)).
        -- rewrite firstn_map. reflexivity.
        -- apply Forall_forall. intros l Hin. apply in_map_iff in Hin as (tb & <- & Hin).
           rewrite Forall_forall in Hlen. specialize (Hlen tb Hin). rewrite <- Hts in Hlen. fold tsz in Hlen.
           unfold lenZ in Hlen. rewrite <- Hlen, Nat2Z.id. reflexivity.
Qed.

(* the third alternative occurs: a two-tracer, one-time-block file cut after its first data block (368 of 600 bytes)
   opens and presents a time block with one tracer (C14 finding C14-bpch-first-block-tracer-cut) *)
Lemma prefix_tracer_cut_witness : exists T D f c,
  wf T D f = true /\ tables_ok T D = true /\ 0 <= c < 4 * lenZ (enc f)
  /\ exists v, impl_open T D (firstn (Z.to_nat (c / 4)) (enc f)) c = Ok v
               /\ (length (r_vars v) < length (tb0 f))%nat /\ length (r_data v) = 1%nat.
Proof.
  pose (blk := fun tid d =>
    {| b_model := [1195724627; 893334327; 1277173792; 538976288; 538976288; 1084227584; 1082130432; 1; 1];
       b_cat := [1229598017; 1447505188; 538976288; 538976288; 538976288; 538976288; 538976288; 538976288; 538976288; 538976288];
       b_tid := tid; b_unit := repeat 538976288 10; b_tau := [1083129856; 0; 1083129857; 0]; b_resv := repeat 538976288 10;
       b_nx := 1; b_ny := 1; b_nz := 1; b_start := [1; 1; 1]; b_data := [d] |}).
  exists [], [], {| f_ftype := repeat 538976288 10; f_title := repeat 538976288 20; f_times := [[blk 1 1065353216; blk 2 1073741824]] |}, 368.
  vm_compute. repeat split; try reflexivity; try discriminate.
  eexists. repeat split; try reflexivity.
Qed.
